"""C04 — refinement never worsens the fit and respects bounds, symmetry and the box.

Lean: Model/Refine.lean + Props/C04.lean (free-parameter packing, bounds, feasible starting point,
scatter-back; the solver is a contract).  Correspondence: `optimize.least_squares` is wrapped AS
SEEN FROM droplets.image_analysis; the wrapper records x0, bounds, the answer and the cost at both
ends.  The model's `plan` must reproduce x0 / lb / ub bit for bit, `finish` applied to the solver's
answer must reproduce the returned droplet (positions modulo the final wrap); the contract SolverOK
is monitored.  Predicate: every clause of the property on the real result."""
from __future__ import annotations

import hashlib
import math

import numpy as np

from .common import Check, bits_to_float, lean_stage, rel_close, run_driver
from .c11 import fbits

CLASSES = ["SphericalDroplet", "DiffuseDroplet", "PerturbedDroplet2D", "PerturbedDroplet3D", "PerturbedDroplet3DAxisSym"]


def make_grid(rng):
    from pde import CartesianGrid, CylindricalSymGrid, PolarSymGrid, SphericalSymGrid

    kind = rng.choice(["c1", "c2", "c2", "c3", "polar", "spherical", "cyl", "cylp"])
    if kind == "c1":
        return CartesianGrid([[0, 24]], [24], periodic=rng.random() < 0.5)
    if kind == "c2":
        return CartesianGrid([[0, 16], [-2, 12]], [16, 14], periodic=[rng.random() < 0.5, rng.random() < 0.5])
    if kind == "c3":
        return CartesianGrid([[0, 10]] * 3, [10] * 3, periodic=[rng.random() < 0.5] * 3)
    if kind == "polar":
        return PolarSymGrid(10, 20)
    if kind == "spherical":
        return SphericalSymGrid(10, 20)
    return CylindricalSymGrid(6, [0, 14], [6, 14], periodic_z=(kind == "cylp"))


def truth_and_candidate(rng, grid):
    from droplets import droplets as D

    dim, g = grid.dim, type(grid).__name__
    if g in ("PolarSymGrid", "SphericalSymGrid"):
        pos = np.zeros(dim)
        R = rng.uniform(3, 5)
    elif g == "CylindricalSymGrid":
        pos = np.array([0.0, 0.0, rng.uniform(5, 9)])
        R = rng.uniform(2.5, 3.5)
    else:
        pos = np.array([rng.uniform(b[0], b[1]) if grid.periodic[a] else rng.uniform(b[0] + 4, b[1] - 4) for a, b in enumerate(grid.axes_bounds)])
        R = rng.uniform(2.5, 3.5)
    w = rng.uniform(0.8, 1.6)
    options = ["SphericalDroplet", "DiffuseDroplet"]
    if dim == 2:
        options.append("PerturbedDroplet2D")
    if dim == 3 and g != "CylindricalSymGrid":
        options.append("PerturbedDroplet3D")
    if dim == 3 and g in ("CylindricalSymGrid", "SphericalSymGrid"):
        options.append("PerturbedDroplet3DAxisSym")
    cls = rng.choice(options)
    dpos = pos.copy()
    if g == "CartesianGrid":
        per_axes = [a for a in range(dim) if grid.periodic[a]]
        shift = np.zeros(dim)
        if per_axes and rng.random() < 0.4:
            # droplet close to a periodic boundary, candidate given by its image on the far side (outside the box)
            for a in per_axes:
                if rng.random() < 0.7:
                    lo, hi = grid.axes_bounds[a]
                    if rng.random() < 0.5:
                        pos[a] = lo + rng.uniform(0.05, 1.4)
                        shift[a] = hi - lo
                    else:
                        pos[a] = hi - rng.uniform(0.05, 1.4)
                        shift[a] = -(hi - lo)
        wall_axes = [a for a in range(dim) if not grid.periodic[a]]
        if wall_axes and rng.random() < 0.3:
            # a droplet cut by a wall, its centre OUTSIDE the box along a non-periodic axis (a valid candidate: nothing confines centres to the box)
            a = rng.choice(wall_axes)
            lo, hi = grid.axes_bounds[a]
            pos[a] = lo - rng.uniform(0.1, 1.6) if rng.random() < 0.5 else hi + rng.uniform(0.1, 1.6)
        dpos = pos + shift + np.array([rng.uniform(-1.5, 1.5) for _ in range(dim)])
    elif g == "CylindricalSymGrid":
        if grid.periodic[1]:
            # truth anywhere along the periodic axis, also given by its image outside the box; the candidate displaced, possibly by a whole period
            pos[2] = rng.choice([rng.uniform(-1.2, 0.0), rng.uniform(14.0, 15.2), rng.uniform(3, 11)])
            dpos = pos + np.array([0, 0, rng.uniform(-1.5, 1.5) + rng.choice([0.0, 0.0, 14.0, -14.0])])
        else:
            dpos = pos + np.array([0, 0, rng.uniform(-1.5, 1.5)])
    truth = D.DiffuseDroplet(pos, R, w)
    dR = R * rng.uniform(0.8, 1.2)
    if g == "CartesianGrid" and rng.random() < 0.12:
        # a candidate whose sphere covers no cell centre (sub-resolution, sitting on a cell corner): nothing to fit
        dR = 0.04 * min(grid.discretization)
        cls = rng.choice(["SphericalDroplet", "SphericalDroplet", cls])  # the promotion must happen on this path too
        dpos = np.array([b[0] + grid.discretization[a] * rng.randrange(1, grid.shape[a]) for a, b in enumerate(grid.axes_bounds)])
    if cls == "SphericalDroplet":
        cand = D.SphericalDroplet(dpos, dR)
    elif cls == "DiffuseDroplet":
        cand = D.DiffuseDroplet(dpos, dR, rng.choice([None, w, 0.5, 0.0]))
    else:
        modes = rng.choice([1, 2, 3, 4])
        cand = getattr(D, cls)(dpos, dR, rng.choice([None, w, 0.0]), [rng.choice([0.0, rng.uniform(-0.05, 0.05)]) for _ in range(modes)])
    return truth, cand


def tapped_refine(field, cand, **kw):
    import droplets.image_analysis as ia
    from scipy import optimize

    rec = {}
    orig = optimize.least_squares

    def wrapper(fun, x0, bounds=(-np.inf, np.inf), **k):
        x0c = np.array(x0, dtype=float, copy=True)
        rec["x0"] = x0c
        rec["lb"], rec["ub"] = np.array(bounds[0], dtype=float, copy=True), np.array(bounds[1], dtype=float, copy=True)
        rec["cost0"] = 0.5 * float(np.sum(np.asarray(fun(x0c.copy())) ** 2))
        res = orig(fun, x0, bounds=bounds, **k)
        rec["x"] = np.array(res.x, copy=True)
        rec["cost"] = float(res.cost)
        # (the residual function is NOT evaluated again after the solver has finished: it writes its argument into the droplet that is being
        # fitted, so an extra evaluation here would repair - and hide - a result assembled from whatever was evaluated last)
        rec["cost_x"] = float(res.cost)
        rec["success"] = bool(res.success)
        return res

    orig_dil = ia.ndimage.binary_dilation

    def dil(mask, *a, **k):
        res = orig_dil(mask, *a, **k)
        rec["dilation"] = (np.array(mask, copy=True), k.get("iterations", a[1] if len(a) > 1 else 1), int(np.sum(res)))
        rec["fit_region"] = np.array(res, copy=True)
        return res

    def wrapper2(fun, x0, **k):
        rec["n_residuals"] = int(np.size(fun(np.array(x0, dtype=float, copy=True))))
        return wrapper(fun, x0, **k)

    ia.optimize.least_squares = wrapper2
    ia.ndimage.binary_dilation = dil
    try:
        out = ia.refine_droplet(field, cand, **kw)
        return ("ok", out, rec)
    except Exception as e:  # noqa: BLE001
        return ("err", type(e).__name__ + ": " + str(e)[:80], rec)
    finally:
        ia.optimize.least_squares = orig
        ia.ndimage.binary_dilation = orig_dil


def periodic_axes(grid):
    """[(index into the Cartesian position, lo, length)] of the axes along which positions are wrapped"""
    g = type(grid).__name__
    if g == "CartesianGrid":
        return [(ax, grid.axes_bounds[ax][0], grid.axes_bounds[ax][1] - grid.axes_bounds[ax][0]) for ax in range(grid.dim) if grid.periodic[ax]]
    if g == "CylindricalSymGrid" and grid.periodic[1]:
        return [(2, grid.axes_bounds[1][0], grid.axes_bounds[1][1] - grid.axes_bounds[1][0])]
    return []


def flat_of(d):
    from numpy.lib.recfunctions import structured_to_unstructured

    return np.asarray(structured_to_unstructured(d.data), dtype=float)


def run_cases(ck: Check, n: int):
    from pde import ScalarField
    from droplets.droplets import DiffuseDroplet

    rng = ck.rng
    reqs, expect = [], []
    for i in range(n):
        grid = make_grid(rng)
        truth, cand = truth_and_candidate(rng, grid)
        vmin, vmax = rng.choice([(0.0, 1.0), (0.0, 1.0), (5.0, 6.0), (-1.0, 0.5), (0.2, 3.0)])
        img = truth.get_phase_field(grid, vmin=vmin, vmax=vmax)
        mode = rng.choice(["clean", "noisy", "self", "satellite"])
        if type(grid).__name__ == "CylindricalSymGrid" and grid.periodic[1]:
            mode = "self"
        if mode == "noisy":
            img.data += np.array([rng.gauss(0, 0.08 * (vmax - vmin)) for _ in range(img.data.size)]).reshape(img.data.shape)
        elif mode == "satellite":
            # a structured disturbance: a bump on the droplet's interface (large residuals in part of the fit region)
            flat = img.data.reshape(-1)
            order = np.argsort(np.abs(flat - (vmin + vmax) / 2))[: max(3, flat.size // 40)]
            flat[order[: max(2, len(order) // 3)]] += 0.45 * (vmax - vmin)
        opt = rng.choice(["given", "none", "adjust-given", "adjust-none", "defaults"])
        kw = {"given": dict(vmin=vmin, vmax=vmax), "none": dict(vmin=None, vmax=None), "adjust-given": dict(vmin=vmin, vmax=vmax, adjust_values=True),
              "adjust-none": dict(vmin=None, vmax=None, adjust_values=True), "defaults": {}}[opt]
        if mode == "self":
            # the image is rendered from the candidate itself (promoted the way refine_droplet does)
            base = cand if isinstance(cand, DiffuseDroplet) else DiffuseDroplet.from_droplet(cand)
            if base.interface_width is None:
                base.interface_width = grid.typical_discretization
            cand = base
            img = cand.get_phase_field(grid, vmin=vmin, vmax=vmax)
            kw = dict(vmin=vmin, vmax=vmax)
        if mode != "self" and i % 4 == 1:
            # a caller who limits the effort of the solver (it then stops without having converged): the droplet returned is still the
            # solver's answer, and the squared deviation of THAT droplet is what the property speaks about
            kw = dict(kw, least_squares_params={"max_nfev": rng.choice([1, 2, 3, 5])})
            ck.count("limited_solver_effort")
        gname, cname = type(grid).__name__, type(cand).__name__
        case = {"grid": repr(grid), "candidate": str(cand), "truth": str(truth), "image": mode, "options": {k: repr(v) for k, v in kw.items()}, "levels": [vmin, vmax]}
        sig = {"grid": gname, "class": cname, "options": opt if mode != "self" else "self"}
        ck.case((repr(grid), cand.data.tobytes(), img.data.tobytes(), opt))
        ck.count(f"class.{cname}")
        ck.count(f"options.{sig['options']}")
        cand0 = cand.copy()
        digest = hashlib.sha256(img.data.tobytes()).hexdigest()
        status, out, rec = tapped_refine(img, cand.copy(), **kw)
        if hashlib.sha256(img.data.tobytes()).hexdigest() != digest:
            ck.fail("the image was modified by refine_droplet", {**sig, "check": "image_unmodified"}, case)
        if status == "err":
            ck.fail(f"refine_droplet raised {out}", {**sig, "check": "refine_total", "error": out.split(':')[0]}, case)
            continue
        # ---------------- refining the RESULT again (non-ideal images): the candidate is now close to the least-squares optimum,
        # the squared deviation over its fit region still must not grow
        if mode in ("noisy", "satellite") and i % 2 == 0:
            st2, out2, rec2 = tapped_refine(img, out.copy(), **kw)
            ck.count("second_refinement")
            if st2 == "ok" and "cost0" in rec2 and rec2["cost_x"] > rec2["cost0"] * (1 + 1e-9) + 1e-18:
                ck.fail(f"squared deviation grew when the refined droplet was refined again: {rec2['cost0']} -> {rec2['cost_x']}",
                        {**sig, "check": "refine_cost_monotone", "second": True}, {**case, "candidate": str(out)})
        # ---------------- the clause itself, on the droplet that was RETURNED, with an independent rendering: its squared deviation from the
        # image over the fitted region is not larger than the candidate's (levels: supplied / region extremes / the fitted ones)
        if "fit_region" in rec and "x" in rec and rec["fit_region"].any():
            region = rec["fit_region"]
            data_r = np.asarray(img.data, dtype=float)[region]
            lv0 = kw.get("vmin", 0.0), kw.get("vmax", 1.0)
            v0 = float(np.min(data_r)) if lv0[0] is None else float(lv0[0])
            v1 = float(np.max(data_r)) if lv0[1] is None else float(lv0[1])
            fitted_levels = bool(kw.get("adjust_values", False)) and (v1 - v0) != 0
            cand_p = cand0 if isinstance(cand0, DiffuseDroplet) else DiffuseDroplet.from_droplet(cand0)
            if cand_p.interface_width is None:
                cand_p = cand_p.copy()
                cand_p.interface_width = grid.typical_discretization
            lv_out = (float(rec["x"][-2]), float(rec["x"][-1])) if fitted_levels else (v0, v1 - v0)
            dev_c = float(np.sum((v0 + (v1 - v0) * cand_p._get_phase_field(grid)[region] - data_r) ** 2))
            dev_o = float(np.sum((lv_out[0] + lv_out[1] * out._get_phase_field(grid)[region] - data_r) ** 2))
            ck.count("deviation_of_returned_droplet_evaluated")
            if dev_o > dev_c * (1 + 1e-7) + 1e-14 * max(1.0, float(np.sum(data_r ** 2))):
                ck.fail(f"the returned droplet deviates more from the image over the fitted region than the candidate did: {dev_c} -> {dev_o} "
                        f"(solver status success={rec.get('success')})", {**sig, "check": "refine_cost_monotone", "returned_droplet": True}, {**case, "returned": str(out)})
        # ---------------- the property on the real result
        want_cls = cname if isinstance(cand0, DiffuseDroplet) else "DiffuseDroplet"
        if type(out).__name__ != want_cls:
            ck.fail(f"result class {type(out).__name__}, expected {want_cls}", {**sig, "check": "refine_class"}, case)
        ow = getattr(out, "interface_width", None)
        if out.radius < 0 or (ow is None) or ow < 0:
            ck.fail(f"radius {out.radius} / width {ow} negative or unset", {**sig, "check": "refine_bounds"}, case)
        if hasattr(out, "amplitudes") and (np.any(out.amplitudes < -1) or np.any(out.amplitudes > 1)):
            ck.fail(f"amplitudes {out.amplitudes} outside [-1, 1]", {**sig, "check": "refine_bounds"}, case)
        cons = list(grid.coordinate_constraints)
        for c in cons:
            if out.position[c] != cand0.position[c]:
                ck.fail(f"coordinate {c} fixed by the grid's symmetry changed: {cand0.position[c]} -> {out.position[c]}", {**sig, "check": "refine_constrained_untouched"}, case)
        if type(grid).__name__ == "CartesianGrid" and any((not grid.periodic[a]) and not (b[0] <= cand0.position[a] <= b[1]) for a, b in enumerate(grid.axes_bounds)):
            ck.count("candidate_outside_box_on_wall_axis")
        for ax, lo, L in periodic_axes(grid):
            ck.count("wrap_checked")
            if not (lo <= cand0.position[ax] < lo + L):
                ck.count("candidate_outside_box_on_periodic_axis")
            if not (lo <= out.position[ax] < lo + L + 1e-12):
                ck.fail(f"position {out.position} not wrapped into the box along periodic axis {ax}", {**sig, "check": "refine_wrap_in_box"}, case)
        if "cost" in rec:
            if rec["cost_x"] > rec["cost0"] * (1 + 1e-9) + 1e-18:
                ck.fail(f"squared deviation grew: {rec['cost0']} -> {rec['cost_x']}", {**sig, "check": "refine_cost_monotone"}, case)
            # contract monitor
            if np.any(rec["x"] < rec["lb"] - 1e-12) or np.any(rec["x"] > rec["ub"] + 1e-12):
                ck.fail("least_squares returned a point outside the bounds", {**sig, "check": "SolverOK"}, case)
        if mode == "self":
            a, b = flat_of(out), flat_of(cand0)
            scale = max(1.0, float(np.max(np.abs(b))))
            pa, pb = a.copy(), b.copy()
            for ax, lo, L in periodic_axes(grid):
                pa[ax] = (pa[ax] - pb[ax] + L / 2) % L - L / 2 + pb[ax]
            if not np.allclose(pa, pb, rtol=0, atol=1e-6 * scale):
                ck.fail(f"image rendered from the candidate itself, but the candidate moved: {b} -> {a}", {**sig, "check": "refine_fixed_point"}, case)
        # ---------------- correspondence with the model
        if "x0" not in rec:
            ck.count("nothing_to_fit")
            continue
        # the model receives the candidate AS GIVEN (width set or not) and does promotion, packing, scattering and wrapping itself
        modes = len(cand0.amplitudes) if hasattr(cand0, "amplitudes") else 0
        wset = getattr(cand0, "interface_width", None) is not None
        crec = list(cand0.position) + [cand0.radius, cand0.interface_width if wset else 0.0] + (list(cand0.amplitudes) if modes else [])
        nflat = grid.dim + 2 + modes
        ck.count("candidate_width." + ("unset" if not wset else "zero" if cand0.interface_width == 0 else "positive"))
        x0 = rec["x0"]
        adjust = bool(kw.get("adjust_values", False)) and len(x0) == nflat - len(cons) + 2
        if adjust:
            lv_min, lv_max = x0[-2], rec["ub"][-2]
        else:
            lv_min, lv_max = 0.0, 0.0
        # the fitted region: the candidate's boolean image dilated 1 + int(2 w / dx) times (w in cells: repair 8d4e282), nothing else
        if "dilation" in rec:
            from scipy import ndimage as _nd

            pw = cand0.interface_width if wset else float(grid.typical_discretization)
            dmask, its, nsel = rec["dilation"]
            tdx = float(grid.typical_discretization)
            reqs.append(f"c04 iterations {fbits(float(pw))} {fbits(tdx)}")
            expect.append(("iterations", case, int(its)))
            ref = int(np.sum(_nd.binary_dilation(dmask, iterations=1 + int(2 * (pw / tdx)))))
            ck.count("fit_region_checked")
            if rec.get("n_residuals") != ref or nsel != ref:
                ck.mismatch("c04-refine", f"fit region has {rec.get('n_residuals')} cells; the candidate's image dilated 1 + int(2 w / dx) = {1 + int(2 * (pw / tdx))} times has {ref}", case)
        pax = {ax: (lo, L) for ax, lo, L in periodic_axes(grid)}
        axes = " ".join(f"{fbits(pax[a][0])}:{fbits(pax[a][1])}" if a in pax else "-" for a in range(grid.dim))
        head = f"{grid.dim} {modes} {int(adjust)} {len(cons)} " + " ".join(map(str, cons))
        reqs.append(f"c04 full {head} {axes} {fbits(float(grid.typical_discretization))} {fbits(lv_min)} {fbits(lv_max)} {int(wset)} "
                    + " ".join(fbits(float(v)) for v in crec) + " " + " ".join(fbits(v) for v in rec["x"]))
        expect.append((case, rec, flat_of(out), grid))
        if len(ck.samples) < 3:
            ck.sample({**case, "x0": rec["x0"].tolist(), "cost_start": rec["cost0"], "cost_end": rec["cost_x"]})
    outs = run_driver(reqs)
    for item, out in zip(expect, outs):
        if item[0] == "iterations":
            _, case, its = item
            if out.strip() != f"ok {its}":
                ck.mismatch("c04-refine", f"binary_dilation called with iterations={its}; model: {out}", case)
            continue
        case, rec, got, grid = item
        if not out.startswith("ok"):
            ck.mismatch("c04-refine", f"model answered {out[:80]}", case)
            continue
        x0s, lbs, ubs, ress = [p.split() for p in out[3:].split("|")]
        dec = lambda t, inf: inf if t == "inf" else bits_to_float(t)
        mx0 = np.array([bits_to_float(t) for t in x0s])
        mlb = np.array([dec(t, -np.inf) for t in lbs])
        mub = np.array([dec(t, np.inf) for t in ubs])
        ok = mx0.shape == rec["x0"].shape and np.array_equal(mx0, rec["x0"]) and np.array_equal(mlb, rec["lb"]) and np.array_equal(mub, rec["ub"])
        if not ok:
            ck.mismatch("c04-refine", f"x0/bounds handed to least_squares differ from the model's plan for the candidate as given: impl x0={rec['x0'].tolist()} lb={rec['lb'].tolist()} ub={rec['ub'].tolist()}; "
                        f"model x0={mx0.tolist()} lb={mlb.tolist()} ub={mub.tolist()}", case)
        a, b = np.array([bits_to_float(t) for t in ress]), got.copy()
        if a.shape != b.shape:
            ck.mismatch("c04-refine", "returned droplet has a different layout than the model's result", case)
            continue
        for ax, lo, L in periodic_axes(grid):
            # the floored modulo may round onto the other end of the box: identify lo and lo + L
            if abs(abs(a[ax] - b[ax]) - L) < 1e-9 * L:
                a[ax] = b[ax]
        if not np.allclose(a, b, rtol=1e-12, atol=1e-9):
            ck.mismatch("c04-refine", f"returned droplet {b.tolist()} is not the solver's answer scattered into the promoted record and wrapped into the box {a.tolist()}", case)


def replay(case: dict):
    ck = Check("C04", "quick", 0)
    run_cases(ck, 40)
    bad = [f["what"] for f in ck.failures] + [m["what"] for m in ck.mismatches]
    return not bad, "; ".join(bad[:3]) or "property holds on re-run"


def run(ck: Check):
    ck.rule = ("random fits: grids of every family (Cartesian 1-3-D with random periodicity, polar, spherical, cylindrical) x candidates of all five classes with 0-4 modes "
               "displaced by up to 1.5 cells and 20% in radius x images {clean, noisy (8%), rendered from the candidate itself} x intensity levels incl. vmin != 0 x "
               "options {levels given, None, fitted with given / automatic start, defaults}; non-trivial = every distinct fit")
    ck.assumptions = ["scipy.optimize.least_squares: result within bounds and cost not larger than at the start (SolverOK; monitored on every call)",
                      "the fixed-point clause is checked to 1e-6 (solver tolerance)", "periodic cylindrical grids are included since the repair of D12 (candidates given by their periodic image: wrapping does not change the picture)"]
    ck.lean = lean_stage("C04", leanchecker=not ck.quick)
    try:
        run_cases(ck, ck.budget(70, 1500))
    except RuntimeError as e:
        ck.mismatch("c04-refine", f"driver unavailable: {e}", {})
