"""C18 — detection depends on the image only through the documented threshold.

Lean: Model/Thresh.lean (+ Props/C18.lean): exact rational model of the three automatic rules,
of `threshold_otsu` (256-bin histogram, NaN rule of argmax) and of the `remove_small` loop.
Correspondence: dyadic-valued fields (so that min+max, sums, bin edges and affine maps with dyadic
coefficients are exact in double precision); the mask the real `locate_droplets` hands to
`locate_droplets_in_mask` (tapped) must equal `data > model threshold`; `threshold_otsu` must equal
the model's bin centre exactly (cases whose two best variances differ by < 1e-9 relative are
skipped and counted); `remove_small` vs the model loop.
Predicate: factorisation through the mask, affine invariance, size filter."""
from __future__ import annotations

from fractions import Fraction

import numpy as np

from .common import Check, lean_stage, q, run_driver

RULES = ["extrema", "auto", "mean", "otsu"]


def make_grids(rng):
    from pde import CartesianGrid, CylindricalSymGrid, PolarSymGrid, SphericalSymGrid

    kind = rng.choice(["c1", "c2", "c2", "c3", "polar", "spherical", "cyl"])
    if kind == "c1":
        return CartesianGrid([[0, 8]], [rng.choice([4, 8, 16])], periodic=rng.random() < 0.5)
    if kind == "c2":
        n = rng.choice([4, 6, 8])
        return CartesianGrid([[0, n], [-1, n - 1]], [n, n], periodic=[rng.random() < 0.5, rng.random() < 0.5])
    if kind == "c3":
        return CartesianGrid([[0, 4]] * 3, [4, 4, 4], periodic=[rng.random() < 0.5] * 3)
    if kind == "polar":
        return PolarSymGrid(8, 8)
    if kind == "spherical":
        return SphericalSymGrid(8, 8)
    return CylindricalSymGrid(4, [0, 8], [4, 8], periodic_z=rng.random() < 0.5)


def dyadic_field(rng, grid):
    """values lo + j * 2^-s, j integer, on every cell; blobby so that droplets exist"""
    shape = grid.shape
    s = rng.choice([0, 2, 6])
    J = rng.choice([1, 4, 37, 256, 1000])
    lo = rng.choice([0, -3, 5]) * 2.0 ** -rng.choice([0, 1, 3])
    style = rng.choice(["noise", "blob", "blob", "binary", "constant", "two-level+noise"])
    n = int(np.prod(shape))
    if style == "constant":
        j = np.full(n, rng.randrange(J + 1))
    elif style == "binary":
        j = np.array([rng.choice([0, J]) for _ in range(n)])
    elif style == "noise":
        j = np.array([rng.randrange(J + 1) for _ in range(n)])
    else:
        idx = np.indices(shape).reshape(len(shape), -1).T
        c = [rng.uniform(0, m) for m in shape]
        r = rng.uniform(1, max(1.5, min(shape) / 2.5))
        inside = ((idx + 0.5 - c) ** 2).sum(axis=1) < r * r
        base = np.where(inside, J, 0)
        if style == "two-level+noise" and J >= 4:
            base = base + np.array([rng.randrange(-J // 4, J // 4 + 1) for _ in range(n)])
            base = np.clip(base, 0, J)
        j = base
    data = lo + j.astype(float) * 2.0**-s
    return data.reshape(shape), style


def emulsion_key(em):
    return [(type(d).__name__, d.data.tobytes()) for d in em]


def locate(field, **kw):
    from droplets.image_analysis import locate_droplets

    try:
        return ("ok", locate_droplets(field, **kw))
    except Exception as e:  # noqa: BLE001
        return ("err", type(e).__name__)


def tapped_mask(field, **kw):
    """run the real locate_droplets and capture the binary image handed to locate_droplets_in_mask"""
    import droplets.image_analysis as ia

    got = {}
    orig = ia.locate_droplets_in_mask

    def tap(mask):
        got["mask"] = np.array(mask.data, copy=True)
        got["dtype"] = mask.data.dtype
        return orig(mask)

    ia.locate_droplets_in_mask = tap
    try:
        res = locate(field, **kw)
    finally:
        ia.locate_droplets_in_mask = orig
    return res, got.get("mask")


def otsu_oracle(data):
    """the definition, with exact arithmetic on the 256-bin histogram of ALL cells (numpy's histogram on the full data, the rest in rationals):
    bin centre maximising w1 * w2 * (m1 - m2)^2 over the 255 splits (first maximum); also returns the relative gap to the runner-up"""
    counts, edges = np.histogram(np.asarray(data, dtype=float).ravel(), bins=256)
    ctr = [Fraction(float((edges[i] + edges[i + 1]) / 2)) for i in range(256)]  # the bin centres as floats, then exact
    c = [int(x) for x in counts]
    tot, stot = sum(c), sum(ci * xi for ci, xi in zip(c, ctr))
    best, var, w1, s1 = None, [], 0, Fraction(0)
    for i in range(255):
        w1 += c[i]
        s1 += c[i] * ctr[i]
        w2, s2 = tot - w1, stot - s1
        v = None if w1 == 0 or w2 == 0 else w1 * w2 * (s1 / w1 - s2 / w2) ** 2
        var.append(v)
    if any(v is None for v in var):
        return None, 0.0
    top = max(var)
    idx = var.index(top)
    rest = [v for k, v in enumerate(var) if k != idx]
    gap = float((top - max(rest)) / top) if top > 0 else 0.0
    return ctr[idx], gap


def large_images(ck: Check, quick: bool):
    """fields with more than 2**20 cells (the property quantifies over all fields): under 'otsu' the droplets are those of the binary image of cells
    exceeding the bin centre that maximises the between-class variance of the 256-bin histogram of ALL cells - oracle independent of the library"""
    from pde import CartesianGrid, ScalarField
    from droplets.droplets import DiffuseDroplet
    from droplets.emulsions import Emulsion
    from droplets.image_analysis import locate_droplets_in_mask

    rng = ck.rng
    shapes = [(1100, 1000)] if quick else [(1100, 1000), (112, 100, 100), (1536, 1536)]
    for shape in shapes:
        dim = len(shape)
        grid = CartesianGrid([[0, n] for n in shape], list(shape), periodic=[rng.random() < 0.5 for _ in shape])
        R = min(shape) / 9
        drops = [DiffuseDroplet([rng.uniform(0.25, 0.75) * n for n in shape], R * rng.uniform(0.6, 1.0), rng.uniform(2, 6))]
        for _ in range(40):
            d = DiffuseDroplet([rng.uniform(0.1, 0.9) * n for n in shape], R * rng.uniform(0.5, 1.0), rng.uniform(2, 6))
            if all(np.linalg.norm(d.position - e.position) > 2.6 * R for e in drops):
                drops.append(d)
            if len(drops) == 4:
                break
        base = Emulsion(drops).get_phasefield(grid).data
        nrng = np.random.default_rng(rng.randrange(2**31))
        j = np.rint(base * 1024).astype(np.int64) + np.rint(nrng.normal(0, 12, size=base.shape)).astype(np.int64)
        # one hot and one cold pixel: the extreme values (which fix the histogram's range) are attained once each, anywhere in the image
        hot, cold = (int(x) for x in nrng.choice(j.size, size=2, replace=False))
        j.flat[hot], j.flat[cold] = int(j.max()) + rng.randrange(3, 40), int(j.min()) - rng.randrange(3, 40)
        data = j.astype(float) / 1024.0  # multiples of 2^-10: comparisons with the threshold are exact
        thr, gap = otsu_oracle(data)
        case = {"kind": "large-image", "shape": list(shape), "periodic": [bool(p) for p in grid.periodic], "droplets": [str(d) for d in drops], "cells": int(data.size)}
        ck.case(("large", shape, data[::97].tobytes()[:4096]))
        ck.count("large_images")
        if thr is None or gap < 1e-9:
            ck.count("large_images.knife_edge_skipped")
            continue
        field = ScalarField(grid, data)
        res, mask = tapped_mask(field, threshold="otsu", minimal_radius=1.0)
        sig = {"grid": "CartesianGrid", "check": "locate_factors_through_mask", "rule": "otsu", "cells_over_2**20": True}
        if res[0] == "err":
            ck.fail(f"locate_droplets(threshold='otsu') raised {res[1]} on a field with {data.size} cells", sig, case)
            continue
        want = data > float(thr)
        if mask is None or not np.array_equal(mask, want):
            ndiff = -1 if mask is None else int(np.sum(mask != want))
            ck.fail(f"rule otsu on a field with {data.size} cells: the binary image is not (data > {float(thr)}), the bin centre maximising the between-class "
                    f"variance of the 256-bin histogram of all cells ({ndiff} cells differ)", sig, case)
            continue
        ref = locate_droplets_in_mask(ScalarField(grid, want, dtype=bool))
        ref.remove_small(1.0)
        if emulsion_key(res[1]) != emulsion_key(ref):
            ck.fail(f"rule otsu on a field with {data.size} cells: result differs from locating in the thresholded image", sig, case)


def run_cases(ck: Check, n: int):
    from pde import ScalarField
    from droplets.image_analysis import locate_droplets_in_mask, threshold_otsu

    rng = ck.rng
    reqs, expect = [], []
    for _ in range(n):
        grid = make_grids(rng)
        data, style = dyadic_field(rng, grid)
        field = ScalarField(grid, data)
        if np.all(data == np.rint(data)) and np.abs(data).max() < 2**40 and rng.random() < 0.5:
            # the same intensities stored as INTEGERS (camera counts): the documented thresholds do not depend on the dtype
            field = ScalarField(grid, data.astype(np.int64), dtype=np.int64)
            ck.count("integer_dtype" + (".256_levels_or_more" if data.max() - data.min() >= 256 else ""))
        flat = [Fraction(float(x)) for x in data.flat]
        case = {"grid": repr(grid), "style": style, "data": data.tolist()}
        sig = {"grid": type(grid).__name__}
        ck.case((repr(grid), data.tobytes()), nontrivial=style != "constant")
        ck.count(f"style.{style}")
        lo, hi = float(data.min()), float(data.max())
        # --- specification thresholds computed here with exact rationals
        spec = {"extrema": (min(flat) + max(flat)) / 2, "mean": sum(flat) / len(flat)}
        spec["auto"] = spec["extrema"]
        for rule in RULES + ["number"]:
            kw_thr = rule
            if rule == "number":
                kw_thr = float(Fraction(rng.randrange(0, 9), 8) * Fraction(hi - lo) + Fraction(lo)) if hi > lo else lo - 0.25
            res, mask = tapped_mask(field, threshold=kw_thr, minimal_radius=-np.inf)
            if res[0] == "err":
                ck.count(f"raises.{res[1]}")
                continue  # exceptions are C09's subject; both sides of every comparison below would raise alike
            if rule == "otsu":
                thr_impl = threshold_otsu(field.data)
                reqs.append("c18 otsu " + " ".join(q(x) for x in data.flat))
                expect.append(("otsu", case, thr_impl, data, mask, sig))
                continue
            thr = Fraction(kw_thr) if rule == "number" else spec[rule]
            want = np.array([x > thr for x in flat]).reshape(data.shape)
            if mask is None or not np.array_equal(mask, want):
                ck.fail(f"rule {rule}: the binary image is not (data > {float(thr)})", {**sig, "check": "locate_factors_through_mask", "rule": rule}, case)
                continue
            # droplets = those of the binary image
            ref = locate_droplets_in_mask(ScalarField(grid, want, dtype=bool))
            if emulsion_key(res[1]) != emulsion_key(ref):
                ck.fail(f"rule {rule}: result differs from locating in the thresholded image", {**sig, "check": "locate_factors_through_mask", "rule": rule}, case)
            if rule in ("extrema", "mean"):
                reqs.append(f"c18 thr {rule} " + " ".join(q(x) for x in data.flat))
                expect.append((rule, case, thr, data, mask, sig))
            # --- affine invariance (exactly representable maps)
            a = rng.choice([0.5, 2.0, 3.0, 0.75, 8.0])
            b = rng.choice([0.0, -1.5, 4.0, 0.125])
            f2 = ScalarField(grid, a * data + b)
            t2 = a * kw_thr + b if rule == "number" else rule
            res2 = locate(f2, threshold=t2, minimal_radius=-np.inf)
            if res2[0] != "ok" or emulsion_key(res2[1]) != emulsion_key(res[1]):
                ck.fail(f"rule {rule}: result changes under intensities -> {a}*x+{b}", {**sig, "check": "threshold_affine", "rule": rule}, {**case, "a": a, "b": b})
        # the threshold rule looks at the image only: settings meant for the refinement (intensity levels, tolerance) have no say in the
        # detection - neither with refinement switched off (where they are documented to have no effect) nor, for the candidates, with it on
        for rule in ("extrema", "auto", "mean", "otsu"):
            plain = locate(field, threshold=rule, minimal_radius=-np.inf)
            if plain[0] != "ok":
                continue
            for ra in ({"vmin": 0.0, "vmax": 1.0}, {"vmin": float(lo) - 0.4 * float(hi - lo), "vmax": float(hi) + 1.1 * float(hi - lo)}, {"vmin": None, "vmax": None, "tolerance": 1e-3}):
                got = locate(field, threshold=rule, minimal_radius=-np.inf, refine=False, refine_args=dict(ra))
                ck.count("rule_with_refine_args")
                if got[0] != "ok" or emulsion_key(got[1]) != emulsion_key(plain[1]):
                    ck.fail(f"rule {rule}: detection changes when refine_args={ra} is passed although refinement is off "
                            f"({len(plain[1])} -> {len(got[1]) if got[0] == 'ok' else got[1]} droplets)", {**sig, "check": "locate_factors_through_mask", "rule": rule},
                            {**case, "refine_args": {k_: (None if v_ is None else float(v_)) for k_, v_ in ra.items()}})
        # otsu affine (skipped on near-ties, decided after the driver answered) -> handled below
        # --- size filter
        base = locate(field, threshold="extrema", minimal_radius=-np.inf)
        if base[0] == "ok" and len(base[1]) > 0:
            radii = sorted({d.radius for d in base[1]})
            for mr in [0, radii[0], (radii[0] + radii[-1]) / 2, radii[-1], radii[-1] + 1, -1.0]:
                got = locate(field, threshold="extrema", minimal_radius=mr)
                if got[0] != "ok":
                    continue
                want = [k for k, d in zip(emulsion_key(base[1]), base[1]) if d.radius > mr]
                if emulsion_key(got[1]) != want:
                    ck.fail(f"minimal_radius={mr}: result is not the droplets with radius > minimal_radius", {**sig, "check": "removeSmall_eq_filter"}, {**case, "minimal_radius": mr})
                # the other options of the analysis have no say in the size filter: a supplied interface width (narrow or far wider than
                # the small clusters) and requested modes change the class of the droplets, never which of them are kept
                extra = rng.choice([dict(interface_width=rng.choice([0.0, 0.5, 3.5, 8.0]) * float(grid.typical_discretization)),
                                    dict(interface_width=2.5 * radii[-1]), dict(modes=2) if grid.dim == 2 and grid.num_axes == 2 else dict(interface_width=1.0)])
                got2 = locate(field, threshold="extrema", minimal_radius=mr, **extra)
                ck.count("size_filter_with_other_options")
                if got2[0] == "ok" and [(tuple(np.round(d.position, 9)), round(float(d.radius), 12)) for d in got2[1]] != \
                        [(tuple(np.round(d.position, 9)), round(float(d.radius), 12)) for d in base[1] if d.radius > mr]:
                    ck.fail(f"minimal_radius={mr} with {extra}: {len(got2[1])} droplets kept, {sum(d.radius > mr for d in base[1])} have a radius above the minimal radius",
                            {**sig, "check": "removeSmall_eq_filter", "options": sorted(extra)}, {**case, "minimal_radius": mr, "options": {k: float(v) for k, v in extra.items()}})
            em = base[1].copy()
            mr = rng.choice(radii)
            rs = [d.radius for d in em]
            em.remove_small(mr)
            reqs.append(f"c18 small {q(mr)} " + " ".join(q(r) for r in rs))
            expect.append(("small", case, [i for i, r in enumerate(rs) if any(d.radius == r for d in em)], rs, em, sig))
        if len(ck.samples) < 3 and style == "blob":
            ck.sample({"grid": repr(grid), "style": style, "min": lo, "max": hi, "shape": list(data.shape)})
    try:
        outs = run_driver(reqs)
    except RuntimeError as e:
        ck.mismatch("c18-threshold", f"driver unavailable: {e}", {})
        return
    for ex, out in zip(expect, outs):
        kind, case = ex[0], ex[1]
        parts = out.split()
        if parts[0] != "ok":
            ck.mismatch("c18-threshold", f"model answered {out}", case)
            continue
        if kind in ("extrema", "mean"):
            if Fraction(parts[1]) != ex[2]:
                ck.mismatch("c18-threshold", f"{kind}: model {parts[1]} vs specification {ex[2]}", case)
        elif kind == "otsu":
            _, _, thr_impl, data, mask, sig = ex
            idx, thr_m, best, second = parts[1], Fraction(parts[2]), parts[3], parts[4]
            near = best != "nan" and second != "nan" and abs(Fraction(best) - Fraction(second)) <= Fraction(1, 10**9) * abs(Fraction(best))
            if near:
                ck.count("otsu_near_tie_skipped")
                continue
            ck.count("otsu_compared")
            if Fraction(float(thr_impl)) != thr_m:
                ck.mismatch("c18-threshold", f"threshold_otsu = {thr_impl!r}, model bin centre {float(thr_m)!r} (index {idx})", case)
                ck.fail(f"threshold_otsu returns {thr_impl!r} but the bin centre maximising the between-class variance is {float(thr_m)!r}",
                        {**sig, "check": "otsu_is_argmax"}, case)
            want = data > float(thr_m)
            if mask is None or not np.array_equal(mask, want):
                ck.fail("rule otsu: the binary image is not (data > otsu bin centre)", {**sig, "check": "locate_factors_through_mask", "rule": "otsu"}, case)
        elif kind == "small":
            _, _, kept_impl, rs, em, sig = ex
            kept_model = [int(x) for x in parts[1:]]
            if [rs[i] for i in kept_model] != [d.radius for d in em]:
                ck.mismatch("c18-threshold", f"remove_small keeps radii {[d.radius for d in em]}, model keeps indices {kept_model}", case)


def refine_filter_cases(ck: Check, n: int):
    """the size filter must also hold AFTER refinement: wide interfaces + low thresholds make the
    thresholded cluster larger than the fitted droplet, so a minimal radius can fall in between"""
    from pde import CartesianGrid
    from droplets.droplets import DiffuseDroplet
    from droplets.emulsions import Emulsion

    rng = ck.rng
    for _ in range(n):
        dim = rng.choice([1, 2])
        L = 40 if dim == 1 else 24
        grid = CartesianGrid([[0, L]] * dim, [L] * dim, periodic=rng.random() < 0.5)
        k = rng.choice([1, 2]) if dim == 1 else 1
        drops = [DiffuseDroplet(np.array([L * (j + 0.5) / k + rng.uniform(-1, 1)] + [L / 2] * (dim - 1)), rng.uniform(3.5, 5.5), rng.uniform(1.5, 3.0)) for j in range(k)]
        field = Emulsion(drops).get_phasefield(grid)
        thr = rng.choice([0.1, 0.15, 0.5, 0.85])
        cands = locate(field, threshold=thr, minimal_radius=-np.inf)
        refined = locate(field, threshold=thr, minimal_radius=-np.inf, refine=True)
        if cands[0] != "ok" or refined[0] != "ok" or len(cands[1]) != len(refined[1]) or not len(cands[1]):
            continue
        pairs = list(zip(cands[1], refined[1]))
        lo = min(min(c.radius, r.radius) for c, r in pairs)
        hi = max(max(c.radius, r.radius) for c, r in pairs)
        between = [(c.radius + r.radius) / 2 for c, r in pairs]
        for mr in between + [lo - 0.1, hi + 0.1, 0.0]:
            got = locate(field, threshold=thr, minimal_radius=mr, refine=True)
            case = {"kind": "refine-filter", "dim": dim, "threshold": thr, "minimal_radius": mr, "droplets": [d.data.tolist() for d in drops],
                    "candidate_radii": [c.radius for c, _ in pairs], "refined_radii": [r.radius for _, r in pairs]}
            ck.case(("refine-filter", dim, thr, mr, tuple(d.data.tobytes() for d in drops)))
            if any(min(c.radius, r.radius) < mr < max(c.radius, r.radius) for c, r in pairs):
                ck.count("minimal_radius_between_candidate_and_refined")
            if got[0] != "ok":
                continue
            if any(d.radius <= mr for d in got[1]):
                ck.fail(f"refine=True, minimal_radius={mr}: a returned droplet has radius {[d.radius for d in got[1]]}", {"check": "removeSmall_eq_filter", "refine": True}, case)
            want = [emulsion_key([r])[0] for c, r in pairs if c.radius > mr and r.radius > mr]
            if emulsion_key(got[1]) != want:
                ck.fail(f"refine=True, minimal_radius={mr}: result is not the refined droplets passing the filter before and after refinement", {"check": "removeSmall_eq_filter", "refine": True}, case)


def replay(case: dict):
    ck = Check("C18", "quick", 0)
    run_cases(ck, 300)
    if case.get("kind") == "large-image":
        large_images(ck, True)
    return not ck.failures, "; ".join(f["what"] for f in ck.failures[:3]) or "property holds on re-run"


def run(ck: Check):
    ck.rule = ("random dyadic-valued fields (constant, binary, noise, blobs, two-level+noise; ranges and offsets as powers of two times small integers) on "
               "Cartesian 1-3-D (periodic or not), polar, spherical and cylindrical grids x {extrema, auto, mean, otsu, numeric} x exact affine maps x "
               "minimal radii at/between/above the occurring radii; fields with more than 2**20 cells under 'otsu' against an exact oracle on the histogram of all cells; "
               "non-trivial = distinct non-constant fields")
    ck.assumptions = ["dyadic data: the float evaluation of min+max, the sum, the histogram edges and a*x+b is exact, so the rational model decides the same comparisons",
                      "otsu cases with two best variances within 1e-9 relative are skipped (counted in stats)",
                      "calls on which the real code raises are skipped here (C09 decides them)"]
    ck.lean = lean_stage("C18", leanchecker=not ck.quick)
    run_cases(ck, ck.budget(600, 6000))
    refine_filter_cases(ck, ck.budget(12, 200))
    large_images(ck, ck.quick)
    if (not ck.lean.ok or ck.mismatches) and not ck.failures:
        run_cases(ck, 2000)
