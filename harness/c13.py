"""C13 — a perturbed droplet's volume, surface, curvature and outline match its shape.

Lean: Generated/Perturbed.lean (regenerated from the loops of the three perturbed classes) +
Props/C13.lean: code = the linearised specification for all radii and mode combinations, with the
harmonics as an arbitrary table.
Correspondence: the generated definitions at Float (harmonic values supplied from the real
`spherical_harmonic_real_k` / `spherical_harmonic_symmetric`) vs. the real methods.
Numerical validation of what Lean does not prove (the geometric meaning of the specification):
true curvature by exact 2-D formula / finite-difference mean curvature of the level set in 3-D,
volumes and arc length by spectral quadrature; agreement "to first order" is tested as
second-order convergence of the discrepancy under amplitude scaling."""
from __future__ import annotations

import math

import numpy as np

from .common import Check, bits_to_float, lean_stage, rel_close, run_driver
from .c11 import fbits


def harmonics_table(cls_name, n, theta, phi):
    from droplets.tools import spherical as sp

    if cls_name == "PerturbedDroplet3D":
        return [float(sp.spherical_harmonic_real_k(k, theta, phi)) for k in range(1, n + 1)]
    return [float(sp.spherical_harmonic_symmetric(k, theta)) for k in range(1, n + 1)]


# ---------------------------------------------------------------------------------------
# numerical truth
# ---------------------------------------------------------------------------------------

def curvature2d_exact(R, amps, phi):
    r = np.ones_like(phi)
    r1 = np.zeros_like(phi)
    r2 = np.zeros_like(phi)
    for i in range(0, len(amps), 2):
        n = i // 2 + 1
        a = amps[i]
        b = amps[i + 1] if i + 1 < len(amps) else 0.0
        r += a * np.sin(n * phi) + b * np.cos(n * phi)
        r1 += n * (a * np.cos(n * phi) - b * np.sin(n * phi))
        r2 += -n * n * (a * np.sin(n * phi) + b * np.cos(n * phi))
    r, r1, r2 = R * r, R * r1, R * r2
    return (r * r + 2 * r1 * r1 - r * r2) / (r * r + r1 * r1) ** 1.5


def mean_curvature3d(d, theta, phi, h_rel=2e-3):
    """finite-difference mean curvature (sphere: 1/R) of the surface |x - c| = interface_distance(direction)"""
    def F(x):
        x = np.atleast_2d(x)
        rr = np.linalg.norm(x, axis=1)
        th = np.arccos(np.clip(x[:, 2] / rr, -1, 1))
        ph = np.arctan2(x[:, 1], x[:, 0])
        if type(d).__name__ == "PerturbedDroplet3DAxisSym":
            rho = d.interface_distance(th)
        else:
            rho = d.interface_distance(th, ph)
        return rr - rho

    rho0 = float(d.interface_distance(theta) if type(d).__name__ == "PerturbedDroplet3DAxisSym" else d.interface_distance(theta, phi))
    p = rho0 * np.array([math.sin(theta) * math.cos(phi), math.sin(theta) * math.sin(phi), math.cos(theta)])
    h = h_rel * d.radius
    E = np.eye(3)

    def normal(x):
        g = np.array([(F(x + h * E[i])[0] - F(x - h * E[i])[0]) / (2 * h) for i in range(3)])
        return g / np.linalg.norm(g)

    div = sum((normal(p + h * E[i])[i] - normal(p - h * E[i])[i]) / (2 * h) for i in range(3))
    return 0.5 * div


def volume3d_quadrature(d):
    xs, ws = np.polynomial.legendre.leggauss(48)
    nphi = 96
    phis = np.arange(nphi) * 2 * np.pi / nphi
    tot = 0.0
    for x, w in zip(xs, ws):
        th = np.full(nphi, math.acos(x))
        rho = d.interface_distance(th) if type(d).__name__ == "PerturbedDroplet3DAxisSym" else d.interface_distance(th, phis)
        tot += w * np.sum(rho**3 / 3) * (2 * np.pi / nphi)
    return tot


# ---------------------------------------------------------------------------------------

def gen_amps(rng, n, eps):
    a = np.array([rng.choice([0.0, 1.0, 1.0]) * rng.uniform(-1, 1) for _ in range(n)]) * eps
    r = rng.random()
    if r < 0.25 and n >= 3:
        # sparse vectors: a whole block of low modes is zero (no translation modes, a pure higher deformation)
        a[: rng.choice([k for k in (2, 3, 8, 15) if k < n])] = 0.0
    elif r < 0.35 and n >= 2:
        j = rng.randrange(n)
        a = np.where(np.arange(n) == j, a if a[j] != 0 else eps * 0.7, 0.0)
    return a


def run_cases(ck: Check, n2d: int, n3d: int):
    from droplets import droplets as D
    from droplets.tools import spherical as sp

    rng = ck.rng
    reqs, expect = [], []

    def model(req, want, case, tol=1e-12):
        reqs.append(req)
        expect.append((want, case, tol))

    # ------------------------------------------------------------------ 2-D
    for _ in range(n2d):
        R = 10 ** rng.uniform(-1, 1.7)
        N = rng.choice([1, 2, 3, 4, 5, 8])
        eps = rng.choice([1e-3, 0.05, 0.2])
        amps = gen_amps(rng, N, eps)
        pos = np.array([rng.uniform(-5, 5), rng.uniform(-5, 5)])
        d = D.PerturbedDroplet2D(pos, R, rng.choice([None, 0.5]), amps)
        phis = np.array([rng.uniform(0, 2 * np.pi) for _ in range(4)])
        case = {"class": "PerturbedDroplet2D", "R": R, "amplitudes": amps.tolist(), "phi": phis.tolist()}
        sig = {"class": "PerturbedDroplet2D"}
        ck.case(("2d", R, amps.tobytes()))
        a_tok = " ".join(fbits(a) for a in amps)
        for ph in phis:
            model(f"c13 p2d_distance {fbits(R)} {fbits(ph)} {a_tok}", float(d.interface_distance(ph)), case)
            model(f"c13 p2d_curvature {fbits(R)} {fbits(ph)} {a_tok}", float(d.interface_curvature(ph)), case)
        model(f"c13 p2d_volume {fbits(R)} {a_tok}", float(d.volume), case)
        model(f"c13 p2d_surface_approx {fbits(R)} {a_tok}", float(d.surface_area_approx), case)
        # volume / surface equal the integrals over the body bounded by the interface
        fine = np.arange(4096) * 2 * np.pi / 4096
        rr = d.interface_distance(fine)
        vol_q = np.sum(0.5 * rr**2) * 2 * np.pi / 4096
        if not rel_close(float(d.volume), vol_q, 1e-10):
            ck.fail(f"2-D volume {d.volume} but the area enclosed by the interface is {vol_q}", {**sig, "check": "p2d_volume_eq_spec"}, case)
        drr = np.gradient(np.r_[rr[-2:], rr, rr[:2]], 2 * np.pi / 4096, edge_order=2)[2:-2]
        # exact derivative instead of a numerical one
        drr = np.zeros_like(fine)
        for i in range(0, len(amps), 2):
            n = i // 2 + 1
            a, b = amps[i], (amps[i + 1] if i + 1 < len(amps) else 0.0)
            drr += R * n * (a * np.cos(n * fine) - b * np.sin(n * fine))
        arc_q = np.sum(np.hypot(rr, drr)) * 2 * np.pi / 4096
        if max(abs(amps)) * N * N < 3 and not rel_close(float(d.surface_area), arc_q, 1e-8):
            ck.fail(f"2-D surface_area {d.surface_area} but the arc length of the interface is {arc_q}", {**sig, "check": "p2d_surface"}, case)
        # setter/getter
        v = rng.uniform(0.1, 50)
        d2 = d.copy()
        d2.volume = v
        if not rel_close(float(d2.volume), v, 1e-12) or not np.allclose(d2.amplitudes, d.amplitudes):
            ck.fail("setting the 2-D volume and reading it back does not return the value set", {**sig, "check": "p2d_volume_setter_getter"}, case)
        model(f"c13 p2d_set_volume {fbits(v)} {a_tok}", float(d2.radius), case)
        # first-order agreement with the exact curvature: discrepancy is second order in the amplitudes
        u = gen_amps(rng, N, 1.0)
        if np.any(u):
            g = []
            for e in (2e-3 / N**2, 5e-4 / N**2):
                de = D.PerturbedDroplet2D(pos, R, None, e * u)
                g.append(np.max(np.abs(de.interface_curvature(phis) - curvature2d_exact(R, e * u, phis))))
            if g[1] > 0.15 * g[0] + 1e-11 / R:
                ck.fail(f"2-D curvature does not agree with the exact curvature to first order (discrepancy {g[0]:.3g} -> {g[1]:.3g} when amplitudes shrink 4x)",
                        {**sig, "check": "curvature_first_order"}, {**case, "direction": u.tolist()})
        # outline
        ip = d.interface_position(phis)
        want = pos[None, :] + d.interface_distance(phis)[:, None] * np.c_[np.cos(phis), np.sin(phis)]
        if not np.allclose(ip, want, rtol=1e-13, atol=1e-13):
            ck.fail("interface_position is not centre + distance * direction", {**sig, "check": "interface_position_eq"}, case)
        tri = d.get_triangulation(resolution=R / 3)
        vv = tri["vertices"] - pos
        ang = np.arctan2(vv[:, 1], vv[:, 0])
        if not np.allclose(np.hypot(vv[:, 0], vv[:, 1]), d.interface_distance(ang), rtol=1e-9, atol=1e-12):
            ck.fail("triangulation vertices do not lie on the interface", {**sig, "check": "triangulation_on_interface"}, case)
        if len(ck.samples) < 2:
            ck.sample(case)
    # ------------------------------------------------------------------ 3-D and axisymmetric
    for i in range(n3d):
        cls_name = ["PerturbedDroplet3D", "PerturbedDroplet3DAxisSym"][i % 2]
        cls = getattr(D, cls_name)
        R = 10 ** rng.uniform(-1, 1.7)
        N = rng.choice([1, 3, 4, 8, 15, 24]) if cls_name == "PerturbedDroplet3D" else rng.choice([1, 2, 3, 4])
        eps = rng.choice([1e-3, 0.03, 0.1])
        amps = gen_amps(rng, N, eps)
        pos = np.array([0.0, 0.0, rng.uniform(-5, 5)]) if cls_name.endswith("AxisSym") else np.array([rng.uniform(-5, 5) for _ in range(3)])
        d = cls(pos, R, rng.choice([None, 0.5]), amps)
        th, ph = rng.uniform(0.2, np.pi - 0.2), rng.uniform(0, 2 * np.pi)
        case = {"class": cls_name, "R": R, "amplitudes": amps.tolist(), "theta": th, "phi": ph}
        sig = {"class": cls_name}
        ck.case((cls_name, R, amps.tobytes(), th, ph))
        Y = harmonics_table(cls_name, N, th, ph)
        pre = "p3d" if cls_name == "PerturbedDroplet3D" else "axi"
        tail = f"{fbits(R)} {fbits(float(N))} " + " ".join(fbits(a) for a in amps) + " " + " ".join(fbits(y) for y in Y)
        args = (th, ph) if pre == "p3d" else (th,)
        model(f"c13 {pre}_distance {tail}", float(d.interface_distance(*args)), case)
        model(f"c13 {pre}_curvature {tail}", float(d.interface_curvature(*args)), case)
        model(f"c13 {pre}_volume_approx {fbits(R)} " + " ".join(fbits(a) for a in amps), float(d.volume_approx), case)
        # outline
        # (all three classes: the axisymmetric class takes (θ, φ) like every 3-D droplet and ignores φ in the distance)
        ip = d.interface_position(th, ph)
        unit = np.array([math.sin(th) * math.cos(ph), math.sin(th) * math.sin(ph), math.cos(th)])
        if not np.allclose(ip, pos + float(d.interface_distance(*args)) * unit, rtol=1e-13, atol=1e-13):
            ck.fail(f"{cls_name}: interface_position is not centre + distance * direction", {**sig, "check": "interface_position_eq"}, case)
        # the azimuth may be omitted (documented: it then is 0): the outline clauses hold for that form of the call as well
        if pre == "p3d":
            ck.count("azimuth_omitted")
            d0, d1 = float(d.interface_distance(np.float64(th))), float(d.interface_distance(np.float64(th), np.float64(0.0)))
            c0, c1 = float(d.interface_curvature(np.float64(th))), float(d.interface_curvature(np.float64(th), np.float64(0.0)))
            if not (rel_close(d0, d1, 1e-14) and rel_close(c0, c1, 1e-14)):
                ck.fail(f"{cls_name}: with the azimuth omitted (= 0) distance / curvature are {d0!r} / {c0!r}, with the azimuth 0 given {d1!r} / {c1!r}",
                        {**sig, "check": "azimuth_omitted_is_zero"}, case)
            ip0 = d.interface_position(np.float64(th))
            unit0 = np.array([math.sin(th), 0.0, math.cos(th)])
            if not np.allclose(ip0, pos + d1 * unit0, rtol=1e-13, atol=1e-13):
                ck.fail(f"{cls_name}: interface_position(theta) is not centre + distance(theta, 0) * direction", {**sig, "check": "interface_position_eq", "azimuth_omitted": True}, case)
        # first order: curvature vs finite-difference mean curvature, volume_approx vs quadrature
        u = gen_amps(rng, N, 1.0)
        if np.any(u) and i % 3 == 0:
            lmax = max(1, int(math.sqrt(N))) if pre == "p3d" else N
            gk, gv = [], []
            # the finite-difference oracle has an O(h^2) truncation error that does not depend on the
            # amplitudes: remove it by subtracting the oracle's error on the unperturbed sphere (1/R exactly)
            fd_err0 = mean_curvature3d(cls(pos, R, None, 0.0 * u), th, ph) - 1.0 / R
            for e in (4e-3 / lmax**2, 1e-3 / lmax**2):
                de = cls(pos, R, None, e * u)
                gk.append(abs(float(de.interface_curvature(*args)) - (mean_curvature3d(de, th, ph) - fd_err0)))
                gv.append(abs(float(de.volume_approx) - volume3d_quadrature(de)) / R**3)
            ck.count("first_order_probes_3d")
            if gk[1] > 0.15 * gk[0] + 1e-7 / R:
                ck.fail(f"{cls_name}: curvature does not agree with the true mean curvature to first order (discrepancy {gk[0]:.3g} -> {gk[1]:.3g} when amplitudes shrink 4x, R={R:.3g})",
                        {**sig, "check": "curvature_first_order"}, {**case, "direction": u.tolist()})
            if gv[1] > 0.15 * gv[0] + 1e-12:
                ck.fail(f"{cls_name}: volume_approx does not agree with the exact volume to first order ({gv[0]:.3g} -> {gv[1]:.3g})",
                        {**sig, "check": "volume_approx_first_order"}, {**case, "direction": u.tolist()})
        if i % 10 in (0, 1) and max(abs(amps)) < 0.2:
            if pre == "p3d":
                vq = volume3d_quadrature(d)
                if not rel_close(float(d.volume), vq, 1e-6):
                    ck.fail(f"3-D volume {d.volume} but the integral over the body is {vq}", {**sig, "check": "volume3d"}, case)
            tri = d.get_triangulation(resolution=R)
            vv = tri["vertices"] - pos
            rr = np.linalg.norm(vv, axis=1)
            tht, pht = np.arccos(np.clip(vv[:, 2] / rr, -1, 1)), np.arctan2(vv[:, 1], vv[:, 0])
            want = d.interface_distance(tht, pht) if pre == "p3d" else d.interface_distance(tht)
            ck.count(f"triangulation_{pre}")
            if not np.allclose(rr, want, rtol=1e-9, atol=1e-12):
                ck.fail(f"{cls_name}: triangulation vertices do not lie on the interface", {**sig, "check": "triangulation_on_interface"}, case)
        if len(ck.samples) < 4:
            ck.sample(case)
    # exact 3-D volume with sizeable amplitudes (third-order terms matter): against an independent product quadrature
    for N, eps in ((3, 0.25), (8, 0.2), (15, 0.12), (24, 0.1))[: max(2, n3d // 20)]:
        R = 10 ** rng.uniform(0, 1)
        amps = np.array([rng.choice([-1, 1]) * rng.uniform(0.5, 1.0) * eps for _ in range(N)])
        pos = np.array([rng.uniform(-5, 5) for _ in range(3)])
        d = D.PerturbedDroplet3D(pos, R, None, amps)
        case = {"class": "PerturbedDroplet3D", "R": R, "amplitudes": amps.tolist()}
        ck.case(("volume3d", R, amps.tobytes()))
        ck.count("volume3d_sizeable_amplitudes")
        vq = volume3d_quadrature(d)
        if not rel_close(float(d.volume), vq, 2e-7):
            ck.fail(f"3-D volume {d.volume} but the integral over the body is {vq} (relative deviation {float(d.volume) / vq - 1:.3g})", {"class": "PerturbedDroplet3D", "check": "volume3d"}, case)
    # zero amplitudes: everything reduces to the sphere
    for cls_name, dim in (("PerturbedDroplet2D", 2), ("PerturbedDroplet3D", 3), ("PerturbedDroplet3DAxisSym", 3)):
        R = rng.uniform(0.5, 4)
        d = getattr(D, cls_name)(np.zeros(dim), R, None, np.zeros(3 if dim == 3 else 4))
        ck.case(("zero", cls_name, R))
        ok = True
        if dim == 2:
            ok = rel_close(d.volume, math.pi * R**2, 1e-14) and rel_close(d.surface_area, 2 * math.pi * R, 1e-12) and rel_close(float(d.interface_curvature(0.3)), 1 / R, 1e-14) \
                and rel_close(float(d.interface_distance(1.0)), R, 1e-15) and rel_close(d.surface_area_approx, 2 * math.pi * R, 1e-14)
        else:
            a = (0.7, 1.1) if cls_name == "PerturbedDroplet3D" else (0.7,)
            ok = rel_close(float(d.interface_curvature(*a)), 1 / R, 1e-14) and rel_close(float(d.interface_distance(*a)), R, 1e-15) and rel_close(d.volume_approx, 4 / 3 * math.pi * R**3, 1e-14)
        if not ok:
            ck.fail(f"{cls_name} with zero amplitudes does not reduce to the sphere", {"class": cls_name, "check": "zero_amplitudes_reduce"}, {"class": cls_name, "R": R})
    # mode indexing
    for k in list(range(0, 60)) + [rng.randrange(10**4) for _ in range(40)]:
        l, m = sp.spherical_index_lm(k)
        model(f"c13 lm {k}", (int(l), int(m)), {"k": k})
        ck.case(("lm", k))
        if not (-l <= m <= l) or sp.spherical_index_k(l, m) != k or sp.spherical_index_count_optimal(k) != (int(math.isqrt(k)) ** 2 == k):
            ck.fail(f"mode index {k} -> (l={l}, m={m}) is inconsistent", {"check": "lm_roundtrip"}, {"k": k})
    outs = run_driver(reqs)
    for (want, case, tol), req, out in zip(expect, reqs, outs):
        parts = out.split()
        if parts[0] != "ok":
            ck.mismatch("c13-formulas", f"model answered {out} to {req[:50]}", case)
        elif isinstance(want, tuple):
            if (int(parts[1]), int(parts[2])) != want:
                ck.mismatch("c13-formulas", f"spherical_index_lm: impl {want}, model {parts[1:]}", case)
        else:
            mv = bits_to_float(parts[1])
            if not rel_close(mv, want, tol, 1e-300):
                ck.mismatch("c13-formulas", f"{req.split()[1]}: impl {want!r} vs generated {mv!r}", case)


def harmonics_contract(ck: Check, n: int):
    """the one property of the harmonics that Props/C13 `axi_curvature_first_order` uses (and that the 3-D specification rests on): the
    library's harmonic wrappers are eigenfunctions of the spherical Laplacian, Y'' + cot(theta) Y' [+ Y_phiphi / sin^2(theta)] = -l(l+1) Y.
    Monitored by central differences on the real wrappers (degree <= 6), together with the degree/order <-> mode index the code uses."""
    from droplets.tools import spherical as sp

    rng = ck.rng
    h = 1e-4
    for i in range(n):
        th = rng.uniform(0.35, math.pi - 0.35)
        ph = rng.uniform(0, 2 * math.pi)
        c, s2 = math.cos(th) / math.sin(th), math.sin(th) ** 2
        # axisymmetric wrapper
        l = 1 + i % 6
        f = lambda t: float(sp.spherical_harmonic_symmetric(l, t))  # noqa: E731
        y, y1, y2 = f(th), (f(th + h) - f(th - h)) / (2 * h), (f(th + h) - 2 * f(th) + f(th - h)) / h**2
        ck.case(("eig-sym", l, th))
        ck.count("harmonic_eigen_equation")
        if abs(y2 + c * y1 + l * (l + 1) * y) > 2e-5 * (1 + l * (l + 1)):
            ck.mismatch("c13-harmonics", f"spherical_harmonic_symmetric({l}, theta): Y'' + cot Y' + l(l+1) Y = {y2 + c * y1 + l * (l + 1) * y:.3g} at theta={th} "
                        "(not an eigenfunction of the spherical Laplacian: hypothesis of axi_curvature_first_order)", {"degree": l, "theta": th})
        # real harmonics by mode index
        k = 1 + (i * 7) % 48
        l2, m2 = sp.spherical_index_lm(k)
        g = lambda t, p: float(sp.spherical_harmonic_real_k(k, t, p))  # noqa: E731
        y = g(th, ph)
        yt, ytt = (g(th + h, ph) - g(th - h, ph)) / (2 * h), (g(th + h, ph) - 2 * y + g(th - h, ph)) / h**2
        ypp = (g(th, ph + h) - 2 * y + g(th, ph - h)) / h**2
        ck.case(("eig-real", k, th, ph))
        if abs(ytt + c * yt + ypp / s2 + l2 * (l2 + 1) * y) > 1e-4 * (1 + l2 * (l2 + 1)) / s2:
            ck.mismatch("c13-harmonics", f"spherical_harmonic_real_k({k}) [degree {l2}, order {m2}]: spherical Laplacian + l(l+1) Y = "
                        f"{ytt + c * yt + ypp / s2 + l2 * (l2 + 1) * y:.3g} at (theta, phi)=({th}, {ph})", {"k": k, "theta": th, "phi": ph})
        # the further hypotheses of p3d_volume_first_order: every mode that carries an amplitude (k >= 1) has degree >= 1, and the
        # harmonics (hence their azimuthal derivative) are 2 pi-periodic in phi
        ck.count("harmonic_degree_and_period")
        if l2 < 1:
            ck.mismatch("c13-harmonics", f"spherical_index_lm({k}) = ({l2}, {m2}): a mode with an amplitude has degree 0 (hypothesis hdeg of p3d_volume_first_order)", {"k": k})
        yp0 = (g(th, h) - g(th, -h)) / (2 * h)
        yp1 = (g(th, 2 * math.pi + h) - g(th, 2 * math.pi - h)) / (2 * h)
        if abs(g(th, ph + 2 * math.pi) - y) > 1e-9 * (1 + abs(y)) or abs(yp1 - yp0) > 1e-6 * (1 + abs(yp0)):
            ck.mismatch("c13-harmonics", f"spherical_harmonic_real_k({k}) is not 2 pi-periodic in the azimuth at theta={th} (hypothesis of p3d_volume_first_order)",
                        {"k": k, "theta": th, "phi": ph})


def replay(case: dict):
    ck = Check("C13", "quick", 0)
    run_cases(ck, 40, 60)
    bad = [f["what"] for f in ck.failures] + [m["what"] for m in ck.mismatches]
    return not bad, "; ".join(bad[:3]) or "property holds on re-run"


def run(ck: Check):
    ck.rule = ("random perturbed droplets: radii 0.1..50, 1-8 (2-D) / 1-24 (3-D) / 1-4 (axisymmetric) amplitudes with several simultaneously non-zero modes, random "
               "directions and centres; code vs generated formulas at Float; numeric truth (exact 2-D curvature, finite-difference mean curvature, spectral quadrature); "
               "first-order agreement tested by 4x amplitude scaling (discrepancy must drop by > 6.6x); non-trivial = distinct (class, radius, amplitudes, direction)")
    ck.assumptions = ["spherical harmonics are scipy's sph_harm_y through the library's wrappers (values supplied to the model as a table)",
                      "the geometric meaning of the linearised specification is PROVED in 2-D and for axisymmetric droplets (axi_curvature_first_order, from the eigen-equation of the harmonics, monitored on the real wrappers); for general 3-D shapes the curvature clause (p3d_curvature_first_order) and the vanishing first-order volume term (p3d_volume_first_order) are proved from the same eigen-equation plus 2 pi-periodicity in the azimuth and degree >= 1 of the modes k >= 1 (all monitored); the exact 3-D volume is validated numerically, not proved",
                      "finite-difference mean curvature: step 2e-3 R, noise allowance 3e-6/R"]
    ck.extra_cov["gen_keys"] = ["p2d_distance", "p2d_curvature", "p2d_volume", "p2d_set_volume", "p2d_surface_approx", "p3d_distance", "p3d_curvature",
                                "axi_distance", "axi_curvature", "p3d_volume_approx", "axi_volume_approx"]
    ck.lean = lean_stage("C13", leanchecker=not ck.quick)
    harmonics_contract(ck, ck.budget(60, 600))
    try:
        run_cases(ck, ck.budget(40, 600), ck.budget(60, 900))
    except RuntimeError as e:
        ck.mismatch("c13-formulas", f"driver unavailable: {e}", {})
