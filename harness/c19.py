"""C19 — requested droplet model determines the class and shape of every result.

Lean: Model/ClassSel.lean + Props/C19.lean (`resultClass_spec` for all mode counts).
Correspondence / predicate: the COMPLETE table (grid kinds x periodicities x modes x width x refine
[x threshold rule in the thorough tier]) on the real `locate_droplets`: class, number of
amplitudes, width carried, dim, one dtype per result, `Emulsion.data` can be formed."""
from __future__ import annotations

import itertools

import numpy as np

from .common import Check, lean_stage, run_driver

MODES = [0, 1, 2, 3, 8]


def grids():
    from pde import CartesianGrid, CylindricalSymGrid, PolarSymGrid, SphericalSymGrid

    out = []
    for per in (False, True):
        out.append(("cartesian", f"c1{'p' if per else ''}", CartesianGrid([[0, 24]], 24, periodic=per), [[7.0], [17.0]], 2.6))
        out.append(("cartesian", f"c2{'p' if per else ''}", CartesianGrid([[0, 16], [0, 12]], [16, 12], periodic=per), [[4.5, 6.0], [11.5, 6.0]], 2.6))
        out.append(("cartesian", f"c3{'p' if per else ''}", CartesianGrid([[0, 14], [0, 8], [0, 8]], [14, 8, 8], periodic=per), [[3.5, 4.0, 4.0], [10.5, 4.0, 4.0]], 2.4))
        out.append(("cylindrical", f"cyl{'p' if per else ''}", CylindricalSymGrid(5, [0, 16], [5, 16], periodic_z=per), [[0, 0, 4.0], [0, 0, 12.0]], 2.4))
    # anisotropic grid with a two-cell cluster whose equal-volume disk covers NO cell centre (refinement has nothing
    # to fit there) next to an ordinary droplet: every result must still have the requested class
    out.append(("cartesian", "c2tiny", CartesianGrid([[0, 12], [0, 2.4]], [12, 24]), [[8.5, 1.2], "tiny"], 0.8))
    # droplets cut by a wall of a non-periodic box: only a cap is visible and the fitted centre lies outside the grid
    out.append(("cartesian", "c2wall", CartesianGrid([[0, 20], [0, 14]], [20, 14], periodic=[False, True]), [[13.0, 7.0], [-1.2, 7.0]], 3.6))
    out.append(("cylindrical", "cylwall", CylindricalSymGrid(5, [0, 18], [5, 18]), [[0, 0, 11.0], [0, 0, -1.3]], 3.2))
    out.append(("polar", "polar", PolarSymGrid(8, 16), [[0.0, 0.0]], 3.2))
    out.append(("spherical", "spherical", SphericalSymGrid(8, 16), [[0.0, 0.0, 0.0]], 3.2))
    return out


def observe(em, grid):
    info = {"n": len(em), "classes": sorted({type(d).__name__ for d in em}), "dims": sorted({d.dim for d in em}),
            "amps": sorted({(d.modes if hasattr(d, "amplitudes") else 0) for d in em}),
            "width": sorted({(getattr(d, "interface_width", None) is not None) for d in em}),
            "width_values": [getattr(d, "interface_width", None) for d in em],
            "dtypes": len({str(d.data.dtype) for d in em})}
    try:
        data = em.data
        info["data_shape"] = list(data.shape)
        info["data_ok"] = data.shape == (len(em),) and (len(em) == 0 or data.dtype == em[0].data.dtype)
    except Exception as e:  # noqa: BLE001
        info["data_ok"] = False
        info["data_err"] = type(e).__name__
    return info


def run_table(ck: Check, rules):
    from droplets.droplets import DiffuseDroplet
    from droplets.emulsions import Emulsion
    from droplets.image_analysis import locate_droplets

    reqs, expect = [], []
    for fam, name, grid, centres, R in grids():
        field = Emulsion([DiffuseDroplet(np.array(c, float), R, 1.0 if name != "c2tiny" else 0.1) for c in centres if c != "tiny"]).get_phasefield(grid)
        if "tiny" in centres:
            field.data[3, 12] = field.data[4, 12] = 1.0
        # the same droplets with a SHARP interface: a binary image (two distinct values) is as valid an input as a smooth one
        from droplets.droplets import SphericalDroplet

        sharp = Emulsion([SphericalDroplet(np.array(c, float), R) for c in centres if c != "tiny"]).get_phasefield(grid)
        if "tiny" in centres:
            sharp.data[3, 12] = sharp.data[4, 12] = 1.0
        smooth = field
        combos = [("smooth", *t) for t in itertools.product(MODES, [None, 0.0, 0.75], [False, True], rules)]
        combos += [("sharp", *t) for t in itertools.product(MODES, [None, 0.0, 0.75], [False, True], [0.5 if 0.5 in rules else rules[0]])]
        for image, modes, width, refine, rule in combos:
            field = smooth if image == "smooth" else sharp
            case = {"grid": name, "family": fam, "dim": grid.dim, "modes": modes, "interface_width": width, "refine": refine, "threshold": rule, "image": image}
            ck.count(f"image.{image}")
            sig = {"family": fam, "dim": grid.dim, "modes_positive": modes > 0, "refine": refine, "width": width is not None}
            ck.case((name, image, modes, width, refine, rule))
            try:
                em = locate_droplets(field, threshold=rule, modes=modes, interface_width=width, refine=refine)
                got = ("ok", observe(em, grid))
            except Exception as e:  # noqa: BLE001
                got = ("err", type(e).__name__)
            ck.count(f"outcome.{got[0]}")
            reqs.append(f"c19 {fam} {grid.dim} {modes} {int(width is not None)} {int(refine)}")
            expect.append((case, sig, got, len(centres), width))
            if len(ck.samples) < 4 and modes in (2, 8) and refine:
                ck.sample({**case, "observed": got[1] if got[0] == "err" else {k: v for k, v in got[1].items() if k != "width_values"}})
    outs = run_driver(reqs)
    for (case, sig, got, ncent, width), out in zip(expect, outs):
        parts = out.split()
        # ---- the property (specification table written out here, independent of the model)
        dim, modes, refine = case["dim"], case["modes"], case["refine"]
        if modes > 0 and dim == 1:
            if got != ("err", "ValueError"):
                ck.fail(f"modes in 1-D must raise ValueError, got {got}", {**sig, "check": "documented_error"}, case)
        elif got[0] == "err":
            ck.fail(f"locate_droplets raised {got[1]}", {**sig, "check": "resultClass_spec", "error": got[1]}, case)
        else:
            o = got[1]
            if modes > 0:
                want_cls = "PerturbedDroplet2D" if dim == 2 else ("PerturbedDroplet3DAxisSym" if case["family"] == "cylindrical" else "PerturbedDroplet3D")
            else:
                want_cls = "DiffuseDroplet" if (width is not None or refine) else "SphericalDroplet"
            # the droplets are rendered well separated for the level 0.5; a data-dependent rule ('mean' on a mostly
            # empty image) may legitimately select a lower level at which neighbouring droplets touch
            if (o["n"] != ncent) if case["threshold"] == 0.5 else (o["n"] < 1):
                ck.fail(f"{o['n']} droplets located for {ncent} rendered", {**sig, "check": "count"}, case)
            if o["n"] and (o["classes"] != [want_cls] or o["amps"] != [modes] or o["dims"] != [dim]):
                ck.fail(f"classes {o['classes']} amplitudes {o['amps']} dims {o['dims']}; expected {want_cls} with {modes} amplitudes in {dim}-D", {**sig, "check": "resultClass_spec"}, case)
            if o["n"] and want_cls != "SphericalDroplet" and o["width"] != [width is not None or refine]:
                ck.fail(f"width present: {o['width']}", {**sig, "check": "width_carried"}, case)
            if o["n"] and width is not None and not refine and any(w != width for w in o["width_values"]):
                ck.fail(f"supplied width {width} not carried: {o['width_values']}", {**sig, "check": "width_carried"}, case)
            if not o["data_ok"] or o["dtypes"] > 1:
                ck.fail(f"emulsion data cannot be formed / mixed layouts: {o}", {**sig, "check": "layout_uniform"}, case)
        # ---- correspondence with the model
        if got[0] == "err":
            if parts[0] != "err" or parts[1] != got[1]:
                ck.mismatch("c19-class", f"impl raises {got[1]}, model {out}", case)
        elif got[1]["n"]:
            o = got[1]
            want = f"ok {o['classes'][0]} {o['amps'][0]} {int(o['width'][0])}" if len(o["classes"]) == 1 else "mixed"
            if out != want:
                ck.mismatch("c19-class", f"impl {want}, model {out}", case)


def replay(case: dict):
    ck = Check("C19", "quick", 0)
    run_table(ck, [case.get("threshold", 0.5)])
    bad = [f for f in ck.failures if f["case"]["grid"] == case["grid"] and f["case"]["modes"] == case["modes"]
           and f["case"]["refine"] == case["refine"] and f["case"]["interface_width"] == case["interface_width"]]
    return not bad, "; ".join(f["what"] for f in bad[:3]) or "property holds on this configuration"


def run(ck: Check):
    rules = [0.5] if ck.quick else [0.5, "auto", "extrema", "mean", "otsu"]
    ck.rule = ("complete table: 11 grids (Cartesian 1/2/3-D and cylindrical, each periodic and not; an anisotropic 2-D grid with a sub-resolution cluster; polar; spherical) x modes {0,1,2,3,8} x "
               "interface_width {None, 0.0, 0.75} x refine {off,on}" + (" x 5 threshold rules" if not ck.quick else "") + "; every cell is a distinct non-trivial case")
    ck.exhaustive = True
    ck.assumptions = ["the table is complete over the listed factors; the theorem resultClass_spec covers all mode counts"]
    ck.lean = lean_stage("C19", leanchecker=not ck.quick)
    try:
        run_table(ck, rules)
    except RuntimeError as e:
        ck.mismatch("c19-class", f"driver unavailable: {e}", {})
