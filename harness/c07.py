"""C07 — tracks follow droplet identity.  Shares generators, correspondence and model with C06
(harness/c06.py, Model/Track.lean); evaluates the identity clauses (pred_c07) and builds
Props/C07.lean."""
from __future__ import annotations

from . import c06
from .common import Check


def replay(case: dict):
    return c06.replay_pid("C07", case)


def cylinder_identity(ck: Check, n: int):
    """identity across the periodic boundary of a CYLINDRICAL grid: a droplet on the symmetry axis that moves by less than its size (and
    less than the cut-off) across the periodic z boundary is continued by the same track, by both methods (repair D24: the library's own
    metric along the axis, py-pde's wraps the wrong component)"""
    import numpy as np
    from pde import CylindricalSymGrid
    from droplets.droplet_tracks import DropletTrackList
    from droplets.droplets import SphericalDroplet
    from droplets.emulsions import Emulsion, EmulsionTimeCourse

    rng = ck.rng
    for i in range(n):
        L = rng.choice([8.0, 12.5])
        zlo = rng.choice([0.0, -3.0])
        grid = CylindricalSymGrid(4.0, [zlo, zlo + L], [4, 8], periodic_z=True)
        r = rng.uniform(0.8, 1.4)
        step = rng.uniform(0.2, 0.6)
        z0 = zlo + L - rng.uniform(0.05, step)  # just below the upper end: the next frame is beyond it, i.e. near the lower end
        zs = [z0 - step, z0, z0 + step, z0 + 2 * step]
        frames = [Emulsion([SphericalDroplet(np.array([0.0, 0.0, zlo + (z - zlo) % L]), r), SphericalDroplet(np.array([0.0, 0.0, zlo + (z - zlo + L / 2) % L]), 0.5 * r)]) for z in zs]
        etc = EmulsionTimeCourse(frames, [float(k) for k in range(len(zs))])
        for method, kw in (("overlap", {}), ("distance", {"max_dist": 1.5 * step}), ("distance", {})):
            ck.case(("cyl-identity", i, method, repr(kw), L, zlo, r, step, z0))
            ck.count("cylinder_identity_across_periodic_z")
            try:
                tl = DropletTrackList.from_emulsion_time_course(etc, method=method, grid=grid, **kw)
                lens = sorted(len(t) for t in tl)
                radii_ok = all(len({round(float(d.radius), 12) for d in t.droplets}) == 1 for t in tl)
            except Exception as e:  # noqa: BLE001
                lens, radii_ok = f"raised {type(e).__name__}: {e}", False
            if lens != [len(zs), len(zs)] or not radii_ok:
                ck.fail(f"{method} {kw}: two droplets moving along the axis of a periodic cylinder (one across the periodic boundary) give tracks of lengths {lens}, expected two tracks of {len(zs)} frames each following one droplet",
                        {"check": "identity_across_periodic_boundary", "grid": "CylindricalSymGrid", "method": method},
                        {"kind": "cyl-identity", "grid": repr(grid), "radius": r, "z": [float(zlo + (z - zlo) % L) for z in zs], "method": method, **{k: float(v) for k, v in kw.items()}})


def run(ck: Check):
    c06.run(ck, "C07")
    cylinder_identity(ck, 6 if ck.quick else 60)
    ck.rule += "; the identity clauses are evaluated on histories whose frames are internally non-overlapping"
