"""C07 — tracks follow droplet identity.  Shares generators, correspondence and model with C06
(harness/c06.py, Model/Track.lean); evaluates the identity clauses (pred_c07) and builds
Props/C07.lean."""
from __future__ import annotations

from . import c06
from .common import Check


def replay(case: dict):
    return c06.replay_pid("C07", case)


def run(ck: Check):
    c06.run(ck, "C07")
    ck.rule += "; the identity clauses are evaluated on histories whose frames are internally non-overlapping"
