"""C12 — sphere volume / surface / radius conversions are mutually consistent.

Lean: Props/C12.lean over the definitions regenerated from the current source (translator).
Correspondence: every variant of every conversion (scalar, array, make_*_compiled, *_nd_compiled,
py-pde, SphericalDroplet properties) vs. the generated definition run at Float in the driver.
Predicate on the implementation: round trips, surface = dV/dr, variants agree, arrays keep shape,
droplet setter/getter, curvature, bbox."""
from __future__ import annotations

import math
import struct

import numpy as np

from .common import Check, bits_to_float, lean_stage, rel_close, run_driver

GEN_KEYS = [
    "radius_from_volume", "radius_from_volume_compiled", "radius_from_volume_nd", "volume_from_radius_compiled",
    "volume_from_radius_nd", "volume_from_radius_pde", "surface_from_radius", "radius_from_surface",
    "surface_from_radius_compiled", "droplet_volume", "droplet_set_volume", "droplet_surface_area",
    "droplet_curvature", "droplet_bbox",
]


def sp_radius(v, d):
    import math
    return {1: v / 2, 2: math.sqrt(v / math.pi), 3: (3 * v / (4 * math.pi)) ** (1 / 3)}[d]


def fbits(x: float) -> str:
    return str(struct.unpack("<Q", struct.pack("<d", float(x)))[0])


def values(ck: Check, n: int) -> list[float]:
    vals = [0.0, 1.0, 2.0, 0.5, 1e-15, 1e15, math.pi]
    for k in range(-15, 16):
        vals.append(10.0**k)
    while len(vals) < n:
        vals.append(10 ** ck.rng.uniform(-15, 15))
    return vals[:n] if n < len(vals) else vals


def impl_table():
    """name -> callable(dim, x) running the REAL code."""
    from droplets.tools import spherical as sp
    from droplets.droplets import SphericalDroplet

    cache: dict = {}

    def compiled(factory, d):
        key = (factory.__name__, d)
        if key not in cache:
            cache[key] = factory(d)
        return cache[key]

    nd_r = sp.make_radius_from_volume_nd_compiled()
    nd_v = sp.make_volume_from_radius_nd_compiled()

    def drop(d, r):
        return SphericalDroplet(np.zeros(d), r)

    def set_volume(d, v):
        dr = drop(d, 1.0)
        dr.volume = v
        return dr.radius

    return {
        "radius_from_volume": lambda d, x: sp.radius_from_volume(x, d),
        "radius_from_volume_compiled": lambda d, x: compiled(sp.make_radius_from_volume_compiled, d)(x),
        "radius_from_volume_nd": lambda d, x: nd_r(x, d),
        "volume_from_radius_compiled": lambda d, x: compiled(sp.make_volume_from_radius_compiled, d)(x),
        "volume_from_radius_nd": lambda d, x: nd_v(x, d),
        "volume_from_radius_pde": lambda d, x: sp.volume_from_radius(x, d),
        "surface_from_radius": lambda d, x: sp.surface_from_radius(x, d),
        "radius_from_surface": lambda d, x: sp.radius_from_surface(x, d),
        "surface_from_radius_compiled": lambda d, x: compiled(sp.make_surface_from_radius_compiled, d)(x),
        "droplet_volume": lambda d, x: drop(d, x).volume,
        "droplet_set_volume": set_volume,
        "droplet_surface_area": lambda d, x: drop(d, x).surface_area,
        "droplet_curvature": lambda d, x: drop(d, x).interface_curvature,
    }


def call(f, d, x):
    try:
        return ("ok", float(f(d, x)))
    except Exception as e:  # noqa: BLE001
        return ("err", type(e).__name__)


RTOL_MODEL = 1e-13
RTOL_VARIANTS = 1e-14
RTOL_ROUNDTRIP = 1e-12


def correspond(ck: Check, n: int):
    """implementation vs generated model at Float, all variants, dims 0..4"""
    tab = impl_table()
    vals = values(ck, n)
    reqs, expect = [], []
    for name, f in tab.items():
        for d in (0, 1, 2, 3, 4):
            if name.startswith("droplet") and d == 0:
                continue  # a droplet needs a position of length >= 1
            if name == "droplet_curvature" and d != 1:
                continue
            for x in vals:
                if name == "droplet_curvature" and x == 0:
                    continue
                reqs.append(f"c12 {name} {d} {fbits(x)}")
                expect.append((name, d, x, call(f, d, x)))
    outs = run_driver(reqs)
    for (name, d, x, got), out in zip(expect, outs):
        ck.case(("corr", name, d, x))
        parts = out.split()
        ck.count(f"corr.{got[0]}")
        if got[0] == "err":
            if parts[0] != "err":
                # make_*_compiled raise at factory time, same class; droplets of dim 4 raise too
                ck.mismatch("c12-formulas", f"{name}(dim={d}, x={x!r}): impl raises {got[1]}, model {out}", {"fn": name, "dim": d, "x": x})
            elif parts[1] != got[1]:
                ck.mismatch("c12-formulas", f"{name}(dim={d}): impl raises {got[1]}, model raises {parts[1]}", {"fn": name, "dim": d, "x": x})
            continue
        if parts[0] != "ok":
            ck.mismatch("c12-formulas", f"{name}(dim={d}, x={x!r}): impl returns {got[1]!r}, model {out}", {"fn": name, "dim": d, "x": x})
            continue
        mv = bits_to_float(parts[1])
        if not rel_close(mv, got[1], RTOL_MODEL):
            ck.mismatch("c12-formulas", f"{name}(dim={d}, x={x!r}): impl {got[1]!r} vs model {mv!r}", {"fn": name, "dim": d, "x": x, "impl": got[1], "model": mv})
    # bbox
    from droplets.droplets import SphericalDroplet

    reqs, expect = [], []
    for _ in range(max(20, n // 4)):
        p, r = ck.rng.uniform(-50, 50), 10 ** ck.rng.uniform(-3, 3)
        b = SphericalDroplet(np.array([p, 0.0]), r).bbox
        reqs.append(f"c12 droplet_bbox {fbits(p)} {fbits(r)}")
        expect.append((p, r, b.bounds[0]))
    for (p, r, (lo, hi)), out in zip(expect, run_driver(reqs)):
        ck.case(("bbox", p, r))
        parts = out.split()
        # the implementation builds the box from (p - r, 2r): its upper bound (p - r) + 2r carries the rounding of the
        # operands' magnitude, not of the (possibly much smaller) result
        atol = 8e-16 * (abs(p) + abs(r))
        if parts[0] != "ok" or not (rel_close(bits_to_float(parts[1]), lo, 1e-15, atol) and rel_close(bits_to_float(parts[2]), hi, 1e-15, atol)):
            ck.mismatch("c12-formulas", f"bbox(p={p}, r={r}): impl {(lo, hi)} vs model {out}", {"fn": "droplet_bbox", "p": p, "r": r})
    ck.sample({"request": reqs[0], "impl_bbox_axis0": list(expect[0][2])})


def search(ck: Check, n: int):
    """the property itself, evaluated on the implementation"""
    from droplets.tools import spherical as sp
    from droplets.droplets import SphericalDroplet

    tab = impl_table()
    vals = [v for v in values(ck, n) if v > 0]
    rv = ["radius_from_volume", "radius_from_volume_compiled", "radius_from_volume_nd"]
    vr = ["volume_from_radius_pde", "volume_from_radius_compiled", "volume_from_radius_nd", "droplet_volume"]
    sr = ["surface_from_radius", "surface_from_radius_compiled", "droplet_surface_area"]
    for d in (1, 2, 3):
        for x in vals:
            # variants agree
            for group, label in ((rv, "radius_from_volume"), (vr, "volume_from_radius"), (sr, "surface_from_radius")):
                ref = tab[group[0]](d, x)
                for name in group[1:]:
                    ck.case(("variants", name, d, x))
                    got = tab[name](d, x)
                    if not rel_close(float(got), float(ref), RTOL_VARIANTS):
                        ck.fail(f"variants disagree: {name}(dim={d}, {x!r}) = {got!r} but {group[0]} = {ref!r}",
                                {"check": "variants_agree", "fn": name, "dim": d}, {"kind": "variants", "fn": name, "ref": group[0], "dim": d, "x": x})
            # round trips through every pairing of variants
            for a in vr:
                for b in rv:
                    ck.case(("rt_rvr", a, b, d, x))
                    back = tab[b](d, tab[a](d, x))
                    if not rel_close(float(back), x, RTOL_ROUNDTRIP):
                        ck.fail(f"radius->volume->radius via {a},{b} dim={d}: {x!r} -> {back!r}",
                                {"check": "radius_volume_roundtrip", "dim": d, "fns": [a, b]}, {"kind": "rt_rvr", "a": a, "b": b, "dim": d, "x": x})
                    ck.case(("rt_vrv", a, b, d, x))
                    back = tab[a](d, tab[b](d, x))
                    if not rel_close(float(back), x, RTOL_ROUNDTRIP):
                        ck.fail(f"volume->radius->volume via {b},{a} dim={d}: {x!r} -> {back!r}",
                                {"check": "volume_radius_roundtrip", "dim": d, "fns": [b, a]}, {"kind": "rt_vrv", "a": a, "b": b, "dim": d, "x": x})
            if d > 1:
                for a in sr:
                    ck.case(("rt_rsr", a, d, x))
                    back = sp.radius_from_surface(tab[a](d, x), d)
                    if not rel_close(float(back), x, RTOL_ROUNDTRIP):
                        ck.fail(f"radius->surface->radius via {a} dim={d}: {x!r} -> {back!r}",
                                {"check": "radius_surface_roundtrip", "dim": d, "fn": a}, {"kind": "rt_rsr", "a": a, "dim": d, "x": x})
            # surface = dV/dr (central difference; exact for the cubic up to O(h^2))
            h = x * 1e-4
            for a in vr[:3]:
                ck.case(("deriv", a, d, x))
                dv = (tab[a](d, x + h) - tab[a](d, x - h)) / (2 * h)
                s = tab["surface_from_radius"](d, x)
                if not rel_close(float(dv), float(s), 1e-6):
                    ck.fail(f"surface is not dV/dr: dim={d} r={x!r}: dV/dr={dv!r} surface={s!r}",
                            {"check": "surface_is_deriv", "dim": d, "fn": a}, {"kind": "deriv", "a": a, "dim": d, "x": x})
            # droplet setter/getter, curvature, bbox
            ck.case(("setter", d, x))
            dr = SphericalDroplet(np.arange(d, dtype=float), 1.0)
            dr.volume = x
            if not rel_close(float(dr.volume), x, RTOL_ROUNDTRIP):
                ck.fail(f"droplet.volume setter/getter dim={d}: set {x!r} read {dr.volume!r}", {"check": "droplet_volume_setter_getter", "dim": d}, {"kind": "setter", "dim": d, "x": x})
            # (the setter does not depend on the droplet's previous size: a vanished droplet - radius exactly 0 - regrows, python and numpy scalars alike)
            for start, val in ((0.0, x), (0.0, np.float64(x)), (x, x * 0.37), (1e-200, x)):
                dz = SphericalDroplet(np.arange(d, dtype=float), start)
                try:
                    dz.volume = val
                    got_v, got_r = float(dz.volume), float(dz.radius)
                except Exception as e:  # noqa: BLE001
                    got_v = got_r = f"raised {type(e).__name__}"
                ck.count("volume_setter_from_other_sizes")
                if isinstance(got_v, str) or not rel_close(got_v, float(val), RTOL_ROUNDTRIP) or not rel_close(got_r, float(sp_radius(float(val), d)), RTOL_ROUNDTRIP):
                    ck.fail(f"droplet.volume setter dim={d}: a droplet of radius {start!r} given the volume {val!r} reads volume {got_v!r}, radius {got_r!r}",
                            {"check": "droplet_volume_setter_getter", "dim": d, "from_zero": start == 0.0}, {"kind": "setter-from", "dim": d, "start": start, "x": float(val)})
            dr = SphericalDroplet(np.arange(d, dtype=float), x)
            if not rel_close(dr.interface_curvature, 1 / x, 1e-15):
                ck.fail(f"curvature of sphere r={x!r} is {dr.interface_curvature!r}", {"check": "droplet_curvature", "dim": d}, {"kind": "curv", "dim": d, "x": x})
            lo = np.arange(d) - x
            hi = np.arange(d) + x
            # (the box follows from radius and position for every droplet with a radius: also diffuse ones, whatever their width)
            from droplets.droplets import DiffuseDroplet

            for dd, nm in ((dr, "sphere"), (DiffuseDroplet(np.arange(d, dtype=float), x), "diffuse droplet (width unset)"),
                           (DiffuseDroplet(np.arange(d, dtype=float), x, 0.75 * x), "diffuse droplet (width 0.75 r)"),
                           (DiffuseDroplet(np.arange(d, dtype=float), x, 2.5), "diffuse droplet (width 2.5)")):
                bb = dd.bbox
                if not (np.allclose(bb.pos, lo, rtol=1e-15, atol=0) and np.allclose(bb.pos + bb.size, hi, rtol=1e-12, atol=1e-300)):
                    ck.fail(f"bbox of {nm} r={x!r} dim={d} is {bb}", {"check": "droplet_bbox", "dim": d}, {"kind": "bbox", "dim": d, "x": x})
    # array variants: same values element-wise, same shape (0-d, 1-d, 2-d arrays)
    arr = np.array(vals[: max(6, min(len(vals), 24))])
    shapes = [arr[0:1].reshape(()), arr, arr[: (len(arr) // 2) * 2].reshape(2, -1)]
    for d in (1, 2, 3):
        for name in ["radius_from_volume", "radius_from_volume_compiled", "radius_from_volume_nd", "volume_from_radius_pde",
                     "volume_from_radius_compiled", "volume_from_radius_nd", "surface_from_radius", "surface_from_radius_compiled"] + (["radius_from_surface"] if d > 1 else []):
            for a in shapes:
                ck.case(("array", name, d, a.shape))
                try:
                    got = np.asarray(tab[name](d, a))
                except Exception as e:  # noqa: BLE001
                    if a.ndim == 0 and "compiled" in name:
                        continue  # numba does not accept 0-d arrays for every signature; scalars are covered
                    ck.fail(f"{name}(dim={d}) raises {type(e).__name__} on array of shape {a.shape}", {"check": "array_variant", "fn": name, "dim": d}, {"kind": "array", "fn": name, "dim": d, "shape": list(a.shape)})
                    continue
                ref = np.array([tab[name](d, float(v)) for v in a.flat]).reshape(a.shape)
                if got.shape != a.shape or not np.allclose(got, ref, rtol=RTOL_VARIANTS, atol=0):
                    ck.fail(f"{name}(dim={d}) on array of shape {a.shape}: shape {got.shape}, values differ from scalar calls",
                            {"check": "array_variant", "fn": name, "dim": d}, {"kind": "array", "fn": name, "dim": d, "shape": list(a.shape)})
    # documented errors
    for f, args, exc in [(sp.radius_from_volume, (1.0, 4), NotImplementedError), (sp.surface_from_radius, (1.0, 0), NotImplementedError),
                         (sp.radius_from_surface, (1.0, 1), RuntimeError), (sp.radius_from_surface, (1.0, 5), NotImplementedError)]:
        ck.case(("error", f.__name__, args))
        try:
            f(*args)
            ck.fail(f"{f.__name__}{args} does not raise", {"check": "error_branch", "fn": f.__name__}, {"kind": "error", "fn": f.__name__, "args": list(args)})
        except exc:
            pass
        except Exception as e:  # noqa: BLE001
            ck.fail(f"{f.__name__}{args} raises {type(e).__name__}", {"check": "error_branch", "fn": f.__name__}, {"kind": "error", "fn": f.__name__, "args": list(args)})
    ck.sample({"roundtrip": "radius_from_volume(volume_from_radius(r, 3), 3)", "r": vals[3], "back": float(sp.radius_from_volume(sp.volume_from_radius(vals[3], 3), 3))})


def replay(case: dict):
    ck = Check("C12", "quick", 0)
    tab = impl_table()
    k = case.get("kind")
    d, x = case.get("dim"), case.get("x")
    if k == "variants":
        a, b = tab[case["fn"]](d, x), tab[case["ref"]](d, x)
        return rel_close(float(a), float(b), RTOL_VARIANTS), f"{case['fn']}={a!r} {case['ref']}={b!r}"
    if k == "rt_rvr":
        back = tab[case["b"]](d, tab[case["a"]](d, x))
        return rel_close(float(back), x, RTOL_ROUNDTRIP), f"{x!r} -> {back!r}"
    if k == "rt_vrv":
        back = tab[case["a"]](d, tab[case["b"]](d, x))
        return rel_close(float(back), x, RTOL_ROUNDTRIP), f"{x!r} -> {back!r}"
    search(ck, 40)
    return not ck.failures, f"{len(ck.failures)} failing cases on re-run"


def run(ck: Check):
    ck.rule = ("every conversion variant x dim 0..4 x (log-spaced 1e-15..1e15 + random) values; non-trivial = distinct "
               "(check, function, dim, value) tuples with a supported dim or an error branch")
    ck.extra_cov["gen_keys"] = GEN_KEYS
    ck.assumptions = ["theorems are over the reals; float agreement is checked to 1e-13 (model) / 1e-12 (round trips)",
                      "numba-compiled variants are called through the real factories"]
    ck.lean = lean_stage("C12", leanchecker=not ck.quick)
    n = ck.budget(45, 400)
    try:
        correspond(ck, n)
    except RuntimeError as e:
        ck.mismatch("c12-formulas", f"driver unavailable: {e}", {})
    search(ck, n)
    if (not ck.lean.ok or ck.mismatches) and not ck.failures:
        search(ck, 1500)  # deeper failing-input search after a broken obligation
