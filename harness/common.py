"""Shared plumbing of the checks: Lean stage (translator, build, audit), line-protocol driver,
known findings, replays, evidence.  See DESIGN.md §2.4 for the reporting rules."""
from __future__ import annotations

import fcntl
import json
import math
import os
import random
import re
import subprocess
import sys
import time
import traceback
from fractions import Fraction
from pathlib import Path

VERIF = Path(__file__).resolve().parent.parent
LEAN = VERIF / "lean"
REPO = Path(os.environ.get("VERIF_REPO", "/repo"))
PY = "/venv/bin/python"
ALLOWED_AXIOMS = {"propext", "Classical.choice", "Quot.sound"}
FORBIDDEN = re.compile(
    r"\b(sorry|admit|native_decide|bv_decide|implemented_by|unsafe)\b|^\s*axiom\s|maxHeartbeats\s+0", re.M
)

TRUSTED_BASE = [
    "Lean 4.33 kernel (lake build; leanchecker re-check in the thorough tier)",
    "axioms: at most propext, Classical.choice, Quot.sound (audited by #print axioms on every property theorem each run); no native_decide / bv_decide / sorry",
    "tools/py2lean.py: the Lean term emitted for a Python expression denotes its real-number reading (monitored: the same generated definitions run at Float in the driver and are compared with the Python functions)",
    "harness generators, canonicalisation and tolerances: agreement model<->implementation is established on the generated inputs only",
    "real-vs-IEEE gap: theorems about formulas are over the reals; the implementation computes in double precision",
    "external libraries (numpy, scipy, numba, h5py, py-pde, concurrent.futures) enter the models as parameters with contracts monitored at run time",
]


# ----------------------------------------------------------------------------------------
# small helpers
# ----------------------------------------------------------------------------------------


def strip_lean_comments(src: str) -> str:
    out, i, depth, n = [], 0, 0, len(src)
    while i < n:
        if src.startswith("/-", i):
            depth += 1
            i += 2
        elif depth and src.startswith("-/", i):
            depth -= 1
            i += 2
        elif depth:
            if src[i] == "\n":
                out.append("\n")
            i += 1
        elif src.startswith("--", i):
            while i < n and src[i] != "\n":
                i += 1
        else:
            out.append(src[i])
            i += 1
    return "".join(out)


def frac(x) -> Fraction:
    """exact rational value of a Python/numpy float or int"""
    if isinstance(x, Fraction):
        return x
    if isinstance(x, int):
        return Fraction(x)
    return Fraction(*float(x).as_integer_ratio())


def q(x) -> str:
    """protocol encoding of an exact rational"""
    f = frac(x)
    return f"{f.numerator}/{f.denominator}"


def jsonable(x):
    import numpy as np

    if isinstance(x, dict):
        return {str(k): jsonable(v) for k, v in x.items()}
    if isinstance(x, (list, tuple)):
        return [jsonable(v) for v in x]
    if isinstance(x, np.ndarray):
        return jsonable(x.tolist())
    if isinstance(x, (np.integer,)):
        return int(x)
    if isinstance(x, (np.floating,)):
        return float(x)
    if isinstance(x, (np.bool_,)):
        return bool(x)
    if isinstance(x, Fraction):
        return f"{x.numerator}/{x.denominator}"
    if isinstance(x, float) and (x != x or x in (float("inf"), float("-inf"))):
        return repr(x)
    return x


# ----------------------------------------------------------------------------------------
# Lean stage
# ----------------------------------------------------------------------------------------


class LeanResult:
    def __init__(self):
        self.ok = False
        self.theorems: list[str] = []  # fully qualified names of the property theorems
        self.axioms: dict[str, list[str]] = {}
        self.broken: list[str] = []  # theorem names / module names that no longer check
        self.errors: list[str] = []
        self.untranslated: dict = {}
        self.forbidden: list[str] = []
        self.build_s = 0.0
        self.checker_cmd = ""
        self.gen_manifest: dict = {}

    @property
    def obligations(self) -> int:
        return max(len(self.theorems), 1)

    @property
    def discharged(self) -> int:
        if not self.theorems:
            return 0
        bad = set(self.broken)
        return sum(
            1
            for t in self.theorems
            if t not in bad and t in self.axioms and set(self.axioms[t]) <= ALLOWED_AXIOMS
        ) if self.ok or self.axioms else 0


def _props_theorems(props_file: Path) -> list[tuple[str, int]]:
    src = props_file.read_text()
    ns = ""
    m = re.search(r"^namespace\s+(\S+)", src, re.M)
    if m:
        ns = m.group(1) + "."
    res = []
    clean = strip_lean_comments(src)
    for i, line in enumerate(clean.split("\n"), 1):
        m = re.match(r"\s*theorem\s+(\S+)", line)
        if m:
            res.append((ns + m.group(1), i))
    return res


def lean_stage(pid: str, extra_modules: list[str] | None = None, leanchecker: bool = False) -> LeanResult:
    """Regenerate Generated/*.lean from /repo, build the property's proof module and the driver,
    audit axioms.  Serialised by a file lock (several checks may run concurrently)."""
    res = LeanResult()
    t0 = time.time()
    props_mod = f"DropletsVerif.Props.{pid}"
    props_file = LEAN / "DropletsVerif" / "Props" / f"{pid}.lean"
    modules = [props_mod] + list(extra_modules or [])
    res.checker_cmd = f"cd lean && lake build {' '.join(modules)} driver && lake env lean .lake/audit/{pid}.lean"
    lock = open(LEAN / ".verif.lock", "w")
    fcntl.flock(lock, fcntl.LOCK_EX)
    try:
        # 1. translator
        p = subprocess.run([PY, str(VERIF / "tools" / "py2lean.py")], capture_output=True, text=True, timeout=300)
        if p.returncode != 0:
            res.errors.append("translator crashed: " + p.stderr[-2000:])
            res.broken.append("tools/py2lean.py")
        else:
            try:
                info = json.loads(p.stdout.strip().splitlines()[-1])
                res.untranslated = info.get("untranslated", {})
            except Exception:
                res.errors.append("translator output unreadable")
        try:
            res.gen_manifest = json.loads((LEAN / "DropletsVerif" / "Generated" / "MANIFEST.json").read_text())
        except Exception:
            res.gen_manifest = {}
        # 2. forbidden tokens
        for f in list((LEAN / "DropletsVerif").rglob("*.lean")) + [LEAN / "Main.lean"]:
            for m in FORBIDDEN.finditer(strip_lean_comments(f.read_text())):
                res.forbidden.append(f"{f.relative_to(LEAN)}: {m.group(0).strip()}")
        # 3. build
        thms = _props_theorems(props_file) if props_file.exists() else []
        res.theorems = [t for t, _ in thms]
        p = subprocess.run(
            ["lake", "build", *modules, "driver"], cwd=LEAN, capture_output=True, text=True, timeout=3000
        )
        out = p.stdout + p.stderr
        build_ok = p.returncode == 0
        if not build_ok:
            for m in re.finditer(r"error: (\S+?\.lean):(\d+):(\d+): (.*)", out):
                f, line, _, msg = m.group(1), int(m.group(2)), m.group(3), m.group(4)
                res.errors.append(f"{f}:{line}: {msg[:300]}")
                if f.endswith(f"Props/{pid}.lean"):
                    name = None
                    for t, l in thms:
                        if l <= line:
                            name = t
                    if name and name not in res.broken:
                        res.broken.append(name)
                else:
                    tag = f.replace("DropletsVerif/", "").replace(".lean", "")
                    if tag not in res.broken:
                        res.broken.append(tag)
            if not res.broken:
                res.broken.append(props_mod)
                res.errors.append(out[-1500:])
        # 4. audit (only meaningful when the module built)
        if build_ok and res.theorems:
            adir = LEAN / ".lake" / "audit"
            adir.mkdir(parents=True, exist_ok=True)
            afile = adir / f"{pid}.lean"
            afile.write_text(
                f"import {props_mod}\n" + "".join(f"#print axioms {t}\n" for t in res.theorems)
            )
            p2 = subprocess.run(
                ["lake", "env", "lean", str(afile)], cwd=LEAN, capture_output=True, text=True, timeout=1200
            )
            txt = p2.stdout + p2.stderr
            for m in re.finditer(r"'([^']+)' depends on axioms: \[([^\]]*)\]", txt):
                res.axioms[m.group(1)] = [a.strip() for a in m.group(2).replace("\n", " ").split(",") if a.strip()]
            for m in re.finditer(r"'([^']+)' does not depend on any axioms", txt):
                res.axioms[m.group(1)] = []
            for t in res.theorems:
                if t not in res.axioms:
                    res.broken.append(t)
                    res.errors.append(f"audit: no axiom report for {t}")
                elif not set(res.axioms[t]) <= ALLOWED_AXIOMS:
                    res.broken.append(t)
                    res.errors.append(f"audit: {t} uses {res.axioms[t]}")
        if leanchecker and build_ok:
            p3 = subprocess.run(
                ["lake", "env", "leanchecker", props_mod], cwd=LEAN, capture_output=True, text=True, timeout=3000
            )
            res.checker_cmd += f" && lake env leanchecker {props_mod}"
            if p3.returncode != 0:
                res.broken.append("leanchecker:" + props_mod)
                res.errors.append("leanchecker: " + (p3.stdout + p3.stderr)[-800:])
        if res.forbidden:
            res.broken.append("forbidden-token")
            res.errors.extend(res.forbidden)
        res.ok = build_ok and not res.broken
    finally:
        res.build_s = time.time() - t0
        fcntl.flock(lock, fcntl.LOCK_UN)
        lock.close()
    return res


# ----------------------------------------------------------------------------------------
# driver
# ----------------------------------------------------------------------------------------


def run_driver(lines: list[str], timeout: int = 3000) -> list[str]:
    """Pipe protocol lines through the compiled Lean driver; one output line per input line."""
    exe = LEAN / ".lake" / "build" / "bin" / "driver"
    if not exe.exists():
        raise RuntimeError("driver executable missing (Lean build failed)")
    data = "\n".join(lines) + "\n"
    p = subprocess.run([str(exe)], input=data, capture_output=True, text=True, timeout=timeout)
    if p.returncode != 0:
        raise RuntimeError("driver failed: " + p.stderr[-500:])
    out = p.stdout.split("\n")
    if out and out[-1] == "":
        out.pop()
    if len(out) != len(lines):
        raise RuntimeError(f"driver answered {len(out)} lines for {len(lines)} requests")
    return out


def bits_to_float(s: str) -> float:
    import struct

    return struct.unpack("<d", struct.pack("<Q", int(s)))[0]


# ----------------------------------------------------------------------------------------
# known findings
# ----------------------------------------------------------------------------------------


def load_known() -> list[dict]:
    f = VERIF / "known_findings.json"
    if not f.exists():
        return []
    return json.loads(f.read_text()).get("findings", [])


def match_known(pid: str, signature: dict) -> dict | None:
    for e in load_known():
        if e.get("property") != pid or e.get("status") != "known":
            continue
        if all(signature.get(k) == v for k, v in e.get("match", {}).items()):
            return e
    return None


# ----------------------------------------------------------------------------------------
# the check object
# ----------------------------------------------------------------------------------------


class Check:
    def __init__(self, pid: str, tier: str, seed: int, level: str = "proof"):
        self.pid, self.tier, self.seed, self.level = pid, tier, seed, level
        self.t0 = time.time()
        self.rng = random.Random(f"{pid}:{seed}")
        self.evaluations = 0
        self.nontrivial: set = set()
        self.samples: list = []
        self.stats: dict = {}
        self.failures: list[dict] = []  # {signature, what, case}
        self.mismatches: list[dict] = []  # correspondence disagreements
        self.lean: LeanResult | None = None
        self.rule = ""
        self.assumptions: list[str] = []
        self.extra_cov: dict = {}
        self.exhaustive = False
        self.explanation = ""

    # -- bookkeeping ------------------------------------------------------------------
    def count(self, key: str, n: int = 1):
        self.stats[key] = self.stats.get(key, 0) + n

    def case(self, key=None, nontrivial: bool = True):
        self.evaluations += 1
        if nontrivial and key is not None:
            self.nontrivial.add(key if isinstance(key, (str, int, tuple)) else json.dumps(jsonable(key), sort_keys=True))

    def sample(self, s, limit: int = 6):
        if len(self.samples) < limit:
            self.samples.append(jsonable(s))

    def fail(self, what: str, signature: dict, case: dict):
        self.failures.append({"what": what, "signature": jsonable(signature), "case": jsonable(case)})

    def mismatch(self, stream: str, what: str, case: dict):
        self.mismatches.append({"stream": stream, "what": what, "case": jsonable(case)})

    @property
    def quick(self) -> bool:
        return self.tier == "quick"

    def budget(self, quick: int, thorough: int) -> int:
        if self.quick and getattr(self, "deep", False):
            # the modelled source changed (harness/main.py): a deeper stream in the quick tier
            return max(quick, min(thorough, 2 * quick))
        return quick if self.quick else thorough

    # -- reporting --------------------------------------------------------------------
    def finish(self) -> int:
        pid = self.pid
        rdir = VERIF / "replays" / pid
        lines: list[str] = []
        violations = 0
        seen_known: set = set()
        seen_sig: set = set()
        for i, f in enumerate(self.failures):
            k = match_known(pid, f["signature"])
            if k is not None:
                tag = json.dumps(k.get("match"), sort_keys=True)
                if tag not in seen_known:
                    seen_known.add(tag)
                    lines.append(f"KNOWN-FINDING: property={pid} {k.get('what', f['what'])}")
                continue
            sig = json.dumps(f["signature"], sort_keys=True)
            if sig in seen_sig:
                continue
            seen_sig.add(sig)
            if len(seen_sig) > 5:
                continue  # further distinct failures are counted in the evidence only
            rdir.mkdir(parents=True, exist_ok=True)
            path = rdir / f"{self.tier}_seed{self.seed}_{len(seen_sig)}.json"
            path.write_text(json.dumps({"property": pid, "kind": "failing-input", **f}, indent=1))
            lines.append(f"VIOLATION property={pid} replay={path}")
            print(f"  failing input: {f['what']}", file=sys.stderr)
            violations += 1
        broken = []
        if self.lean is not None and not self.lean.ok:
            broken += [f"theorem/obligation no longer checks: {b}" for b in self.lean.broken]
        if self.mismatches:
            broken += [f"correspondence stream '{m['stream']}' diverges: {m['what']}" for m in self.mismatches[:5]]
        if broken and violations == 0:
            rdir.mkdir(parents=True, exist_ok=True)
            path = rdir / f"{self.tier}_seed{self.seed}_unproved.json"
            path.write_text(
                json.dumps(
                    {
                        "property": pid,
                        "kind": "obligation-broken",
                        "broken": broken,
                        "lean_errors": self.lean.errors[:20] if self.lean else [],
                        "untranslated": self.lean.untranslated if self.lean else {},
                        "first_mismatches": self.mismatches[:5],
                        "note": "the failing-input search on the implementation and on the model found no concrete input on which the property fails; the property is no longer shown to hold",
                    },
                    indent=1,
                )
            )
            lines.append(f"VIOLATION property={pid} replay={path} no-failing-input-found")
            violations += 1
        elif broken:
            for b in broken[:10]:
                print("  also broken: " + b, file=sys.stderr)
        self.write_evidence(violations)
        for l in lines:
            print(l)
        if violations == 0:
            print(f"OK property={pid} tier={self.tier} seed={self.seed} evaluations={self.evaluations} "
                  f"theorems={self.lean.discharged if self.lean else 0}/{self.lean.obligations if self.lean else 0} "
                  f"wall={time.time() - self.t0:.1f}s")
        return 1 if violations else 0

    def write_evidence(self, violations: int):
        cov: dict = {
            "evaluations": int(self.evaluations),
            "distinct_nontrivial": len(self.nontrivial),
            "rule": self.rule,
            "samples": self.samples[:8] or [{"note": "no sample recorded"}],
            "exhaustive": bool(self.exhaustive),
            "stats": jsonable(self.stats),
            "correspondence_mismatches": len(self.mismatches),
        }
        if self.lean is not None:
            cov.update(
                {
                    "obligations": self.lean.obligations,
                    "discharged": self.lean.discharged,
                    "checker_cmd": self.lean.checker_cmd,
                    "trusted_base": TRUSTED_BASE,
                    "theorems": {t: self.lean.axioms.get(t, "NOT-CHECKED") for t in self.lean.theorems},
                    "broken": self.lean.broken,
                    "lean_build_s": round(self.lean.build_s, 1),
                    "generated_from": {
                        k: v for k, v in self.lean.gen_manifest.items() if k in self.extra_cov.get("gen_keys", [])
                    },
                    "untranslated": self.lean.untranslated,
                }
            )
        if getattr(self, "modelled", None):
            cov["modelled_sources"] = source_fingerprints(self.modelled)
            cov["modelled_sources_changed_since_validation"] = getattr(self, "changed_sources", [])
        if self.explanation:
            cov["explanation"] = self.explanation
        cov.update({k: v for k, v in self.extra_cov.items() if k != "gen_keys"})
        ev = {
            "property_id": self.pid,
            "tier": self.tier,
            "seed": int(self.seed),
            "level": self.level,
            "coverage": jsonable(cov),
            "assumptions": self.assumptions,
            "wall_s": round(time.time() - self.t0, 2),
            "violations": violations,
        }
        (VERIF / "evidence").mkdir(exist_ok=True)
        (VERIF / "evidence" / f"{self.pid}.json").write_text(json.dumps(ev, indent=1))


def source_fingerprints(names: list[str]) -> dict:
    """sha256 of the CURRENT source of the functions / classes a hand-written model mirrors (recorded in the evidence:
    which version of the code the correspondence was established against)"""
    import hashlib
    import importlib
    import inspect

    out = {}
    for name in names:
        try:
            parts = name.split(".")
            obj = None
            for k in range(len(parts), 0, -1):
                try:
                    obj = importlib.import_module(".".join(parts[:k]))
                    rest = parts[k:]
                    break
                except ImportError:
                    continue
            for a in rest:
                obj = getattr(obj, a)
            obj = getattr(obj, "fget", obj)
            out[name] = hashlib.sha256(inspect.getsource(obj).encode()).hexdigest()[:16]
        except Exception as e:  # noqa: BLE001
            out[name] = f"unavailable ({type(e).__name__})"
    return out


def rel_close(a: float, b: float, rtol: float, atol: float = 0.0) -> bool:
    if a != a and b != b:
        return True
    if a == b:
        return True
    if a in (math.inf, -math.inf) or b in (math.inf, -math.inf):
        return False  # (inf <= rtol * inf would accept an infinite value for any finite one)
    return abs(a - b) <= atol + rtol * max(abs(a), abs(b))
