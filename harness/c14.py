"""C14 — tracking during a simulation equals analysing the stored fields afterwards.

Lean: Model/Tracker.lean + Props/C14.lean (online = offline for EVERY analysis function; all
options forwarded; the length-scale tracker is total and records value-or-NaN).
Correspondence: (i) `locate_droplets` / `get_length_scale` replaced by recording stubs (patched on
the module the trackers import from): the keyword arguments received must equal the model's
`optsOf` for every settings combination, and the recorded sequence (incl. a raising analysis) must
equal the model run; (ii) end-to-end without stubs against `EmulsionTimeCourse.from_storage` on a
`MemoryStorage` of the same fields; file written by `finalize` reads back equal; (iii) thorough:
real solver runs with both trackers and a storage tracker on the same interrupts."""
from __future__ import annotations

import itertools
import json
import math
import os
import tempfile

import numpy as np

from .common import Check, lean_stage, q, run_driver


def etc_key(etc):
    return [(float(t), [(type(d).__name__, d.data.tobytes()) for d in e]) for t, e in zip(etc.times, etc.emulsions)]


def tok(x) -> str:
    return repr(x).replace(" ", "")


# ---------------------------------------------------------------------------------------
# (i) stubs: option forwarding and sequencing
# ---------------------------------------------------------------------------------------

def stub_stream(ck: Check):
    import droplets.image_analysis as ia
    from pde import ScalarField, UnitGrid
    from droplets.droplets import SphericalDroplet
    from droplets.emulsions import Emulsion
    from droplets.trackers import DropletTracker, LengthScaleTracker

    field = ScalarField(UnitGrid([4]), 0.0)
    reqs, expect = [], []
    thresholds = [0.5, 0.25, "auto", "extrema", "mean", "otsu"]
    minrs = [0, 1.5]
    refines = [False, True]
    rargs = [None, {"vmin": None, "vmax": None}]
    modes = [0, 2, 5]
    orig = ia.locate_droplets
    try:
        for thr, mr, rf, ra, md in itertools.product(thresholds, minrs, refines, rargs, modes):
            calls = []

            def stub(phase_field, *a, **kw):
                calls.append((phase_field, a, dict(kw)))
                return Emulsion([SphericalDroplet([float(len(calls))], 1.0)])

            ia.locate_droplets = stub
            tr = DropletTracker(1, threshold=thr, minimal_radius=mr, refine=rf, refine_args=ra, perturbation_modes=md)
            tr.handle(field, 0.5)
            tr.handle(field, 1.5)
            case = {"threshold": thr, "minimal_radius": mr, "refine": rf, "refine_args": ra, "perturbation_modes": md}
            ck.case(("opts", tok(thr), mr, rf, tok(ra), md))
            want = {"threshold": thr, "minimal_radius": mr, "refine": rf, "refine_args": ra, "modes": md}
            for (pf, a, kw) in calls:
                if a or kw != want or pf is not field:
                    ck.fail(f"tracker called locate_droplets with {kw} (positional {a}); settings were {case}",
                            {"check": "optsOf_forwards_all", "diff": sorted(k for k in set(kw) | set(want) if kw.get(k, '<missing>') != want.get(k, '<missing>'))}, case)
                    break
            if len(calls) != 2 or list(tr.data.times) != [0.5, 1.5] or [e[0].position[0] for e in tr.data.emulsions] != [1.0, 2.0]:
                ck.fail("tracker did not record one emulsion per handled frame with its time", {"check": "tracker_eq_offline"}, case)
            reqs.append(f"c14 optsof {tok(thr)} {tok(mr)} {int(rf)} {tok(ra)} {md}")
            got_kw = calls[0][2] if calls else {}
            expect.append((case, "threshold={} minimal_radius={} refine={} refine_args={} modes={}".format(
                tok(got_kw.get("threshold", "<missing>")), tok(got_kw.get("minimal_radius", "<missing>")), int(bool(got_kw.get("refine", False))),
                tok(got_kw.get("refine_args", "<missing>")), got_kw.get("modes", "<missing>"))))
        # sequencing incl. an analysis that raises at some frame: the tracker has no guard
        rng = ck.rng
        for _ in range(60):
            n = rng.randint(0, 8)
            fail_at = rng.choice([None, None, rng.randrange(n)]) if n else None
            # time axes may start negative and pass through exactly 0 (a falsy time stamp)
            times = sorted({round(rng.uniform(-6, 10), 3) for _ in range(n)} | ({0.0} if n and rng.random() < 0.5 else set()))
            n = len(times)
            if fail_at is not None and fail_at >= n:
                fail_at = None
            count = [0]

            def stub2(phase_field, **kw):
                i = count[0]
                count[0] += 1
                if i == fail_at:
                    raise ValueError("boom")
                return Emulsion([SphericalDroplet([float(i)], 1.0)])

            ia.locate_droplets = stub2
            tr = DropletTracker(1)
            outcome = "ok"
            for t in times:
                try:
                    tr.handle(field, t)
                except ValueError:
                    outcome = "err ValueError"
                    break
            ck.case(("seq", tuple(times), fail_at))
            toks = []
            for i, t in enumerate(times):
                toks += [("!ValueError" if i == fail_at else f"e{i}"), q(t)]
            reqs.append("c14 run " + " ".join(toks))
            if outcome == "ok":
                outcome = "ok " + " ".join(f"{q(t)}:e{int(e[0].position[0])}" for t, e in zip(tr.data.times, tr.data.emulsions))
            expect.append(({"times": times, "fail_at": fail_at}, outcome.strip()))
    finally:
        ia.locate_droplets = orig
    # length-scale tracker with a stubbed analysis (values, exceptions of several kinds)
    orig_ls = ia.get_length_scale
    try:
        for _ in range(60):
            n = ck.rng.randint(0, 8)
            plan = [ck.rng.choice(["v", "v", "ValueError", "ZeroDivisionError", "RuntimeError", "IndexError", "KeyError", "AttributeError", "TypeError",
                                   "NotImplementedError", "AssertionError", "FloatingPointError", "Custom"]) for _ in range(n)]
            vals = [round(ck.rng.uniform(0.1, 9), 3) for _ in range(n)]
            t0 = rng.choice([0.0, -1.0, -1.5, 2.0])
            times = [t0 + float(i) * 0.5 for i in range(n)]
            k = [0]
            seen_method = []

            def stub3(scalar_field, method="structure_factor_maximum", **kw):
                i = k[0]
                k[0] += 1
                seen_method.append((method, kw))
                if plan[i] != "v":
                    class _Custom(Exception):
                        pass

                    raise {"ValueError": ValueError, "ZeroDivisionError": ZeroDivisionError, "RuntimeError": RuntimeError, "IndexError": IndexError,
                           "KeyError": KeyError, "AttributeError": AttributeError, "TypeError": TypeError, "NotImplementedError": NotImplementedError,
                           "AssertionError": AssertionError, "FloatingPointError": FloatingPointError, "Custom": _Custom}[plan[i]]("x")
                return vals[i]

            ia.get_length_scale = stub3
            method = ck.rng.choice(["structure_factor_mean", "structure_factor_maximum", "droplet_detection"])
            tr = LengthScaleTracker(1, method=method, verbose=False)
            ck.case(("ls", tuple(plan), tuple(vals), method))
            raised = None
            for t in times:
                try:
                    tr.handle(field, t)
                except Exception as e:  # noqa: BLE001
                    raised = type(e).__name__
                    break
            case = {"plan": plan, "values": vals, "method": method}
            if raised:
                ck.fail(f"LengthScaleTracker.handle raised {raised}", {"check": "lengthscale_records_all"}, case)
                continue
            want = [v if p == "v" else math.nan for p, v in zip(plan, vals)]
            same = len(tr.length_scales) == n and all((a == b) or (a != a and b != b) for a, b in zip(tr.length_scales, want))
            if not same or list(tr.times) != times or any(m != (method, {}) for m in seen_method):
                ck.fail(f"LengthScaleTracker recorded {tr.length_scales} at {tr.times}; analysis returned {want} (method seen {seen_method[:1]})", {"check": "lengthscale_records_all"}, case)
            toks = []
            for p, v, t in zip(plan, vals, times):
                toks += [(f"!{p}" if p != "v" else q(v)), q(t)]
            reqs.append(("c14 ls " + " ".join(toks)).strip())
            expect.append((case, ("ok " + " ".join(f"{q(t)}:{'nan' if l != l else q(l)}" for t, l in zip(tr.times, tr.length_scales))).strip()))
        # source selection: single fields and collections, source None / integer (0 included) / callable
        from pde import FieldCollection, ScalarField as _SF, UnitGrid as _UG

        g1 = _UG([4])
        for ncomp in (1, 2, 3):
            for src_name in ["none", "func"] + [str(k) for k in range(ncomp)]:
                for coll in (False, True):
                    if not coll and ncomp != 1:
                        continue
                    state = FieldCollection([_SF(g1, float(k)) for k in range(ncomp)]) if coll else _SF(g1, 0.0)
                    source = None if src_name == "none" else ((lambda fs: fs[-1] if isinstance(fs, FieldCollection) else fs) if src_name == "func" else int(src_name))
                    got_field = []

                    def stub4(scalar_field, method="structure_factor_maximum", **kw):
                        got_field.append(scalar_field)
                        return 1.25

                    ia.get_length_scale = stub4
                    tr = LengthScaleTracker(1, source=source)
                    ck.case(("ls-source", ncomp, src_name, coll))
                    ck.count("ls_source_selection")
                    case = {"kind": "ls-source", "components": ncomp, "source": src_name, "collection": coll}
                    try:
                        tr.handle(state, 0.0)
                        if len(got_field) != 1 or isinstance(got_field[0], FieldCollection):
                            impl = "err not-a-single-field"
                        else:
                            impl = f"ok {int(got_field[0].data[0])}"
                            if tr.length_scales != [1.25] or tr.times != [0.0]:
                                ck.fail(f"LengthScaleTracker(source={src_name}) recorded {tr.length_scales} instead of the value the analysis returned for the selected field",
                                        {"check": "lengthscale_records_selected"}, case)
                    except Exception as e:  # noqa: BLE001
                        impl = "err " + type(e).__name__
                    if impl.startswith("ok") is False and not (src_name == "none" and coll) and not (src_name.isdigit() and not coll):
                        ck.fail(f"LengthScaleTracker(source={src_name}) on a {'collection' if coll else 'single field'}: {impl}", {"check": "lengthscale_records_selected"}, case)
                    reqs.append(f"c14 extract {src_name} {int(coll)} {ncomp}")
                    expect.append((case, impl))
    finally:
        ia.get_length_scale = orig_ls
    outs = run_driver(reqs)
    for (case, want), out in zip(expect, outs):
        if out.strip() != want:
            ck.mismatch("c14-tracker", f"impl '{want}' vs model '{out}'", case)
    ck.sample({"stub_settings": {"threshold": "otsu", "minimal_radius": 1.5, "refine": True, "refine_args": {"vmin": None, "vmax": None}, "perturbation_modes": 5},
               "kwargs_seen_by_locate_droplets": "threshold='otsu', minimal_radius=1.5, refine=True, refine_args={...}, modes=5"})


# ---------------------------------------------------------------------------------------
# (ii) end-to-end against from_storage
# ---------------------------------------------------------------------------------------

def end_to_end(ck: Check, n_cases: int):
    from pde import CartesianGrid, MemoryStorage, ScalarField
    from droplets.droplets import DiffuseDroplet
    from droplets.emulsions import Emulsion, EmulsionTimeCourse
    from droplets.trackers import DropletTracker, LengthScaleTracker
    from droplets.image_analysis import get_length_scale

    rng = ck.rng
    for _ in range(n_cases):
        dim = rng.choice([1, 2, 2])
        n = 16
        grid = CartesianGrid([[0, n]] * dim, [n] * dim, periodic=[rng.random() < 0.5] * dim)
        nfr = rng.randint(0, 6)
        fields, times = [], []
        t = rng.choice([0.0, 2.5, -1.5, -2.0, -0.5, -4.5])  # negative starts: the axis passes through exactly 0 at a later frame
        for _f in range(nfr):
            k = rng.choice([0, 1, 1, 2])
            drops = []
            for j in range(k):
                c = [n * (j + 0.5) / k + rng.uniform(-1, 1) if a == 0 else n / 2 + rng.uniform(-2, 2) for a in range(dim)]
                drops.append(DiffuseDroplet(np.array(c), rng.uniform(2.2, 3.2), 1.0))
            f = Emulsion(drops).get_phasefield(grid) if drops else ScalarField(grid, 0.0)
            if rng.random() < 0.3:
                f = f + 0.02 * np.sin(np.arange(f.data.size).reshape(f.data.shape))
            fields.append(f)
            times.append(t)
            t += rng.choice([1.0, 0.5, 2.25])
        order = rng.choice(["increasing", "increasing", "restarted", "decreasing"])
        if order == "restarted" and nfr >= 3:
            # the same tracker / time course used for a second run: the time axis starts again
            times = times[: nfr // 2 + 1] + times[: nfr - nfr // 2 - 1]
        elif order == "decreasing":
            times = times[::-1]
        ck.count("e2e_time_axis." + order)
        settings = dict(threshold=rng.choice([0.5, "auto", "mean", "otsu"]), minimal_radius=rng.choice([0, 1.0, 2.7]),
                        refine=rng.random() < 0.35, refine_args=rng.choice([None, {"tolerance": 1e-6}]),
                        perturbation_modes=rng.choice([0, 0, 2]) if dim == 2 else 0)
        case = {"dim": dim, "frames": nfr, "times": times, "settings": {k: tok(v) for k, v in settings.items()}}
        sig = {"dim": dim, "refine": settings["refine"]}
        ck.case(("e2e", dim, tuple(times), tuple(f.data.tobytes() for f in fields), tok(settings)), nontrivial=nfr >= 2)
        ck.count("e2e_cases")
        tmp = tempfile.mkdtemp(prefix="verif-c14-")
        # (the output file name is reused from case to case, as a user with one fixed output name would: the file left by an
        # earlier - possibly longer - run is written over; every third case starts from a fresh file)
        path = os.path.join(tempfile.gettempdir(), f"verif-c14-tracker-{os.getpid()}.hdf5")
        if ck.stats.get("e2e_cases", 0) % 3 == 0 and os.path.exists(path):
            os.remove(path)
        ck.count("e2e_output_file." + ("written_over" if os.path.exists(path) else "fresh"))
        tr = DropletTracker(1, filename=path, **settings)
        err_on = err_off = None
        try:
            for f, tt in zip(fields, times):
                tr.handle(f, tt)
        except Exception as e:  # noqa: BLE001
            err_on = type(e).__name__
        storage = MemoryStorage()
        storage.start_writing(ScalarField(grid))
        for f, tt in zip(fields, times):
            storage.append(f, tt)
        try:
            off = EmulsionTimeCourse.from_storage(storage, progress=False, threshold=settings["threshold"], minimal_radius=settings["minimal_radius"],
                                                  refine=settings["refine"], refine_args=settings["refine_args"], modes=settings["perturbation_modes"])
        except Exception as e:  # noqa: BLE001
            err_off = type(e).__name__
        if err_on or err_off:
            if err_on != err_off:
                ck.fail(f"online analysis: {err_on}, offline analysis: {err_off}", {**sig, "check": "tracker_eq_offline"}, case)
            continue
        if etc_key(tr.data) != etc_key(off) or not (tr.data == off):
            ck.fail("recorded time course differs from the offline analysis of the same fields", {**sig, "check": "tracker_eq_offline"}, case)
        # file written at the end reads back equal
        tr.finalize()
        back = EmulsionTimeCourse.from_file(path, progress=False)
        if etc_key(back) != etc_key(tr.data):
            ck.fail("file written by finalize() does not read back equal" + (f" ({len(back)} frames read, {len(tr.data)} recorded)" if len(back) != len(tr.data) else ""),
                    {**sig, "check": "file_roundtrip"}, case)
        # length-scale tracker on the same frames, real analysis
        method = rng.choice(["structure_factor_mean", "structure_factor_maximum", "droplet_detection"])
        jpath = os.path.join(tmp, "ls.json")
        ls = LengthScaleTracker(1, filename=jpath, method=method)
        raised = None
        for f, tt in zip(fields, times):
            try:
                ls.handle(f, tt)
            except Exception as e:  # noqa: BLE001
                raised = type(e).__name__
                break
        if raised:
            ck.fail(f"LengthScaleTracker.handle raised {raised}", {**sig, "check": "lengthscale_records_all", "method": method}, case)
        else:
            want = []
            for f in fields:
                try:
                    want.append(float(get_length_scale(f, method=method)))
                except Exception:  # noqa: BLE001
                    want.append(math.nan)
            got = [float(x) for x in ls.length_scales]
            if len(got) != len(want) or any(not ((a == b) or (a != a and b != b)) for a, b in zip(got, want)) or list(ls.times) != times:
                ck.fail(f"length scales recorded {got} but the analysis returns {want}", {**sig, "check": "lengthscale_records_all", "method": method}, case)
            ls.finalize()
            data = json.load(open(jpath))
            if data["times"] != times or any(not ((a == b) or (a != a and b != b)) for a, b in zip(data["length_scales"], got)):
                ck.fail("JSON written by LengthScaleTracker.finalize differs from the recorded data", {**sig, "check": "ls_file"}, case)
            os.remove(jpath)
        os.rmdir(tmp)
        if len(ck.samples) < 3 and nfr >= 3:
            ck.sample(case)
    leftover = os.path.join(tempfile.gettempdir(), f"verif-c14-tracker-{os.getpid()}.hdf5")
    if os.path.exists(leftover):
        os.remove(leftover)


def solver_runs(ck: Check, n: int):
    """(iii) real simulations: droplet tracker vs. a storage tracker on the same interrupts"""
    from pde import CahnHilliardPDE, MemoryStorage, ScalarField, UnitGrid
    from droplets.emulsions import EmulsionTimeCourse
    from droplets.trackers import DropletTracker, LengthScaleTracker

    for k in range(n):
        grid = UnitGrid([24, 24], periodic=ck.rng.random() < 0.5)
        field = ScalarField.random_uniform(grid, -1, 1, rng=np.random.default_rng(ck.rng.randrange(10**6)))
        storage = MemoryStorage()
        settings = dict(threshold=ck.rng.choice([0.0, "auto"]), minimal_radius=ck.rng.choice([0, 1.0]))
        dt = DropletTracker(1.0, **settings)
        lt = LengthScaleTracker(1.0, method="structure_factor_mean")
        CahnHilliardPDE().solve(field, t_range=4.0, dt=0.01, backend="numpy", tracker=[dt, lt, storage.tracker(1.0)])
        off = EmulsionTimeCourse.from_storage(storage, **settings)
        ck.case(("solver", k))
        ck.count("solver_runs")
        if etc_key(dt.data) != etc_key(off):
            ck.fail("tracker data differs from offline analysis of the stored simulation", {"check": "tracker_eq_offline", "via": "solver"}, {"kind": "solver", "run": k, "settings": {a: tok(b) for a, b in settings.items()}})
        if len(lt.length_scales) != len(storage.times):
            ck.fail("length-scale tracker skipped frames", {"check": "lengthscale_records_all", "via": "solver"}, {"kind": "solver", "run": k})


def replay(case: dict):
    ck = Check("C14", "quick", 0)
    stub_stream(ck)
    end_to_end(ck, 40)
    bad = [f["what"] for f in ck.failures] + [m["what"] for m in ck.mismatches]
    return not bad, "; ".join(bad[:3]) or "property holds on re-run"


def run(ck: Check):
    ck.rule = ("(i) complete 6x2x2x2x3 settings table with recording stubs + random sequences with a raising analysis; (ii) random sequences of 0-6 rendered/noisy "
               "frames (incl. empty ones) in 1-2-D with random settings, online vs from_storage, file round trip, length-scale tracker vs the real analysis; "
               "(iii, thorough) Cahn-Hilliard runs; non-trivial = distinct cases with >= 2 frames or a settings combination")
    ck.assumptions = ["py-pde calls handle(field, t) at the interrupts (scheduling around handle is py-pde's)", "extract_field is the identity for a ScalarField source"]
    ck.lean = lean_stage("C14", leanchecker=not ck.quick)
    try:
        stub_stream(ck)
    except RuntimeError as e:
        ck.mismatch("c14-tracker", f"driver unavailable: {e}", {})
    end_to_end(ck, ck.budget(40, 600))
    if not ck.quick:
        solver_runs(ck, 6)
