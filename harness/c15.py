"""C15 — results do not depend on the number of worker processes or on scheduling.

Lean: Model/Executor.lean + Props/C15.lean (`executor.map` model: any completion order gives the
submission-ordered result; pool branches = serial branches).
Correspondence / predicate: real `refine_droplets` / `locate_droplets(refine=True)` and
`EmulsionTimeCourse.from_storage` with num_processes in {1, 2, 3, "auto"} where the COMPLETION ORDER
of the workers is forced by per-task delays (wrapper installed on the module attribute before the
pool forks; it pickles by reference to this module).  Outputs are compared bitwise and in order with
the serial run; the observed completion orders are recorded and fed to the model."""
from __future__ import annotations

import os
import tempfile
import time

import numpy as np

from .common import Check, lean_stage, run_driver

# state inherited by forked workers
_DELAYS: dict = {}
_LOG: str | None = None
_orig_refine = None
_orig_locate = None


def _key_of_droplet(d) -> bytes:
    return np.asarray(d.position, float).tobytes()


def delayed_refine(phase_field, droplet, **kwargs):
    key = _key_of_droplet(droplet)
    res = _orig_refine(phase_field, droplet, **kwargs)
    time.sleep(_DELAYS.get(key, (0, 0))[1])
    if _LOG:
        with open(_LOG, "a") as fp:
            fp.write(f"{_DELAYS.get(key, (-1, 0))[0]} {os.getpid()}\n")
    return res


def delayed_locate(phase_field, **kwargs):
    key = phase_field.data.tobytes()
    res = _orig_locate(phase_field, **kwargs)
    time.sleep(_DELAYS.get(key, (0, 0))[1])
    if _LOG:
        with open(_LOG, "a") as fp:
            fp.write(f"{_DELAYS.get(key, (-1, 0))[0]} {os.getpid()}\n")
    return res


def em_key(em):
    return [(type(d).__name__, d.data.tobytes()) for d in em]


def delay_plan(rng, n, kind):
    base = 0.04
    if kind == "reversed":
        return [base * (n - i) for i in range(n)]
    if kind == "rotated":
        return [base * ((i + n // 2) % n + 1) for i in range(n)]
    if kind == "random":
        p = list(range(n))
        rng.shuffle(p)
        return [base * (p[i] + 1) for i in range(n)]
    return [0.0] * n


def run_cases(ck: Check, n_refine: int, n_storage: int):
    global _LOG, _orig_refine, _orig_locate
    import droplets.image_analysis as ia
    from pde import CartesianGrid, MemoryStorage, ScalarField
    from droplets.droplets import DiffuseDroplet
    from droplets.emulsions import Emulsion, EmulsionTimeCourse

    rng = ck.rng
    tmp = tempfile.mkdtemp(prefix="verif-c15-")
    _LOG = os.path.join(tmp, "order.log")
    reqs, expect = [], []
    _orig_refine, _orig_locate = ia.refine_droplet, ia.locate_droplets
    try:
        # ---------------- refinement of candidates
        for k in range(n_refine):
            # (also more candidates than 4 x workers, not a multiple of it: any batching of the tasks must keep all of them)
            ncand = 11 if k == 0 else rng.choice([3, 4, 5, 6, 9, 13])
            n = 12 * ncand
            grid = CartesianGrid([[0, n], [0, 14]], [n, 14], periodic=[rng.random() < 0.5, False])
            drops = [DiffuseDroplet(np.array([12 * i + 6 + rng.uniform(-1, 1), 7 + rng.uniform(-1, 1)]), rng.uniform(2.5, 4), rng.uniform(0.8, 1.5)) for i in range(ncand)]
            extra = {}
            if k % 3 == 2:
                # a supplied interface width (the candidates are then diffuse droplets already, which the serial path refines IN PLACE while the
                # workers refine pickled copies) together with droplets cut by the non-periodic edge, whose fit moves far from the candidate
                extra = {"interface_width": rng.choice([0.9, 1.3])}
                for j in (0, len(drops) // 2):
                    drops[j] = DiffuseDroplet(np.array([12 * j + 6.0, rng.choice([-1.5, -0.8, 15.2])]), rng.uniform(4.2, 5.0), rng.uniform(0.8, 1.2))
                ck.count("supplied_width_and_cut_droplets")
            field = Emulsion(drops).get_phasefield(grid)
            if rng.random() < 0.5:
                field.data += 0.01 * np.cos(np.arange(field.data.size).reshape(field.data.shape))
            minr = rng.choice([0, 0, 3.2]) if not extra else 0
            rargs = None
            if k % 3 == 1:
                # a single-precision image with automatically determined intensity levels: every process must do the same arithmetic
                field = ScalarField(grid, field.data.astype(np.float32), dtype=np.float32)
                rargs = {"vmin": None, "vmax": None}
                ck.count("float32_field_automatic_levels")
            _loc = ia.locate_droplets
            import functools
            ia_locate = functools.partial(_loc, refine_args=rargs, **extra) if rargs is not None else functools.partial(_loc, **extra)
            serial = ia_locate(field, refine=True, minimal_radius=minr, num_processes=1)
            again = ia_locate(field, refine=True, minimal_radius=minr, num_processes=1)
            case = {"kind": "refine", "candidates": ncand, "minimal_radius": minr, "droplets": [d.data.tolist() for d in drops]}
            ck.case(("refine", k, field.data.tobytes()))
            if em_key(serial) != em_key(again):
                ck.fail("repeating the serial analysis gives a different result", {"check": "repeat_eq"}, case)
            # history independence: another analysis with its own solver settings in between (serial or in workers) must not leak
            coarse = {"least_squares_params": {"max_nfev": 2, "xtol": 1e-2}}
            ia.locate_droplets(field, refine=True, refine_args=coarse, minimal_radius=minr, num_processes=rng.choice([1, 2]))
            ia.locate_droplets(field, refine=True, refine_args={"tolerance": 1e-3}, minimal_radius=minr, num_processes=1)
            again2 = ia_locate(field, refine=True, minimal_radius=minr, num_processes=1)
            ck.count("repeat_after_other_settings")
            if em_key(serial) != em_key(again2):
                ck.fail("repeating the analysis after an analysis with other solver settings gives a different result (state leaks between calls)",
                        {"check": "repeat_eq"}, {**case, "in_between": "refine_args with least_squares_params / tolerance"})
            # candidates in the order refine_droplets sees them
            cands = ia.locate_droplets(field, refine=False, minimal_radius=minr, **extra)
            for procs, kind in [(2, "reversed"), (3, "random"), ("auto", "rotated"), (rng.choice([2, 3, 5]), "random")]:
                delays = delay_plan(rng, len(cands), kind)
                _DELAYS.clear()
                for i, (c, dl) in enumerate(zip(cands, delays)):
                    _DELAYS[_key_of_droplet(c)] = (i, dl)
                open(_LOG, "w").close()
                ia.refine_droplet = delayed_refine
                try:
                    par = ia.locate_droplets(field, refine=True, minimal_radius=minr, num_processes=procs, **({"refine_args": rargs} if rargs else {}), **extra)
                finally:
                    ia.refine_droplet = _orig_refine
                order = [int(l.split()[0]) for l in open(_LOG).read().split("\n") if l]
                pids = {l.split()[1] for l in open(_LOG).read().split("\n") if l}
                ck.count("pool_runs")
                ck.case(("refine-run", k, str(procs), kind, tuple(order)))
                ck.count(f"workers_used.{min(len(pids), 4)}")
                if order != sorted(order):
                    ck.count("runs_with_out_of_order_completion")
                sig = {"check": "refine_par_eq_ser", "num_processes": str(procs)}
                if em_key(par) != em_key(serial):
                    ck.fail(f"num_processes={procs}, completion order {order}: result differs from the serial one (order or bits)", sig, {**case, "num_processes": procs, "completion_order": order})
                if sorted(order) == list(range(len(cands))):
                    reqs.append(f"c15 refine {len(cands)} {'0' * len(cands)} " + " ".join(map(str, order)))
                    expect.append(({**case, "completion_order": order}, "ok " + " ".join(str(i) for i in range(len(cands)))))
                if len(ck.samples) < 3:
                    ck.sample({"kind": "refine", "num_processes": procs, "delays": kind, "completion_order": order, "worker_pids": len(pids)})
            # the SAME field object analysed again after its data was updated in place (an evolving simulation state): workers must see the
            # new image, whatever was analysed through a pool before
            if k % 3 == 0:
                import copy

                field2 = copy.deepcopy(field)
                first = ia.locate_droplets(field2, refine=True, minimal_radius=minr, num_processes=2, **extra)
                shifted = [DiffuseDroplet(d_.position + np.array([0.7, -0.4]), d_.radius * 0.9, d_.interface_width) for d_ in drops]
                field2.data = Emulsion(shifted).get_phasefield(grid).data
                ser2 = ia.locate_droplets(field2, refine=True, minimal_radius=minr, num_processes=1, **extra)
                par2 = ia.locate_droplets(field2, refine=True, minimal_radius=minr, num_processes=2, **extra)
                ck.count("same_field_object_updated_in_place")
                ck.case(("refine-updated", k, field2.data.tobytes()))
                if em_key(par2) != em_key(ser2):
                    ck.fail("after the data of the same field object was updated in place, num_processes=2 differs from the serial analysis "
                            f"({len(par2)} vs {len(ser2)} droplets; first analysis found {len(first)})", {"check": "refine_par_eq_ser", "num_processes": "2", "history": "in-place update"},
                            {**case, "history": "analyse with num_processes=2, update field.data in place, analyse again"})
            # nothing to refine (an image without droplets, an empty candidate list): every worker setting returns the empty result
            if k < 3:
                empty_field = ScalarField(grid, 0.0)
                for procs in (1, 2, "auto"):
                    for what, call in (("locate_droplets on an image without droplets", lambda: ia.locate_droplets(empty_field, refine=True, num_processes=procs)),
                                       ("locate_droplets with every droplet below minimal_radius", lambda: ia.locate_droplets(field, refine=True, minimal_radius=50.0, num_processes=procs)),
                                       ("refine_droplets with an empty candidate list", lambda: ia.refine_droplets(field, [], num_processes=procs))):
                        ck.case(("refine-empty", k, str(procs), what))
                        try:
                            res = list(call())
                        except Exception as e:  # noqa: BLE001
                            res = f"{type(e).__name__}: {e}"
                        if res != []:
                            ck.fail(f"{what}, num_processes={procs}: {res if isinstance(res, str) else len(res)} instead of the empty result of the serial run",
                                    {"check": "refine_par_eq_ser", "num_processes": str(procs), "candidates": 0}, {**case, "num_processes": procs, "what": what})
        # ---------------- frames of a storage
        for k in range(n_storage):
            # (also more frames than 4 x workers, not a multiple of it: any batching or windowing of the submitted frames must keep their order)
            nfr = 11 if k == 0 else rng.randint(3, 7)
            grid = CartesianGrid([[0, 16]] * 2, [16, 16], periodic=rng.random() < 0.5)
            storage = MemoryStorage()
            storage.start_writing(ScalarField(grid))
            fields = []
            for f in range(nfr):
                kdrops = rng.choice([0, 1, 2])
                drops = [DiffuseDroplet(np.array([4 + 8 * j + rng.uniform(-1, 1), 8 + rng.uniform(-2, 2)]), rng.uniform(2, 3), rng.choice([1.0, 0.7, 1.4])) for j in range(kdrops)]
                fld = Emulsion(drops).get_phasefield(grid) if drops else ScalarField(grid, 0.0)
                fld.data += 1e-3 * (f + 1)  # make frames distinguishable
                fields.append(fld)
                # (time stamps may repeat: a restarted run appended to the same storage, the final state written twice)
                storage.append(fld, float(f // 2 if k % 2 == 1 else f) * 0.5)
            kw = dict(threshold=rng.choice([0.5, "auto"]), minimal_radius=rng.choice([0, 1.0]))
            if k % 2 == 0:
                # with refinement (interface widths that differ from the grid spacing): every frame is analysed on its own
                kw["refine"] = True
            serial = EmulsionTimeCourse.from_storage(storage, num_processes=1, progress=False, **kw)
            key_serial = [(t, em_key(e)) for t, e in zip(serial.times, serial.emulsions)]
            case = {"kind": "storage", "frames": nfr, "settings": {a: repr(b) for a, b in kw.items()}}
            ck.case(("storage", k, tuple(f.data.tobytes() for f in fields)))
            for procs, kind, prog in [(2, "reversed", None), ("auto", "random", True), (3, "rotated", False), (2, "random", True)]:
                delays = delay_plan(rng, nfr, kind)
                _DELAYS.clear()
                for i, (f, dl) in enumerate(zip(fields, delays)):
                    _DELAYS[f.data.tobytes()] = (i, dl)
                open(_LOG, "w").close()
                ia.locate_droplets = delayed_locate
                try:
                    par = EmulsionTimeCourse.from_storage(storage, num_processes=procs, progress=prog, **kw)
                finally:
                    ia.locate_droplets = _orig_locate
                order = [int(l.split()[0]) for l in open(_LOG).read().split("\n") if l]
                ck.count("pool_runs")
                ck.case(("storage-run", k, str(procs), kind, str(prog), tuple(order)))
                if order != sorted(order):
                    ck.count("runs_with_out_of_order_completion")
                key_par = [(t, em_key(e)) for t, e in zip(par.times, par.emulsions)]
                if key_par != key_serial:
                    ck.fail(f"from_storage num_processes={procs}, completion order {order}: differs from the serial result", {"check": "storage_par_eq_ser", "num_processes": str(procs), "progress": str(prog)}, {**case, "num_processes": procs, "progress": prog, "completion_order": order})
                if sorted(order) == list(range(nfr)):
                    reqs.append(f"c15 map {nfr} " + " ".join(map(str, order)))
                    expect.append(({**case, "completion_order": order}, "ok " + " ".join(str(i) for i in range(nfr))))
    finally:
        ia.refine_droplet, ia.locate_droplets = _orig_refine, _orig_locate
        if os.path.exists(_LOG):
            os.remove(_LOG)
        os.rmdir(tmp)
        _LOG = None
    outs = run_driver(reqs)
    for (case, want), out in zip(expect, outs):
        if out.strip() != want:
            ck.mismatch("c15-executor", f"model yields '{out}' for the observed completion order; submission order is '{want}'", case)


def replay(case: dict):
    ck = Check("C15", "quick", 0)
    run_cases(ck, 2, 2)
    return not ck.failures, "; ".join(f["what"] for f in ck.failures[:3]) or "property holds on re-run"


def run(ck: Check):
    ck.rule = ("refinement of 3-13 candidates (incl. more than 4 x workers) and analysis of 3-7 / 11 stored frames (more than 4 x workers) with num_processes in {1,2,3,5,'auto'} and per-task delays forcing reversed, "
               "rotated and random completion orders (observed orders recorded); bitwise, ordered comparison with the serial run; non-trivial = every case")
    ck.assumptions = ["concurrent.futures.ProcessPoolExecutor.map yields results in submission order (stdlib contract, monitored by the bitwise comparison)",
                      "pickling preserves droplet/field values", "fork start method (Linux default)"]
    ck.lean = lean_stage("C15", leanchecker=not ck.quick)
    try:
        run_cases(ck, ck.budget(3, 30), ck.budget(3, 30))
    except RuntimeError as e:
        ck.mismatch("c15-executor", f"driver unavailable: {e}", {})
