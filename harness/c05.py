"""C05 — refined localisation recovers position, radius and interface width.

The recovery to 1e-4 is a statement about the convergence of scipy's floating-point optimiser: it
is NOT decided by a theorem.  Lean (Props/C05.lean, over regenerated definitions) proves the logic
recovery depends on: the ground truth is a zero of the residual for supplied and fitted levels, zero
residual pins down the profile, the start is feasible (C04) and within half a cell (C01).
This check validates the recovery itself against the idealised model `locate . render = id` by
differential runs on the real code (level `other`), with the property's own tolerance."""
from __future__ import annotations

import math

import numpy as np

from .common import Check, bits_to_float, lean_stage, rel_close, run_driver
from .c02 import pdiff
from .c11 import fbits

LEVEL = "other"
TOL = 1e-4


def make_case(rng, special=None, kind=None):
    from pde import CartesianGrid, CylindricalSymGrid, PolarSymGrid, SphericalSymGrid
    from droplets.droplets import DiffuseDroplet

    kind0 = rng.choice(["c1", "c2", "c2", "c3", "polar", "spherical", "cyl", "cylp"])
    kind = kind or kind0
    if special is not None:
        kind = "c2" if rng.random() < 0.8 else "c3"
    # the unit of length: every length of the case is multiplied by it (cells far smaller / larger than 1)
    unit = rng.choice([1.0, 1.0, 1.0, 0.02, 0.1, 25.0])
    if kind in ("c1", "c2", "c3"):
        dim = int(kind[1])
        h0 = rng.choice([1.0, 0.5, 0.39]) * unit
        h = [h0 * rng.choice([1.0, 1.0, 1.25, 1.5]) for _ in range(dim)]
        n = {1: [rng.randint(40, 90)], 2: [rng.randint(24, 44), rng.randint(24, 44)], 3: [rng.randint(16, 22) for _ in range(3)]}[dim]
        lo = [rng.choice([0.0, -7.5, 3.0]) * unit for _ in range(dim)]
        per = [rng.random() < 0.6 for _ in range(dim)]
        if special == "corner":
            # fully periodic grid with unequal cell counts; the droplet sits around a corner of the box
            per = [True] * dim
            while len(set(n)) < dim or (dim == 2 and abs(n[0] - n[1]) < 8):
                n = [rng.randint(24, 44) for _ in range(dim)] if dim == 2 else [rng.randint(16, 22) for _ in range(3)]
        elif special == "mixed":
            # a non-periodic axis FOLLOWED by a periodic one; the droplet crosses the boundary of the later periodic axis
            per = [False] * (dim - 1) + [True] if rng.random() < 0.7 else [True] + [False] * (dim - 2) + [True]
        grid = CartesianGrid([[a, a + m * d] for a, m, d in zip(lo, n, h)], n, periodic=per)
        hmax = max(h)
        drops = []
        for _ in range(100):
            if len(drops) == (rng.choice([1, 1, 2, 3, 4]) if dim < 3 else 1):
                break
            R = rng.uniform(3.0, 4.5) * hmax
            w = rng.uniform(1.0, 2.0) * hmax
            c = []
            ok = True
            corner_hi = rng.random() < 0.7
            for a in range(dim):
                L = n[a] * h[a]
                if grid.periodic[a]:
                    if 2 * R + 12 * w >= L:
                        ok = False
                    if special is not None and not drops:
                        # around the boundary (inside or outside the box), the boundary point itself not necessarily covered
                        if special == "corner" and corner_hi:
                            # centre in the high/high quadrant next to the corner (given inside the box or by its periodic image
                            # below the low corner): the main piece is the upper cluster of both boundary merges, so the second
                            # merge has to use the shift recorded by the first one
                            c.append(rng.choice([lo[a], lo[a] + L]) - rng.uniform(0.45, 0.88) * R)
                        else:
                            c.append(rng.choice([lo[a], lo[a] + L]) + rng.choice([-1, 1]) * rng.uniform(0.3, 0.98) * R)
                    elif rng.random() < 0.35:
                        c.append(rng.choice([lo[a], lo[a] + L]) + rng.uniform(-1, 1) * R)
                    else:
                        c.append(rng.uniform(lo[a], lo[a] + L))
                else:
                    if 2 * (R + 5 * w) >= L:
                        ok = False
                    else:
                        c.append(rng.uniform(lo[a] + R + 5 * w, lo[a] + L - R - 5 * w))
            if not ok:
                continue
            c = np.array(c)
            if any(np.linalg.norm(pdiff(c, d.position, grid)) < R + d.radius + 9 * max(w, d.interface_width) for d in drops):
                continue
            drops.append(DiffuseDroplet(c, R, w))
        return grid, drops
    if kind in ("polar", "spherical"):
        n = rng.randint(24, 48)
        dr = rng.choice([1.0, 0.5, 0.25, 0.4]) * unit
        grid = (PolarSymGrid if kind == "polar" else SphericalSymGrid)(n * dr, n)
        # (also the smallest resolvable droplets, 3 to 3.5 cells: with fine grids the fit region has as few support points as parameters)
        R = (rng.uniform(3.0, 3.5) if rng.random() < 0.4 else rng.uniform(3.0, n / 2.5)) * dr
        return grid, [DiffuseDroplet(np.zeros(grid.dim), R, rng.uniform(1.0, 2.0) * dr)]
    nr, nz = rng.randint(12, 18), rng.randint(28, 44)
    dr, dz = rng.choice([1.0, 0.5]) * unit, rng.choice([1.0, 0.5])
    dz = dr * rng.choice([1.0, 1.25])
    grid = CylindricalSymGrid(nr * dr, [0, nz * dz], [nr, nz], periodic_z=(kind == "cylp"))
    hmax = max(dr, dz)
    R = rng.uniform(3.0, 4.0) * hmax
    w = rng.uniform(1.0, 2.0) * hmax
    if R + 4 * w >= nr * dr or 2 * (R + 6 * w) >= nz * dz:
        return grid, []
    if kind == "cylp":
        # periodic in z: the droplet may sit anywhere, also across the boundary (rendered correctly since the repair of D12)
        if 2 * (R + 6 * w) >= nz * dz:
            return grid, []
        z = rng.uniform(0, nz * dz)
    else:
        z = rng.uniform(R + 6 * w, nz * dz - R - 6 * w)
    return grid, [DiffuseDroplet(np.array([0.0, 0.0, z]), R, w)]


# settings objects shared by all calls of a run (a user keeps ONE dict of solver settings)
SHARED_DEFAULT: dict = {}
SHARED_FITTED: dict = dict(vmin=None, vmax=None, adjust_values=True)

# minimised past findings (see known_findings.json)
CORPUS = [
    {"polar": (17.6, 44), "R": 1.3826774317286503, "w": 0.652745738918393, "map": (0.3, 4.0), "rule": "auto", "levels": "fitted-auto"},
]


def run_cases(ck: Check, n: int):
    from pde import ScalarField
    from droplets.emulsions import Emulsion
    from droplets.image_analysis import locate_droplets

    rng = ck.rng
    worst = {"position": 0.0, "radius": 0.0, "width": 0.0}
    for i in range(-len(CORPUS), n):
        if i < 0:
            # corpus of past findings, evaluated first on every run
            c = CORPUS[i]
            from pde import PolarSymGrid
            from droplets.droplets import DiffuseDroplet

            grid = PolarSymGrid(*c["polar"])
            drops = [DiffuseDroplet(np.zeros(2), c["R"], c["w"])]
            (a, b), rule, levels, special = c["map"], c["rule"], c["levels"], None
        else:
            special = {0: "corner", 1: "mixed", 3: "corner"}.get(i % 5)
            grid, drops = make_case(rng, special)
        if not drops:
            continue
        if special:
            ck.count(f"special.{special}")
        base = Emulsion(drops).get_phasefield(grid).data
        if i >= 0:
            # ((1, -1): the upper level is exactly 0 - a supplied level of 0 is a level like any other; the last two maps: a range below numpy's absolute tolerance 1e-8, and a faint contrast on a large background, range / level = 5e-6 < numpy's
            # relative tolerance 1e-5 - both are affine maps of the standard profile like any other)
            a, b = [(1.0, 0.0), (2.5, -1.0), (4e-9, 2e-9), (1.0, -1.0), (1.0, 0.0), (0.3, 4.0), (0.05, 1e4)][(i // 5) % 7] if i % 2 == 0 else rng.choice([(1.0, 0.0), (1.0, 0.0), (2.5, -1.0), (0.3, 4.0)])
        field = ScalarField(grid, a * base + b)
        vmin, vmax = b, a + b
        if i >= 0:
            # every threshold rule meets every intensity map (cycled, not drawn: "otsu on a mapped image" must occur in every run)
            rule = ["auto", "extrema", "mean", "otsu", (vmin + vmax) / 2][i % 5]
            levels = rng.choice(["given", "fitted-given", "fitted-auto"]) if (a, b) != (1.0, 0.0) else rng.choice(["default", "given", "fitted-given", "fitted-auto"])
        rargs = {"default": SHARED_DEFAULT, "given": dict(vmin=vmin, vmax=vmax), "fitted-given": dict(vmin=vmin, vmax=vmax, adjust_values=True),
                 "fitted-auto": SHARED_FITTED}[levels]
        # (not reset between calls: if an implementation writes into it, later calls start from what it left there)
        gname = type(grid).__name__
        case = {"grid": repr(grid), "droplets": [d.data.tolist() for d in drops], "intensity_map": [a, b], "threshold": repr(rule), "levels": levels}
        sig = {"grid": gname, "dim": grid.dim, "levels": levels, "threshold": repr(rule) if isinstance(rule, str) else "number"}
        ck.case((repr(grid), tuple(d.data.tobytes() for d in drops), a, b, repr(rule), levels))
        ck.count(f"grid.{gname}")
        ck.count(f"levels.{levels}")
        ck.count(f"threshold.{rule if isinstance(rule, str) else 'number'}")
        if i >= 0 and i % 7 == 2:
            # a quick preview with a coarse tolerance first, as a user would do: the analysis proper must not inherit it
            try:
                locate_droplets(field, threshold=rule, refine=True, refine_args={"tolerance": 0.1})
            except Exception:  # noqa: BLE001  (judged by C09)
                pass
            ck.count("preview_with_coarse_tolerance_first")
        try:
            found = locate_droplets(field, threshold=rule, refine=True, refine_args=rargs)
        except Exception as e:  # noqa: BLE001
            ck.fail(f"locate_droplets(refine=True) raised {type(e).__name__}: {e}", {**sig, "check": "recovery", "error": type(e).__name__}, case)
            continue
        if len(found) != len(drops):
            ck.fail(f"{len(found)} droplets returned for {len(drops)} rendered", {**sig, "check": "recovery_count"}, case)
            continue
        unused = list(range(len(found)))
        for d in drops:
            j = min(unused, key=lambda t: np.linalg.norm(pdiff(found[t].position, d.position, grid)))
            unused.remove(j)
            f = found[j]
            ep = float(np.linalg.norm(pdiff(f.position, d.position, grid))) / d.radius
            er = abs(f.radius - d.radius) / d.radius
            ew = abs(f.interface_width - d.interface_width) / d.interface_width if f.interface_width is not None else float("inf")
            worst["position"], worst["radius"], worst["width"] = max(worst["position"], ep), max(worst["radius"], er), max(worst["width"], ew)
            if max(ep, er, ew) > TOL:
                # classification of the input for the known-findings file: how many support points the fit had, the
                # contrast of the image relative to its offset, and by how much the bound is exceeded
                from scipy import ndimage as _nd

                npts = int(np.sum(_nd.binary_dilation(d._get_phase_field(grid, dtype=bool), iterations=1 + int(2 * (d.interface_width / float(grid.typical_discretization))))))
                sig2 = {**sig, "check": "recovery", "fit_points_at_most_8": npts <= 8, "contrast_at_most_half_with_offset": bool(abs(a) <= 0.5 and b != 0),
                        "error_below_5e-4": bool(max(ep, er, ew) < 5e-4)}
                ck.fail(f"recovery error position {ep:.2e} (rel. to R), radius {er:.2e}, width {ew:.2e} exceeds 1e-4 ({npts} support points in the fit region)", sig2,
                        {**case, "found": [x.data.tolist() for x in found]})
        if len(ck.samples) < 3:
            ck.sample(case)
    ck.extra_cov["worst_relative_errors"] = worst


def residual_correspondence(ck: Check):
    """the regenerated residual at Float vs the residual vector the real refine_droplet evaluates"""
    import droplets.image_analysis as ia
    from pde import UnitGrid
    from scipy import optimize
    from droplets.droplets import DiffuseDroplet

    grid = UnitGrid([16, 16])
    truth = DiffuseDroplet([8.3, 7.6], 4.0, 1.3)
    reqs, expect = [], []
    r_of_map = {}
    for vmin, vmax, adjust in ((0.0, 1.0, False), (2.0, 5.0, False), (2.0, 5.0, True), (0.0, 1e-3, False), (-0.1, 0.1, True), (4e3, 9e3, False)):
        img = truth.get_phase_field(grid, vmin=vmin, vmax=vmax)
        rec = {}
        orig = optimize.least_squares

        def wrapper(fun, x0, **k):
            rec["r_truth"] = np.asarray(fun(np.r_[truth.position, truth.radius, truth.interface_width, [vmin, vmax - vmin] if adjust else []])).copy()
            rec["r_x0"] = np.asarray(fun(np.array(x0, copy=True))).copy()
            return orig(fun, x0, **k)

        ia.optimize.least_squares = wrapper
        try:
            cand = DiffuseDroplet([8.0, 8.0], 3.5, 1.0)
            mask = ia.ndimage.binary_dilation(cand._get_phase_field(grid, dtype=bool), iterations=1 + int(2 * (cand.interface_width / float(grid.typical_discretization))))
            ia.refine_droplet(img, cand.copy(), vmin=vmin, vmax=vmax, adjust_values=adjust)
        finally:
            ia.optimize.least_squares = orig
        ck.case(("residual", vmin, vmax, adjust))
        r_of_map[(vmin, vmax, adjust)] = rec["r_x0"]
        if float(np.max(np.abs(rec["r_truth"]))) > 1e-12 * max(1.0, abs(vmax)):
            ck.fail(f"the ground truth is not a zero of the residual (max |r| = {np.max(np.abs(rec['r_truth']))})", {"check": "truth_zero_residual", "adjust": adjust}, {"vmin": vmin, "vmax": vmax})
        render = cand._get_phase_field(grid)[mask]
        data = img.data[mask]
        name = "fitted" if adjust else "fixed"
        for k in range(0, len(data), max(1, len(data) // 12)):
            reqs.append(f"c05 {name} {fbits(vmin)} {fbits(vmax - vmin)} {fbits(render[k])} {fbits(data[k])} {fbits(vmax - vmin)}")
            expect.append((float(rec["r_x0"][k]), {"vmin": vmin, "vmax": vmax, "adjust": adjust, "cell": k}))
    # what the solver is handed does not depend on the affine intensity map (Props/C05 residual_intensity_invariant)
    ref = r_of_map[(0.0, 1.0, False)]
    for key, r in r_of_map.items():
        if float(np.max(np.abs(r - ref))) > 1e-9 * float(np.max(np.abs(ref))):
            # (a diverging correspondence with the theorem, not by itself a violation: the recovery streams are the search for a failing input)
            ck.mismatch("c05-residual", f"the residual handed to the solver depends on the intensity map: levels {key[:2]} give max |r| = {np.max(np.abs(r)):.3g}, levels (0, 1) give "
                        f"{np.max(np.abs(ref)):.3g} for the same droplet and candidate (Props/C05 residual_intensity_invariant)", {"vmin": key[0], "vmax": key[1], "adjust": key[2]})
    outs = run_driver(reqs)
    for (want, case), out in zip(expect, outs):
        mv = bits_to_float(out.split()[1]) if out.startswith("ok") else None
        if mv is None or not rel_close(mv, want, 1e-14, 1e-15):
            ck.mismatch("c05-residual", f"residual evaluated by refine_droplet {want!r} vs regenerated residual {mv!r}", case)


def periodic_cylinder_boundary(ck: Check, n: int):
    """periodic cylindrical grids, droplet centred exactly ON (or close to) the periodic z boundary; the image is rendered here
    with the minimal-image convention in z (the library's own rendering does not wrap z: known finding D12)"""
    from pde import CylindricalSymGrid, ScalarField
    from droplets.image_analysis import locate_droplets

    rng = ck.rng
    for i in range(n):
        nr, nz = rng.randint(12, 16), rng.randint(28, 40)
        dr = rng.choice([1.0, 0.5])
        dz = dr * rng.choice([1.0, 1.25])
        z0 = rng.choice([0.0, -3.0])
        grid = CylindricalSymGrid(nr * dr, [z0, z0 + nz * dz], [nr, nz], periodic_z=True)
        L = nz * dz
        hmax = max(dr, dz)
        R, w = rng.uniform(3.0, 4.0) * hmax, rng.uniform(1.0, 2.0) * hmax
        if R + 4 * w >= nr * dr:
            continue
        zc = [z0, z0 + L, z0 + 0.3 * dz, z0 + L - 0.45 * dz][i % 4]
        rr, zz = grid.cell_coords[..., 0], grid.cell_coords[..., 1]
        dzw = (zz - zc + L / 2) % L - L / 2
        data = 0.5 + 0.5 * np.tanh((R - np.sqrt(rr**2 + dzw**2)) / w)
        # (since the repair of D12 the library renders this picture itself)
        from droplets.droplets import DiffuseDroplet as _DD

        lib = _DD(np.array([0.0, 0.0, zc]), R, w).get_phase_field(grid).data
        if float(np.max(np.abs(lib - data))) > 1e-12:
            ck.fail(f"the library's rendering of a droplet centred at z={zc} on the periodic cylinder differs from the periodic picture by {float(np.max(np.abs(lib - data))):.3g}",
                    {"grid": "CylindricalSymGrid", "dim": 3, "check": "render_periodic_cylinder"}, {"grid": repr(grid), "droplets": [[0.0, 0.0, zc, R, w]]})
        data = lib
        case = {"grid": repr(grid), "droplets": [[0.0, 0.0, zc, R, w]], "kind": "periodic-cylinder-boundary"}
        sig = {"grid": "CylindricalSymGrid", "dim": 3, "levels": "default", "threshold": "number", "periodic_z_boundary": True}
        ck.case(("cylb", nr, nz, dr, dz, z0, zc, R, w))
        ck.count("special.periodic_cylinder_boundary")
        try:
            found = locate_droplets(ScalarField(grid, data), threshold=0.5, refine=True)
        except Exception as e:  # noqa: BLE001
            ck.fail(f"locate_droplets(refine=True) raised {type(e).__name__}: {e}", {**sig, "check": "recovery", "error": type(e).__name__}, case)
            continue
        if len(found) != 1:
            ck.fail(f"{len(found)} droplets returned for one droplet centred at z={zc} on the periodic cylinder [{z0}, {z0 + L})", {**sig, "check": "recovery_count"}, case)
            continue
        f = found[0]
        dzz = abs((f.position[2] - zc + L / 2) % L - L / 2)
        if dzz > TOL * R or abs(f.radius - R) > TOL * R or abs(f.interface_width - w) > TOL * w:
            ck.fail(f"recovered (z={f.position[2]}, R={f.radius}, w={f.interface_width}) for (z={zc}, R={R}, w={w})", {**sig, "check": "recovery"}, case)


def small_radial(ck: Check, n: int):
    """the smallest resolvable droplets (3 to 3.5 cells) on fine polar / spherical grids, where the fit region holds hardly
    more support points than there are parameters - with every intensity option"""
    from pde import PolarSymGrid, ScalarField, SphericalSymGrid
    from droplets.droplets import DiffuseDroplet
    from droplets.image_analysis import locate_droplets

    rng = ck.rng
    for i in range(n):
        cls = [PolarSymGrid, SphericalSymGrid][i % 2]
        dr = rng.choice([0.25, 0.4, 0.2])
        nn = rng.randint(16, 24)
        grid = cls(nn * dr, nn)
        R, w = rng.uniform(3.0, 3.45) * dr, rng.uniform(1.0, 1.6) * dr
        a, b = rng.choice([(1.0, 0.0), (0.7, 0.2), (4.0, -1.0)])
        d = DiffuseDroplet(np.zeros(grid.dim), R, w)
        field = ScalarField(grid, a * d.get_phase_field(grid).data + b)
        vmin, vmax = b, a + b
        levels = ["given", "fitted-given", "fitted-auto", "fitted-auto"][i % 4]
        rargs = {"given": dict(vmin=vmin, vmax=vmax), "fitted-given": dict(vmin=vmin, vmax=vmax, adjust_values=True),
                 "fitted-auto": dict(vmin=None, vmax=None, adjust_values=True)}[levels]
        rule = rng.choice(["auto", "extrema", "mean", "otsu"])
        case = {"grid": repr(grid), "droplets": [d.data.tolist()], "intensity_map": [a, b], "threshold": rule, "levels": levels, "kind": "small-radial"}
        sig = {"grid": cls.__name__, "dim": grid.dim, "levels": levels, "threshold": rule}
        ck.case(("small-radial", cls.__name__, nn, dr, R, w, a, b, levels, rule))
        ck.count("special.small_radial." + levels)
        try:
            found = locate_droplets(field, threshold=rule, refine=True, refine_args=rargs)
        except Exception as e:  # noqa: BLE001
            ck.fail(f"locate_droplets(refine=True) raised {type(e).__name__}: {e}", {**sig, "check": "recovery", "error": type(e).__name__}, case)
            continue
        if len(found) != 1:
            ck.fail(f"{len(found)} droplets returned for 1 rendered", {**sig, "check": "recovery_count"}, case)
            continue
        f = found[0]
        if abs(f.radius - R) > TOL * R or abs(f.interface_width - w) > TOL * w:
            ck.fail(f"recovered (R={f.radius}, w={f.interface_width}) for (R={R}, w={w}): relative errors {abs(f.radius - R) / R:.2g}, {abs(f.interface_width - w) / w:.2g}",
                    {**sig, "check": "recovery"}, case)


def rules_on_mapped_emulsions(ck: Check, n: int):
    """every threshold rule on EMULSIONS (2-4 droplets) and radial droplets whose intensities are an affine map of the standard profile,
    incl. images lying wholly below / above the unit interval and tiny / large contrasts: the count must be right before any fit"""
    from pde import ScalarField
    from droplets.emulsions import Emulsion
    from droplets.image_analysis import locate_droplets

    rng = ck.rng
    maps = [(0.3, 4.0), (0.2, -0.1), (0.3, 0.05), (3.0, 2.0), (1e3, -5e2), (1e-3, 0.0)]
    rules = ["otsu", "mean", "extrema", "auto"]
    for i in range(n):
        kind = ["c2", "c2", "polar", "c1", "spherical", "cyl"][i % 6]
        for _ in range(50):
            grid, drops = make_case(rng, None, kind=kind)
            if drops and (kind not in ("c2", "c1") or len(drops) >= 2):
                break
        else:
            continue
        a, b = maps[(i // 2) % len(maps)]
        rule = rules[i % len(rules)]
        base = Emulsion(drops).get_phasefield(grid).data
        field = ScalarField(grid, a * base + b)
        vmin, vmax = b, a + b
        case = {"grid": repr(grid), "droplets": [d.data.tolist() for d in drops], "intensity_map": [a, b], "threshold": rule, "levels": "given", "kind": "rules-on-mapped-emulsions"}
        sig = {"grid": type(grid).__name__, "dim": grid.dim, "levels": "given", "threshold": rule}
        ck.case(("rules-mapped", repr(grid), tuple(d.data.tobytes() for d in drops), a, b, rule))
        ck.count(f"special.rules_on_mapped_emulsions.{rule}")
        try:
            found = locate_droplets(field, threshold=rule, refine=True, refine_args=dict(vmin=vmin, vmax=vmax))
        except Exception as e:  # noqa: BLE001
            ck.fail(f"locate_droplets(refine=True) raised {type(e).__name__}: {e}", {**sig, "check": "recovery", "error": type(e).__name__}, case)
            continue
        if len(found) != len(drops):
            ck.fail(f"{len(found)} droplets returned for {len(drops)} rendered (threshold rule {rule}, intensities {a}*profile+{b})", {**sig, "check": "recovery_count"}, case)
            continue
        unused = list(range(len(found)))
        for d in drops:
            j = min(unused, key=lambda t: np.linalg.norm(pdiff(found[t].position, d.position, grid)))
            unused.remove(j)
            f = found[j]
            ep = float(np.linalg.norm(pdiff(f.position, d.position, grid))) / d.radius
            er = abs(f.radius - d.radius) / d.radius
            ew = abs(f.interface_width - d.interface_width) / d.interface_width if f.interface_width is not None else float("inf")
            if max(ep, er, ew) > TOL:
                ck.fail(f"recovery error position {ep:.2e}, radius {er:.2e}, width {ew:.2e} exceeds 1e-4 (rule {rule}, map {a}, {b})", {**sig, "check": "recovery"},
                        {**case, "found": [x.data.tolist() for x in found]})


def replay(case: dict):
    ck = Check("C05", "quick", 0, level=LEVEL)
    run_cases(ck, 25)
    return not ck.failures, "; ".join(f["what"] for f in ck.failures[:3]) or "property holds on re-run"


def run(ck: Check):
    ck.level = LEVEL
    ck.rule = ("differential recovery runs: 1-4 well-separated (gap >= 9 widths) diffuse droplets with R in [3, 4.5] cells and width in [1, 2] cells on Cartesian grids in 1-3-D "
               "(random periodicity, spacing ratios <= 1.5, offsets, centres anywhere incl. across periodic faces), polar, spherical and cylindrical grids; every threshold rule; "
               "intensities mapped affinely with levels default / supplied / fitted from supplied / fitted from automatic; relative error bound 1e-4 as the property states; "
               "non-trivial = every distinct configuration")
    ck.explanation = ("Level 'other': the recovery clause is validated by differential testing of the real code against the idealised model locate(render(E)) = E, not proved. "
                      "The Lean part (Props/C05.lean, counted under obligations) proves the logic recovery depends on over regenerated definitions: the truth is a zero of the "
                      "residual for supplied and fitted levels, zero residual pins down the profile, the solver's start is feasible (C04) and within half a cell (C01).")
    ck.assumptions = ["convergence of scipy.optimize.least_squares from a half-cell-accurate start is observed, not proved",
                      "periodic cylinders: droplets anywhere along z, also across and exactly on the periodic boundary (rendered by the library since the repair of D12, compared with the minimal-image picture)"]
    ck.extra_cov["gen_keys"] = ["residual_fitted_levels", "residual_fixed_levels", "scale_field", "diffuse_smooth"]
    ck.lean = lean_stage("C05", leanchecker=not ck.quick)
    try:
        residual_correspondence(ck)
    except RuntimeError as e:
        ck.mismatch("c05-residual", f"driver unavailable: {e}", {})
    periodic_cylinder_boundary(ck, ck.budget(4, 40))
    small_radial(ck, ck.budget(8, 120))
    rules_on_mapped_emulsions(ck, ck.budget(12, 240))
    run_cases(ck, ck.budget(45, 1200))
