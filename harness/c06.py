"""C06 / C07 — tracking: conservation (C06) and identity (C07).

Lean: Model/Track.lean (+ Props/C06.lean, Props/C07.lean).
Correspondence: real `DropletTrackList.from_emulsion_time_course` vs. `trackAll` fed with the
overlap / distance TABLES computed by the real predicates (`overlaps`, `cdist` with the metric the
code uses), times and distances as exact rationals; tracks compared as lists of (droplet id, time).
Predicates on the implementation use an independent metric written in c10.my_distance."""
from __future__ import annotations

import functools
import itertools

import numpy as np

from .common import Check, lean_stage, q, run_driver
from .c10 import my_distance

INF = float("inf")


# ---------------------------------------------------------------------------------------
# histories
# ---------------------------------------------------------------------------------------

class History:
    def __init__(self, frames, times, grid, method, max_dist, desc):
        self.frames, self.times, self.grid, self.method, self.max_dist, self.desc = frames, times, grid, method, max_dist, desc
        self.ids = []  # global id -> (frame, index)
        for f, fr in enumerate(frames):
            for i in range(len(fr)):
                self.ids.append((f, i))
        self.start = [0]
        for fr in frames:
            self.start.append(self.start[-1] + len(fr))

    def gid(self, f, i):
        return self.start[f] + i

    def drop(self, g):
        f, i = self.ids[g]
        return self.frames[f][i]


def build_etc(h: History):
    from droplets.emulsions import Emulsion, EmulsionTimeCourse

    return EmulsionTimeCourse([Emulsion(fr) for fr in h.frames], times=list(h.times))


def run_real(h: History):
    """returns ('ok', tracks as lists of (gid, time), raw track list, etc) or ('err', name)"""
    from droplets.droplet_tracks import DropletTrackList

    etc = build_etc(h)
    snap_times = list(etc.times)
    snap = [[d.data.tobytes() for d in e] for e in etc.emulsions]
    kw = {}
    if h.method == "distance" and h.max_dist is not None:
        kw["max_dist"] = h.max_dist
    try:
        tl = DropletTrackList.from_emulsion_time_course(etc, method=h.method, grid=h.grid, **kw)
    except Exception as e:  # noqa: BLE001
        return ("err", type(e).__name__, None, etc, (snap_times, snap))
    # recover identities
    used = set()
    tracks = []
    for tr in tl:
        cur = []
        for t, d in tr.items():
            fidx = [k for k, tt in enumerate(etc.times) if tt == t]
            g = None
            for f in fidx:
                for i, o in enumerate(etc.emulsions[f]):
                    gg = h.gid(f, i)
                    if gg not in used and type(o) is type(d) and o.data.tobytes() == d.data.tobytes():
                        g = gg
                        break
                if g is not None:
                    break
            if g is not None:
                used.add(g)
            cur.append((g, t, d))
        tracks.append(cur)
    return ("ok", tracks, tl, etc, (snap_times, snap))


def tables(h: History):
    from scipy.spatial import distance

    n = len(h.ids)
    drops = [h.drop(g) for g in range(n)]
    if h.method == "overlap":
        bits = []
        for a in range(n):
            for b in range(n):
                fa, fb = h.ids[a][0], h.ids[b][0]
                bits.append("1" if (fb - fa in (0, 1) and drops[a].overlaps(drops[b], grid=h.grid)) else "0")
        return "".join(bits) or "-"
    if n == 0:
        return []
    metric = "euclidean" if h.grid is None else functools.partial(h.grid.distance, coords="cartesian")
    P = [d.position for d in drops]
    return distance.cdist(P, P, metric=metric)


def request(h: History, raises: bool) -> str:
    n = len(h.ids)
    head = f"c06 {h.method} {n} {len(h.frames)} " + " ".join(f"{q(t)} {len(fr)}" for t, fr in zip(h.times, h.frames))
    tab = tables(h)
    if h.method == "overlap":
        return head + " " + tab
    md = "inf" if h.max_dist is None or h.max_dist == INF else q(h.max_dist)
    flat = " ".join(q(tab[a][b]) for a in range(n) for b in range(n)) if n else ""
    return f"{head} {int(raises)} {md} {flat}".rstrip()


# ---------------------------------------------------------------------------------------
# predicates
# ---------------------------------------------------------------------------------------

def frames_nonoverlapping(h: History) -> bool:
    for fr in h.frames:
        for a, b in itertools.combinations(fr, 2):
            if my_distance(a.position, b.position, h.grid) < a.radius + b.radius + 1e-9:
                return False
    return True


def pred_c06(ck: Check, h: History, res, sig, case):
    status = res[0]
    if status == "err":
        ck.fail(f"tracking raised {res[1]}", {**sig, "check": "track_total", "error": res[1],
                                                "empty_frame_after_nonempty": any(len(a) > 0 and len(b) == 0 for a, b in zip(h.frames, h.frames[1:]))}, case)
        return
    _, tracks, tl, etc, (snap_times, snap) = res
    # input unmodified
    if list(etc.times) != snap_times or [[d.data.tobytes() for d in e] for e in etc.emulsions] != snap:
        ck.fail("the time course passed in was modified", {**sig, "check": "track_input_unchanged"}, case)
    # partition: every droplet of every frame exactly once, unchanged, stamped with its frame's time
    want = sorted((float(t), type(d).__name__, d.data.tobytes()) for t, fr in zip(h.times, h.frames) for d in fr)
    got = sorted((float(t), type(d).__name__, d.data.tobytes()) for tr in tracks for _, t, d in tr)
    if want != got:
        ck.fail(f"tracks do not partition the droplets: {len(want)} droplets in, {len(got)} in tracks", {**sig, "check": "track_partition"}, case)
    originals = {id(d) for fr in etc.emulsions for d in fr}
    if any(id(d) in originals for tr in tracks for _, _, d in tr):
        ck.fail("a track stores the caller's droplet object instead of a copy", {**sig, "check": "track_copies"}, case)
    if any(len(tr) == 0 for tr in tracks):
        ck.fail("empty track returned", {**sig, "check": "track_nonempty"}, case)
    if any(len(tr.times) != len(tr.droplets) for tr in tl):
        ck.fail("times/droplets of a track have different lengths", {**sig, "check": "aligned"}, case)
    # one per frame, gap-free (when frames do not overlap internally)
    if frames_nonoverlapping(h):
        ck.count("nonoverlapping_histories")
        tlist = [float(t) for t in h.times]
        for tr in tracks:
            ts = [float(t) for _, t, _ in tr]
            k = tlist.index(ts[0]) if ts and ts[0] in tlist else None
            if k is None or ts != tlist[k : k + len(ts)]:
                ck.fail(f"a track does not cover a gap-free run of frames with one droplet each: times {ts}", {**sig, "check": "track_one_per_frame"}, case)
                break


def greedy_spec(rows, cols, dist, cutoff):
    """repeatedly join the globally closest remaining pair (independent of the model)"""
    rows, cols, links = list(rows), list(cols), []
    while rows and cols:
        best = min(((dist(a, b), a, b) for a in rows for b in cols), key=lambda x: x[0])
        if best[0] > cutoff:
            break
        links.append((best[1], best[2]))
        rows.remove(best[1])
        cols.remove(best[2])
    return links


def pred_c07(ck: Check, h: History, res, sig, case):
    if res[0] == "err":
        return  # C06/C09 territory
    _, tracks, tl, etc, _ = res
    if any(g is None for tr in tracks for g, _, _ in tr):
        return  # partition broken; reported by C06
    if not frames_nonoverlapping(h):
        return  # C07 quantifies over time courses with non-overlapping droplets per frame
    ck.count("c07_histories")
    dist = lambda a, b: my_distance(h.drop(a).position, h.drop(b).position, h.grid)
    ov = lambda a, b: dist(a, b) < h.drop(a).radius + h.drop(b).radius
    knife = lambda a, b: abs(dist(a, b) - (h.drop(a).radius + h.drop(b).radius)) < 1e-9
    links = [(tr[k][0], tr[k + 1][0]) for tr in tracks for k in range(len(tr) - 1)]
    frame_of = lambda g: h.ids[g][0]
    heads = {tr[0][0] for tr in tracks}
    tails = {tr[-1][0] for tr in tracks}
    if any(frame_of(b) != frame_of(a) + 1 for a, b in links):
        ck.fail("a link does not join consecutive frames", {**sig, "check": "links_consecutive"}, case)
        return
    if h.method == "overlap":
        for a, b in links:
            if not ov(a, b) and not knife(a, b):
                ck.fail(f"linked droplets {a},{b} do not overlap under the {'periodic ' if h.grid else ''}metric", {**sig, "check": "overlap_links_overlap"}, case)
        for f in range(1, len(h.frames)):
            prev = [h.gid(f - 1, i) for i in range(len(h.frames[f - 1]))]
            now = [h.gid(f, i) for i in range(len(h.frames[f]))]
            if any(knife(a, b) for a in prev for b in now):
                continue
            for b in now:
                if not any(ov(a, b) for a in prev) and b not in heads:
                    ck.fail(f"droplet {b} overlaps nothing in the previous frame but does not start a track", {**sig, "check": "overlap_new_iff_isolated"}, case)
            rel = [(a, b) for a in prev for b in now if ov(a, b)]
            one_to_one = len({a for a, _ in rel}) == len(rel) == len({b for _, b in rel})
            if one_to_one:
                ck.count("one_to_one_steps")
                got = sorted((a, b) for a, b in links if frame_of(b) == f)
                if got != sorted(rel):
                    ck.fail(f"overlap relation is one-to-one {sorted(rel)} but links are {got}", {**sig, "check": "overlap_one_to_one"}, case)
    else:
        cutoff = INF if h.max_dist is None else h.max_dist
        for a, b in links:
            if dist(a, b) > cutoff * (1 + 1e-12) + 1e-12:
                ck.fail(f"linked droplets {a},{b} are {dist(a, b)} apart, cut-off {cutoff}", {**sig, "check": "distance_links_within_cutoff"}, case)
        for f in range(1, len(h.frames)):
            prev = [h.gid(f - 1, i) for i in range(len(h.frames[f - 1]))]
            now = [h.gid(f, i) for i in range(len(h.frames[f]))]
            ended = [a for a in prev if a in tails]
            started = [b for b in now if b in heads]
            for a in ended:
                for b in started:
                    if dist(a, b) < cutoff * (1 - 1e-12) - 1e-12:
                        ck.fail(f"track ends at {a} while a new track starts at {b} within the cut-off ({dist(a, b)} <= {cutoff})", {**sig, "check": "distance_maximal"}, case)
            ds = sorted(dist(a, b) for a in prev for b in now)
            distinct = all(y - x > 1e-9 for x, y in zip(ds, ds[1:])) and all(abs(x - cutoff) > 1e-9 for x in ds)
            if distinct and prev and now:
                ck.count("distinct_distance_steps")
                want = sorted(greedy_spec(prev, now, dist, cutoff))
                got = sorted((a, b) for a, b in links if frame_of(b) == f)
                if want != got:
                    ck.fail(f"links {got} are not the greedy closest-pair matching {want}", {**sig, "check": "distance_greedy"}, case)


# ---------------------------------------------------------------------------------------
# generators
# ---------------------------------------------------------------------------------------

def lattice_histories(nframes: int, atoms, with_pairs=True):
    from droplets.droplets import SphericalDroplet

    per_frame = [()] + [(a,) for a in atoms]
    if with_pairs:
        per_frame += [(a, b) for a in atoms for b in atoms]
    for combo in itertools.product(per_frame, repeat=nframes):
        yield [[SphericalDroplet(np.array([float(p)]), r) for p, r in fr] for fr in combo], combo


def random_history(ck: Check):
    from droplets.droplets import DiffuseDroplet, SphericalDroplet
    from .c10 import make_grid

    rng = ck.rng
    dim = rng.choice([1, 2, 3])
    per = [rng.random() < 0.6 for _ in range(dim)]
    size = [rng.choice([6.0, 8.0, 10.0]) for _ in range(dim)]
    grid = make_grid(dim, per, rng, size=size) if rng.random() < 0.6 else None
    lo = [b[0] for b in grid.axes_bounds] if grid is not None else [0.0] * dim
    nfr = rng.choice([1, 2, 3, 4, 6])
    style = rng.choice(["moving", "moving", "moving", "chaos"])
    cls0 = rng.choice([SphericalDroplet, DiffuseDroplet])
    # diffuse droplets WITH an interface width (wide ones too): tracking looks at radii only, the width must not matter
    wmode = rng.choice(["none", "narrow", "wide"])

    def cls(p, r):
        if cls0 is SphericalDroplet or wmode == "none":
            return cls0(p, r)
        return DiffuseDroplet(p, r, rng.uniform(0.05, 0.3) if wmode == "narrow" else rng.uniform(1.0, 4.0))

    frames = []
    pop = []
    for _ in range(rng.choice([0, 1, 2, 3, 4])):
        pop.append([np.array([lo[k] + rng.uniform(0, size[k]) for k in range(dim)]), rng.uniform(0.2, 0.9)])
    for f in range(nfr):
        if style == "chaos":
            fr = [cls(np.array([lo[k] + rng.uniform(-1, size[k] + 1) for k in range(dim)]), rng.uniform(0.1, 1.5)) for _ in range(rng.choice([0, 0, 1, 2, 3, 5]))]
        else:
            # births, deaths, small motions (also across periodic faces), occasional empty frame
            if rng.random() < 0.12:
                fr = []
            else:
                nxt = []
                for p, r in pop:
                    if rng.random() < 0.12:
                        continue
                    step = np.array([rng.uniform(-0.4, 0.4) for _ in range(dim)])
                    nxt.append([p + step, max(0.05, r + rng.uniform(-0.05, 0.05)) if r > 0 else 0.0])
                if rng.random() < 0.3:
                    nxt.append([np.array([lo[k] + rng.uniform(0, size[k]) for k in range(dim)]), rng.uniform(0.2, 0.9)])
                rng.shuffle(nxt)
                pop = nxt
                if rng.random() < 0.15 and nxt:
                    # a droplet that has just vanished is still listed (radius 0), somewhere in the frame
                    k0 = rng.randrange(len(nxt))
                    nxt[k0] = [nxt[k0][0], 0.0]
                fr = []
                for p, r in pop:
                    pp = p.copy()
                    if grid is not None:
                        for k in range(dim):
                            if per[k]:
                                pp[k] = lo[k] + (pp[k] - lo[k]) % size[k]
                    fr.append(cls(pp, r))
        frames.append(fr)
    t0 = rng.choice([0, -3, 2.5])
    # "late" and "fine" time axes: strictly increasing times that differ by much less than their
    # magnitude / than 1e-8 (the end of a long run, a very fine time step)
    kind = rng.choice(["int", "float", "int", "float", "late", "fine"])
    if kind == "late":
        t0 = rng.choice([1e6, 2.0**40, -3e7])
    elif kind == "fine":
        t0 = rng.choice([0.0, 1e-9])
    times, t = [], t0
    for _ in range(nfr):
        times.append(t)
        t = t + {"int": rng.choice([1, 2, 5]), "float": rng.uniform(0.1, 2.0), "late": rng.choice([1.0, 0.5, 2.0]),
                 "fine": rng.choice([1e-9, 2.5e-10])}[kind]
    method = rng.choice(["overlap", "distance"])
    max_dist = rng.choice([None, 0.5, 1.5, rng.uniform(0.1, 3)]) if method == "distance" else None
    desc = {"kind": "random", "dim": dim, "periodic": per if grid is not None else None,
            "bounds": [list(b) for b in grid.axes_bounds] if grid is not None else None, "style": style, "time_axis": kind}
    return History(frames, times, grid, method, max_dist, desc)


def case_of(h: History) -> dict:
    return {**h.desc, "method": h.method, "max_dist": h.max_dist, "times": [float(t) for t in h.times],
            "frames": [[[type(d).__name__, d.data.tolist()] for d in fr] for fr in h.frames]}


EMPTY_FRAME_RAISES = False  # model switch: does distance matching raise on an empty frame after a non-empty one?


def process(ck: Check, pid: str, h: History, reqs, expect, key):
    sig = {"method": h.method, "periodic": h.grid is not None}
    case = case_of(h)
    ndrops = len(h.ids)
    ck.case(key, nontrivial=ndrops >= 2 and len(h.frames) >= 2)
    ck.count(f"method.{h.method}")
    ck.count(f"time_axis.{h.desc.get('time_axis', 'lattice')}")
    if any(len(fr) == 0 for fr in h.frames):
        ck.count("with_empty_frame")
    res = run_real(h)
    if pid == "C06":
        pred_c06(ck, h, res, sig, case)
    else:
        pred_c07(ck, h, res, sig, case)
    # correspondence request (skip histories with indistinguishable droplets in one frame: identities are ambiguous)
    dup = any(len({(type(d).__name__, d.data.tobytes()) for d in fr}) != len(fr) for fr in h.frames)
    if dup:
        ck.count("duplicates_in_frame(skipped in correspondence)")
        return
    reqs.append(request(h, EMPTY_FRAME_RAISES))
    if res[0] == "err":
        expect.append((case, "err " + res[1]))
    else:
        expect.append((case, "ok " + ";".join(",".join(f"{g}@{q(t)}" for g, t, _ in tr) for tr in res[1])))


def correspond(ck: Check, pid: str, exhaustive_frames: int, n_random: int):
    from pde import CartesianGrid

    reqs, expect = [], []
    atoms = [(p, r) for p in range(3) for r in (0.4, 1.1)]
    grid_p = CartesianGrid([[0, 3]], [3], periodic=True)
    for frames, combo in lattice_histories(exhaustive_frames, atoms):
        for grid in (None, grid_p):
            times = list(range(len(frames)))
            configs = [("overlap", None)] + [("distance", c) for c in (0.5, 1.5, None)]
            for method, md in configs:
                h = History([[d.copy() for d in fr] for fr in frames], times, grid, method, md,
                            {"kind": "lattice", "periodic": grid is not None, "combo": [list(map(list, fr)) for fr in combo]})
                process(ck, pid, h, reqs, expect, ("lattice", combo, grid is not None, method, md))
    for _ in range(n_random):
        h = random_history(ck)
        key = ("random", h.method, h.max_dist, tuple(float(t) for t in h.times), tuple(tuple(d.data.tobytes() for d in fr) for fr in h.frames), h.grid is not None)
        process(ck, pid, h, reqs, expect, key)
        if len(ck.samples) < 3 and len(h.ids) >= 3:
            ck.sample(case_of(h))
    try:
        outs = run_driver(reqs)
    except RuntimeError as e:
        ck.mismatch("c06-tracks", f"driver unavailable: {e}", {})
        return
    for (case, want), out in zip(expect, outs):
        if out != want:
            ck.mismatch("c06-tracks", f"impl {want[:200]} | model {out[:200]}", case)


def rebuild(case: dict) -> History:
    from pde import CartesianGrid
    from droplets import droplets as D

    frames = [[getattr(D, c)(*vals) for c, vals in fr] for fr in case["frames"]]
    grid = None
    if case.get("kind") == "lattice" and case.get("periodic"):
        grid = CartesianGrid([[0, 3]], [3], periodic=True)
    elif case.get("bounds"):
        grid = CartesianGrid(case["bounds"], [4] * case["dim"], periodic=case["periodic"])
    return History(frames, case["times"], grid, case["method"], case["max_dist"], {k: case[k] for k in ("kind",) if k in case})


def replay_pid(pid: str, case: dict):
    ck = Check(pid, "quick", 0)
    h = rebuild(case)
    res = run_real(h)
    (pred_c06 if pid == "C06" else pred_c07)(ck, h, res, {}, case)
    return not ck.failures, "; ".join(f["what"] for f in ck.failures[:3]) or "property holds on this input"


def replay(case: dict):
    return replay_pid("C06", case)


def run(ck: Check, pid: str = "C06"):
    nf = ck.budget(2, 3)
    ck.rule = (f"exhaustive 1-D lattice histories (positions 0..2, radii {{0.4,1.1}}, <=2 droplets per frame incl. empty frames and overlapping pairs, "
               f"{nf} frames, periodic and not, overlap + distance with cut-offs {{0.5,1.5,inf}}) + random 1-3-D histories with births, deaths, motion across "
               "periodic faces, empty frames, int/float/negative times; non-trivial = distinct histories with >= 2 droplets and >= 2 frames")
    ck.extra_cov["exhaustive_part"] = f"1-D lattice histories with {nf} frames enumerated completely"
    ck.assumptions = ["times strictly increasing", "overlap/distance tables are computed by the real predicates and passed to the model",
                      "identity of stored copies recovered by bytewise equality (histories with indistinguishable droplets in one frame are checked by the predicates only)"]
    ck.lean = lean_stage(pid, leanchecker=not ck.quick)
    correspond(ck, pid, nf, ck.budget(1500, 30000))
    if (not ck.lean.ok or ck.mismatches) and not ck.failures:
        correspond(ck, pid, 2, 20000)
