"""C01 — locating a rendered emulsion returns each droplet once, with exact volume.

Lean: Props/C01.lean (half-cell lemma for every lattice placement / spacing / dimension via fibres,
radial half-spacing bound, telescoping shell volumes) on top of C02 (merge loop) and C03 (rendering).
Correspondence: the MODEL pipeline — exact rational `inside` of Model/Render (driver `c03 inside`),
raster-ordered in-box labelling (independent BFS = the scipy contract monitored in C02), merge loop
of Model/Merge (driver `c02 merge`) — against the real `Emulsion.get_phasefield` -> `locate_droplets`.
Predicate: one droplet per original, volume = covered cells x cell volume, centre within half a
spacing per axis under the periodic metric, inside the box on periodic axes; radial and cylindrical
grids with centred / on-axis droplets."""
from __future__ import annotations

import itertools
import math
from fractions import Fraction

import numpy as np

from .common import Check, lean_stage, q, rel_close, run_driver
from .c02 import MASK_OP_LIMIT, inbox_labels, pdiff, sphere_radius


def place_droplets(rng, grid, k):
    """well-separated, resolvable droplets: rejection sampling with explicit margins"""
    from droplets.droplets import SphericalDroplet

    dim = grid.dim
    h = np.array(grid.discretization)
    lo = np.array([b[0] for b in grid.axes_bounds])
    hi = np.array([b[1] for b in grid.axes_bounds])
    L = hi - lo
    hmax = float(h.max())
    drops = []
    for _ in range(200):
        if len(drops) == k:
            break
        R = rng.uniform(1.2, 3.2) * hmax
        c = np.zeros(dim)
        ok = True
        for a in range(dim):
            if grid.periodic[a]:
                if 2 * R + 2 * h[a] >= L[a]:
                    ok = False
                c[a] = rng.uniform(lo[a] - 0.5 * L[a], hi[a] + 0.5 * L[a]) if rng.random() < 0.3 else rng.uniform(lo[a], hi[a])
                if rng.random() < 0.15:
                    # any periodic image is a valid centre: between half a period and several periods outside the box
                    c[a] += rng.choice([-3, -2, -1, 1, 2]) * L[a]
            else:
                if 2 * (R + h[a]) >= L[a]:
                    ok = False
                else:
                    c[a] = rng.uniform(lo[a] + R + h[a], hi[a] - R - h[a])
        if not ok:
            continue
        gap = (2.2 + math.sqrt(dim)) * hmax
        if any(np.linalg.norm(pdiff(c, d.position, grid)) < R + d.radius + gap + 0.35 * (R + d.radius) for d in drops):
            continue
        # no cell centre on a knife edge
        diff = pdiff(grid.cell_coords, c, grid)
        dist = np.linalg.norm(diff, axis=-1)
        if np.any(np.abs(dist - R) < 1e-6 * hmax) or not np.any(dist < R):
            continue
        drops.append(SphericalDroplet(c, R))
    return drops


def cart_case(ck: Check, rng, reqs, expect, corner=False):
    from pde import CartesianGrid
    from droplets.emulsions import Emulsion
    from droplets.image_analysis import locate_droplets

    dim = rng.choice([1, 2, 2, 3])
    shape = [rng.randint(12, 40) if dim == 1 else (rng.randint(8, 24) if dim == 2 else rng.randint(7, 12)) for _ in range(dim)]
    # the unit of length: every length of the case is multiplied by it (nanometres in metres ... kilometres in metres)
    unit = rng.choice([1.0, 1.0, 1.0, 1e-9, 1e-3, 1e4])
    h = [rng.choice([1.0, 0.5, 0.39, 1.5]) * rng.choice([1.0, 1.0, 1.3]) * unit for _ in range(dim)]
    lo = [rng.choice([0.0, -3.7, 11.0]) * unit for _ in range(dim)]
    per = [rng.random() < 0.6 for _ in range(dim)]
    if unit != 1.0:
        ck.count("cartesian.unit_of_length_not_1")
    if corner and dim >= 2:
        # a droplet around a CORNER of the box on a grid with unequal cell counts, at least two periodic axes: the pieces
        # are merged through a chain of boundary pairs (three-piece configurations when the corner cell itself is not covered)
        from droplets.droplets import SphericalDroplet

        while len(set(shape)) < dim:
            shape = [rng.randint(8, 24) if dim == 2 else rng.randint(7, 12) for _ in range(dim)]
        per = [True] * dim
        if dim == 3 and rng.random() < 0.5:
            per[rng.randrange(3)] = False
        grid = CartesianGrid([[a, a + n * d] for a, n, d in zip(lo, shape, h)], shape, periodic=per)
        hmax = max(h)
        drops = []
        for _ in range(50):
            R = rng.uniform(1.6, 3.0) * hmax
            if any(2 * R + 2 * h[a] >= shape[a] * h[a] for a in range(dim)):
                continue
            c = []
            for a in range(dim):
                lo_a, hi_a = grid.axes_bounds[a]
                if per[a]:
                    off = rng.uniform(0.45, 1.0) * R * rng.choice([-1, 1])
                    c.append(rng.choice([lo_a, hi_a]) + off)
                else:
                    c.append(rng.uniform(lo_a + R + h[a], hi_a - R - h[a]))
            c = np.array(c)
            dist = np.linalg.norm(pdiff(grid.cell_coords, c, grid), axis=-1)
            if np.any(np.abs(dist - R) < 1e-6 * hmax) or not np.any(dist < R):
                continue
            drops = [SphericalDroplet(c, R)]
            break
        ck.count("cartesian.corner_droplet")
    else:
        grid = CartesianGrid([[a, a + n * d] for a, n, d in zip(lo, shape, h)], shape, periodic=per)
        drops = place_droplets(rng, grid, rng.choice([1, 1, 2, 3, 4]))
    if not drops:
        return
    em = Emulsion(drops)
    case = {"kind": "cartesian", "shape": shape, "spacing": h, "origin": lo, "periodic": per, "droplets": [[d.position.tolist(), d.radius] for d in drops]}
    sig = {"kind": "cartesian", "dim": dim}
    ck.case(("cart", tuple(shape), tuple(h), tuple(lo), tuple(per), tuple(d.data.tobytes() for d in drops)))
    ck.count(f"cartesian.dim{dim}")
    straddle = any(grid.periodic[a] and (d.position[a] - d.radius < grid.axes_bounds[a][0] or d.position[a] + d.radius > grid.axes_bounds[a][1]) for d in drops for a in range(dim))
    if straddle:
        ck.count("cartesian.straddling_periodic_boundary")
    field = em.get_phasefield(grid)
    found = locate_droplets(field, refine=False)
    cellvol = float(np.prod(grid.discretization))
    hh = np.array(grid.discretization)
    if len(found) != len(drops):
        ck.fail(f"{len(found)} droplets located for {len(drops)} rendered", {**sig, "check": "count"}, case)
    else:
        unused = list(range(len(found)))
        for d in drops:
            j = min(unused, key=lambda t: np.linalg.norm(pdiff(found[t].position, d.position, grid)))
            unused.remove(j)
            f = found[j]
            ncov = int(np.sum(np.linalg.norm(pdiff(grid.cell_coords, d.position, grid), axis=-1) < d.radius))
            if not rel_close(f.volume, ncov * cellvol, 1e-12):
                ck.fail(f"volume {f.volume} != {ncov} covered cells x {cellvol}", {**sig, "check": "volume"}, case)
            off = np.abs(pdiff(f.position, d.position, grid))
            if np.any(off >= hh / 2 * (1 + 1e-9)):
                ck.fail(f"centre off by {off} (half spacing {hh / 2})", {**sig, "check": "lattice_fibres_com"}, case)
            for a in range(dim):
                if grid.periodic[a] and not (grid.axes_bounds[a][0] <= f.position[a] <= grid.axes_bounds[a][1]):  # closed: (x - lo) % L + lo may round up to hi
                    ck.fail(f"position {f.position} outside the box on periodic axis {a}", {**sig, "check": "in_box"}, case)
    # ---- model pipeline: exact rational rendering -> labelling -> merge loop
    axes = " ".join(f"{q(grid.axes_bounds[a][0])} {q(grid.discretization[a])} {grid.shape[a]} {int(grid.periodic[a])}" for a in range(dim))
    for d in drops:
        reqs.append(f"c03 inside {dim} {axes} " + " ".join(q(x) for x in d.position) + " " + q(d.radius))
    expect.append(("cart", case, grid, found, len(drops)))


def radial_case(ck: Check, rng):
    from pde import PolarSymGrid, SphericalSymGrid
    from droplets.droplets import SphericalDroplet
    from droplets.image_analysis import locate_droplets

    cls = rng.choice([PolarSymGrid, SphericalSymGrid])
    n = rng.randint(8, 40)
    rmax = rng.choice([1.0, 8.0, 12.5])
    grid = cls(rmax, n)
    dr = grid.discretization[0]
    R = rng.uniform(1.2 * dr, rmax - 1.2 * dr)
    if abs(((R / dr) - 0.5) % 1.0) < 1e-6 or abs(((R / dr) - 0.5) % 1.0 - 1) < 1e-6:
        return
    d = SphericalDroplet(np.zeros(grid.dim), R)
    case = {"kind": "radial", "grid": repr(grid), "R": R}
    sig = {"kind": "radial", "dim": grid.dim}
    ck.case(("radial", cls.__name__, n, rmax, R))
    ck.count(f"radial.{cls.__name__}")
    found = locate_droplets(d.get_phase_field(grid), refine=False)
    if len(found) != 1:
        ck.fail(f"{len(found)} droplets located for one centred droplet", {**sig, "check": "count"}, case)
        return
    f = found[0]
    if abs(f.radius - R) > dr / 2 + 1e-12 or np.any(f.position != 0):
        ck.fail(f"located radius {f.radius} vs {R} (dr/2 = {dr / 2}), position {f.position}", {**sig, "check": "C01_radial"}, case)
    covered = grid.axes_coords[0] < R
    vol_cells = float(np.sum(grid.cell_volumes[covered]))
    if not rel_close(f.volume, vol_cells, 1e-12):
        ck.fail(f"volume {f.volume} != total volume of the covered shells {vol_cells}", {**sig, "check": "shells_telescope"}, case)


def cyl_case(ck: Check, rng):
    from pde import CylindricalSymGrid
    from droplets.droplets import SphericalDroplet
    from droplets.emulsions import Emulsion
    from droplets.image_analysis import locate_droplets

    nr, nz = rng.randint(6, 12), rng.randint(16, 36)
    dr, dz = rng.choice([1.0, 0.5, 0.8]), rng.choice([1.0, 0.5, 1.25])
    zlo = rng.choice([0.0, -4.0])
    per = rng.random() < 0.5
    grid = CylindricalSymGrid(nr * dr, [zlo, zlo + nz * dz], [nr, nz], periodic_z=per)
    k = rng.choice([1, 1, 2])
    drops = []
    for _ in range(50):
        if len(drops) == k:
            break
        R = rng.uniform(1.3, 2.6) * max(dr, dz)
        if R + dr >= nr * dr or 2 * (R + dz) >= nz * dz / k:
            continue
        z = rng.uniform(zlo + R + dz, zlo + nz * dz - R - dz)
        if any(abs(z - d.position[2]) < R + d.radius + 4 * dz + 0.4 * (R + d.radius) for d in drops):
            continue
        x = grid.transform(grid.cell_coords, "grid", "cartesian")
        dist = np.linalg.norm(x - np.array([0, 0, z]), axis=-1)
        if np.any(np.abs(dist - R) < 1e-6) or not np.any(dist < R):
            continue
        drops.append(SphericalDroplet(np.array([0.0, 0.0, z]), R))
    if not drops:
        return
    case = {"kind": "cylindrical", "grid": repr(grid), "droplets": [[d.position.tolist(), d.radius] for d in drops]}
    sig = {"kind": "cylindrical", "periodic_z": per}
    ck.case(("cyl", repr(grid), tuple(d.data.tobytes() for d in drops)))
    ck.count("cylindrical.periodic" if per else "cylindrical")
    field = Emulsion(drops).get_phasefield(grid)
    found = locate_droplets(field, refine=False)
    if len(found) != len(drops):
        ck.fail(f"{len(found)} droplets located for {len(drops)} on-axis droplets", {**sig, "check": "count"}, case)
        return
    # ---- model pipeline (C01_cylinder_model): exact rational rendering of the (r, z) half plane -> Cyl.candidates
    try:
        axes = f"0/1 {q(dr)} {nr} 0 {q(zlo)} {q(dz)} {nz} {int(per)}"
        outs = run_driver([f"c03 inside 2 {axes} 0/1 {q(d.position[2])} {q(d.radius)}" for d in drops])
        mask = np.zeros((nr, nz), dtype=bool)
        for out in outs:
            mask |= np.array([c == "1" for c in out.split()[1]]).reshape(nr, nz)
        out = run_driver([f"c02 cyl {nr} {nz} {int(per)} " + " ".join(str(int(b)) for b in mask.flat)])[0]
        items = sorted((float(Fraction(it.split(":")[0])), int(it.split(":")[1])) for it in out[2:].strip().split(";") if it) if out.startswith("ok") and "spanning" not in out else None
        got = sorted((float(f.position[2]), float(f.volume)) for f in found)
        unit = math.pi * dr * dr * dz
        if items is None or len(items) != len(got) or any(
                abs(zlo + dz * zq - z) > 1e-9 * max(1.0, abs(z)) or not rel_close(v, unit * w, 1e-12) for (zq, w), (z, v) in zip(items, got)):
            ck.mismatch("c01-cyl-pipeline", f"implementation locates {got}; model pipeline {out[:200]} (z in cells, weight in pi dr^2 dz)", case)
        ck.count("cylindrical.model_pipeline")
    except RuntimeError as e:
        ck.mismatch("c01-cyl-pipeline", f"driver unavailable: {e}", case)
    x = grid.transform(grid.cell_coords, "grid", "cartesian")
    for d in drops:
        f = min(found, key=lambda t: abs(t.position[2] - d.position[2]))
        covered = np.linalg.norm(x - d.position, axis=-1) < d.radius
        vol_cells = float(np.sum(grid.cell_volumes[covered]))
        if not rel_close(f.volume, vol_cells, 1e-12):
            ck.fail(f"volume {f.volume} != total volume of the covered cells {vol_cells}", {**sig, "check": "volume"}, case)
        if abs(f.position[2] - d.position[2]) >= dz / 2 + 1e-9 or f.position[0] != 0 or f.position[1] != 0:
            ck.fail(f"located at {f.position}, original {d.position} (dz/2 = {dz / 2})", {**sig, "check": "lattice_fibres_com"}, case)


def cyl_boundary_case(ck: Check, rng):
    """C01_cylinder_periodic_model on the implementation: an on-axis droplet ACROSS (or near) the periodic z boundary.  The sharp periodic
    image is rendered by the MODEL (exact rationals, `c03 inside` with a periodic z axis) and handed to the real `locate_droplets_in_mask`;
    it is also compared with the library's own rendering (correct there since the repair of D12)."""
    from pde import CylindricalSymGrid, ScalarField
    from droplets.image_analysis import locate_droplets_in_mask

    nr, nz = rng.randint(5, 10), rng.randint(10, 24)
    dr, dz = rng.choice([1.0, 0.5, 0.8]), rng.choice([1.0, 0.5, 1.25])
    zlo = rng.choice([0.0, -4.0])
    L = nz * dz
    h = max(dr, dz)
    R = rng.uniform(1.2, 2.6) * h
    if 2 * R + 2 * h > L or R + dr >= nr * dr:
        return
    # within R of the boundary (either side), sometimes exactly on it or on a cell centre next to it
    z = zlo + rng.choice([rng.uniform(0, R), L - rng.uniform(0, R), 0.0, dz / 2, L - dz / 2, rng.uniform(0, L)])
    z = min(max(z, zlo), zlo + L - 1e-9)
    axes = f"0/1 {q(dr)} {nr} 0 {q(zlo)} {q(dz)} {nz} 1"
    try:
        out = run_driver([f"c03 inside 2 {axes} 0/1 {q(z)} {q(R)}"])[0]
        mask = np.array([c == "1" for c in out.split()[1]]).reshape(nr, nz)
        mout = run_driver([f"c02 cyl {nr} {nz} 1 " + " ".join(str(int(b)) for b in mask.flat)])[0]
    except (RuntimeError, IndexError) as e:
        ck.mismatch("c01-cyl-pipeline", f"driver unavailable: {e}", {})
        return
    if not mask.any():
        return
    # knife edge: a cell centre exactly on the sphere is excluded by the strict comparison in both; nothing to skip
    grid = CylindricalSymGrid(nr * dr, [zlo, zlo + L], [nr, nz], periodic_z=True)
    case = {"kind": "cylindrical-boundary", "grid": repr(grid), "droplet": [float(z), float(R)], "mask": mask.astype(int).tolist()}
    sig = {"kind": "cylindrical-boundary", "periodic_z": True}
    ck.case(("cylb", repr(grid), float(z), float(R)))
    ck.count("cylindrical.across_periodic_boundary")
    # since the repair of D12 the library renders across the periodic z boundary itself: its sharp picture is the model's (cells whose
    # centre lies within 1e-9 of the sphere excepted), and locating in the library-rendered field gives the same droplet
    from droplets.droplets import SphericalDroplet
    from droplets.image_analysis import locate_droplets

    lib = SphericalDroplet(np.array([0.0, 0.0, float(z)]), float(R)).get_phase_field(grid).data > 0.5
    rr, zz = grid.cell_coords[..., 0], grid.cell_coords[..., 1]
    dzw = (zz - float(z) + L / 2) % L - L / 2
    knife = np.abs(np.sqrt(rr**2 + dzw**2) - float(R)) < 1e-9
    ck.count("cylindrical.library_rendering_across_boundary")
    if np.any((lib != mask) & ~knife):
        ck.fail(f"the library's rendering of an on-axis droplet at z={float(z)} (R={float(R)}) on the periodic cylinder differs from the periodic picture in "
                f"{int(np.sum((lib != mask) & ~knife))} cells", {**sig, "check": "render_periodic_cylinder"}, case)
    try:
        found = locate_droplets_in_mask(ScalarField(grid, mask, dtype=bool))
        found_lib = locate_droplets(ScalarField(grid, lib.astype(float)), threshold=0.5) if not knife.any() else None
    except Exception as e:  # noqa: BLE001
        ck.fail(f"locating raised {type(e).__name__}: {e}", {**sig, "check": "total"}, case)
        return
    if len(found) != 1:
        ck.fail(f"{len(found)} droplets located for one on-axis droplet across the periodic boundary", {**sig, "check": "count"}, case)
        return
    if found_lib is not None and (len(found_lib) != 1 or not rel_close(found_lib[0].volume, found[0].volume, 1e-12) or abs(found_lib[0].position[2] - found[0].position[2]) > 1e-9 * max(1.0, L)):
        ck.fail(f"locate_droplets on the library-rendered field gives {[str(x) for x in found_lib]}, on the periodic picture {found[0]}", {**sig, "check": "count"}, case)
    f = found[0]
    vol_cells = float(np.sum(grid.cell_volumes[mask]))
    if not rel_close(f.volume, vol_cells, 1e-12):
        ck.fail(f"volume {f.volume} != total volume of the covered cells {vol_cells}", {**sig, "check": "volume"}, case)
    off = (f.position[2] - z + L / 2) % L - L / 2
    if abs(off) >= dz / 2 + 1e-9 or f.position[0] != 0 or f.position[1] != 0:
        ck.fail(f"located at {f.position}, original z = {z} (dz/2 = {dz / 2})", {**sig, "check": "lattice_fibres_com"}, case)
    if not (zlo <= f.position[2] <= zlo + L):
        ck.fail(f"position {f.position} outside the box on the periodic axis", {**sig, "check": "in_box"}, case)
    # model candidates (before the overlap filter): all at the same place with the same weight
    items = [(float(Fraction(it.split(":")[0])), int(it.split(":")[1])) for it in mout[2:].strip().split(";") if it] if mout.startswith("ok") and "spanning" not in mout else None
    unit = math.pi * dr * dr * dz
    if not items or any(abs(((zlo + dz * zq) - f.position[2] + L / 2) % L - L / 2) > 1e-9 * max(1.0, L) or not rel_close(f.volume, unit * w, 1e-12) for zq, w in items):
        ck.mismatch("c01-cyl-pipeline", f"implementation locates (z {f.position[2]}, volume {f.volume}); model candidates {mout[:200]}", case)


def lattice_offsets(ck: Check):
    """exhaustive lattice offsets c in {0..15}/16 h per axis for a few radii (1-D and 2-D)"""
    from pde import CartesianGrid
    from droplets.droplets import SphericalDroplet
    from droplets.image_analysis import locate_droplets

    for dim, n in ((1, 16), (2, 12)):
        for per in (False, True):
            grid = CartesianGrid([[0, n]] * dim, [n] * dim, periodic=per)
            for R in (1.3, 2.0, 2.7):
                for offs in itertools.product(range(16), repeat=dim):
                    c = np.array([n / 2 + o / 16 for o in offs]) if not per else np.array([o / 16 for o in offs])
                    dist = np.linalg.norm(pdiff(grid.cell_coords, c, grid), axis=-1)
                    if np.any(np.abs(dist - R) < 1e-9):
                        continue
                    found = locate_droplets(SphericalDroplet(c, R).get_phase_field(grid), refine=False)
                    ck.case(("offset", dim, per, R, offs))
                    ok = len(found) == 1 and np.all(np.abs(pdiff(found[0].position, c, grid)) < 0.5 + 1e-9) and rel_close(found[0].volume, float(np.sum(dist < R)), 1e-12)
                    if not ok:
                        ck.fail(f"lattice offset {offs}/16, R={R}, periodic={per}: located {list(found)}", {"kind": "offsets", "dim": dim, "check": "lattice_fibres_com"},
                                {"kind": "offsets", "dim": dim, "periodic": per, "R": R, "centre": c.tolist()})
    ck.stats["exhaustive_offsets"] = "16^d lattice offsets x 3 radii x periodic/not, d = 1, 2"


def run_cases(ck: Check, n_cart: int, n_rad: int, n_cyl: int):
    rng = ck.rng
    reqs, expect = [], []
    for i in range(n_cart):
        cart_case(ck, rng, reqs, expect, corner=(i % 4 == 3))
    for _ in range(n_rad):
        radial_case(ck, rng)
    for _ in range(n_cyl):
        cyl_case(ck, rng)
        cyl_boundary_case(ck, rng)
    # model pipeline
    outs = run_driver(reqs)
    pos = 0
    reqs2, expect2 = [], []
    for kind, case, grid, found, nd in expect:
        mask = np.zeros(grid.shape, dtype=bool)
        bad = False
        for _ in range(nd):
            out = outs[pos]
            pos += 1
            if not out.startswith("ok"):
                bad = True
                continue
            mask |= np.array([c == "1" for c in out.split()[1]]).reshape(grid.shape)
        if bad:
            ck.mismatch("c01-pipeline", "model rendering failed", case)
            continue
        head = f"{grid.dim} " + " ".join(map(str, grid.shape)) + " " + " ".join(str(int(p)) for p in grid.periodic) + " "
        if mask.size <= MASK_OP_LIMIT:
            # the whole model pipeline inside Lean: rendering -> verified labeller -> merge loop
            reqs2.append("c02 mask " + head + " ".join(str(int(b)) for b in mask.flat))
            ck.count("pipeline.model_labels_the_mask")
        else:
            lab = inbox_labels(mask)
            reqs2.append("c02 merge " + head + " ".join(map(str, lab.flat)))
        expect2.append((case, grid, found))
    outs2 = run_driver(reqs2)
    for (case, grid, found), out in zip(expect2, outs2):
        if out.startswith("ok") and "|" in out:
            out = "ok " + out.split("|", 1)[1].strip()
        items = [x for x in out[2:].strip().split(";") if x] if out.startswith("ok") else None
        if items is None or len(items) != len(found):
            ck.mismatch("c01-pipeline", f"model pipeline finds {None if items is None else len(items)} droplets, implementation {len(found)}", case)
            continue
        dx = np.array(grid.discretization)
        lo = np.array([b[0] for b in grid.axes_bounds])
        cellvol = float(np.prod(dx))
        L = np.array([b[1] - b[0] for b in grid.axes_bounds])
        for it, f in zip(items, found):
            _, cnt, ps = it.split(":")
            mp = lo + dx * np.array([float(Fraction(x)) for x in ps.split(",")])
            if not rel_close(f.volume, float(Fraction(cnt)) * cellvol, 1e-12) or np.abs(pdiff(mp, f.position, grid)).max() > 1e-9 * L.max():
                ck.mismatch("c01-pipeline", f"implementation locates (pos {f.position}, vol {f.volume}); model pipeline (pos {mp}, {cnt} cells)", case)
                break
    if expect:
        ck.sample(expect[0][1])


def replay(case: dict):
    ck = Check("C01", "quick", 0)
    run_cases(ck, 60, 30, 30)
    bad = [f["what"] for f in ck.failures] + [m["what"] for m in ck.mismatches]
    return not bad, "; ".join(bad[:3]) or "property holds on re-run"


def run(ck: Check):
    ck.rule = ("random emulsions of 1-4 well-separated resolvable spherical droplets (radius 1.2-3.2 cells, gap >= (2.2+sqrt d) cells + 35% of the radii, no cell centre within "
               "1e-6 cells of a surface) on Cartesian grids in 1-3-D with random shapes, anisotropic spacings, offsets, periodicity masks, centres also outside the box on "
               "periodic axes; polar/spherical grids with a centred droplet; cylindrical grids (periodic z or not) with 1-2 on-axis droplets away from the z boundary; "
               "exhaustive lattice offsets (thorough); non-trivial = every distinct configuration")
    ck.assumptions = ["separation/resolution preconditions as stated in the rule (the property leaves 'well-separated' unquantified)",
                      "periodic cylinders: the across-boundary stream compares the library's rendering (D12 repaired) with the model's periodic picture",
                      "annular radial grids (r_min > 0) are not generated"]
    ck.lean = lean_stage("C01", extra_modules=["DropletsVerif.Props.C02", "DropletsVerif.Props.C03"], leanchecker=not ck.quick)
    try:
        run_cases(ck, ck.budget(150, 3000), ck.budget(60, 800), ck.budget(60, 800))
    except RuntimeError as e:
        ck.mismatch("c01-pipeline", f"driver unavailable: {e}", {})
    if not ck.quick:
        lattice_offsets(ck)
