"""C03 — a rendered phase field is a faithful, finite picture of the droplet.

Lean: Generated/Profile.lean (regenerated from the three `_get_phase_field` and `get_phase_field`)
and Model/Render.lean + Props/C03.lean.
Correspondence: every cell value of the real `_get_phase_field` equals the generated
`render_value` evaluated (at Float, in the driver) on the distance / interface distance the real code
computes for that cell; the scaling line likewise; on Cartesian grids the sharp rendering equals
the exact rational `inside` of the model (periodic metric included).
Predicate (independent metric written here): finite, within [vmin, vmax], above the midpoint iff
inside the interface, sharp = indicator, monotone for spherical shapes, roll equivariance, sum and
clip of emulsions independent of order, documented dimension error."""
from __future__ import annotations

import itertools
import math

import numpy as np

from .common import Check, bits_to_float, lean_stage, q, rel_close, run_driver
from .c11 import fbits

CLASSES = ["SphericalDroplet", "DiffuseDroplet", "PerturbedDroplet2D", "PerturbedDroplet3D", "PerturbedDroplet3DAxisSym"]


def make_grid(rng, kind):
    from pde import CartesianGrid, CylindricalSymGrid, PolarSymGrid, SphericalSymGrid

    if kind in ("c1", "c2", "c3"):
        dim = int(kind[1])
        shape = [rng.choice([5, 6, 8]) if dim > 1 else rng.choice([8, 12, 16]) for _ in range(dim)]
        dx = [rng.choice([1.0, 0.5, 0.39, 1.5]) for _ in range(dim)]
        lo = [rng.choice([0.0, -1.25, 3.0]) for _ in range(dim)]
        per = [rng.random() < 0.6 for _ in range(dim)]
        return CartesianGrid([[a, a + n * d] for a, n, d in zip(lo, shape, dx)], shape, periodic=per)
    if kind == "polar":
        return PolarSymGrid(rng.choice([4.0, 6.0]), rng.choice([8, 12]))
    if kind == "spherical":
        return SphericalSymGrid(rng.choice([4.0, 6.0]), rng.choice([8, 12]))
    return CylindricalSymGrid(rng.choice([3.0, 4.0]), [rng.choice([0.0, -2.0]), 6.0], [rng.choice([4, 6]), rng.choice([8, 10])], periodic_z=(kind == "cylp"))


def make_droplet(rng, cls, grid, on_cell_centre=False):
    from droplets import droplets as D

    dim = grid.dim
    gname = type(grid).__name__
    if gname in ("PolarSymGrid", "SphericalSymGrid"):
        pos = np.zeros(dim)
    elif gname == "CylindricalSymGrid":
        zlo, zhi = grid.axes_bounds[1]
        pos = np.array([0.0, 0.0, rng.uniform(zlo - (1 if grid.periodic[1] else 0), zhi + (1 if grid.periodic[1] else 0))])
    else:
        pos = []
        for ax in range(dim):
            lo, hi = grid.axes_bounds[ax]
            if grid.periodic[ax] and rng.random() < 0.3:
                pos.append(rng.choice([lo - rng.uniform(0, 3), hi + rng.uniform(0, 3)]))  # outside the box on a periodic axis
            else:
                pos.append(rng.uniform(lo, hi))
        pos = np.array(pos)
        if on_cell_centre:
            idx = tuple(rng.randrange(n) for n in grid.shape)
            pos = np.array([grid.axes_coords[a][idx[a]] for a in range(dim)])
    size = min(b[1] - b[0] for b in grid.axes_bounds)
    R = rng.uniform(0.15, 0.45) * size
    w = rng.choice([None, 0.0, rng.uniform(0.2, 1.5)])
    if cls == "SphericalDroplet":
        return D.SphericalDroplet(pos, R)
    if cls == "DiffuseDroplet":
        return D.DiffuseDroplet(pos, R, w)
    modes = rng.choice([1, 2, 3, 4])
    amps = [rng.choice([0.0, rng.uniform(-0.25, 0.25)]) for _ in range(modes)]
    if modes >= 3 and rng.random() < 0.35:
        # sparse vectors: the lowest modes vanish, a higher one is clearly present
        k = rng.choice([2, 3]) if modes > 3 else 2
        amps[:k] = [0.0] * k
        amps[-1] = rng.choice([-1, 1]) * rng.uniform(0.15, 0.25)
    if cls == "PerturbedDroplet3DAxisSym":
        pos = np.array(pos, float)
        pos[:2] = 0.0  # axisymmetric droplets live on the z-axis
    return getattr(D, cls)(pos, R, w, amps)


def compatible(cls, grid):
    d = grid.dim
    if cls == "PerturbedDroplet2D":
        return d == 2
    if cls == "PerturbedDroplet3D":
        return d == 3 and type(grid).__name__ != "CylindricalSymGrid"
    if cls == "PerturbedDroplet3DAxisSym":
        return d == 3 and type(grid).__name__ in ("CylindricalSymGrid", "SphericalSymGrid", "CartesianGrid")
    return True


def my_diff(grid, pos):
    """independent periodic difference vectors (cells - centre), cartesian components"""
    cc = grid.cell_coords
    x = grid.transform(cc, "grid", "cartesian")  # coordinate transform of the grid (not the metric under test)
    diff = x - np.asarray(pos, float)
    name = type(grid).__name__
    if name == "CartesianGrid":
        for ax in range(grid.dim):
            if grid.periodic[ax]:
                lo, hi = grid.axes_bounds[ax]
                L = hi - lo
                diff[..., ax] = (diff[..., ax] + L / 2) % L - L / 2
    elif name == "CylindricalSymGrid" and grid.periodic[1]:
        lo, hi = grid.axes_bounds[1]
        L = hi - lo
        diff[..., 2] = (diff[..., 2] + L / 2) % L - L / 2
    return diff


def interface_of(d, diff, dist):
    """interface distance in the direction of each cell: the DOCUMENTED harmonic series evaluated here
    (R (1 + sum_n a_n sin n phi + b_n cos n phi) in 2-D, R (1 + sum_k a_k Y_k) in 3-D with the library's real
    harmonics as basis functions), not the droplet's own `interface_distance` (which C13 compares with its
    regenerated model) - so a wrong mode number or a dropped term in the series is visible here too"""
    from droplets.tools import spherical

    name = type(d).__name__
    if name in ("SphericalDroplet", "DiffuseDroplet"):
        return np.full(dist.shape, d.radius)
    amps = [float(a) for a in d.amplitudes]
    with np.errstate(all="ignore"):
        if d.dim == 2:
            phi = np.arctan2(diff[..., 1], diff[..., 0])
            series = np.ones(dist.shape)
            for n in range(1, (len(amps) + 1) // 2 + 1):
                a = amps[2 * n - 2]
                b = amps[2 * n - 1] if 2 * n - 1 < len(amps) else 0.0
                series = series + a * np.sin(n * phi) + b * np.cos(n * phi)
            return d.radius * series
        theta = np.arccos(np.divide(diff[..., 2], dist, out=np.zeros_like(dist), where=dist > 0))
        phi = np.arctan2(diff[..., 1], diff[..., 0])
        series = np.ones(dist.shape)
        for k, a in enumerate(amps, 1):
            if name == "PerturbedDroplet3DAxisSym":
                series = series + a * spherical.spherical_harmonic_symmetric(k, theta)
            else:
                series = series + a * spherical.spherical_harmonic_real_k(k, theta, phi)
        return d.radius * series


def check_field(ck: Check, d, grid, reqs, expect):
    from droplets.tools.spherical import polar_coordinates

    name, gname = type(d).__name__, type(grid).__name__
    vmin, vmax = ck.rng.choice([(0.0, 1.0), (0.0, 1.0), (-0.5, 2.0), (1.0, 0.0), (3.0, 3.0)])
    case = {"class": name, "grid": repr(grid), "droplet": str(d), "vmin": vmin, "vmax": vmax}
    per_cyl = gname == "CylindricalSymGrid" and bool(grid.periodic[1])
    sig = {"class": name, "grid": gname, "periodic_z": per_cyl}
    ck.case((name, repr(grid), d.data.tobytes(), vmin, vmax))
    ck.count(f"class.{name}")
    ck.count(f"grid.{gname}")
    try:
        field = d.get_phase_field(grid, vmin=vmin, vmax=vmax).data
        raw = d._get_phase_field(grid)
        sharp = d._get_phase_field(grid, dtype=bool)
    except Exception as e:  # noqa: BLE001
        ck.fail(f"rendering raised {type(e).__name__}: {e}", {**sig, "check": "render_total", "error": type(e).__name__}, case)
        return
    diff = my_diff(grid, d.position)
    dist = np.linalg.norm(diff, axis=-1)
    iface = interface_of(d, diff, dist)
    w = getattr(d, "interface_width", 0.0)
    if w is None:
        w = grid.typical_discretization
    is_sharp = name == "SphericalDroplet" or w == 0
    tol = 1e-9 * max(1.0, float(np.max(np.abs(iface))))
    safe = np.abs(dist - iface) > tol
    # does the metric the real code uses differ from the grid's periodic metric on some cell?
    from droplets.tools.spherical import polar_coordinates as _pc

    with np.errstate(all="ignore"):
        real_dist = _pc(grid, origin=d.position, ret_angle=False)
    straddles = bool(per_cyl and np.any(np.abs(real_dist - dist) > 1e-9))
    sig2 = {**sig, "metric_differs_from_periodic": straddles}
    # finite, between the requested values
    if not np.all(np.isfinite(field)):
        ck.fail("rendered field is not finite", {**sig2, "check": "render_finite"}, case)
        return
    lo, hi = min(vmin, vmax), max(vmin, vmax)
    if field.min() < lo - 1e-12 or field.max() > hi + 1e-12:
        ck.fail(f"field values [{field.min()}, {field.max()}] outside [{lo}, {hi}]", {**sig2, "check": "scale_between"}, case)
    # inside / outside
    inside = dist < iface
    if vmin != vmax:
        above = (field > (vmin + vmax) / 2) if vmax > vmin else (field < (vmin + vmax) / 2)
        bad = safe & (above != inside)
        if bad.any():
            idx = tuple(int(x) for x in np.argwhere(bad)[0])
            ck.fail(f"cell {idx}: value {field[idx]} vs midpoint, but distance {dist[idx]} and interface {iface[idx]} (periodic metric)", {**sig2, "check": "profile_gt_half_iff"}, {**case, "cell": list(idx)})
    if (safe & (sharp != inside)).any():
        ck.fail("boolean rendering is not the indicator of (distance < interface distance)", {**sig2, "check": "sharp_is_indicator"}, case)
    if is_sharp and not np.array_equal(raw, sharp.astype(float)):
        ck.fail("sharp droplet does not render exactly the indicator", {**sig2, "check": "sharp_is_indicator"}, case)
    if name in ("SphericalDroplet", "DiffuseDroplet") and not straddles:
        order = np.argsort(dist, axis=None, kind="stable")
        vals = raw.ravel()[order]
        ds = dist.ravel()[order]
        viol = (np.diff(vals) > 1e-15) & (np.diff(ds) > 1e-12)
        if viol.any():
            ck.fail("value increases with the distance from the centre", {**sig2, "check": "profile_antitone"}, case)
    # ---- correspondence with the generated profile (values the real code computes per cell)
    with np.errstate(all="ignore"):
        if name in ("SphericalDroplet", "DiffuseDroplet"):
            rd = polar_coordinates(grid, origin=d.position, ret_angle=False)
            ri = np.full(rd.shape, d.radius)
        else:
            rd, *angles = polar_coordinates(grid, origin=d.position, ret_angle=True)
            ri = d.interface_distance(*angles)
    kind = {"SphericalDroplet": "spherical", "DiffuseDroplet": "diffuse"}.get(name, "perturbed")
    cells = list(np.ndindex(*raw.shape))
    pick = cells if len(cells) <= 40 else [cells[i] for i in sorted({ck.rng.randrange(len(cells)) for _ in range(40)})]
    for c in pick:
        reqs.append(f"c03 value {kind} {fbits(ri[c])} {fbits(w)} {fbits(rd[c])} 0")
        expect.append(("value", case, float(raw[c]), 1e-15))
        reqs.append(f"c03 value {kind} {fbits(ri[c])} {fbits(w)} {fbits(rd[c])} 1")
        expect.append(("value", case, float(sharp[c]), 0.0))
        reqs.append(f"c03 scale {fbits(vmin)} {fbits(vmax)} {fbits(raw[c])}")
        expect.append(("value", case, float(field[c]), 1e-15))
    # exact rational inside/outside pattern on Cartesian grids (spherical shapes)
    if gname == "CartesianGrid" and name in ("SphericalDroplet", "DiffuseDroplet"):
        axes = " ".join(f"{q(grid.axes_bounds[a][0])} {q(grid.discretization[a])} {grid.shape[a]} {int(grid.periodic[a])}" for a in range(grid.dim))
        reqs.append(f"c03 inside {grid.dim} {axes} " + " ".join(q(x) for x in d.position) + " " + q(d.radius))
        expect.append(("inside", case, (sharp, safe), None))


def roll_cases(ck: Check, n: int):
    from droplets import droplets as D

    rng = ck.rng
    for _ in range(n):
        kind = rng.choice(["c1", "c2", "c2", "c3"])
        grid = make_grid(rng, kind)
        per_axes = [a for a in range(grid.dim) if grid.periodic[a]]
        if not per_axes:
            continue
        cls = rng.choice([c for c in CLASSES[:4] if compatible(c, grid)])
        d = make_droplet(rng, cls, grid)
        ax = rng.choice(per_axes)
        m = rng.randint(-grid.shape[ax], grid.shape[ax])
        d2 = d.copy()
        pos = d2.position.copy()
        pos[ax] += m * grid.discretization[ax]
        d2.position = pos
        ck.case(("roll", repr(grid), d.data.tobytes(), ax, m))
        try:
            f1, f2 = d.get_phase_field(grid).data, d2.get_phase_field(grid).data
        except Exception as e:  # noqa: BLE001
            ck.fail(f"rendering raised {type(e).__name__}: {e}", {"check": "render_total", "class": cls, "error": type(e).__name__}, {"class": cls, "grid": repr(grid), "droplet": str(d)})
            continue
        ck.count("roll_cases")
        if not np.allclose(f2, np.roll(f1, m, axis=ax), rtol=0, atol=1e-9):
            ck.fail(f"moving the droplet by {m} cells along periodic axis {ax} does not roll the field", {"check": "render_roll", "class": cls}, {"class": cls, "grid": repr(grid), "droplet": str(d), "axis": ax, "cells": m})


def emulsion_cases(ck: Check, n: int):
    from droplets.emulsions import Emulsion
    from pde import ScalarField

    rng = ck.rng
    for _ in range(n):
        kind = rng.choice(["c1", "c2", "c3", "polar", "cyl"])
        grid = make_grid(rng, kind)
        k = rng.choice([0, 1, 2, 3, 4])
        drops = [make_droplet(rng, rng.choice([c for c in CLASSES if compatible(c, grid)]), grid) for _ in range(k)]
        em = Emulsion(drops)
        ck.case(("emulsion", repr(grid), tuple(d.data.tobytes() for d in drops)), nontrivial=k >= 2)
        ck.count("emulsion_cases")
        case = {"grid": repr(grid), "droplets": [str(d) for d in drops]}
        try:
            got = em.get_phasefield(grid).data
            want = np.clip(sum((d.get_phase_field(grid).data for d in drops), np.zeros(grid.shape)), 0, 1) if k else np.zeros(grid.shape)
        except Exception as e:  # noqa: BLE001
            ck.fail(f"rendering an emulsion raised {type(e).__name__}: {e}", {"check": "render_total", "error": type(e).__name__}, case)
            continue
        if not np.allclose(got, want, rtol=0, atol=1e-12) or got.min() < 0 or got.max() > 1 or not np.all(np.isfinite(got)):
            ck.fail("emulsion field is not the clipped sum of its droplets' fields", {"check": "emulsionField"}, case)
        perm = list(drops)
        rng.shuffle(perm)
        if not np.allclose(Emulsion(perm).get_phasefield(grid).data, got, rtol=0, atol=1e-12):
            ck.fail("emulsion field depends on the order of the droplets", {"check": "emulsionField_perm"}, case)


def error_cases(ck: Check):
    from pde import UnitGrid
    from droplets.droplets import DiffuseDroplet, PerturbedDroplet2D, SphericalDroplet

    for d, grid in [(SphericalDroplet([1.0, 1.0], 1), UnitGrid([4])), (DiffuseDroplet([1.0], 1, 0.5), UnitGrid([4, 4])), (PerturbedDroplet2D([1.0, 1.0], 1, 0.5, [0.1]), UnitGrid([4, 4, 4]))]:
        ck.case(("dim-mismatch", type(d).__name__, grid.dim))
        try:
            d.get_phase_field(grid)
            ck.fail("droplet/grid dimension mismatch did not raise", {"check": "render_dim_mismatch"}, {"class": type(d).__name__})
        except ValueError:
            pass
        except Exception as e:  # noqa: BLE001
            ck.fail(f"dimension mismatch raised {type(e).__name__} instead of ValueError", {"check": "render_dim_mismatch"}, {"class": type(d).__name__})


def run_cases(ck: Check, n: int):
    rng = ck.rng
    reqs, expect = [], []
    kinds = ["c1", "c2", "c2", "c3", "polar", "spherical", "cyl", "cylp"]
    for i in range(n):
        grid = make_grid(rng, kinds[i % len(kinds)])
        cls = rng.choice([c for c in CLASSES if compatible(c, grid)])
        d = make_droplet(rng, cls, grid, on_cell_centre=(rng.random() < 0.25))
        twin = None
        if type(grid).__name__ == "CartesianGrid" and i % 3 == 0:
            # the same droplet rendered on a TWIN grid first: same shape and bounds, other periodicity (a picture must not depend
            # on what was rendered before - caches keyed by an incomplete description of the grid)
            from pde import CartesianGrid

            tper = [not p for p in grid.periodic] if rng.random() < 0.5 else [rng.random() < 0.5 for _ in grid.periodic]
            twin = CartesianGrid(grid.axes_bounds, grid.shape, periodic=tper)
            try:
                d.get_phase_field(twin)
            except Exception:  # noqa: BLE001  (only the rendering on `grid` is judged here)
                pass
            ck.count("rendered_on_twin_grid_first")
        d_asked = d.copy()  # what the caller asked to be drawn
        check_field(ck, d, grid, reqs, expect)
        if twin is not None and list(twin.periodic) != list(grid.periodic):
            check_field(ck, d, twin, reqs, expect)
        # a picture is a picture OF THE DROPLET ASKED FOR: drawing must not alter the droplet (all later pictures of the same object, on this
        # or another grid, would show something else - e.g. a centre given outside the box on a periodic axis silently replaced by its image)
        if d.data.tobytes() != d_asked.data.tobytes():
            ck.fail(f"rendering changed the droplet itself: asked for {d_asked}, the object now is {d} (later pictures of it show another droplet)",
                    {"class": type(d).__name__, "grid": type(grid).__name__, "check": "render_leaves_droplet_unchanged"},
                    {"class": type(d).__name__, "grid": repr(grid), "droplet": str(d_asked), "twin": repr(twin) if twin is not None else None})
        if len(ck.samples) < 3 and cls.startswith("Perturbed"):
            ck.sample({"class": cls, "grid": repr(grid), "droplet": str(d)})
    # corpus: 3-D perturbed droplets centred exactly on a cell centre (zero distance: angle undefined)
    for _ in range(12):
        grid = make_grid(rng, "c3")
        d = make_droplet(rng, "PerturbedDroplet3D", grid, on_cell_centre=True)
        d.amplitudes = [rng.uniform(0.05, 0.2) * rng.choice([-1, 1]) for _ in range(d.modes)]
        check_field(ck, d, grid, reqs, expect)
    outs = run_driver(reqs)
    for (kind, case, want, tol), req, out in zip(expect, reqs, outs):
        parts = out.split()
        if parts[0] != "ok":
            ck.mismatch("c03-profile", f"model answered {out} to {req[:60]}", case)
            continue
        if kind == "value":
            mv = bits_to_float(parts[1])
            if not (mv == want or rel_close(mv, want, tol, tol)):
                ck.mismatch("c03-profile", f"{req.split()[1]} {req.split()[2]}: impl {want!r} vs generated profile {mv!r}", case)
        else:
            sharp, safe = want
            mbits = np.array([c == "1" for c in parts[1]]).reshape(sharp.shape)
            if (safe & (mbits != sharp)).any():
                ck.mismatch("c03-geometry", "sharp rendering differs from the exact rational inside/outside pattern of the model", case)


def replay(case: dict):
    ck = Check("C03", "quick", 0)
    run_cases(ck, 200)
    roll_cases(ck, 60)
    emulsion_cases(ck, 60)
    bad = [f["what"] for f in ck.failures if not f["signature"].get("metric_differs_from_periodic")]
    return not bad, "; ".join(bad[:3]) or "property holds on re-run"


def run(ck: Check):
    ck.rule = ("all five droplet classes x {Cartesian 1-3-D with random periodicity/anisotropic spacing/offset, polar, spherical, cylindrical (periodic z or not)} x "
               "widths {None, 0, >0} x 1-4 amplitudes x centres anywhere (25% exactly on a cell centre, 30% outside the box on periodic axes) x 5 (vmin, vmax) pairs; "
               "roll equivariance for random shifts; emulsions of 0-4 mixed droplets; non-trivial = every distinct (droplet, grid) pair")
    ck.assumptions = ["the spherical-harmonic shape functions are the droplets' own interface_distance (geometry of the harmonics is C13's subject)",
                      "cells within 1e-9 (relative) of the interface are excluded from inside/outside comparisons",
                      "float evaluation compared to 1e-15 (same IEEE operations in Lean's Float and numpy)"]
    ck.extra_cov["gen_keys"] = ["spherical_inside", "diffuse_inside", "diffuse_smooth", "perturbed_inside", "perturbed_smooth", "scale_field"]
    ck.lean = lean_stage("C03", leanchecker=not ck.quick)
    try:
        run_cases(ck, ck.budget(240, 4000))
    except RuntimeError as e:
        ck.mismatch("c03-profile", f"driver unavailable: {e}", {})
    roll_cases(ck, ck.budget(80, 1500))
    emulsion_cases(ck, ck.budget(60, 1000))
    error_cases(ck)
