"""C10 — overlap removal leaves a separated subset and distance queries agree.

Lean: Model/Overlap.lean (`loop`, `firstMin`, `pairwise`) + Props/C10.lean.
Correspondence: the real `Emulsion.remove_overlapping` with the distance matrix it computed
(tapped: `Emulsion.get_pairwise_distances` as called from inside) vs. the model run on the SAME
matrix as exact rationals — survivors AND removal order/witnesses must agree (tie-breaking
included).  `get_pairwise_distances` vs. the model's `pairwise` at Float (bit-exact).
Predicate on the implementation, with an independent metric written here."""
from __future__ import annotations

import itertools
import math

import numpy as np

from .common import Check, bits_to_float, lean_stage, q, rel_close, run_driver
from .c11 import fbits


# ---------------------------------------------------------------------------------------
# independent oracle: (periodic) Euclidean distance
# ---------------------------------------------------------------------------------------

def my_distance(p1, p2, grid) -> float:
    d = np.asarray(p1, float) - np.asarray(p2, float)
    if grid is not None and type(grid).__name__ == "CylindricalSymGrid":
        # points in Cartesian coordinates; the only periodic direction is the symmetry axis z
        if grid.periodic[1]:
            lo, hi = grid.axes_bounds[1]
            d[2] = (d[2] + (hi - lo) / 2) % (hi - lo) - (hi - lo) / 2
        return float(np.sqrt((d * d).sum()))
    if grid is not None:
        for ax in range(grid.num_axes):
            if grid.periodic[ax]:
                lo, hi = grid.axes_bounds[ax]
                L = hi - lo
                d[ax] = (d[ax] + L / 2) % L - L / 2
    return float(np.sqrt((d * d).sum()))


def make_grid(dim: int, periodic, rng, size=None):
    from pde import CartesianGrid

    if size is None:
        size = [rng.choice([4.0, 6.0, 7.5]) for _ in range(dim)]
    lo = [rng.choice([0.0, -1.5, 2.0]) for _ in range(dim)]
    return CartesianGrid([[a, a + s] for a, s in zip(lo, size)], [4] * dim, periodic=periodic)


# ---------------------------------------------------------------------------------------
# one remove_overlapping call, observed
# ---------------------------------------------------------------------------------------

class Observed:
    pass


def run_remove(em, min_distance, grid) -> Observed:
    """run the real method; tap the distance matrix and the pop order (no source change)"""
    from droplets.emulsions import Emulsion

    ob = Observed()
    ob.before = list(em)
    ob.matrix = None
    ob.pops = []
    orig_pw = Emulsion.get_pairwise_distances

    def tapped(self, *a, **k):
        res = orig_pw(self, *a, **k)
        if self is em and ob.matrix is None:
            ob.matrix = np.array(res, copy=True)
            ob.tap_args = (a, k)
        return res

    def pop(self, i=-1):
        obj = list.pop(self, i)
        if self is em:
            ob.pops.append(obj)
        return obj

    Emulsion.get_pairwise_distances = tapped
    Emulsion.pop = pop
    try:
        em.remove_overlapping(min_distance, grid=grid)
    finally:
        Emulsion.get_pairwise_distances = orig_pw
        del Emulsion.pop
    ob.after = list(em)
    return ob


def check_property(ck: Check, ob: Observed, min_distance: float, grid, case: dict, sig: dict):
    """the clauses of C10 about remove_overlapping, evaluated with the independent metric"""
    before, after = ob.before, ob.after
    ids = {id(d): i for i, d in enumerate(before)}
    # same objects, original order
    idx = [ids.get(id(d)) for d in after]
    if None in idx or idx != sorted(idx) or len(set(idx)) != len(idx):
        ck.fail(f"survivors are not the original objects in original order: {idx}", {**sig, "check": "removed_sublist"}, case)
        return
    tol = 1e-9

    def sd(a, b):
        return my_distance(a.position, b.position, grid) - (a.radius + b.radius)

    for a, b in itertools.combinations(after, 2):
        if sd(a, b) < min_distance - tol:
            ck.fail(f"remaining pair {ids[id(a)]},{ids[id(b)]} closer than min_distance: {sd(a, b)} < {min_distance}", {**sig, "check": "removed_separated"}, case)
    # every removed droplet was too close to one at least as large present at that moment
    present = list(before)
    for u in ob.pops:
        if not any(w is not u and w.radius >= u.radius and sd(u, w) < min_distance + tol for w in present):
            ck.fail(f"droplet {ids[id(u)]} removed without a dominating close neighbour", {**sig, "check": "removed_dominated"}, case)
        present = [w for w in present if w is not u]
    if [id(x) for x in present] != [id(x) for x in after]:
        ck.fail("survivors are not input minus popped", {**sig, "check": "removed_partition"}, case)
    # strictly largest survives
    if before:
        radii = [d.radius for d in before]
        m = max(radii)
        if radii.count(m) == 1 and not any(d is before[radii.index(m)] for d in after):
            ck.fail("the strictly largest droplet was removed", {**sig, "check": "largest_survives"}, case)


def emulsion_case(ck: Check, reqs: list, expect: list, drops, min_distance: float, grid, sig: dict, case: dict):
    from droplets.emulsions import Emulsion

    em = Emulsion(drops)
    n = len(em)
    data0 = [d.data.tobytes() for d in em]
    ob = run_remove(em, min_distance, grid)
    if any(d.data.tobytes() != b for d, b in zip(ob.before, data0)):
        ck.fail("remove_overlapping modified a droplet", {**sig, "check": "unchanged"}, case)
    check_property(ck, ob, min_distance, grid, case, sig)
    # idempotence
    ob2 = run_remove(em, min_distance, grid)
    if ob2.pops:
        ck.fail("a second call removed something", {**sig, "check": "removed_idempotent"}, case)
    ck.count(f"removed.{min(len(ob.pops), 3)}{'+' if len(ob.pops) > 3 else ''}")
    if n >= 2 and ob.matrix is not None:
        M = ob.matrix
        offd = sorted(M[i, j] for i in range(n) for j in range(n) if i < j)
        if any(a == b for a, b in zip(offd, offd[1:])):
            ck.count("matrix_with_ties")
        ids = {id(d): i for i, d in enumerate(ob.before)}
        reqs.append("c10 remove %d %s %s %s" % (n, q(min_distance), " ".join(q(d.radius) for d in ob.before),
                                                  " ".join(q(M[i, j]) if i != j else "0" for i in range(n) for j in range(n))))
        expect.append((case, [ids[id(d)] for d in ob.after], [ids[id(d)] for d in ob.pops]))


def lattice_cases(kmax: int):
    atoms = [(p, r) for p in range(5) for r in (0.5, 1.0)]
    for k in range(0, kmax + 1):
        for combo in itertools.product(atoms, repeat=k):
            yield combo


def correspond_remove(ck: Check, exhaustive_k: int, n_random: int):
    from pde import CartesianGrid
    from droplets.droplets import DiffuseDroplet, SphericalDroplet

    reqs: list = []
    expect: list = []
    rng = ck.rng
    # exhaustive 1-D lattice with tied radii
    grid_p = CartesianGrid([[0, 5]], [5], periodic=True)
    for combo in lattice_cases(exhaustive_k):
        for md in (-0.5, 0.0, 0.5):
            for grid in (None, grid_p):
                drops = [SphericalDroplet(np.array([float(p)]), r) for p, r in combo]
                case = {"kind": "lattice", "droplets": [list(c) for c in combo], "min_distance": md, "periodic": grid is not None}
                ck.case(("lattice", combo, md, grid is not None), nontrivial=len(combo) >= 2)
                emulsion_case(ck, reqs, expect, drops, md, grid, {"gen": "lattice"}, case)
    ck.sample({"kind": "lattice", "droplets": [[0, 0.5], [1, 0.5], [2, 1.0]], "min_distance": 0.0, "periodic": True})
    # random emulsions
    for _ in range(n_random):
        dim = rng.choice([1, 2, 3])
        per = [rng.random() < 0.5 for _ in range(dim)]
        grid = make_grid(dim, per, rng) if rng.random() < 0.6 else None
        n = rng.choice([0, 1, 2, 3, 4, 5, 6, 8, 12])
        box = 3.0 + 2.0 * rng.random()
        cls = rng.choice([SphericalDroplet, DiffuseDroplet])
        radii_pool = [rng.choice([0.3, 0.5, 0.5, 0.8, 1.2]) if rng.random() < 0.5 else rng.uniform(0.1, 1.5) for _ in range(n)]
        drops = []
        for i in range(n):
            pos = np.array([rng.choice([0.0, 1.0, 2.0, 3.0]) if rng.random() < 0.3 else rng.uniform(-1, box) for _ in range(dim)])
            drops.append(cls(pos, radii_pool[i]))
        md = rng.choice([0.0, 0.0, -0.3, 0.4, rng.uniform(-1, 1)])
        case = {"kind": "random", "dim": dim, "periodic": per if grid is not None else None,
                "bounds": [list(b) for b in grid.axes_bounds] if grid is not None else None,
                "droplets": [[d.position.tolist(), d.radius] for d in drops], "min_distance": md}
        ck.case(("random", dim, tuple(per), tuple(d.data.tobytes() for d in drops), md), nontrivial=n >= 2)
        emulsion_case(ck, reqs, expect, drops, md, grid, {"gen": "random", "dim": dim}, case)
        if len(ck.samples) < 3:
            ck.sample(case)
    # polydisperse traps: two LARGE droplets overlap each other, but the nearest centre of each is a tiny satellite that
    # is well separated from it (nearest by centre is not nearest by surface); no grid, more than two droplets
    for _ in range(max(6, n_random // 10)):
        dim = rng.choice([1, 2, 3])
        R1, R2 = rng.uniform(1.5, 3.0), rng.uniform(1.5, 3.0)
        d = (R1 + R2) * rng.uniform(0.8, 0.97)
        rs, gap = 0.05, rng.uniform(0.03, 0.1)
        e0 = np.eye(dim)[0]
        e1 = np.eye(dim)[1] if dim > 1 else -e0
        A, B = np.zeros(dim), d * e0
        if dim == 1:
            sa, sb = A - (R1 + gap + rs) * e0, B + (R2 + gap + rs) * e0
        else:
            sa, sb = A + (R1 + gap + rs) * e1, B - (R2 + gap + rs) * e1
        drops = [SphericalDroplet(A, R1), SphericalDroplet(sa, rs), SphericalDroplet(B, R2), SphericalDroplet(sb, rs)]
        if rng.random() < 0.5:
            drops = drops[::-1]
        md = rng.choice([0.0, 0.0, -0.1])
        case = {"kind": "polydisperse-trap", "dim": dim, "periodic": None, "bounds": None,
                "droplets": [[x.position.tolist(), x.radius] for x in drops], "min_distance": md}
        ck.case(("trap", dim, tuple(x.data.tobytes() for x in drops), md))
        ck.count("polydisperse_traps")
        emulsion_case(ck, reqs, expect, drops, md, None, {"gen": "trap", "dim": dim}, case)
    try:
        outs = run_driver(reqs)
    except RuntimeError as e:
        ck.mismatch("c10-remove", f"driver unavailable: {e}", {})
        return
    for (case, surv, pops), out in zip(expect, outs):
        if not out.startswith("ok"):
            ck.mismatch("c10-remove", f"model answered {out}", case)
            continue
        left, _, right = out[2:].partition("|")
        msurv = [int(x) for x in left.split()]
        mlog = [tuple(int(y) for y in x.split(":")) for x in right.split()]
        if msurv != surv or [u for u, _ in mlog] != pops:
            ck.mismatch("c10-remove", f"impl survivors {surv} removed {pops}; model survivors {msurv} removed {[u for u, _ in mlog]}", case)


def pairwise_checks(ck: Check, n_cases: int):
    """get_pairwise_distances / overlaps / get_neighbor_distances / from_random"""
    from droplets.droplets import SphericalDroplet
    from droplets.emulsions import Emulsion

    rng = ck.rng
    reqs, expect = [], []
    for _ in range(n_cases):
        dim = rng.choice([1, 2, 3])
        per = [rng.random() < 0.5 for _ in range(dim)]
        grid = make_grid(dim, per, rng) if rng.random() < 0.6 else None
        n = rng.choice([0, 1, 2, 3, 5, 7])
        drops = [SphericalDroplet(np.array([rng.uniform(-2, 9) for _ in range(dim)]), rng.choice([0.0, 0.5, rng.uniform(0, 2)])) for _ in range(n)]
        if dim == 3 and rng.random() < 0.4:
            # cylindrical grids (droplets on the symmetry axis), periodic along the axis or not: the metric wraps z only
            from pde import CylindricalSymGrid

            zlo = rng.choice([0.0, -1.5])
            grid = CylindricalSymGrid(4.0, [zlo, zlo + rng.choice([6.0, 7.5])], [4, 6], periodic_z=rng.random() < 0.7)
            per = [False, bool(grid.periodic[1])]
            drops = [SphericalDroplet(np.array([0.0, 0.0, rng.uniform(-2, 9)]), rng.choice([0.0, 0.5, rng.uniform(0, 2)])) for _ in range(n)]
            ck.count("pairwise.cylindrical" + (".periodic_z" if grid.periodic[1] else ""))
        if n >= 2 and rng.random() < 0.3:
            # two droplets with exactly coincident centres and different radii (not three: the k-d tree's answer is then ambiguous)
            drops[1] = SphericalDroplet(drops[0].position.copy(), drops[0].radius + rng.uniform(0.3, 2))
            ck.count("coincident_centres")
        em = Emulsion(drops)
        case = {"kind": "pairwise", "dim": dim, "periodic": per if grid is not None else None,
                "bounds": [list(b) for b in grid.axes_bounds] if grid is not None else None,
                "droplets": [[d.position.tolist(), d.radius] for d in drops]}
        sig = {"gen": "pairwise", "dim": dim}
        ck.case(("pairwise", dim, tuple(per), grid is None, tuple(d.data.tobytes() for d in drops)), nontrivial=n >= 2)
        if n >= 2 and rng.random() < 0.5:
            # a call history on this very object first: overlap removal on a copy-free, already separated emulsion (nothing to remove) -
            # the distance queries afterwards must not see what an earlier call did to its own working arrays
            far = min((my_distance(a.position, b.position, grid) - a.radius - b.radius) for i, a in enumerate(em) for b in em[i + 1:])
            em.remove_overlapping(min_distance=min(far - 0.1, 0.0) if far > 0 else far - 0.1, grid=grid)
            if len(em) != n:
                em = Emulsion(drops)
            else:
                ck.count("queries_after_remove_overlapping_on_the_same_object")
        for sub in (True, False, True, False):
            M = em.get_pairwise_distances(subtract_radius=sub, grid=grid)
            if M.shape != (n, n):
                ck.fail(f"pairwise matrix has shape {M.shape}", {**sig, "check": "pairwise_shape"}, case)
                continue
            if n and (not np.array_equal(M, M.T) or np.any(np.diag(M) != 0)):
                ck.fail("pairwise matrix not symmetric with zero diagonal", {**sig, "check": "pairwise_symm_zero_diag"}, case)
            for i in range(n):
                for j in range(i + 1, n):
                    want = my_distance(em[i].position, em[j].position, grid) - ((em[i].radius + em[j].radius) if sub else 0)
                    if not rel_close(M[i, j], want, 1e-12, 1e-12):
                        ck.fail(f"pairwise[{i},{j}] = {M[i, j]} but the (periodic) distance gives {want}", {**sig, "check": "pairwise_entry", "sub": sub}, case)
                    if sub:
                        ov = em[i].overlaps(em[j], grid=grid)
                        if ov != (M[i, j] < 0) or ov != em[j].overlaps(em[i], grid=grid):
                            ck.fail(f"overlaps({i},{j})={ov} but surface distance {M[i, j]}", {**sig, "check": "overlaps_iff_negative"}, case)
            # model at Float: d table = the metric the code uses
            if n >= 2:
                if grid is None:
                    dfun = lambda a, b: np.linalg.norm(a - b)
                else:
                    # (the metric as the code sees it: `droplets.tools.spherical.grid_distance` since the repair of D24, py-pde's before)
                    from droplets.tools import spherical as _sp

                    _gd = getattr(_sp, "grid_distance", None)
                    dfun = (lambda a, b: _gd(grid, a, b)) if _gd is not None else (lambda a, b: grid.distance(a, b, coords="cartesian"))
                tab = [dfun(em[i].position, em[j].position) for i in range(n) for j in range(n)]
                reqs.append(f"c10 pairwise {n} {int(sub)} " + " ".join(fbits(d.radius) for d in em) + " " + " ".join(fbits(x) for x in tab))
                expect.append((case, sub, M))
        # nearest neighbours (no grid)
        for sub in (False, True):
            nd = em.get_neighbor_distances(subtract_radius=sub)
            if n == 0:
                ok = nd.shape == (0,)
            elif n == 1:
                ok = nd.shape == (1,) and math.isnan(nd[0])
            else:
                C = em.get_pairwise_distances(subtract_radius=False)
                C2 = C + np.diag([np.inf] * n)
                if not sub:
                    ok = np.allclose(nd, C2.min(axis=1), rtol=1e-12, atol=1e-12)
                else:
                    # surface distance to the nearest CENTRE (ties between equidistant centres may differ)
                    ok = True
                    for i in range(n):
                        cand = [C[i, j] - em[i].radius - em[j].radius for j in range(n) if j != i and C[i, j] <= C2[i].min() * (1 + 1e-12) + 1e-12]
                        ok = ok and any(rel_close(nd[i], c, 1e-12, 1e-12) for c in cand)
            if not ok:
                ck.fail(f"get_neighbor_distances(subtract_radius={sub}) = {nd}", {**sig, "check": "neighbor_is_row_min", "sub": sub}, case)
    # from_random stays inside region / radius range
    for _ in range(max(10, n_cases // 4)):
        dim = rng.choice([1, 2, 3])
        seed = rng.randrange(10**6)
        use_grid = rng.random() < 0.5
        r0, r1 = sorted([rng.uniform(0.05, 0.5), rng.uniform(0.05, 0.8)])
        radius = rng.choice([(r0, r1), r0])
        if use_grid:
            region = make_grid(dim, [rng.random() < 0.5 for _ in range(dim)], rng)
            bounds = region.axes_bounds
        else:
            bounds = [sorted([rng.uniform(-5, 5), rng.uniform(-5, 5)]) for _ in range(dim)]
            region = bounds
        ro = rng.random() < 0.5
        em = Emulsion.from_random(rng.choice([1, 5, 20]), region, radius, remove_overlapping=ro, rng=np.random.default_rng(seed))
        ck.case(("from_random", dim, seed, use_grid, ro))
        rl, rh = (radius if isinstance(radius, tuple) else (radius, radius))
        for d in em:
            inside = all(lo <= x <= hi for x, (lo, hi) in zip(d.position, bounds))
            if not inside or not (rl <= d.radius <= rh) or d.dim != dim:
                ck.fail(f"from_random produced {d} outside region {bounds} / radius range {(rl, rh)}", {"check": "from_random_in_range", "dim": dim}, {"kind": "from_random", "dim": dim, "seed": seed})
        if ro:
            M = em.get_pairwise_distances(subtract_radius=True)
            if len(em) > 1 and (M + np.diag([np.inf] * len(em))).min() < -1e-12:
                ck.fail("from_random(remove_overlapping=True) left overlapping droplets", {"check": "from_random_separated", "dim": dim}, {"kind": "from_random", "dim": dim, "seed": seed})
    try:
        outs = run_driver(reqs)
    except RuntimeError as e:
        ck.mismatch("c10-pairwise", f"driver unavailable: {e}", {})
        return
    for (case, sub, M), out in zip(expect, outs):
        parts = out.split()
        got = np.array([bits_to_float(x) for x in parts[1:]]).reshape(M.shape) if parts[0] == "ok" else None
        if got is None or not np.array_equal(got, M):
            ck.mismatch("c10-pairwise", f"pairwise(sub={sub}) differs between implementation and model", case)


def replay(case: dict):
    from pde import CartesianGrid
    from droplets.droplets import SphericalDroplet

    ck = Check("C10", "quick", 0)
    if case.get("kind") in ("lattice", "random"):
        if case["kind"] == "lattice":
            drops = [SphericalDroplet(np.array([float(p)]), r) for p, r in case["droplets"]]
            grid = CartesianGrid([[0, 5]], [5], periodic=True) if case["periodic"] else None
        else:
            drops = [SphericalDroplet(np.array(p), r) for p, r in case["droplets"]]
            grid = CartesianGrid(case["bounds"], [4] * case["dim"], periodic=case["periodic"]) if case.get("bounds") else None
        reqs, expect = [], []
        emulsion_case(ck, reqs, expect, drops, case["min_distance"], grid, {}, case)
    else:
        pairwise_checks(ck, 200)
    return not ck.failures, "; ".join(f["what"] for f in ck.failures[:3]) or "property holds on this input"


def run(ck: Check):
    k = ck.budget(3, 4)
    ck.rule = (f"exhaustive 1-D lattice emulsions (positions 0..4, radii {{0.5,1}}, <= {k} droplets, ordered, min_distance in {{-0.5,0,0.5}}, "
               "periodic and not) + random 1-3-D emulsions with tied radii/positions, random periodic Cartesian grids; non-trivial = "
               "distinct cases with >= 2 droplets")
    ck.exhaustive = False
    ck.extra_cov["exhaustive_part"] = f"1-D lattice up to {k} droplets enumerated completely"
    ck.assumptions = ["droplet parameters are finite (no NaN/inf distances)", "cKDTree nearest-neighbour contract is monitored, not modelled"]
    ck.lean = lean_stage("C10", leanchecker=not ck.quick)
    correspond_remove(ck, k, ck.budget(600, 8000))
    pairwise_checks(ck, ck.budget(200, 3000))
    if (not ck.lean.ok or ck.mismatches) and not ck.failures:
        correspond_remove(ck, 4, 5000)
