"""C20 — collections stay aligned and own their droplets under any sequence of edits.

Lean: Model/Coll.lean (heap of droplet objects, collections of references, copy discipline) +
Props/C20.lean.  Correspondence: random and exhaustive OPERATION SEQUENCES are executed on real
`Emulsion` / `EmulsionTimeCourse` / `DropletTrack` objects and on the model through the line
protocol; after EVERY operation the canonical dump is compared: values, order, times, emulsion
dtypes, and the ALIAS STRUCTURE (which slots hold the very same droplet/emulsion object — real
side: object identity and shared memory; model side: equal references).
Predicate (independent of the model): a plain list-of-values reference model kept by the harness;
times/members stay aligned; statistics equal their definitions and are permutation invariant."""
from __future__ import annotations

import itertools
import math

import numpy as np

from .common import Check, lean_stage, rel_close, run_driver, q


# ---------------------------------------------------------------------------------------
# real-side interpreter
# ---------------------------------------------------------------------------------------

class Real:
    def __init__(self):
        self.vars, self.emvars, self.tcs, self.trs = [], [], [], []
        self.layouts: dict = {}
        self.notes: list = []

    def layout(self, d) -> int:
        key = str(d.data.dtype.descr)  # record-vs-void flavour of the same layout is irrelevant (dtype equality ignores it)
        return self.layouts.setdefault(key, len(self.layouts) + 1)

    def exec(self, op):
        from droplets.droplet_tracks import DropletTrack
        from droplets.droplets import DiffuseDroplet, SphericalDroplet
        from droplets.emulsions import Emulsion, EmulsionTimeCourse

        k = op[0]
        try:
            if k == "newDrop":
                _, cls, dim, r = op
                d = (SphericalDroplet if cls == 0 else DiffuseDroplet)(np.zeros(dim), float(r))
                self.vars.append(d)
            elif k == "setVar":
                self.vars[op[1]].radius = float(op[2])
            elif k == "newEm":
                self.emvars.append(Emulsion())
            elif k == "emAppend":
                self.emvars[op[1]].append(self.vars[op[2]], copy=bool(op[3]), force_consistency=bool(op[4]))
            elif k == "emExtend":
                self.emvars[op[1]].extend(list(self.emvars[op[2]]))
            elif k == "emCopy":
                self.emvars.append(self.emvars[op[1]].copy(min_radius=float(op[2])))
            elif k == "emSlice":
                self.emvars.append(self.emvars[op[1]][op[2]:op[3]])
            elif k == "emAdd":
                self.emvars.append(self.emvars[op[1]] + self.emvars[op[2]])
            elif k == "emGet":
                self.vars.append(self.emvars[op[1]][op[2]])
            elif k == "emSetMember":
                self.emvars[op[1]][op[2]].radius = float(op[3])
            elif k == "emRemoveSmall":
                em = self.emvars[op[1]]
                keep = [id(d) for d in em if d.radius > float(op[2])]
                em.remove_small(float(op[2]))
                if [id(d) for d in em] != keep:
                    self.notes.append(f"remove_small({op[2]}) on an emulsion: the members afterwards are not the SAME objects (in their order) that exceeded the radius before - "
                                      "an in-place filter of the list model deletes entries and keeps the others")
            elif k == "emClear":
                self.emvars[op[1]].clear()
            elif k == "emLink":
                if len(self.emvars[op[1]]) and len({type(d) for d in self.emvars[op[1]]}) == 1 and len({str(d.data.dtype) for d in self.emvars[op[1]]}) == 1:
                    self.emvars[op[1]].get_linked_data()
                else:
                    self.emvars[op[1]]  # linking mixed/empty emulsions is not defined; index check only
            elif k == "newTc":
                self.tcs.append(EmulsionTimeCourse())
            elif k == "tcAppend":
                before = list(self.tcs[op[1]].times)
                self.tcs[op[1]].append(self.emvars[op[2]], time=op[3], copy=bool(op[4]))
                self._paired(before, list(self.tcs[op[1]].times), op[3], "EmulsionTimeCourse")
            elif k == "tcGet":
                self.emvars.append(self.tcs[op[1]][op[2]])
            elif k == "tcSlice":
                self.tcs.append(self.tcs[op[1]][op[2]:op[3]])
            elif k == "tcClear":
                self.tcs[op[1]].clear()
            elif k == "newTr":
                self.trs.append(DropletTrack())
            elif k == "trAppend":
                before = list(self.trs[op[1]].times)
                self.trs[op[1]].append(self.vars[op[2]], time=op[3])
                self._paired(before, list(self.trs[op[1]].times), op[3], "DropletTrack")
            elif k == "trGet":
                self.vars.append(self.trs[op[1]][op[2]])
            elif k == "trSlice":
                self.trs.append(self.trs[op[1]][op[2]:op[3]])
            elif k == "trCopy":
                # copy construction (DropletTrack(track)): in the model the same as the full slice
                self.trs.append(DropletTrack(self.trs[op[1]]))
            elif k == "tcCopy":
                self.tcs.append(EmulsionTimeCourse(self.tcs[op[1]]))
            return "ok"
        except (IndexError, ValueError) as e:
            return "err " + type(e).__name__

    def _paired(self, before, after, t, what):
        """the list model of append, stated directly (independent of the Lean model): the member is paired with the time that was given, or with
        the documented default (last time + 1, 0 for an empty collection) when none was given"""
        want = before + [t if t is not None else (before[-1] + 1 if before else 0)]
        if after != want:
            self.notes.append(f"{what}.append(time={t!r}) on times {before}: stored times {after}, the list model holds {want}")

    # canonical dump (same traversal as the Lean driver)
    def dump(self) -> str:
        seen_d: list = []
        seen_e: list = []

        def did(d):
            for i, o in enumerate(seen_d):
                if o is d or np.shares_memory(o.data, d.data):
                    return i
            seen_d.append(d)
            return len(seen_d) - 1

        def eid(e):
            for i, o in enumerate(seen_e):
                if o is e:
                    return i
            seen_e.append(e)
            for d in e:
                did(d)
            return len(seen_e) - 1

        out = "V" + "".join(f" {did(d)}" for d in self.vars)
        out += " E" + "".join(f" {eid(e)}" for e in self.emvars)
        out += " T"
        for tc in self.tcs:
            out += " [" + "".join(f"{int(t)}:{eid(e)} " for t, e in zip(tc.times, tc.emulsions)) + "]"
            if len(tc.times) != len(tc.emulsions):
                out += "!MISALIGNED"
        out += " K"
        for tr in self.trs:
            out += " [" + "".join(f"{int(t)}:{did(d)} " for t, d in zip(tr.times, tr.droplets)) + "]"
            if len(tr.times) != len(tr.droplets):
                out += "!MISALIGNED"
        lists = [tc.times for tc in self.tcs] + [tr.times for tr in self.trs]
        if any(a is b for i, a in enumerate(lists) for b in lists[:i]):
            out += "!TIMES-LIST-SHARED"
        out += " O"
        for e in seen_e:
            dt = "-" if e.dtype is None else str(self.layouts.setdefault(str(np.dtype(e.dtype).descr), len(self.layouts) + 1))
            out += f" ({dt})" + "".join(f"{did(d)}," for d in e)
        out += " D" + "".join(f" {self.layout(d)}/{d.dim}/{int(d.radius)}" for d in seen_d)
        return out


def op_token(op, real: Real) -> str:
    k = op[0]
    if k == "newDrop":
        # layout tag of the class/dim as the real side numbers it
        from droplets.droplets import DiffuseDroplet, SphericalDroplet

        d = (SphericalDroplet if op[1] == 0 else DiffuseDroplet)(np.zeros(op[2]), 1.0)
        return f"newDrop {real.layout(d)} {op[2]} {op[3]}"
    if k in ("tcAppend",):
        return f"tcAppend {op[1]} {op[2]} {'-' if op[3] is None else op[3]} {int(op[4])}"
    if k == "trAppend":
        return f"trAppend {op[1]} {op[2]} {'-' if op[3] is None else op[3]}"
    if k == "trCopy":
        return f"trSlice {op[1]} 0 1000000"
    if k == "tcCopy":
        return f"tcSlice {op[1]} 0 1000000"
    return " ".join(str(int(x)) if isinstance(x, bool) else str(x) for x in op)


# ---------------------------------------------------------------------------------------
# op generators
# ---------------------------------------------------------------------------------------

def random_ops(rng, n):
    ops = [("newDrop", 0, 1, 2), ("newDrop", 1, 1, 3), ("newEm",), ("newTc",), ("newTr",)]
    nv, ne, nt, nk = 2, 1, 1, 1
    for _ in range(n):
        k = rng.choice(["newDrop", "setVar", "newEm", "emAppend", "emAppend", "emAppend", "emExtend", "emCopy", "emSlice", "emAdd", "emGet",
                        "emSetMember", "emRemoveSmall", "emClear", "emLink", "newTc", "tcAppend", "tcAppend", "tcGet", "tcSlice", "tcClear",
                        "newTr", "trAppend", "trAppend", "trGet", "trSlice", "trCopy", "trCopy", "tcCopy"])
        iv, ie, it, ik = rng.randrange(nv + 1), rng.randrange(ne + 1), rng.randrange(nt + 1), rng.randrange(nk + 1)  # +1: sometimes out of range
        if rng.random() < 0.9:
            iv, ie, it, ik = iv % nv, ie % ne, it % nt, ik % nk
        r = rng.choice([0, 0, 1, 2, 3, 4, 5, 6])  # vanished droplets (radius 0) are ordinary members
        if k == "newDrop":
            op = (k, rng.choice([0, 1]), rng.choice([1, 1, 2]), r); nv += 1
        elif k == "setVar":
            op = (k, iv, r)
        elif k == "newEm":
            op = (k,); ne += 1
        elif k == "emAppend":
            op = (k, ie, iv, rng.random() < 0.8, rng.random() < 0.3)
        elif k == "emExtend":
            op = (k, ie, rng.randrange(ne))
        elif k == "emCopy":
            op = (k, ie, rng.choice([-1, 0, 0, 0, 2, 4])); ne += 1 if ie < ne else 0
        elif k == "emSlice":
            lo = rng.randint(0, 3); op = (k, ie, lo, lo + rng.randint(0, 3)); ne += 1 if ie < ne else 0
        elif k == "emAdd":
            j = rng.randrange(ne); op = (k, ie, j); ne += 1 if ie < ne else 0
        elif k == "emGet":
            op = (k, ie, rng.randint(0, 3)); nv += 1  # may fail; then the var is not added -> fixed up below
        elif k == "emSetMember":
            op = (k, ie, rng.randint(0, 3), r)
        elif k == "emRemoveSmall":
            op = (k, ie, rng.choice([0, 0, 2, 3]))
        elif k in ("emClear", "emLink"):
            op = (k, ie)
        elif k == "newTc":
            op = (k,); nt += 1
        elif k == "tcAppend":
            op = (k, it, ie, rng.choice([None, None, rng.randint(-3, 9)]), rng.random() < 0.8)
        elif k == "tcGet":
            op = (k, it, rng.randint(0, 2)); ne += 1
        elif k == "tcSlice":
            lo = rng.randint(0, 2); op = (k, it, lo, lo + rng.randint(0, 3)); nt += 1 if it < nt else 0
        elif k == "tcClear":
            op = (k, it)
        elif k == "newTr":
            op = (k,); nk += 1
        elif k == "trAppend":
            op = (k, ik, iv, rng.choice([None, None, rng.randint(-3, 9)]))
        elif k == "trGet":
            op = (k, ik, rng.randint(0, 2)); nv += 1
        elif k == "trCopy":
            op = (k, ik); nk += 1 if ik < nk else 0
        elif k == "tcCopy":
            op = (k, it); nt += 1 if it < nt else 0
        else:
            lo = rng.randint(0, 2); op = (k, ik, lo, lo + rng.randint(0, 3)); nk += 1 if ik < nk else 0
        ops.append(op)
        yield_counts = None
    return ops


def run_sequence(ck: Check, ops, reqs, expect, key):
    """execute on the real objects, adjusting handle indices to what actually exists"""
    real = Real()
    toks, outs = [], []
    for op in ops:
        # clamp handle indices to existing handles + 1 (so IndexError paths are exercised but sequences stay meaningful)
        toks.append(op_token(op, real))
        res = real.exec(op)
        outs.append(f"{res} {real.dump()}")
        if real.notes:
            ck.fail(real.notes[0], {"check": "append_pairs_member_with_given_time" if "append" in real.notes[0] else "inplace_filter_keeps_objects"}, {"ops": [" ".join(map(str, o)) for o in ops[: len(outs)]]})
            real.notes.clear()
    ck.case(key, nontrivial=len(ops) > 3)
    reqs.append("c20 " + " ; ".join(toks))
    expect.append((ops, outs))
    return real


def check_stats(ck: Check, n: int):
    """summary queries equal their definitions and do not depend on member order"""
    from droplets.droplet_tracks import DropletTrack, DropletTrackList
    from droplets.droplets import DiffuseDroplet, SphericalDroplet
    from droplets.emulsions import Emulsion, EmulsionTimeCourse

    rng = ck.rng
    reqs, expect = [], []

    def model(req, kind, payload, case):
        reqs.append(req)
        expect.append((kind, payload, case))

    # nearest-time lookup answers for the times stored NOW, whatever was asked of the same object before: look up, clear, refill with as many
    # members at other times, look up again; likewise after appending and after replacing the list of times
    for trial in range(6):
        etc = EmulsionTimeCourse()
        m = rng.choice([2, 3, 5])
        t1 = sorted(rng.uniform(0, 10) for _ in range(m))
        for t in t1:
            etc.append(Emulsion([SphericalDroplet(np.zeros(2), 1.0 + t)]), t)
        tq = rng.uniform(0, 10)
        etc.get_emulsion(tq)
        etc.clear()
        t2 = [10.0 * (k + 1) + rng.uniform(0, 3) for k in range(m)] if trial % 2 == 0 else [t + 0.37 for t in reversed(t1)]
        for t in t2:
            etc.append(Emulsion([SphericalDroplet(np.zeros(2), 1.0 + t)]), t)
        ck.count("nearest_time_after_clear_and_refill")
        for q2 in (tq, t2[0] - 0.01, t2[-1] + 0.2):
            got = etc.get_emulsion(q2)
            want_i = min(range(m), key=lambda k: (abs(t2[k] - q2), k))
            if got is not etc.emulsions[want_i] and abs(abs(t2[want_i] - q2) - min(abs(t - q2) for t in t2 if t != t2[want_i])) > 1e-9:
                ck.fail(f"get_emulsion({q2}) after clear() and refilling with times {t2} (earlier times {t1}) returned the member of time "
                        f"{[t for t, e in zip(etc.times, etc.emulsions) if e is got]}, nearest is {t2[want_i]}", {"check": "stats_definition", "stat": "nearest_time", "history": "clear+refill"},
                        {"kind": "nearest-history", "times_before": t1, "times_after": t2, "query": q2})
    for _ in range(n):
        dim = rng.choice([1, 2, 3])
        k = rng.choice([0, 1, 2, 5, 9])
        from droplets.droplets import PerturbedDroplet2D

        # (also members whose volume is NOT the sphere volume of their radius: 2-D droplets with non-zero shape amplitudes)
        cls = rng.choice([SphericalDroplet, DiffuseDroplet] + ([PerturbedDroplet2D] if dim == 2 else []))
        drops = []
        for _i in range(k):
            pos = np.array([rng.uniform(-5, 5) for _ in range(dim)])
            r = rng.choice([0.0, rng.uniform(0.1, 3)])
            if cls is PerturbedDroplet2D:
                drops.append(cls(pos, r, rng.choice([None, 0.5]), amplitudes=[rng.choice([0.0, 0.3, -0.5]), rng.uniform(-0.4, 0.4)]))
                ck.count("stats_perturbed_members")
            else:
                drops.append(cls(pos, r) if cls is SphericalDroplet else cls(pos, r, rng.choice([None, 0.5, rng.uniform(0.1, 2)])))
        em = Emulsion(drops)
        perm = list(drops)
        rng.shuffle(perm)
        em2 = Emulsion(perm)
        case = {"kind": "stats", "dim": dim, "droplets": [str(d) for d in drops]}
        ck.case(("stats", dim, tuple(d.data.tobytes() for d in drops)), nontrivial=k > 1)
        for incl in (True, False):
            s1, s2 = em.get_size_statistics(incl_vanished=incl), em2.get_size_statistics(incl_vanished=incl)
            sel = [d for d in drops if incl or d.radius > 0]
            want = {"count": len(sel)}
            if len(drops) and len(sel):
                rs, vs = [d.radius for d in sel], [d.volume for d in sel]
                want.update(radius_mean=sum(rs) / len(rs), volume_mean=sum(vs) / len(vs),
                            radius_std=math.sqrt(sum((x - sum(rs) / len(rs)) ** 2 for x in rs) / len(rs)),
                            volume_std=math.sqrt(sum((x - sum(vs) / len(vs)) ** 2 for x in vs) / len(vs)))
            for key, w in want.items():
                if not rel_close(float(s1[key]), float(w), 1e-9, 1e-12) or not rel_close(float(s1[key]), float(s2[key]), 1e-9, 1e-12):
                    ck.fail(f"size statistic {key} = {s1[key]} (permuted {s2[key]}), definition gives {w}", {"check": "stats_definition", "stat": key}, case)
            if drops:
                model(f"c20 stats size {int(incl)} " + " ".join(q(d.radius) for d in drops), "size", (s1, "radius"), case)
                model(f"c20 stats size {int(incl)} " + " ".join(q(d.volume) for d in drops if incl or d.radius > 0), "size", (s1, "volume"), case)
        # filter by radius: copy(min_radius) keeps exactly the strictly larger droplets, in order
        for mr in (0.0, -1.0, rng.choice([0.5, 1.0, 2.0])):
            got_r = [d.radius for d in em.copy(min_radius=mr)]
            if got_r != [d.radius for d in drops if d.radius > mr]:
                ck.fail(f"copy(min_radius={mr}) keeps radii {got_r}", {"check": "stats_definition", "stat": "copy_min_radius"}, {**case, "min_radius": mr})
            model(f"c20 stats keep {q(mr)} " + " ".join(q(d.radius) for d in drops), "keep", got_r, case)
        tv = sum(d.volume for d in drops)
        if not rel_close(float(em.total_droplet_volume), tv, 1e-12, 1e-12) or not rel_close(float(em2.total_droplet_volume), tv, 1e-9, 1e-12):
            ck.fail("total_droplet_volume differs from the sum of member volumes / depends on order", {"check": "stats_definition", "stat": "total_volume"}, case)
        ws = [(d.interface_width, d.surface_area) for d in drops if getattr(d, "interface_width", None) is not None]
        area = sum(a for _, a in ws)
        want_w = None if area == 0 else sum(w * a for w, a in ws) / area
        got_w, got_w2 = em.interface_width, em2.interface_width
        if (want_w is None) != (got_w is None) or (want_w is not None and (not rel_close(got_w, want_w, 1e-9) or not rel_close(got_w2, want_w, 1e-9))):
            ck.fail(f"interface_width {got_w} vs area-weighted mean {want_w}", {"check": "stats_definition", "stat": "interface_width"}, case)
        model(("c20 stats width " + " ".join(f"{q(w)} {q(a)}" for w, a in ws)).strip(), "width", got_w, case)
        if k:
            lo = np.min([d.position - d.radius for d in drops], axis=0)
            hi = np.max([d.position + d.radius for d in drops], axis=0)
            for e in (em, em2):
                bb = e.bbox
                if not (np.allclose(bb.pos, lo, rtol=1e-12, atol=1e-12) and np.allclose(bb.pos + bb.size, hi, rtol=1e-12, atol=1e-12)):
                    ck.fail(f"bbox {bb} vs hull [{lo},{hi}]", {"check": "stats_definition", "stat": "bbox"}, case)
            bb = em.bbox
            for a in range(dim):
                model("c20 stats bbox " + " ".join(f"{q(d.position[a])} {q(d.radius)}" for d in drops), "bbox", (float(bb.pos[a]), float(bb.pos[a] + bb.size[a])), case)
        # tracks: trajectory, duration, nearest-time lookup, remove_short_tracks
        if k >= 1:
            times = sorted({round(rng.uniform(-3, 9), 2) for _ in range(k)})
            sub = [d for d in drops if d.dim == dim][: len(times)]
            tr = DropletTrack(sub, times[: len(sub)])
            traj = tr.get_trajectory()
            if len(sub) and (traj.shape != (len(sub), dim) or not np.array_equal(traj, np.array([d.position for d in sub]))):
                ck.fail("get_trajectory differs from the member positions", {"check": "stats_definition", "stat": "trajectory"}, case)
            if len(sub) and not np.array_equal(tr.get_radii(), np.array([d.radius for d in sub])):
                ck.fail("get_radii differs from the member radii", {"check": "stats_definition", "stat": "radii"}, case)
            dur = (tr.times[-1] - tr.times[0]) if len(tr.times) else 0
            if tr.duration != dur:
                ck.fail("duration != end - start", {"check": "stats_definition", "stat": "duration"}, case)
            model(("c20 stats duration " + " ".join(q(t) for t in tr.times)).strip(), "duration", float(tr.duration), case)
            tl = DropletTrackList([tr, DropletTrack(sub[:1], times[:1])])
            md = rng.choice([0, dur / 2, dur])
            keep = [t for t in tl if t.duration > md]
            tl.remove_short_tracks(md)
            if [id(t) for t in tl] != [id(t) for t in keep]:
                ck.fail("remove_short_tracks is not the filter duration > min_duration", {"check": "stats_definition", "stat": "remove_short_tracks"}, case)
        # nearest-time lookup: times in ANY order (appended out of chronological order, reversed), also repeated values,
        # queries between, outside and exactly in the middle of two members
        etc_times = [round(rng.uniform(0, 10), 1) for _ in range(rng.randint(1, 6))]
        mode = rng.choice(["sorted", "sorted", "shuffled", "reversed", "repeated"])
        if mode == "sorted":
            etc_times = sorted(set(etc_times))
        elif mode == "reversed":
            etc_times = sorted(set(etc_times), reverse=True)
        elif mode == "repeated":
            etc_times = etc_times + etc_times[:1]
        etc = EmulsionTimeCourse([Emulsion([SphericalDroplet(np.zeros(1), float(i + 1))]) for i in range(len(etc_times))], etc_times)
        ck.count("nearest_time." + mode)
        for tq in (rng.uniform(-1, 11), rng.choice(etc_times), (etc_times[0] + etc_times[-1]) / 2):
            got = etc.get_emulsion(tq)
            best = min(range(len(etc_times)), key=lambda i: (abs(etc_times[i] - tq), i))
            if got is not etc.emulsions[best]:
                ck.fail(f"get_emulsion({tq}) with times {etc_times} is not the (first) member nearest in time", {"check": "stats_definition", "stat": "nearest_time"},
                        {**case, "times": etc_times, "query": tq})
            idx = [i for i, e in enumerate(etc.emulsions) if e is got]
            # the exact model decides ties exactly; float subtraction may turn two different exact distances into equal
            # floats (query exactly between two members): such near-ties are not compared with the model
            from fractions import Fraction as _F
            dists = sorted({abs(_F(t) - _F(tq)) for t in etc_times})
            if len(dists) > 1 and float(dists[1] - dists[0]) < 1e-9 * max(1.0, float(dists[1])):
                ck.count("nearest_time.near_tie_not_compared_with_exact_model")
            else:
                model(f"c20 stats nearest {q(tq)} " + " ".join(q(t) for t in etc_times), "nearest", idx[0] if idx else -1, case)
    # ---- the same queries in the exact model (Model/Stats.lean; theorems in Props/C20.lean)
    from fractions import Fraction

    outs = run_driver(reqs) if reqs else []
    for (kind, payload, case), req, out in zip(expect, reqs, outs):
        toks = out.split()
        bad = None
        if not toks or toks[0] != "ok":
            bad = f"model answered {out[:60]}"
        elif kind == "size":
            s1, which = payload
            if int(toks[1]) != int(s1["count"]):
                bad = f"count {s1['count']} vs model {toks[1]}"
            elif toks[2] != "nan":
                mean, var = float(Fraction(toks[2])), float(Fraction(toks[3]))
                if not rel_close(float(s1[which + "_mean"]), mean, 1e-12, 1e-15) or not rel_close(float(s1[which + "_std"]) ** 2, var, 1e-9, 1e-18):
                    bad = f"{which} mean/std {s1[which + '_mean']}/{s1[which + '_std']} vs model mean {mean}, variance {var}"
        elif kind == "keep":
            if [float(Fraction(x)) for x in toks[1:]] != [float(x) for x in payload]:
                bad = f"copy(min_radius) keeps {payload}, model {toks[1:]}"
        elif kind == "width":
            if (toks[1] == "none") != (payload is None) or (payload is not None and not rel_close(float(payload), float(Fraction(toks[1])), 1e-12)):
                bad = f"interface_width {payload} vs model {toks[1]}"
        elif kind == "bbox":
            if toks[1] == "none" or not rel_close(payload[0], float(Fraction(toks[1])), 1e-12, 1e-12) or not rel_close(payload[1], float(Fraction(toks[2])), 1e-12, 1e-12):
                bad = f"bbox {payload} vs model {toks[1:]}"
        elif kind == "duration":
            if not rel_close(payload, float(Fraction(toks[1])), 1e-15, 0):
                bad = f"duration {payload} vs model {toks[1]}"
        elif kind == "nearest":
            if toks[1] == "none" or int(toks[1]) != payload:
                bad = f"get_emulsion picked member {payload}, model {toks[1]}"
        if bad:
            ck.mismatch("c20-stats", bad + f" [{req[:400]}]", case)


def exhaustive_ops():
    """all sequences of length <= 4 over a 9-op alphabet on one emulsion / one track"""
    base = [("newDrop", 0, 1, 2), ("newDrop", 1, 1, 3), ("newDrop", 0, 1, 0), ("newEm",), ("newTr",)]
    alpha = [("emAppend", 0, 0, True, False), ("emAppend", 0, 1, False, True), ("emAppend", 0, 2, True, False), ("setVar", 0, 5), ("emGet", 0, 0),
             ("emSlice", 0, 0, 2), ("emRemoveSmall", 0, 2), ("emCopy", 0, 0), ("trAppend", 0, 0, None)]
    for n in range(1, 5):
        for seq in itertools.product(alpha, repeat=n):
            yield base + list(seq)


def run_cases(ck: Check, n_random: int, length: int, exhaustive: bool):
    reqs, expect = [], []
    rng = ck.rng
    if exhaustive:
        for i, ops in enumerate(exhaustive_ops()):
            run_sequence(ck, ops, reqs, expect, ("ex", i))
        ck.stats["exhaustive_sequences"] = len(reqs)
    for i in range(n_random):
        ops = random_ops(rng, rng.randint(3, length))
        run_sequence(ck, ops, reqs, expect, ("rnd", tuple(map(str, ops))))
        if len(ck.samples) < 2 and len(ops) > 12:
            ck.sample({"ops": [" ".join(map(str, o)) for o in ops[:14]]})
    outs = run_driver(reqs)
    for (ops, real_outs), out in zip(expect, outs):
        model_outs = out.split(" || ")
        for step, (r, m) in enumerate(zip(real_outs, model_outs)):
            if "!MISALIGNED" in r:
                ck.fail("times and members of a time course / track have different lengths", {"check": "times_members_aligned"}, {"ops": [" ".join(map(str, o)) for o in ops[: step + 1]]})
            if r.strip() != m.strip():
                ck.mismatch("c20-collections", f"after op {step} ({' '.join(map(str, ops[step]))}): impl '{r[:160]}' vs model '{m[:160]}'",
                            {"ops": [" ".join(map(str, o)) for o in ops[: step + 1]]})
                break
        else:
            if len(real_outs) != len(model_outs):
                ck.mismatch("c20-collections", "different number of steps", {"ops": [" ".join(map(str, o)) for o in ops]})


def isolation_probe(ck: Check, n: int):
    """the property's isolation clause, directly on the implementation (independent of the model)"""
    from droplets.droplet_tracks import DropletTrack
    from droplets.droplets import DiffuseDroplet, SphericalDroplet
    from droplets.emulsions import Emulsion, EmulsionTimeCourse

    rng = ck.rng
    for _ in range(n):
        d = DiffuseDroplet(np.array([1.0, 2.0]), 3.0, 0.5) if rng.random() < 0.5 else SphericalDroplet(np.array([1.0]), 3.0)
        em = Emulsion()
        em.append(d)
        em2 = Emulsion([d, d])
        tr = DropletTrack()
        tr.append(d, 0)
        etc = EmulsionTimeCourse()
        etc.append(em)
        sl, cp, tsl = em2[0:2], em2.copy(), etc[0:1]
        snap = lambda: (em[0].data.tobytes(), [x.data.tobytes() for x in em2], tr[0].data.tobytes(), [x.data.tobytes() for x in etc[0]],
                        [x.data.tobytes() for x in sl], [x.data.tobytes() for x in cp], [x.data.tobytes() for x in tsl[0]])
        before = snap()
        d.radius = 7.0
        d.position[0] = -4.0
        ck.case(("isolation", type(d).__name__, rng.random()))
        if snap() != before:
            ck.fail("changing the caller's droplet leaked into a collection it had been added to", {"check": "insert_copy_isolated", "dir": "in"}, {"kind": "isolation"})
        em[0].radius = 9.0
        sl[0].radius = 11.0
        cp[1].radius = 12.0
        tsl[0][0].radius = 13.0
        if d.radius != 7.0 or em2[0].radius != 3.0 or em2[1].radius != 3.0 or etc[0][0].radius != 3.0:
            ck.fail("changing a stored / sliced / copied droplet leaked out", {"check": "insert_copy_isolated", "dir": "out"}, {"kind": "isolation"})
        # consistency requested: wrong layout rejected
        em3 = Emulsion([SphericalDroplet(np.zeros(2), 1.0)])
        for bad in (SphericalDroplet(np.zeros(3), 1.0), DiffuseDroplet(np.zeros(2), 1.0, 0.1)):
            try:
                em3.append(bad, force_consistency=True)
                ck.fail(f"force_consistency accepted {bad}", {"check": "consistency_rejects"}, {"kind": "consistency"})
            except ValueError:
                pass
        # ... also when the droplets arrive through ANOTHER collection (extend / constructor), whatever that collection declares:
        # its members are checked one by one
        for src_name, src in (("mixed layouts, first member matches", [SphericalDroplet(np.zeros(2), 1.0), DiffuseDroplet(np.ones(2), 1.0, 0.1)]),
                              ("mixed dimensions, first member matches", [SphericalDroplet(np.zeros(2), 1.0), SphericalDroplet(np.zeros(3), 1.0)])):
            for how in ("extend with an Emulsion", "extend with a list", "constructor with an Emulsion"):
                tgt = Emulsion([SphericalDroplet(np.zeros(2), 2.0)])
                try:
                    source = Emulsion(src) if "Emulsion" in how else list(src)
                    if how.startswith("extend"):
                        tgt.extend(source, force_consistency=True)
                        got = list(tgt)
                    else:
                        got = list(Emulsion(source, force_consistency=True))
                    if len({(type(x).__name__, x.dim) for x in got}) > 1:
                        ck.fail(f"force_consistency accepted droplets of different layout/dimension ({how}; {src_name}): {[str(x) for x in got]}",
                                {"check": "consistency_rejects", "how": how}, {"kind": "consistency", "how": how, "source": src_name})
                except ValueError:
                    pass
        # content = the list model for EVERY kind of iterable the droplets arrive through (lists, tuples, one-shot generators / iterators /
        # map objects, other emulsions), with and without the consistency check
        src = [SphericalDroplet(np.array([float(i), 0.0]), 1.0 + i) for i in range(4)]
        for fc in (False, True):
            for how, mk in (("list", lambda: list(src)), ("tuple", lambda: tuple(src)), ("generator", lambda: (x for x in src)), ("iterator", lambda: iter(src)),
                            ("map", lambda: map(lambda x: x, src)), ("Emulsion", lambda: Emulsion(src))):
                ck.count("extend_through_iterables")
                for route in ("constructor", "extend", "extend after a first member"):
                    try:
                        if route == "constructor":
                            tgt, first = Emulsion(mk(), force_consistency=fc), 0
                        else:
                            tgt = Emulsion([SphericalDroplet(np.zeros(2), 9.0)] if route.endswith("member") else [])
                            first = len(tgt)
                            tgt.extend(mk(), force_consistency=fc)
                        got = [x.radius for x in tgt][first:]
                    except Exception as e:  # noqa: BLE001
                        got = f"raised {type(e).__name__}"
                    if got != [x.radius for x in src]:
                        ck.fail(f"{route} with a {how} of 4 consistent droplets (force_consistency={fc}): content {got}, the list model holds radii {[x.radius for x in src]}",
                                {"check": "refines_list_model", "how": how, "route": route}, {"kind": "iterables", "how": how, "route": route, "force_consistency": fc})
        # remove overlaps = the list model (closest offending pair first, its smaller member goes; C10's verified loop): chains A-B-C
        from .c10 import emulsion_case

        rq, ex = [], []
        for k in range(6):
            dim = 1 + k % 2
            e0 = np.eye(dim)[0]
            radii = [3.0, 2.0, 1.0] if k % 3 else [1.0, 2.0, 3.0, 2.5]
            pos, x = [], 0.0
            for i, r in enumerate(radii):
                if i:
                    x += radii[i - 1] + r - rng.uniform(0.1, 0.4)  # overlaps its predecessor only
                pos.append(x)
            drops = [SphericalDroplet(p * e0, r) for p, r in zip(pos, radii)]
            case = {"kind": "overlap-chain", "dim": dim, "droplets": [[d_.position.tolist(), d_.radius] for d_ in drops]}
            ck.case(("overlap-chain", k, tuple(pos)))
            emulsion_case(ck, rq, ex, drops, 0.0, None, {"gen": "chain", "dim": dim}, case)
        try:
            for (case, surv, pops), out in zip(ex, run_driver(rq)):
                left, _, right = out[2:].partition("|")
                if not out.startswith("ok") or [int(x) for x in left.split()] != surv:
                    ck.mismatch("c20-remove-overlaps", f"remove_overlapping keeps {surv}; the list model keeps {out}", case)
        except RuntimeError as e:
            ck.mismatch("c20-remove-overlaps", f"driver unavailable: {e}", {})
        try:
            tr.append(SphericalDroplet(np.zeros(3), 1.0), 1)
            if tr.dim != 3:
                ck.fail("track accepted a droplet of another dimension", {"check": "consistency_rejects"}, {"kind": "consistency"})
        except ValueError:
            pass


def replay(case: dict):
    ck = Check("C20", "quick", 0)
    run_cases(ck, 300, 40, False)
    isolation_probe(ck, 5)
    check_stats(ck, 100)
    bad = [f["what"] for f in ck.failures] + [m["what"] for m in ck.mismatches]
    return not bad, "; ".join(bad[:3]) or "property holds on re-run"


def run(ck: Check):
    ck.rule = ("exhaustive op sequences up to length 4 over a 9-op alphabet (7 380 sequences; vanished droplets and copy(min_radius=0) included) + random sequences (length up to 40 quick / 200 thorough) over 22 "
               "operations on emulsions, time courses and tracks of Spherical/Diffuse droplets in 1-2-D with occasional invalid handles; dump compared after "
               "every op (values, order, times, dtypes, alias classes); statistics vs definitions on random emulsions/tracks; non-trivial = distinct sequences")
    ck.assumptions = ["remove_overlapping is covered by C10 (identity/order of survivors), DropletTrackList slices share their tracks (observed, outside the property)",
                      "integer radii/times so that values print exactly"]
    ck.lean = lean_stage("C20", leanchecker=not ck.quick)
    try:
        run_cases(ck, ck.budget(400, 6000), ck.budget(40, 200), True)
    except RuntimeError as e:
        ck.mismatch("c20-collections", f"driver unavailable: {e}", {})
    isolation_probe(ck, ck.budget(10, 100))
    check_stats(ck, ck.budget(150, 3000))
