"""C08 — saving and loading returns an equal object.

Lean: Model/Hdf.lean + Props/C08.lean (record layout, class marker, empty marker, time column,
zero-padded keys read back in sorted order; `encode_error_or_faithful`, `roundtrip_*`, `pad6_lex`).
Correspondence: the real `to_file` output is dumped with h5py (keys in sorted order, class
attribute, field layout, raw 64-bit patterns) and compared with the model's `encode*`; the real
`from_file` result is compared with the model's `decode*` of that dump.
Predicate: writing raises, or reading back gives an equal object with the same classes,
bit-identical parameters and the same times in the same order."""
from __future__ import annotations

import os
import struct
import tempfile

import numpy as np

from .common import Check, lean_stage, run_driver

CLASSES = ["SphericalDroplet", "DiffuseDroplet", "PerturbedDroplet2D", "PerturbedDroplet3D", "PerturbedDroplet3DAxisSym"]


def bits(x) -> int:
    return struct.unpack("<Q", struct.pack("<d", float(x)))[0]


def drop_token(d) -> str:
    name = type(d).__name__
    pos = ",".join(str(bits(v)) for v in d.data["position"])
    w = str(bits(d.data["interface_width"])) if "interface_width" in d.data.dtype.names else "-"
    if "amplitudes" in d.data.dtype.names:
        a = np.atleast_1d(d.data["amplitudes"])
        amps = ",".join(str(bits(v)) for v in a) if len(a) else "-"
    else:
        amps = "-"
    return f"{name}:{pos}:{bits(d.data['radius'])}:{w}:{amps}"


def dump_dataset(ds) -> str:
    """canonical dump of an HDF5 dataset written by the library"""
    cls = ds.attrs["droplet_class"]
    if cls == "None":
        return "None 0 0"
    dt = ds.dtype
    dim = dt["position"].shape[0] if dt["position"].shape else 1
    modes = (dt["amplitudes"].shape[0] if dt["amplitudes"].shape else 1) if "amplitudes" in dt.names else 0
    rows = []
    for rec in ds[...].reshape(-1):
        vals = []
        for name in dt.names:
            vals += [bits(v) for v in np.atleast_1d(rec[name]).ravel()]
        rows.append(",".join(map(str, vals)))
    return f"{cls} {dim} {modes} " + " ".join(rows)


def gen_droplet(rng, cls=None, dim=None, modes=None):
    from droplets import droplets as D

    cls = cls or rng.choice(CLASSES)
    if cls == "PerturbedDroplet2D":
        dim = 2
    elif cls in ("PerturbedDroplet3D", "PerturbedDroplet3DAxisSym"):
        dim = 3
    else:
        dim = dim or rng.choice([1, 2, 3])
    pos = [rng.choice([0.0, -1.5, rng.uniform(-50, 50)]) for _ in range(dim)]
    if cls == "PerturbedDroplet3DAxisSym":
        pos[0] = pos[1] = 0.0
    r = rng.choice([0.0, 1.0, rng.uniform(0, 20), 10 ** rng.uniform(-8, 8)])
    if cls == "SphericalDroplet":
        return D.SphericalDroplet(pos, r)
    w = rng.choice([None, 0.0, rng.uniform(0, 3)])
    if cls == "DiffuseDroplet":
        return D.DiffuseDroplet(pos, r, w)
    modes = modes or rng.randint(1, 6)
    amps = [rng.choice([0.0, rng.uniform(-1, 1)]) for _ in range(modes)]
    return getattr(D, cls)(pos, r, w, amps)


def gen_collection(rng, n=None, uniform=None):
    """list of droplets; mostly one class/layout, sometimes deliberately mixed"""
    n = rng.choice([0, 1, 2, 3, 17]) if n is None else n
    if n == 0:
        return []
    first = gen_droplet(rng)
    cls = type(first).__name__
    modes = getattr(first, "modes", None)
    uniform = rng.random() < 0.8 if uniform is None else uniform
    out = [first]
    if not uniform and rng.random() < 0.4:
        # different classes sharing ONE data layout (3-D perturbed vs axisymmetric, same number of modes)
        modes = rng.randint(1, 4)
        out = [gen_droplet(rng, rng.choice(["PerturbedDroplet3D", "PerturbedDroplet3DAxisSym"]), 3, modes) for _ in range(n)]
        for d in out:
            d.position[:2] = 0.0
        if n >= 2 and len({type(d) for d in out}) == 1:
            other = "PerturbedDroplet3DAxisSym" if type(out[0]).__name__ == "PerturbedDroplet3D" else "PerturbedDroplet3D"
            out[-1] = gen_droplet(rng, other, 3, modes)
            out[-1].position[:2] = 0.0
        return out
    for _ in range(n - 1):
        if uniform:
            out.append(gen_droplet(rng, cls, first.dim, modes))
        else:
            out.append(gen_droplet(rng, rng.choice([cls, cls, None]), rng.choice([first.dim, None])))
    return out


def gen_times(rng, n):
    kind = rng.choice(["range", "ints", "neg", "floats", "mixed", "unordered"])
    if kind == "unordered":
        # decreasing, restarted and repeated time stamps: the order of the members is the order they were given in
        base = [float(t) for t in range(n)]
        mode = rng.choice(["decreasing", "restarted", "repeated", "shuffled"])
        if mode == "decreasing":
            return base[::-1]
        if mode == "restarted":
            k = max(1, n // 2)
            return base[:k] + [t / 2 for t in base[: n - k]]
        if mode == "repeated":
            return [float(t // 2) for t in range(n)]
        rng.shuffle(base)
        return base
    if kind == "range":
        return list(range(n))
    if kind == "mixed":
        # an integer first time stamp (e.g. the default 0) followed by non-integer floats, also negative
        t0 = rng.choice([0, 0, -3, 2])
        out, t = [t0], float(t0)
        for _ in range(n - 1):
            t += rng.choice([0.25, 0.5, 1.5, 0.125])
            out.append(t)
        return out[:n]
    if kind == "ints":
        t, out = rng.randrange(-5, 5), []
        for _ in range(n):
            out.append(t)
            t += rng.choice([1, 2, 10, 2**40])
        return out
    if kind == "neg":
        return [float(-n + i) * 0.5 for i in range(n)]
    t, out = rng.uniform(-3, 3), []
    for _ in range(n):
        out.append(t)
        t += rng.uniform(1e-3, 5)
    return out


def same_droplets(a, b) -> bool:
    return len(a) == len(b) and all(type(x) is type(y) and x.data.dtype == y.data.dtype and x.data.tobytes() == y.data.tobytes() for x, y in zip(a, b))


def safe_eq(a, b) -> bool:
    try:
        return bool(a == b)
    except Exception:  # noqa: BLE001  (comparing differently shaped records raises inside numpy)
        return False


def try_write(obj, path):
    # the file of the previous case is deliberately NOT removed: saving to an existing path must replace its content
    # (a shorter collection written over a longer one must not leave stale members behind)
    try:
        obj.to_file(path)
        return "ok"
    except Exception as e:  # noqa: BLE001
        return "err " + type(e).__name__


def run_cases(ck: Check, n: int):
    import h5py
    from droplets.droplet_tracks import DropletTrack, DropletTrackList
    from droplets.emulsions import Emulsion, EmulsionTimeCourse

    rng = ck.rng
    tmp = tempfile.mkdtemp(prefix="verif-c08-")
    path = os.path.join(tmp, "x.hdf5")
    reqs, expect = [], []

    def model(req, want, case, stream="c08-layout"):
        reqs.append(req)
        expect.append((want, case, stream))

    def build_emulsion(drops):
        """the same collection, sometimes reached through a history that leaves a STALE declared layout behind
        (created for droplets of another class / layout, emptied, refilled)"""
        if not drops or rng.random() > 0.3:
            return Emulsion(drops)
        for _ in range(20):
            other = gen_collection(rng, n=rng.choice([1, 2]), uniform=True)
            if other and other[0].data.dtype != drops[0].data.dtype:
                break
        else:
            return Emulsion(drops)
        e = Emulsion(other) if rng.random() < 0.5 else Emulsion.empty(other[0])
        e.clear()
        for d in drops:
            e.append(d)
        ck.count("emulsion.stale_declared_layout")
        return e

    try:
        for i in range(n):
            kind = rng.choice(["emulsion", "emulsion", "track", "timecourse", "tracklist"])
            if kind == "emulsion":
                drops = gen_collection(rng)
                obj = build_emulsion(drops)
                if len(obj) >= 2 and len({d.data.dtype for d in obj}) == 1 and len({type(d) for d in obj}) == 1 and rng.random() < 0.4:
                    # a history on ONE object: the droplets are linked to a common array (get_linked_data), then the list is reordered in
                    # place; what is written must be the emulsion as it is NOW
                    try:
                        obj.get_linked_data()
                        how = rng.choice(["reverse", "sort", "swap"])
                        if how == "reverse":
                            obj.reverse()
                        elif how == "sort":
                            obj.sort(key=lambda d: (-d.radius, tuple(d.position)))
                        else:
                            obj[0], obj[-1] = obj[-1], obj[0]
                        drops = list(obj)
                        ck.count("emulsion.linked_then_reordered")
                    except Exception:  # noqa: BLE001
                        drops = list(obj)
                case = {"kind": kind, "droplets": [str(d) for d in drops][:6], "n": len(drops)}
                sig = {"kind": kind}
                ck.case((kind, tuple(drop_token(d) for d in drops)), nontrivial=len(drops) > 0)
                st = try_write(obj, path)
                ck.count(f"{kind}.{st.split()[0]}")
                enc_req = ("c08 encE " + " ".join(drop_token(d) for d in drops)).strip()
                if st != "ok":
                    model(enc_req, "err", case)
                    continue
                with h5py.File(path, "r") as fp:
                    dump = dump_dataset(fp[list(fp.keys())[0]])
                model(enc_req, "ok " + dump, case)
                try:
                    back = Emulsion.from_file(path)
                except Exception as e:  # noqa: BLE001
                    ck.fail(f"emulsion written without error cannot be read back: {type(e).__name__}: {e}", {**sig, "check": "encode_error_or_faithful"}, case)
                    continue
                if not safe_eq(back, obj) or not same_droplets(back, obj):
                    ck.fail("emulsion written without error reads back different", {**sig, "check": "encode_error_or_faithful"}, case)
                model("c08 decE " + dump, ("ok " + " ".join(drop_token(d) for d in back)).strip(), case)
            elif kind == "track":
                drops = gen_collection(rng, uniform=rng.random() < 0.7)
                times = gen_times(rng, len(drops))
                try:
                    obj = DropletTrack(drops, times)
                except ValueError:
                    ck.count("track.ctor_rejects")
                    continue
                case = {"kind": kind, "droplets": [str(d) for d in drops][:6], "times": [float(t) for t in times][:8], "n": len(drops)}
                sig = {"kind": kind}
                ck.case((kind, tuple(drop_token(d) for d in drops), tuple(times)), nontrivial=len(drops) > 0)
                st = try_write(obj, path)
                ck.count(f"{kind}.{st.split()[0]}")
                enc_req = ("c08 encT " + " ".join(f"{bits(t)} {drop_token(d)}" for t, d in zip(times, drops))).strip()
                if st != "ok":
                    model(enc_req, "err", case)
                    continue
                with h5py.File(path, "r") as fp:
                    dump = dump_dataset(fp[list(fp.keys())[0]])
                model(enc_req, "ok " + dump, case)
                try:
                    back = DropletTrack.from_file(path)
                except Exception as e:  # noqa: BLE001
                    ck.fail(f"DropletTrack written without error cannot be read back: {type(e).__name__}: {e}", {**sig, "check": "track_error_or_faithful"}, case)
                    continue
                ok = safe_eq(back, obj) and same_droplets(back.droplets, obj.droplets) and [float(t) for t in back.times] == [float(t) for t in obj.times]
                if not ok:
                    ck.fail("track written without error reads back different", {**sig, "check": "track_error_or_faithful"}, case)
                model("c08 decT " + dump, ("ok " + " ".join(f"{bits(t)} {drop_token(d)}" for t, d in zip(back.times, back.droplets))).strip(), case)
            elif kind == "timecourse":
                nfr = rng.choice([0, 1, 2, 5, 12])
                members = [gen_collection(rng, n=rng.choice([0, 0, 1, 2, 3]), uniform=rng.random() < 0.9) for _ in range(nfr)]
                if nfr >= 2 and rng.random() < 0.4:
                    # a stationary stretch: the SAME non-empty frame recorded again at later times (identical members, different time stamps)
                    k0 = rng.randrange(nfr - 1)
                    if not members[k0]:
                        members[k0] = gen_collection(rng, n=2, uniform=True)
                    for k in range(k0 + 1, min(nfr, k0 + 1 + rng.choice([1, 2, 3]))):
                        members[k] = list(members[k0])
                    ck.count("timecourse.with_repeated_identical_frames")
                times = gen_times(rng, nfr)
                obj = EmulsionTimeCourse([build_emulsion(m) for m in members], times)
                case = {"kind": kind, "members": [len(m) for m in members], "times": [float(t) for t in times]}
                sig = {"kind": kind}
                ck.case((kind, tuple(tuple(drop_token(d) for d in m) for m in members), tuple(times)), nontrivial=nfr > 0)
                st = try_write(obj, path)
                ck.count(f"{kind}.{st.split()[0]}")
                if st != "ok":
                    # some member must be unencodable in the model
                    for m in members:
                        model(("c08 encE " + " ".join(drop_token(d) for d in m)).strip(), "any", case)
                    continue
                with h5py.File(path, "r") as fp:
                    keys = sorted(fp.keys())
                    if keys != [f"time_{k:06d}" for k in range(nfr)]:
                        ck.fail(f"keys are {keys[:3]}..", {**sig, "check": "keys"}, case)
                    for k, (key, m) in enumerate(zip(keys, members)):
                        model(("c08 encE " + " ".join(drop_token(d) for d in m)).strip(), "ok " + dump_dataset(fp[key]), case)
                        model(f"c08 key {k}", "ok " + key.split("_")[1], case)
                try:
                    back = EmulsionTimeCourse.from_file(path, progress=False)
                except Exception as e:  # noqa: BLE001
                    ck.fail(f"EmulsionTimeCourse written without error cannot be read back: {type(e).__name__}: {e}", {**sig, "check": "encode_error_or_faithful"}, case)
                    continue
                ok = safe_eq(back, obj) and len(back) == nfr and all(same_droplets(a, b) for a, b in zip(back.emulsions, obj.emulsions)) and \
                    [float(t) for t in back.times] == [float(t) for t in obj.times]
                if not ok:
                    ck.fail("time course written without error reads back different", {**sig, "check": "roundtrip_timecourse"}, case)
            else:
                ntr = rng.choice([0, 1, 2, 4, 11])
                tracks = []
                for _ in range(ntr):
                    drops = gen_collection(rng, n=rng.choice([0, 1, 2, 4]), uniform=True)
                    tracks.append(DropletTrack(drops, gen_times(rng, len(drops))))
                obj = DropletTrackList(tracks)
                case = {"kind": kind, "tracks": [len(t) for t in tracks]}
                sig = {"kind": kind}
                ck.case((kind, tuple(tuple(drop_token(d) for d in t.droplets) for t in tracks)), nontrivial=ntr > 0)
                st = try_write(obj, path)
                ck.count(f"{kind}.{st.split()[0]}")
                if st != "ok":
                    continue
                with h5py.File(path, "r") as fp:
                    keys = sorted(fp.keys())
                    if keys != [f"track_{k:06d}" for k in range(ntr)]:
                        ck.fail(f"keys are {keys[:3]}..", {**sig, "check": "keys"}, case)
                try:
                    back = DropletTrackList.from_file(path, progress=False)
                except Exception as e:  # noqa: BLE001
                    ck.fail(f"DropletTrackList written without error cannot be read back: {type(e).__name__}: {e}", {**sig, "check": "track_error_or_faithful"}, case)
                    continue
                ok = len(back) == ntr and all(safe_eq(a, b) and same_droplets(a.droplets, b.droplets) and [float(t) for t in a.times] == [float(t) for t in b.times] for a, b in zip(back, obj))
                if not ok:
                    ck.fail("track list written without error reads back different", {**sig, "check": "roundtrip_tracklist"}, case)
            if len(ck.samples) < 4 and rng.random() < 0.2:
                ck.sample(case)
        # key format and order: model vs Python's "%06d" incl. the overflow beyond 10^6
        for k in [0, 1, 9, 10, 99999, 999999, 1000000, 1234567, 10**7] + [rng.randrange(10**6) for _ in range(50)]:
            model(f"c08 key {k}", "ok " + f"{k:06d}", {"key": k}, "c08-keys")
            k2 = rng.randrange(2 * 10**6)
            model(f"c08 sorted {k} {k2}", "ok lt" if f"{k:06d}" < f"{k2:06d}" else "ok ge", {"keys": [k, k2]}, "c08-keys")
            ck.case(("key", k, k2))
    finally:
        if os.path.exists(path):
            os.remove(path)
        os.rmdir(tmp)
    outs = run_driver(reqs)
    for (want, case, stream), req, out in zip(expect, reqs, outs):
        out = out.strip()
        if want == "any":
            continue
        if want == "err":
            if not out.startswith("err"):
                ck.mismatch(stream, f"implementation refuses to write, model encodes: {out[:120]}", case)
        elif out != want.strip():
            ck.mismatch(stream, f"request {req[:60]}..: impl '{want[:150]}' vs model '{out[:150]}'", case)


class _FakeDataset:
    def __init__(self):
        self.attrs = {}


class _FakeFile(dict):
    """in-memory stand-in for h5py.File: just enough for to_file of EMPTY members (scalar datasets)"""
    store: dict = {}

    def __init__(self, path, mode="r"):
        super().__init__()
        self.attrs = {}
        if mode == "r":
            self.update(_FakeFile.store.get(path, {}))
        self._path = path

    def create_dataset(self, key, shape=None, data=None):
        ds = _FakeDataset()
        self[key] = ds
        return ds

    def __enter__(self):
        return self

    def __exit__(self, *a):
        _FakeFile.store[self._path] = dict(self)
        return False


def big_collection_probe(ck: Check):
    """finding D13 on the real code path: write 10^6+1 (empty) members with the real to_file into an
    in-memory stand-in for h5py and look at the order in which from_file would visit them"""
    import sys
    import types

    from droplets.emulsions import Emulsion, EmulsionTimeCourse

    n = 10**6 + 1
    etc = EmulsionTimeCourse()
    shared = Emulsion()
    etc.emulsions = [shared] * n  # empty members; sharing one object keeps this cheap
    etc.times = list(range(n))
    fake = types.ModuleType("h5py")
    fake.File = _FakeFile
    real = sys.modules.get("h5py")
    sys.modules["h5py"] = fake
    try:
        etc.to_file("mem://big")
        with _FakeFile("mem://big", "r") as fp:
            order = sorted(fp.keys())  # the iteration order of from_file
            visited_times = [fp[k].attrs["time"] for k in (order[0], order[1], order[-1])]
            first_bad = next((i for i, k in enumerate(order) if fp[k].attrs["time"] != i), None)
    finally:
        if real is not None:
            sys.modules["h5py"] = real
        else:
            del sys.modules["h5py"]
        _FakeFile.store.clear()
    ck.case(("big-collection", n))
    if first_bad is not None:
        ck.fail(f"a time course with {n} members is read back in a different order: position {first_bad} holds the member written as number {visited_times[1] if first_bad == 1 else '...'} "
                f"(keys sort as {order[first_bad - 1]}, {order[first_bad]}, ...)",
                {"check": "key_order_beyond_1e6"}, {"kind": "big", "members": n, "first_out_of_order_position": first_bad})


def replay(case: dict):
    ck = Check("C08", "quick", 0)
    run_cases(ck, 400)
    bad = [f["what"] for f in ck.failures] + [m["what"] for m in ck.mismatches]
    return not bad, "; ".join(bad[:3]) or "property holds on re-run"


def run(ck: Check):
    ck.rule = ("random emulsions / tracks / time courses / track lists over all 5 classes, dims 1-3, 1-6 modes, widths {None,0,>0}, sizes {0,1,2,3,17}, "
               "deliberately mixed classes/layouts (must raise), empty members, times {range, ints with 2^40 gaps, negative, non-uniform floats}; key format incl. "
               "beyond 10^6; non-trivial = distinct non-empty collections")
    ck.assumptions = ["h5py stores and returns float64 patterns unchanged and lists keys sorted (monitored by the dump comparison)",
                      "times are exactly representable in float64 (|t| <= 2^53): the track time column is f8",
                      "collections have fewer than 10^6 members (beyond that the key order provably breaks: pad6_overflow_witness; known finding D13, theoretical)"]
    ck.lean = lean_stage("C08", leanchecker=not ck.quick)
    try:
        run_cases(ck, ck.budget(500, 8000))
    except RuntimeError as e:
        ck.mismatch("c08-layout", f"driver unavailable: {e}", {})
    big_collection_probe(ck)
