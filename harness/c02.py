"""C02 — each located droplet is one connected component under the grid's topology.

Lean: Model/Merge.lean (`mergeLoop`, pointwise) + Props/C02.lean; overlap removal = Model/Overlap.
Correspondence: real `locate_droplets_in_mask` on Cartesian grids (candidates tapped at the entry
of `remove_overlapping`) vs. `locateCells` run on scipy's labelling of the same mask (exact
rationals in cell units), then mapped to grid coordinates here.
Monitors: scipy's labelling = face-connected components in raster order (independent BFS).
Predicate: an independent union-find/BFS with integer lifts (not the model) gives the periodic
components, their volumes, winding flags and unwrapped centres of mass."""
from __future__ import annotations

import itertools
import math
from fractions import Fraction

import numpy as np

from .common import Check, lean_stage, rel_close, run_driver
from .c10 import my_distance


# ---------------------------------------------------------------------------------------
# independent oracle
# ---------------------------------------------------------------------------------------

def components(mask: np.ndarray, periodic):
    """BFS with integer lifts.  Returns [(cells sorted, {cell: lift}, winding)], in raster order of first cell"""
    shape, dim = mask.shape, mask.ndim
    seen: set = set()
    comps = []
    for start in zip(*np.nonzero(mask)):
        start = tuple(int(x) for x in start)
        if start in seen:
            continue
        lifts = {start: (0,) * dim}
        seen.add(start)
        queue = [start]
        wind = False
        while queue:
            c = queue.pop()
            for ax in range(dim):
                for s in (-1, 1):
                    n = list(c)
                    n[ax] += s
                    lift = list(lifts[c])
                    if n[ax] < 0:
                        if not periodic[ax]:
                            continue
                        n[ax] += shape[ax]
                        lift[ax] -= 1
                    elif n[ax] >= shape[ax]:
                        if not periodic[ax]:
                            continue
                        n[ax] -= shape[ax]
                        lift[ax] += 1
                    n, lift = tuple(n), tuple(lift)
                    if not mask[n]:
                        continue
                    if n in lifts:
                        if lifts[n] != lift:
                            wind = True
                    else:
                        lifts[n] = lift
                        seen.add(n)
                        queue.append(n)
        comps.append((sorted(lifts), lifts, wind))
    return comps


def inbox_labels(mask: np.ndarray) -> np.ndarray:
    """face-connected components inside the box, numbered in raster order of their first cell"""
    lab = np.zeros(mask.shape, dtype=int)
    k = 0
    for start in zip(*np.nonzero(mask)):
        if lab[start]:
            continue
        k += 1
        lab[start] = k
        queue = [start]
        while queue:
            c = queue.pop()
            for ax in range(mask.ndim):
                for s in (-1, 1):
                    n = list(c)
                    n[ax] += s
                    if 0 <= n[ax] < mask.shape[ax]:
                        n = tuple(n)
                        if mask[n] and not lab[n]:
                            lab[n] = k
                            queue.append(n)
    return lab


# ---------------------------------------------------------------------------------------
# real code, observed
# ---------------------------------------------------------------------------------------

def run_real(grid, mask):
    from pde import ScalarField
    from droplets.emulsions import Emulsion
    from droplets.image_analysis import locate_droplets_in_mask

    cand = {}
    orig = Emulsion.remove_overlapping

    def tapped(self, *a, **k):
        if "list" not in cand:
            cand["list"] = [(d.position.copy(), d.radius) for d in self]
            cand["kw"] = (a, k)
        return orig(self, *a, **k)

    Emulsion.remove_overlapping = tapped
    try:
        em = locate_droplets_in_mask(ScalarField(grid, mask.astype(bool), dtype=bool))
    finally:
        Emulsion.remove_overlapping = orig
    return em, cand.get("list")


def make_grid(shape, periodic, rng, fancy=True):
    from pde import CartesianGrid

    if fancy:
        unit = rng.choice([1.0, 1.0, 1.0, 1e-9, 1e-3, 1e4])  # the unit of length (nothing may depend on it)
        dx = [rng.choice([1.0, 0.5, 0.39, 1.5, 2.0]) * unit for _ in shape]
        lo = [rng.choice([0.0, -1.25, 3.0]) * unit for _ in shape]
    else:
        dx, lo = [1.0] * len(shape), [0.0] * len(shape)
    return CartesianGrid([[a, a + n * d] for a, n, d in zip(lo, shape, dx)], list(shape), periodic=list(periodic))


def pdiff(a, b, grid):
    d = np.asarray(a, float) - np.asarray(b, float)
    for ax in range(grid.num_axes):
        if grid.periodic[ax]:
            L = grid.axes_bounds[ax][1] - grid.axes_bounds[ax][0]
            d[..., ax] = (d[..., ax] + L / 2) % L - L / 2
    return d


MASK_OP_LIMIT = 600  # cells; above this the (quadratic) model labeller is replaced by scipy's labelling as input


def sphere_radius(vol, dim):
    return {1: vol / 2, 2: math.sqrt(vol / math.pi), 3: (3 * vol / (4 * math.pi)) ** (1 / 3)}[dim]


def check_mask(ck: Check, grid, mask, reqs, expect, case, sig):
    from scipy import ndimage

    dim = mask.ndim
    shape = mask.shape
    dx = np.array(grid.discretization)
    lo = np.array([b[0] for b in grid.axes_bounds])
    L = np.array([b[1] - b[0] for b in grid.axes_bounds])
    cellvol = float(np.prod(dx))
    em, cands = run_real(grid, mask)
    comps = components(mask, grid.periodic)
    ck.count(f"dim{dim}")
    if any(w for _, _, w in comps):
        ck.count("with_winding_component")
    tol = 1e-9 * float(L.max())
    # ---- contract monitor: scipy labelling
    lab, nlab = ndimage.label(mask)
    if not np.array_equal(lab, inbox_labels(mask)):
        ck.fail("scipy.ndimage.label is not the raster-ordered face-connected labelling", {**sig, "check": "label_contract"}, case)
    # ---- predicate on the real result
    if not mask.any():
        if len(em) != 0:
            ck.fail("empty mask gives droplets", {**sig, "check": "empty"}, case)
    if cands is None and mask.any():
        ck.mismatch("c02-merge", "remove_overlapping was not reached", case)
        return
    cands = cands or []
    # candidates <-> components, one-to-one
    if len(cands) != len(comps):
        ck.fail(f"{len(cands)} candidates for {len(comps)} periodic components", {**sig, "check": "mergeLoop_partition"}, case)
        return
    comp_info = []
    for cells, lifts, wind in comps:
        vol = len(cells) * cellvol
        com = lo + dx * np.mean([[c[a] + 0.5 + lifts[c][a] * shape[a] for a in range(dim)] for c in cells], axis=0)
        comp_info.append((vol, com, wind))
    unused = list(range(len(comps)))
    cand_comp = []
    for pos, rad in cands:
        hit = None
        for k in unused:
            vol, com, wind = comp_info[k]
            if not rel_close(rad, sphere_radius(vol, dim), 1e-12):
                continue
            if wind or np.abs(pdiff(pos, com, grid)).max() < tol:
                hit = k
                break
        if hit is None:
            ck.fail(f"candidate at {pos} r={rad} is not (volume, unwrapped centre of mass) of any periodic component", {**sig, "check": "C02_position_nonwinding"}, case)
            return
        unused.remove(hit)
        cand_comp.append(hit)
        for ax in range(dim):
            if grid.periodic[ax] and not (lo[ax] - 1e-12 * L[ax] <= pos[ax] < lo[ax] + L[ax] * (1 + 1e-12)):
                ck.fail(f"candidate position {pos} outside the box along periodic axis {ax}", {**sig, "check": "position_in_box"}, case)
    # survivors: no overlap; dropped only if dominated
    surv = [(d.position, d.radius) for d in em]
    for (p1, r1), (p2, r2) in itertools.combinations(surv, 2):
        if my_distance(p1, p2, grid) - (r1 + r2) < -tol:
            ck.fail(f"returned droplets at {p1} and {p2} overlap", {**sig, "check": "C02_no_overlap"}, case)
    scale = float(L.max())  # (keys relative to the box size: the unit of length may be anything)
    keys = [(tuple(np.round(np.asarray(p) / scale, 9)), round(float(r) / scale, 12)) for p, r in cands]
    skeys = [(tuple(np.round(np.asarray(p) / scale, 9)), round(float(r) / scale, 12)) for p, r in surv]
    if any(k not in keys for k in skeys) or [k for k in keys if k in skeys] != skeys:
        ck.fail("returned droplets are not a sub-list of the candidates", {**sig, "check": "removed_sublist"}, case)
    for (p, r), k in zip(cands, keys):
        if k in skeys:
            continue
        if not any(r2 >= r * (1 - 1e-12) and (p2 is not p) and my_distance(p, p2, grid) - (r + r2) < tol for p2, r2 in cands):
            ck.fail(f"component at {p} left out although no component at least as large overlaps it", {**sig, "check": "C02_dropped_only_if_dominated"}, case)
    if len(surv) != len(cands):
        ck.count("some_candidate_removed")
    # ---- the second observation point of the property: locate_droplets(field, threshold=...) with default options must return
    # the droplets of the binary image (no component has zero volume, so the default size filter has nothing to remove)
    if sig.get("gen") != "exhaustive" or (mask.size % 3 == 0 and int(mask.sum()) % 4 == 1):
        from pde import ScalarField
        from droplets.image_analysis import locate_droplets

        vlo, vhi = [(0.0, 1.0), (-3.0, 5.0), (1e-12, 3e-12), (2e6, 7e6)][(mask.size + int(mask.sum())) % 4]
        field = ScalarField(grid, np.where(mask, vhi, vlo))
        em2 = locate_droplets(field, threshold=0.5 * (vlo + vhi))
        k2 = [(tuple(np.round(np.asarray(d.position) / scale, 9)), round(float(d.radius) / scale, 12)) for d in em2]
        if k2 != skeys:
            ck.fail(f"locate_droplets(field, threshold) returns {len(em2)} droplets, locate_droplets_in_mask {len(surv)} on the same binary image",
                    {**sig, "check": "locate_droplets_equals_mask"}, case)
        ck.count("through_locate_droplets")
    # ---- model request
    head = f"{dim} " + " ".join(map(str, shape)) + " " + " ".join(str(int(p)) for p in grid.periodic) + " "
    if mask.size <= MASK_OP_LIMIT:
        # whole pipeline in the model: verified labeller (Props/C02 `labelExec_isLabelling`) + merge loop
        reqs.append("c02 mask " + head + " ".join(str(int(b)) for b in mask.flat))
        expect.append((case, grid, cands, cellvol, [int(x) for x in lab.flat]))
        ck.count("model_labels_the_mask")
    else:
        reqs.append("c02 merge " + head + " ".join(map(str, lab.flat)))
        expect.append((case, grid, cands, cellvol, None))


def compare_model(ck: Check, reqs, expect):
    try:
        outs = run_driver(reqs)
    except RuntimeError as e:
        ck.mismatch("c02-merge", f"driver unavailable: {e}", {})
        return
    for (case, grid, cands, cellvol, scipy_lab), out in zip(expect, outs):
        if not out.startswith("ok"):
            ck.mismatch("c02-merge", f"model answered {out}", case)
            continue
        if scipy_lab is not None:
            labs, _, rest = out[2:].partition("|")
            model_lab = [int(x) for x in labs.split()]
            if model_lab != scipy_lab:
                ck.mismatch("c02-label", f"scipy.ndimage.label differs from the verified labeller: scipy {scipy_lab} model {model_lab}", case)
            out = "ok " + rest.strip()
        dim = grid.num_axes
        dx = np.array(grid.discretization)
        lo = np.array([b[0] for b in grid.axes_bounds])
        L = np.array([b[1] - b[0] for b in grid.axes_bounds])
        items = [x for x in out[2:].strip().split(";") if x]
        if len(items) != len(cands):
            ck.mismatch("c02-merge", f"model has {len(items)} clusters, implementation {len(cands)} candidates", case)
            continue
        for it, (pos, rad) in zip(items, cands):
            _, cnt, ps = it.split(":")
            cnt = float(Fraction(cnt))
            mp = lo + dx * np.array([float(Fraction(x)) for x in ps.split(",")])
            ok = rel_close(rad, sphere_radius(cnt * cellvol, dim), 1e-12)
            d = mp - pos
            for ax in range(dim):
                if grid.periodic[ax]:
                    d[ax] = (d[ax] + L[ax] / 2) % L[ax] - L[ax] / 2
            if not ok or np.abs(d).max() > 1e-9 * L.max():
                ck.mismatch("c02-merge", f"candidate differs: impl pos={pos} r={rad}; model count={cnt} pos={mp}", case)
                break


# ---------------------------------------------------------------------------------------
# generators
# ---------------------------------------------------------------------------------------

def shaped_mask(rng, shape):
    kind = rng.choice(["noise", "noise", "sparse", "dense", "ring", "u", "stripes", "blobs"])
    m = np.zeros(shape, dtype=bool)
    if kind in ("noise", "sparse", "dense"):
        p = {"noise": rng.uniform(0.3, 0.6), "sparse": rng.uniform(0.05, 0.25), "dense": rng.uniform(0.6, 0.9)}[kind]
        m = np.array([rng.random() < p for _ in range(int(np.prod(shape)))]).reshape(shape)
    elif kind == "ring" and len(shape) >= 2:
        idx = np.indices(shape)
        c = [rng.uniform(0, n) for n in shape]
        r = rng.uniform(1, max(2, min(shape) / 2))
        d2 = sum(((idx[a] + 0.5 - c[a] + shape[a] / 2) % shape[a] - shape[a] / 2) ** 2 for a in range(len(shape)))
        m = (d2 < r * r) & (d2 > (r - 1.2) ** 2)
    elif kind == "u" and len(shape) >= 2:
        # comb across a periodic face: teeth at the low side, back at the high side
        ax = rng.randrange(len(shape))
        sl = [slice(None)] * len(shape)
        sl[ax] = shape[ax] - 1
        m[tuple(sl)] = True
        for _ in range(rng.randint(2, 4)):
            t = [rng.randrange(n) for n in shape]
            t[ax] = 0
            m[tuple(t)] = True
        # break the back so that it does not wind along the other axes
        b = [rng.randrange(n) for n in shape]
        b[ax] = shape[ax] - 1
        m[tuple(b)] = False
    elif kind == "stripes":
        ax = rng.randrange(len(shape))
        sl = [slice(None)] * len(shape)
        sl[ax] = slice(rng.randrange(shape[ax]), None, rng.choice([2, 3]))
        m[tuple(sl)] = True
    else:
        idx = np.indices(shape)
        for _ in range(rng.randint(1, 4)):
            c = [rng.uniform(0, n) for n in shape]
            r = rng.uniform(0.7, 2.5)
            d2 = sum(((idx[a] + 0.5 - c[a] + shape[a] / 2) % shape[a] - shape[a] / 2) ** 2 for a in range(len(shape)))
            m |= d2 < r * r
    if rng.random() < 0.3:
        flip = np.array([rng.random() < 0.05 for _ in range(int(np.prod(shape)))]).reshape(shape)
        m ^= flip
    return m


def exhaustive_shapes(quick: bool):
    if quick:
        return [(n,) for n in range(1, 9)] + [(3, 3), (2, 4)]
    return [(n,) for n in range(1, 13)] + [(3, 3), (2, 4), (4, 4), (3, 5), (2, 2, 3)]


CORPUS = [
    # contacts across ONE periodic boundary that form a cycle (two pieces on each side, each low piece facing both high pieces): the last
    # contact joins a cluster with itself - nothing may be merged (or counted) twice; and a tilted lamella winding (1, 2) round the box
    {"shape": [5, 7], "periodic": [True, False], "cells": [[0, 0], [0, 2], [0, 3], [0, 4], [0, 6], [1, 0], [1, 6], [2, 0], [2, 1], [2, 2], [2, 3], [2, 4], [2, 5], [2, 6], [4, 0], [4, 1], [4, 2], [4, 4], [4, 5], [4, 6]]},
    {"shape": [6, 6], "periodic": [True, True], "cells": [[0, 0], [0, 1], [0, 2], [1, 2], [1, 3], [1, 4], [2, 0], [2, 4], [2, 5], [3, 0], [3, 1], [3, 2], [4, 2], [4, 3], [4, 4], [5, 0], [5, 4], [5, 5]]},
    # D1 witness: U-shaped component over the periodic face of axis 1
    {"shape": [5, 8], "periodic": [False, True], "cells": [[1, 0], [3, 0], [1, 7], [2, 7], [3, 7]]},
    {"shape": [5, 8], "periodic": [True, True], "cells": [[1, 0], [3, 0], [1, 7], [2, 7], [3, 7]]},
    {"shape": [4, 4], "periodic": [True, True], "cells": [[0, 0], [0, 3], [3, 0], [3, 3]]},
    # two thin bars whose equal-area discs overlap although the bars are not adjacent; the nearest neighbour (by centre) of
    # each bar is a single-cell component that does not overlap it: the overlap filter has to look at ALL pairs
    {"shape": [16, 20], "periodic": [False, False],
     "cells": [[r, c] for r in (4, 5) for c in range(1, 19)] + [[10, c] for c in range(2, 18)] + [[0, 10], [14, 10]]},
    {"shape": [20, 16], "periodic": [False, False],
     "cells": [[c, r] for r in (4, 5) for c in range(1, 19)] + [[c, 10] for c in range(2, 18)] + [[10, 0], [10, 14]]},
]


def run_cases(ck: Check, quick: bool, n_random: int):
    reqs, expect = [], []
    rng = ck.rng
    for c in CORPUS:
        m = np.zeros(c["shape"], dtype=bool)
        for cell in c["cells"]:
            m[tuple(cell)] = True
        grid = make_grid(c["shape"], c["periodic"], rng, fancy=False)
        ck.case(("corpus", str(c)))
        check_mask(ck, grid, m, reqs, expect, {"kind": "corpus", **c}, {"gen": "corpus"})
    n_ex = 0
    for shape in exhaustive_shapes(quick):
        ncell = int(np.prod(shape))
        for periodic in itertools.product([False, True], repeat=len(shape)):
            grid = make_grid(shape, periodic, rng, fancy=False)
            for bits in range(1 << ncell):
                m = np.array([(bits >> k) & 1 for k in range(ncell)], dtype=bool).reshape(shape)
                case = {"kind": "exhaustive", "shape": list(shape), "periodic": list(periodic), "bits": bits}
                ck.case(("ex", shape, periodic, bits), nontrivial=bool(m.any()))
                check_mask(ck, grid, m, reqs, expect, case, {"gen": "exhaustive", "dim": len(shape)})
                n_ex += 1
    ck.stats["exhaustive_masks"] = n_ex
    for _ in range(n_random):
        dim = rng.choice([1, 2, 2, 2, 3])
        shape = tuple(rng.randint(2, {1: 24, 2: 12, 3: 5}[dim]) for _ in range(dim))
        periodic = tuple(rng.random() < 0.6 for _ in range(dim))
        grid = make_grid(shape, periodic, rng, fancy=True)
        m = shaped_mask(rng, shape)
        case = {"kind": "random", "shape": list(shape), "periodic": list(periodic), "bounds": [list(b) for b in grid.axes_bounds],
                "cells": [list(map(int, c)) for c in zip(*np.nonzero(m))]}
        ck.case(("rnd", shape, periodic, m.tobytes()), nontrivial=bool(m.any()))
        check_mask(ck, grid, m, reqs, expect, case, {"gen": "random", "dim": dim})
        if len(ck.samples) < 3 and m.sum() > 3:
            ck.sample(case)
    compare_model(ck, reqs, expect)


CYL_CORPUS = [
    # a NON-winding on-axis component that is 9 columns long when unwrapped, on a grid of 7 columns (VERIF_SEED=7)
    ("long-nonwinding", 0.5, 0.75, 0.0, [[0, 0, 0, 0, 0, 1, 1], [1, 0, 1, 1, 1, 1, 1], [0, 0, 1, 0, 0, 0, 0], [1, 1, 1, 0, 0, 0, 1], [0, 0, 1, 0, 0, 0, 1]]),
    # an on-axis cylinder through the whole box (winds) with a hook whose tip is attached only across the boundary
    ("winding-with-hook", 1.0, 1.0, 0.0, [[1, 1, 1, 1, 1, 1, 1], [0, 0, 0, 0, 0, 0, 1], [1, 0, 0, 0, 0, 0, 1]]),
    # controls: a whole-axis cylinder (winds, fall-back is right) and a blob across the boundary
    ("winding-plain", 1.0, 1.0, 0.0, [[1, 1, 1, 1, 1], [1, 1, 1, 1, 1], [0, 0, 0, 0, 0]]),
    ("blob-across", 1.0, 0.75, -2.0, [[1, 1, 0, 0, 0, 1], [1, 0, 0, 0, 0, 1], [0, 0, 0, 0, 0, 0]]),
]


def cyl_periodic_cases(ck: Check, n: int):
    """cylindrical grids with periodic z: one droplet per PERIODIC component that touches the symmetry axis (volume = sum
    of its cell volumes, z = unwrapped centre of mass), whatever else is in the image (off-axis rings / tubes, also ones
    that span the whole z axis); only when an ON-AXIS component spans the whole axis the notion is undefined"""
    from pde import CylindricalSymGrid, ScalarField
    from droplets.image_analysis import locate_droplets_in_mask

    rng = ck.rng
    creqs, cexpect = [], []
    # corpus of past findings, evaluated first on every run (known finding D21: the spanning heuristic)
    for name, dr, dz, z0, rows in CYL_CORPUS:
        m = np.array(rows, dtype=bool)
        ck.count("cyl_periodic.corpus")
        check_cyl_mask(ck, m.shape[0], m.shape[1], dr, dz, z0, m, creqs, cexpect, periodic=True)
    for i in range(n):
        nr, nz = rng.randint(2, 6), rng.randint(3, 9)
        dr, dz = rng.choice([1.0, 0.5]), rng.choice([1.0, 0.75])
        z0 = rng.choice([0.0, -2.0])
        kind = rng.choice(["noise", "blob+tube", "blob+tube", "blobs", "head+tail"])
        if kind == "head+tail":
            # one asymmetric on-axis component across the periodic boundary (a 'tadpole'): a thick heavy head next to the
            # boundary and a thin tail that reaches round more than half a period on the other side, one layer left empty
            nr, nz = rng.randint(6, 9), rng.randint(12, 16)
        m = np.zeros((nr, nz), dtype=bool)
        if kind == "head+tail":
            hl = rng.randint(3, 6)
            tl = nz - 1 - hl - rng.choice([0, 0, 1])
            m[:, 0:hl] = True
            for j in range(1, tl + 1):
                m[: rng.choice([1, 1, 2]), (nz - j) % nz] = True
            m = np.roll(m, rng.choice([0, 0, 1, -1, 2]), axis=1)
            if rng.random() < 0.5:
                m = m[:, ::-1].copy()
        elif kind == "noise":
            m = np.array([rng.random() < rng.choice([0.2, 0.4]) for _ in range(nr * nz)]).reshape(nr, nz)
        else:
            for _ in range(rng.randint(1, 2)):
                zc, ext, rad = rng.randrange(nz), rng.randint(0, max(0, (nz - 2) // 2 - 1)), rng.randint(1, max(1, nr - 2))
                for k in range(-ext, ext + 1):
                    m[:rad, (zc + k) % nz] = True  # on-axis blob, possibly across the periodic boundary
            if kind == "blob+tube" and nr >= 3:
                m[nr - 1, :] = True  # off-axis tube spanning the whole z axis
                m[nr - 2, :] = False
        ck.count("cyl_periodic." + kind)
        check_cyl_mask(ck, nr, nz, dr, dz, z0, m, creqs, cexpect, periodic=(i % 4 != 3))
    compare_cyl_model(ck, creqs, cexpect)


def compare_cyl_model(ck: Check, creqs, cexpect):
    """candidates of the cylindrical branch (before the overlap filter) vs Model/Cyl.lean"""
    if not creqs:
        return
    try:
        outs = run_driver(creqs)
    except RuntimeError as e:
        ck.mismatch("c02-cyl", f"driver unavailable: {e}", {})
        return
    for (case, cands, z0, dz, unit), out in zip(cexpect, outs):
        if not out.startswith("ok"):
            ck.mismatch("c02-cyl", f"model answered {out}", case)
            continue
        body = out[2:].strip()
        if body == "spanning":
            ck.mismatch("c02-cyl", "model signals a spanning on-axis cluster where the implementation returned candidates", case)
            continue
        items = [x for x in body.split(";") if x]
        if len(items) != len(cands):
            ck.mismatch("c02-cyl", f"implementation has {len(cands)} candidates {[(round(z, 4), round(v, 4)) for z, v in cands]}, model {items}", case)
            continue
        for it, (z, vol) in zip(items, cands):
            zq, w = it.split(":")
            mz = z0 + dz * float(Fraction(zq))
            if abs(mz - z) > 1e-9 * max(1.0, abs(z)) or not rel_close(vol, unit * int(w), 1e-12):
                ck.mismatch("c02-cyl", f"candidate (z={z}, volume={vol}) vs model (z={mz}, volume={unit * int(w)})", case)
                break


def check_cyl_mask(ck: Check, nr, nz, dr, dz, z0, m, creqs=None, cexpect=None, periodic=True):
    from pde import CylindricalSymGrid, ScalarField
    from droplets.emulsions import Emulsion
    from droplets.image_analysis import locate_droplets_in_mask

    grid = CylindricalSymGrid(nr * dr, [z0, z0 + nz * dz], [nr, nz], periodic_z=periodic)
    if creqs is not None:
        # correspondence: candidates before the overlap filter (periodic: tapped at remove_overlapping; else the result)
        rec = {}
        orig = Emulsion.remove_overlapping

        def tapped(self, *a, **k):
            rec.setdefault("cands", [(float(d.position[2]), float(d.volume)) for d in self])
            return orig(self, *a, **k)

        Emulsion.remove_overlapping = tapped
        try:
            em0 = locate_droplets_in_mask(ScalarField(grid, m, dtype=bool))
        except Exception:  # noqa: BLE001  (reported by the predicate part below)
            em0 = None
        finally:
            Emulsion.remove_overlapping = orig
        if em0 is not None:
            cands = rec.get("cands", [(float(d.position[2]), float(d.volume)) for d in em0])
            if True:
                creqs.append(f"c02 cyl {nr} {nz} {int(periodic)} " + " ".join(str(int(b)) for b in m.flat))
                cexpect.append(({"kind": "cyl-periodic", "shape": [nr, nz], "dr": dr, "dz": dz, "z0": z0, "periodic": periodic, "mask": m.astype(int).tolist()},
                                cands, z0, dz, math.pi * dr * dr * dz))
                ck.count("cyl_model_correspondence")
    if not periodic:
        return
    if True:
        comps = components(m, [False, True])
        onaxis = [(cells, lifts, w) for cells, lifts, w in comps if any(c[0] == 0 for c in cells)]
        case = {"kind": "cyl-periodic", "shape": [nr, nz], "dr": dr, "dz": dz, "z0": z0, "mask": m.astype(int).tolist()}
        ck.case(("cylp", nr, nz, dr, dz, z0, m.tobytes()), nontrivial=bool(onaxis))
        # independent prediction of the implementation's "spanning" heuristic: it fires when an on-axis component winds
        # around z, and also (known finding D21) when a NON-winding on-axis component is longer than one period when unwrapped
        winding = any(w for _, _, w in onaxis)
        long_ = any((max(c[1] + lifts[c][1] * nz for c in cells) - min(c[1] + lifts[c][1] * nz for c in cells) + 1) > nz
                    for cells, lifts, w in onaxis if not w)
        sig = {"gen": "cyl-periodic", "spanning_heuristic_expected": bool(winding or long_)}
        if winding:
            ck.count("cyl_periodic.on_axis_component_winds")
        if long_:
            ck.count("cyl_periodic.on_axis_component_longer_than_period")
        try:
            em = locate_droplets_in_mask(ScalarField(grid, m, dtype=bool))
        except Exception as e:  # noqa: BLE001
            ck.fail(f"cylindrical periodic mask raised {type(e).__name__}: {e}", {**sig, "check": "cyl_total"}, case)
            return
        if winding or long_:
            # is the result what the analysis WITHOUT periodic boundary conditions gives (the fall-back)?
            try:
                g2 = CylindricalSymGrid(nr * dr, [z0, z0 + nz * dz], [nr, nz], periodic_z=False)
                em2 = locate_droplets_in_mask(ScalarField(g2, m, dtype=bool))
                same = len(em) == len(em2) and all(
                    abs(a.position[2] - b.position[2]) <= 1e-12 * max(1.0, abs(b.position[2])) and rel_close(a.volume, b.volume, 1e-12) for a, b in zip(em, em2))
            except Exception:  # noqa: BLE001
                same = False
            sig["result_is_nonperiodic_fallback"] = bool(same)
        vol_r, vdz = grid.cell_volume_data
        cv = np.outer(vol_r, np.broadcast_to(vdz, (nz,)))
        L = nz * dz
        info = []
        for cells, lifts, w in onaxis:
            vol = float(sum(cv[c] for c in cells))
            zc = None if w else z0 + dz * (np.mean([c[1] + lifts[c][1] * nz for c in cells]) + 0.5)
            info.append((vol, zc))
        unused = list(range(len(info)))
        kept = []
        for d in em:
            hit = None
            for k in unused:
                vol, zc = info[k]
                dzz = 0.0 if zc is None else (d.position[2] - zc + L / 2) % L - L / 2
                if rel_close(d.volume, vol, 1e-9) and abs(dzz) < 1e-9 * L:
                    hit = k
                    break
            if hit is None:
                ck.fail(f"droplet z={d.position[2]:.4g} volume={d.volume:.6g} is not a periodic on-axis component (components (volume, z; z=None: winds): {[(round(v, 4), None if z is None else round(float(z), 4)) for v, z in info]})",
                        {**sig, "check": "cyl_component"}, case)
                break
            unused.remove(hit)
            kept.append(hit)
            if not (z0 - 1e-12 <= d.position[2] <= z0 + L + 1e-12) or abs(d.position[0]) + abs(d.position[1]) > 0:
                ck.fail(f"droplet position {d.position} not on the axis inside the box", {**sig, "check": "position_in_box"}, case)
        else:
            # returned droplets never overlap one another as equal-volume spheres under the periodic metric (along z: minimal image)
            for a_i in range(len(em)):
                for b_i in range(a_i + 1, len(em)):
                    da, db = em[a_i], em[b_i]
                    dzz = abs((da.position[2] - db.position[2] + L / 2) % L - L / 2)
                    if dzz - (da.radius + db.radius) < -1e-9 * L:
                        ck.fail(f"returned droplets at z={da.position[2]:.4g} (r={da.radius:.4g}) and z={db.position[2]:.4g} (r={db.radius:.4g}) overlap across the periodic "
                                f"z boundary: periodic distance {dzz:.4g}", {**sig, "check": "C02_no_overlap", "across_periodic_z": bool(dzz < abs(da.position[2] - db.position[2]) - 1e-12)}, case)
            # components left out: only if their sphere overlaps that of another on-axis component at least as large
            # (the greedy overlap filter removes a droplet because of one that is present AT THAT MOMENT - C10 - which
            # may itself be removed later)
            for k in ([] if winding else unused):
                vol, zc = info[k]
                r = sphere_radius(vol, 3)
                ok = False
                for j, (vol2, zc2) in enumerate(info):
                    if j == k:
                        continue
                    r2 = sphere_radius(vol2, 3)
                    dzz = abs((zc2 - zc + L / 2) % L - L / 2)
                    if min(dzz, abs(zc2 - zc)) < r + r2 + 1e-9 and r2 >= r - 1e-12:
                        ok = True
                if not ok:
                    ck.fail(f"on-axis periodic component (volume {vol:.5g}, z {zc:.4g}) is missing from the result {[str(d) for d in em]} although no other component's sphere overlaps it",
                            {**sig, "check": "cyl_component"}, case)


def replay(case: dict):
    from pde import CartesianGrid

    ck = Check("C02", "quick", 0)
    shape = tuple(case["shape"])
    if case.get("kind") == "cyl-periodic":
        check_cyl_mask(ck, shape[0], shape[1], case["dr"], case["dz"], case["z0"], np.array(case["mask"], dtype=bool))
        bad = [f["what"] for f in ck.failures]
        return not bad, "; ".join(bad[:3]) or "property holds on this input"
    if case.get("kind") == "exhaustive":
        n = int(np.prod(shape))
        m = np.array([(case["bits"] >> k) & 1 for k in range(n)], dtype=bool).reshape(shape)
    else:
        m = np.zeros(shape, dtype=bool)
        for c in case["cells"]:
            m[tuple(c)] = True
    bounds = case.get("bounds") or [[0, n] for n in shape]
    grid = CartesianGrid(bounds, list(shape), periodic=case["periodic"])
    reqs, expect = [], []
    check_mask(ck, grid, m, reqs, expect, case, {})
    compare_model(ck, reqs, expect)
    bad = [f["what"] for f in ck.failures] + [m_["what"] for m_ in ck.mismatches]
    return not bad, "; ".join(bad[:3]) or "property holds on this input"


def run(ck: Check):
    ck.rule = ("ALL binary images on small grids (quick: 1-D n<=8, 3x3, 2x4; thorough: 1-D n<=12, 4x4, 3x5, 2x2x3) x all periodicity masks, "
               "+ random 1-3-D images (noise, rings, U/comb shapes across periodic faces, stripes that wind, blobs; anisotropic spacing, offsets); "
               "non-trivial = distinct non-empty images")
    ck.extra_cov["exhaustive_part"] = "all binary images of the listed small shapes with every periodicity mask"
    ck.assumptions = ["scipy.ndimage.label/center_of_mass/sum contracts (labelling monitored against an independent BFS each case)",
                      "positions compared modulo the period with tolerance 1e-9 L (float centre of mass vs exact rational model)"]
    ck.lean = lean_stage("C02", extra_modules=["DropletsVerif.Props.C10"], leanchecker=not ck.quick)
    run_cases(ck, ck.quick, ck.budget(800, 12000))
    cyl_periodic_cases(ck, ck.budget(300, 5000))
