"""C17 — length scales are physical lengths: they scale with the grid, not the field.

Lean: Generated/Scales.lean (the closed-form lines of get_length_scale incl. the default smoothing
width) + Props/C17.lean.  Correspondence: the real intermediate values (structure factor and wave
numbers handed to the formula, the maximiser found by scipy, the default width, the droplet count)
are tapped and the generated formulas evaluated on them at Float must reproduce the returned length.
Predicates on the real code: covariance under grid stretching over four orders of magnitude,
invariance under field scaling and periodic translation, plane-wave accuracy of the peak method
for any spacing, droplet-counting formula."""
from __future__ import annotations

import itertools
import math

import numpy as np

from .common import Check, bits_to_float, lean_stage, rel_close, run_driver
from .c11 import fbits

LAMBDAS = [0.01, 0.39, 2.0, 10.0, 100.0]
# boxes measured in a unit so small that every length lies below numpy's ABSOLUTE tolerances (1e-8), in sequence, same shape
TINY_LAMBDAS = [1e-9, 2e-9, 3e-9]


def stretch(grid, lam):
    from pde import CartesianGrid

    return CartesianGrid([[b[0] * lam, b[1] * lam] for b in grid.axes_bounds], grid.shape, periodic=grid.periodic)


RING_CENTRE: dict = {}


def make_field(rng, kind=None):
    from pde import CartesianGrid, ScalarField
    from droplets.droplets import DiffuseDroplet
    from droplets.emulsions import Emulsion

    dim = rng.choice([1, 2, 2, 3])
    # cell counts with small AND with large prime factors (13, 17, 19, 29, 31, 37: nothing may depend on "FFT-friendly" sizes)
    shape = {1: [rng.choice([32, 37, 48, 58, 64])], 2: [rng.choice([16, 17, 24, 26, 32])] * 2, 3: [rng.choice([8, 12, 13])] * 3}[dim]
    if rng.random() < 0.3 and dim == 2:
        shape = [shape[0], shape[0] + rng.choice([8, 3])]
    dx = rng.choice([1.0, 0.5, 0.39])
    grid = CartesianGrid([[0, n * dx] for n in shape], shape, periodic=True)
    kind = kind or rng.choice(["noise", "waves", "droplets", "ring+blob"])
    if kind == "ring+blob" and dim == 1:
        kind = "droplets"
    n = int(np.prod(shape))
    if kind == "noise":
        data = np.array([rng.uniform(-1, 1) for _ in range(n)]).reshape(shape)
        # smooth a little so that the spectrum has structure
        for a in range(dim):
            data = data + np.roll(data, 1, axis=a) + np.roll(data, -1, axis=a)
    elif kind == "waves":
        idx = np.indices(shape)
        data = np.zeros(shape)
        for _ in range(rng.randint(1, 3)):
            m = [rng.randint(0, s // 5) for s in shape]
            if not any(m):
                m[0] = 2
            data += rng.uniform(0.2, 1) * np.cos(2 * np.pi * sum(m[a] * idx[a] / shape[a] for a in range(dim)) + rng.uniform(0, 6))
        data += rng.choice([0.0, 0.7])
    elif kind == "ring+blob":
        # an annulus with a small blob at its centre: two NON-winding components whose equal-volume spheres overlap,
        # so the overlap filter (periodic metric!) decides the count
        idx = np.indices(shape)
        c = [rng.uniform(0, s) for s in shape]
        ro = rng.uniform(0.28, 0.36) * min(shape)
        d2 = sum(((idx[a] + 0.5 - c[a] + shape[a] / 2) % shape[a] - shape[a] / 2) ** 2 for a in range(dim))
        data = (((d2 < ro**2) & (d2 > (ro - 2.2) ** 2)) | (d2 < rng.uniform(1.2, 2.2) ** 2)).astype(float)
        RING_CENTRE[data.tobytes()] = c
    else:
        k = rng.randint(1, 3)
        L = [n * dx for n in shape]
        drops = [DiffuseDroplet(np.array([L[a] * (j + 0.5) / k if a == 0 else L[a] / 2 for a in range(dim)]), min(L) / (2.5 * k + 2), dx) for j in range(k)]
        data = Emulsion(drops).get_phasefield(grid).data
    return grid, ScalarField(grid, data), kind


def length(field, method, **kw):
    from droplets.image_analysis import get_length_scale

    try:
        return float(get_length_scale(field, method=method, **kw))
    except Exception as e:  # noqa: BLE001
        return "err " + type(e).__name__


def tapped_length(ck, field, method, reqs, expect, case, **kw):
    """run get_length_scale with taps on its inputs to the closed-form lines"""
    import droplets.image_analysis as ia
    from scipy import optimize

    rec = {}
    o_sf, o_min, o_loc = ia.get_structure_factor, optimize.minimize_scalar, ia.locate_droplets

    def t_sf(*a, **k):
        r = o_sf(*a, **k)
        rec["sf"] = (np.array(r[0]), np.array(r[1]))
        return r

    def t_min(*a, **k):
        r = o_min(*a, **k)
        rec["x"] = float(r.x)
        return r

    def t_loc(*a, **k):
        r = o_loc(*a, **k)
        rec["count"] = len(r)
        return r

    ia.get_structure_factor, optimize.minimize_scalar, ia.locate_droplets = t_sf, t_min, t_loc
    try:
        val = length(field, method, **kw)
    finally:
        ia.get_structure_factor, optimize.minimize_scalar, ia.locate_droplets = o_sf, o_min, o_loc
    if isinstance(val, str) or not math.isfinite(val):
        return val
    if method == "structure_factor_mean" and "sf" in rec:
        k, s = rec["sf"]
        reqs.append(f"c17 mean {len(k)} " + " ".join(fbits(x) for x in k) + " " + " ".join(fbits(x) for x in s))
        expect.append((case, val, 1e-12))
    elif method == "structure_factor_maximum" and "x" in rec:
        reqs.append(f"c17 peak {fbits(rec['x'])}")
        expect.append((case, val, 1e-15))
    elif method == "droplet_detection" and "count" in rec and rec["count"] > 0:
        vol = float(np.prod([b[1] - b[0] for b in field.grid.axes_bounds]))
        reqs.append(f"c17 droplet {fbits(vol)} {rec['count']} {field.grid.dim}")
        expect.append((case, val, 1e-13))
    return val


# binary images whose droplet count depends on where the periodic boundary cuts them (known finding: components that wind
# around a periodic axis); 12 x 12, fully periodic
CORPUS = [
    ["101111000011", "001111100011", "111111001111", "011110011110", "001111111110", "000101111111",
     "101001000011", "100110110001", "000000111100", "110001111111", "100001111111", "100111110011"],
    # two squares that touch only at a corner (diagonal contact: two domains under face connectivity, wherever the periodic cut falls)
    ["000000000000", "011100000000", "011100000000", "011100000000", "000011100000", "000011100000",
     "000011100000", "000000000000", "000000000000", "000000000000", "000000000000", "000000000000"],
    # a one-cell-wide tilted filament (cells touch only diagonally) next to a compact blob
    ["000000000000", "010000000000", "001000000000", "000100000000", "000010000000", "000001000000",
     "000000000000", "000000001110", "000000001110", "000000001110", "000000000000", "000000000000"],
]


def run_cases(ck: Check, n: int):
    from pde import CartesianGrid, ScalarField
    from pde.tools.math import SmoothData1D
    import droplets.image_analysis as ia

    rng = ck.rng
    reqs, expect = [], []
    for i in range(-len(CORPUS), n):
        if i < 0:
            # corpus of past findings, evaluated first on every run
            rows = CORPUS[i]
            data0 = np.array([[float(ch) for ch in row] for row in rows])
            grid = CartesianGrid([[0, s] for s in data0.shape], list(data0.shape), periodic=True)
            field, kind = ScalarField(grid, data0), "corpus"
        else:
            grid, field, kind = make_field(rng, kind="ring+blob" if i % 4 == 3 else None)
        data = field.data
        dim = grid.dim
        case = {"shape": list(grid.shape), "dx": float(grid.discretization[0]), "kind": kind}
        ck.case((tuple(grid.shape), data.tobytes()))
        ck.count(f"kind.{kind}")
        Lmax = float(max(b[1] - b[0] for b in grid.axes_bounds))
        dk = 2 * np.pi / Lmax
        for method in ("structure_factor_mean", "structure_factor_maximum", "droplet_detection"):
            sig = {"method": method, "dim": dim}
            kw = {"threshold": "auto"} if method == "droplet_detection" else {}
            base = tapped_length(ck, field, method, reqs, expect, {**case, "method": method}, **kw)
            if isinstance(base, str):
                if method == "droplet_detection" and base == "err ZeroDivisionError":
                    ck.count("no_droplets_detected")
                    continue
                ck.fail(f"{method} raised {base}", {**sig, "check": "total"}, {**case, "method": method})
                continue
            if not math.isfinite(base):
                if method == "structure_factor_maximum" and kind == "waves":
                    ck.fail("peak method returned NaN for a superposition of plane waves", {**sig, "check": "peak_finite"}, {**case, "method": method})
                continue
            exact = method != "structure_factor_maximum"
            if method == "droplet_detection":
                # are the counted droplets simply the periodic components of the thresholded image?
                from .c02 import components

                mask = data > (data.min() + data.max()) / 2
                comps = components(mask, grid.periodic)
                illdef = any(w for _, _, w in comps)
                sig["winding_components"] = bool(illdef)
                if len(ia.locate_droplets(field, **kw)) != len(comps):
                    ck.count("droplet_detection.overlap_filter_decides_count")
                ck.count("droplet_detection.ill_defined_components" if illdef else "droplet_detection.clean_components")
            # stretching the grid
            for lam in LAMBDAS + TINY_LAMBDAS:
                v = length(ScalarField(stretch(grid, lam), data), method, **kw)
                if isinstance(v, str) or not math.isfinite(v):
                    ck.fail(f"{method}: grid stretched by {lam}: {v} (unstretched {base})", {**sig, "check": "covariant", "lambda": lam}, {**case, "method": method, "lambda": lam})
                    continue
                if exact:
                    ok = rel_close(v, lam * base, 1e-8)
                else:
                    ok = abs(2 * np.pi / v * lam - 2 * np.pi / base) <= 1.0 * dk
                if not ok:
                    ck.fail(f"{method}: grid stretched by {lam}: length {v} instead of {lam} * {base}", {**sig, "check": "covariant", "lambda": lam}, {**case, "method": method, "lambda": lam})
            # multiplying the field by a constant (positive for the droplet counter with the automatic threshold)
            for c in ([0.01, 3.0, 250.0, 1e-7, 1e9] if method == "droplet_detection" else [-2.0, 0.01, 250.0, 1e-7, -1e-9, 1e12]):
                v = length(ScalarField(grid, c * data), method, **kw)
                ok = (not isinstance(v, str)) and (rel_close(v, base, 1e-8) if exact else abs(2 * np.pi / v - 2 * np.pi / base) <= 1.0 * dk)
                if not ok:
                    ck.fail(f"{method}: field multiplied by {c}: length {v} instead of {base}", {**sig, "check": "field_scale"}, {**case, "method": method, "c": c})
            if method == "droplet_detection":
                # ... and under every threshold rule: exact binary scalings (2**k: every bin edge and class statistic scales exactly), down to
                # amplitudes far below numpy's absolute tolerances
                for rule in ("otsu", "mean", "extrema"):
                    b2 = length(field, method, threshold=rule)
                    if isinstance(b2, str) or not math.isfinite(b2):
                        continue
                    for c in (2.0**-30, 2.0**-40, 2.0**20):
                        v = length(ScalarField(grid, c * data), method, threshold=rule)
                        ck.count("droplet_detection.rule_x_binary_scaling")
                        if isinstance(v, str) or not rel_close(v, b2, 1e-8):
                            ck.fail(f"{method} with threshold='{rule}': field multiplied by 2**{int(round(math.log2(c)))}: length {v} instead of {b2}",
                                    {**sig, "check": "field_scale", "threshold": rule}, {**case, "method": method, "c": c, "threshold": rule})
            shifts = [tuple(rng.randrange(s) for s in grid.shape)]
            if method == "droplet_detection" and kind == "corpus":
                # corpus images: every whole-cell translation along each axis (the cut passes through every contact)
                shifts += [tuple(k if b == a else 0 for b in range(dim)) for a in range(dim) for k in range(1, grid.shape[a])]
            if method == "droplet_detection":
                # the count may only change when a component is cut differently by the periodic boundary: try cuts through every part
                shifts += [tuple(rng.randrange(s) for s in grid.shape) for _ in range(3)]
                shifts += [tuple((s // 2) * b for s, b in zip(grid.shape, bits)) for bits in itertools.product((0, 1), repeat=dim)][1:]
                c = RING_CENTRE.get(data.tobytes())
                if c is not None:
                    # put the common centre of the ring and of the blob right onto a periodic boundary (per axis, and on a corner)
                    onb = [int(round(-c[a])) % grid.shape[a] for a in range(dim)]
                    for a in range(dim):
                        for e in (-1, 0, 1):
                            shifts.append(tuple((onb[b] + e) % grid.shape[b] if b == a else 0 for b in range(dim)))
                    shifts.append(tuple(onb))
            for shift in shifts:
                v = length(ScalarField(grid, np.roll(data, shift, axis=tuple(range(dim)))), method, **kw)
                ok = (not isinstance(v, str)) and (rel_close(v, base, 1e-7) if exact else abs(2 * np.pi / v - 2 * np.pi / base) <= 1.0 * dk)
                if not ok:
                    ck.fail(f"{method}: field translated by {shift} cells: length {v} instead of {base}", {**sig, "check": "translate"}, {**case, "method": method, "shift": list(shift)})
                    break
            if method == "droplet_detection":
                em = ia.locate_droplets(field, **kw)
                want = (float(np.prod([b[1] - b[0] for b in grid.axes_bounds])) / len(em)) ** (1 / dim)
                if not rel_close(base, want, 1e-12):
                    ck.fail(f"droplet_detection returns {base}, (volume / count)^(1/d) = {want}", {**sig, "check": "droplet_length_formula"}, {**case, "method": method})
        # default smoothing width of the peak method (tap SmoothData1D as seen from the module)
        seen = {}
        orig = ia.SmoothData1D

        class Tap(SmoothData1D):
            def __init__(self, x, y, sigma=None, **k):
                seen.setdefault("sigma", sigma)
                super().__init__(x, y, sigma=sigma, **k)

        ia.SmoothData1D = Tap
        try:
            length(field, "structure_factor_maximum")
        finally:
            ia.SmoothData1D = orig
        if "sigma" in seen:
            reqs.append(f"c17 sigma {fbits(Lmax)} {fbits(grid.typical_discretization)}")
            expect.append(({**case, "what": "default smoothing"}, float(seen["sigma"]), 1e-14))
        if len(ck.samples) < 3:
            ck.sample(case)
    outs = run_driver(reqs)
    for (case, want, tol), req, out in zip(expect, reqs, outs):
        parts = out.split()
        mv = bits_to_float(parts[1]) if parts[0] == "ok" else None
        if mv is None or not rel_close(mv, want, tol):
            ck.mismatch("c17-formulas", f"{req.split()[1]}: impl {want!r} vs generated formula {mv!r}", case)


def mixed_periodicity(ck: Check, n: int):
    """droplet counting on grids where only SOME axes are periodic: translating the field along the periodic axes leaves the
    count (and the length) unchanged, also for droplets that are cut by the boundary of a periodic axis which FOLLOWS a
    non-periodic one, and for elongated droplets whose two pieces would not be merged by the overlap filter"""
    from pde import CartesianGrid, ScalarField

    rng = ck.rng
    for i in range(n):
        dim = rng.choice([2, 2, 3])
        per = [False] * (dim - 1) + [True] if i % 2 == 0 else [rng.random() < 0.5 for _ in range(dim - 1)] + [True]
        shape = [rng.choice([12, 16, 20]) for _ in range(dim)]
        dx = rng.choice([1.0, 0.5])
        grid = CartesianGrid([[0, s * dx] for s in shape], shape, periodic=per)
        idx = np.indices(shape)
        data = np.zeros(shape)
        # ellipsoids elongated along the last (periodic) axis, well inside along the non-periodic axes
        k = rng.randint(1, 2)
        for j in range(k):
            c = [shape[a] * (j + 0.5) / k if a == 0 else shape[a] / 2 for a in range(dim - 1)] + [rng.uniform(0, shape[-1])]
            semi = [rng.uniform(1.2, 1.8)] * (dim - 1) + [rng.uniform(4.0, min(6.0, shape[-1] / 2 - 1.5))]
            d2 = sum((((idx[a] + 0.5 - c[a] + shape[a] / 2) % shape[a] - shape[a] / 2) if per[a] else (idx[a] + 0.5 - c[a])) ** 2 / semi[a] ** 2 for a in range(dim))
            data = np.maximum(data, (d2 < 1).astype(float))
        field = ScalarField(grid, data)
        case = {"kind": "mixed-periodicity", "shape": shape, "periodic": per, "dx": dx}
        sig = {"method": "droplet_detection", "dim": dim, "winding_components": False}
        ck.case(("mixed", tuple(shape), tuple(per), data.tobytes()))
        ck.count("mixed_periodicity_fields")
        base = length(field, "droplet_detection", threshold=0.5)
        if isinstance(base, str):
            ck.fail(f"droplet_detection raised {base}", {**sig, "check": "total"}, case)
            continue
        for s in range(0, shape[-1], 2):
            shift = tuple(0 if a < dim - 1 else s for a in range(dim))
            v = length(ScalarField(grid, np.roll(data, shift, axis=tuple(range(dim)))), "droplet_detection", threshold=0.5)
            if isinstance(v, str) or not rel_close(v, base, 1e-9):
                ck.fail(f"droplet_detection: field translated by {shift} cells along the periodic axis: length {v} instead of {base}",
                        {**sig, "check": "translate"}, {**case, "shift": list(shift), "data": data.astype(int).tolist() if data.size <= 400 else None})
                break
        # the structure-factor methods on the same grid (the modulus of the transform does not see a translation along a periodic axis,
        # whatever the other axes are): a smooth random field, rolled along every periodic axis
        nrng = np.random.default_rng(rng.randrange(2**31))
        noise = nrng.uniform(0, 1, size=shape)
        paxes = [a for a in range(dim) if per[a]]
        for method in ("structure_factor_mean", "structure_factor_maximum"):
            b2 = length(ScalarField(grid, noise), method)
            for a in paxes:
                sh = rng.randrange(1, shape[a])
                v2 = length(ScalarField(grid, np.roll(noise, sh, axis=a)), method)
                ck.count("mixed_periodicity_structure_factor")
                if isinstance(b2, str) or isinstance(v2, str) or not (rel_close(v2, b2, 1e-9) or (v2 != v2 and b2 != b2)):
                    ck.fail(f"{method}: field on a grid with periodic={per} translated by {sh} cells along periodic axis {a}: length {v2} instead of {b2}",
                            {"method": method, "dim": dim, "check": "translate", "mixed_periodicity": True}, {**case, "shift_axis": a, "shift": sh})
                    break


def monitored_peak(ck, field, case, k_true):
    """the peak method on a plane wave with the hypotheses of Props/C17 `peak_plane_wave_within_reach` monitored on the real run:
    the smoother is the Gaussian kernel regression `nwSmooth` (SmoothData1D is dependency code), the raw samples at the peak level are the
    shell |k| = k_true and the prepended zero mode, and the optimiser returns a point that is not worse than the centre of its bracket"""
    import droplets.image_analysis as ia
    from scipy import optimize

    rec = {}
    o_cls, o_min = ia.SmoothData1D, optimize.minimize_scalar

    class Tap(o_cls):
        def __init__(self, x, y, sigma=None):
            super().__init__(x, y, sigma=sigma)
            rec["smoother"] = self

    def t_min(fun, *a, **k):
        r = o_min(fun, *a, **k)
        rec.setdefault("brackets", []).append(k.get("bracket"))
        rec["x"] = float(r.x)
        return r

    ia.SmoothData1D, optimize.minimize_scalar = Tap, t_min
    try:
        s = length(field, "structure_factor_maximum")
    finally:
        ia.SmoothData1D, optimize.minimize_scalar = o_cls, o_min
    sm = rec.get("smoother")
    if sm is None or "x" not in rec or isinstance(s, str):
        return s
    kk, ss, sig, x = np.asarray(sm.x, float), np.asarray(sm.y, float), float(sm.sigma), rec["x"]
    s0 = float(np.max(ss[1:]))
    # (a) the smoother is nwSmooth with the Gaussian kernel (independent evaluation, incl. the 'all weights vanish' branch)
    for q in (x, k_true, k_true + 0.5 * sig, k_true + 60 * sig, 0.5 * (kk[0] + k_true)):
        w = np.exp(-(0.5 * sig**-2) * (kk - q) ** 2)
        want = float(ss @ w / w.sum()) if w.sum() > 0 else 0.0
        got = float(sm(q))
        # (weights exp(-d^2 / 2 sigma^2) from the far tail, d / sigma ~ 30, amplify the rounding of d / sigma by ~ 2 d / sigma * |k| / sigma * 1e-16: two
        # float evaluations of the same formula differ by up to ~1e-9 relative there - observed 1.6e-9 in the thorough tier; 1e-7 is the tolerance)
        if abs(got - want) > 1e-7 * max(1e-300, abs(want)) and abs(got - want) > 1e-15:
            ck.mismatch("c17-smoother", f"SmoothData1D({q}) = {got}, Gaussian kernel regression gives {want}", case)
            break
    # (b) samples at the peak level: the shell of the plane wave, and the zero mode
    high = kk[ss >= s0 * (1 - 1e-9)]
    if not all(abs(v - k_true) <= 1e-9 * k_true or v == 0 for v in high):
        ck.mismatch("c17-peak-hypotheses", f"raw samples at the peak level {s0} lie at {sorted(set(high.tolist()))[:5]}, expected the shell {k_true} (and the zero mode)", case)
    # (c) the optimiser's answer is not worse than the centre of its bracket, and it is away from zero by more than the reach 38.6 sigma
    br = rec["brackets"][-1]
    if not (float(sm(x)) >= float(sm(br[1])) * (1 - 1e-12) and x >= 38.6 * sig):
        ck.mismatch("c17-peak-hypotheses", f"minimize_scalar returned x={x} with S(x)={float(sm(x))} < S(centre of the bracket {br[1]})={float(sm(br[1]))}", case)
    elif abs(x - k_true) >= 38.6 * sig:
        # conclusion of the theorem (the property's own, weaker bound of half a bin is evaluated by the caller)
        ck.mismatch("c17-peak-theorem", f"peak at x={x}: further than the kernel's reach 38.6 sigma = {38.6 * sig} from the true wave number {k_true}", case)
    ck.count("peak_hypotheses_monitored")
    return s


def plane_waves(ck: Check, quick: bool):
    """a plane wave fitting the box, >= 4 cells per period: finite, within half a Fourier bin, any spacing"""
    from pde import CartesianGrid, ScalarField

    rng = ck.rng
    spacings = [0.01, 0.39, 1.0, 10.0, 100.0] if quick else [0.001, 0.01, 0.1, 0.39, 1.0, 2.0, 10.0, 100.0, 1000.0]
    for dim in (1, 2, 3):
        for N in ([16, 29, 32] if dim < 3 else [8, 13]) if quick else ([16, 29, 32, 37, 64] if dim < 3 else [8, 12, 13, 16]):
            for m in range(1, N // 4 + 1):
                if quick and dim > 1 and m not in (1, 2, N // 4):
                    continue
                for dx in spacings:
                    L = N * dx
                    grid = CartesianGrid([[0, L]] * dim, [N] * dim, periodic=True)
                    ax = rng.randrange(dim)
                    x = grid.cell_coords[..., ax]
                    amp, off, ph = rng.uniform(0.05, 2), rng.choice([0.0, 0.3, -1.0]), rng.uniform(0, 6)
                    f = ScalarField(grid, off + amp * np.sin(2 * np.pi * m * x / L + ph))
                    k_true, dk = 2 * np.pi * m / L, 2 * np.pi / L
                    case = {"kind": "plane-wave", "dim": dim, "N": N, "m": m, "dx": dx, "axis": ax, "amplitude": amp, "offset": off, "phase": ph}
                    s = monitored_peak(ck, f, case, k_true)
                    ck.case(("pw", dim, N, m, dx))
                    ck.count("plane_waves")
                    if isinstance(s, str) or not math.isfinite(s) or abs(2 * np.pi / s - k_true) > 0.5 * dk:
                        ck.fail(f"plane wave (dim {dim}, {N} cells, mode {m}, spacing {dx}): peak method returns {s}; true length {L / m}",
                                {"method": "structure_factor_maximum", "check": "peak_plane_wave", "dim": dim}, case)
                    # Props/C16 plane_wave_support + Props/C17 mean_length_single_shell: the RAW spectrum of a plane wave is carried by the shell
                    # |k| = k_true, and the moment formula applied to it is exactly the wavelength.  (get_length_scale itself applies the
                    # formula to the SMOOTHED spectrum - default smoothing 'auto' -, for which neither holds nor is claimed by the property.)
                    if dx == spacings[0] or dim == 1:
                        from droplets.image_analysis import get_structure_factor

                        kk, ss = get_structure_factor(f, smoothing=None)
                        off_shell = float(np.max(np.where(np.abs(kk - k_true) > 1e-9 * k_true, ss, 0.0)))
                        lam = 2 * np.pi * float(np.sum(ss)) / float(np.sum(kk * ss))
                        ck.count("plane_wave_raw_spectrum")
                        if off_shell > 1e-20 + 1e-12 * float(np.max(ss)) or abs(lam - L / m) > 1e-9 * L / m:
                            ck.mismatch("c17-planewave-raw", f"plane wave (dim {dim}, {N} cells, mode {m}, spacing {dx}): raw spectrum off the shell up to {off_shell:.3g} "
                                        f"(peak {float(np.max(ss)):.3g}); moment formula on the raw spectrum {lam} vs wavelength {L / m}", case)


def plane_waves_anisotropic(ck: Check, quick: bool):
    """plane waves on boxes with UNEQUAL spacings and cell counts (ratios up to 8), along any axis, resolved by >= 4 cells per period ALONG THAT
    AXIS - also when the wavelength is shorter than two cells of a coarser axis (the property quantifies over grid spacings per axis)"""
    from pde import CartesianGrid, ScalarField

    rng = ck.rng
    boxes = [((64, 16), (0.5, 2.0)), ((16, 48), (3.0, 0.5)), ((8, 8, 32), (4.0, 4.0, 1.0)), ((24, 6), (0.01, 0.08)), ((12, 40), (250.0, 50.0))]
    if not quick:
        boxes += [((128, 16), (0.25, 2.0)), ((6, 36, 6), (6.0, 1.0, 5.0)), ((20, 60), (1.0, 0.3))]
    for shape, dxs in boxes:
        dim = len(shape)
        for ax in range(dim):
            N, dx = shape[ax], dxs[ax]
            L = N * dx
            ms = sorted({1, 2, max(1, N // 8), max(1, N // 5), N // 4}) if quick else range(1, N // 4 + 1)
            for m in ms:
                if m < 1 or N / m < 4:
                    continue
                grid = CartesianGrid([[0, n * d] for n, d in zip(shape, dxs)], list(shape), periodic=True)
                x = grid.cell_coords[..., ax]
                amp, off, ph = rng.uniform(0.05, 2), rng.choice([0.0, 0.3, -1.0]), rng.uniform(0, 6)
                f = ScalarField(grid, off + amp * np.sin(2 * np.pi * m * x / L + ph))
                k_true = 2 * np.pi * m / L
                dk = 2 * np.pi / max(n * d for n, d in zip(shape, dxs))  # the finest Fourier bin of the box
                case = {"kind": "plane-wave-anisotropic", "shape": list(shape), "spacing": list(dxs), "axis": ax, "m": m, "amplitude": amp, "offset": off, "phase": ph}
                s = length(f, "structure_factor_maximum")
                ck.case(("pwa", shape, dxs, ax, m))
                ck.count("plane_waves_anisotropic")
                if L / m < 2 * max(dxs):
                    ck.count("plane_waves_shorter_than_two_coarse_cells")
                if isinstance(s, str) or not math.isfinite(s) or abs(2 * np.pi / s - k_true) > 0.5 * dk:
                    ck.fail(f"plane wave along axis {ax} of a {shape} box with spacings {dxs}, mode {m}: peak method returns {s}; true length {L / m}",
                            {"method": "structure_factor_maximum", "check": "peak_plane_wave", "dim": dim, "anisotropic": True}, case)


def replay(case: dict):
    ck = Check("C17", "quick", 0)
    run_cases(ck, 10)
    plane_waves(ck, True)
    plane_waves_anisotropic(ck, True)
    bad = [f["what"] for f in ck.failures] + [m["what"] for m in ck.mismatches]
    return not bad, "; ".join(bad[:3]) or "property holds on re-run"


def run(ck: Check):
    ck.rule = ("random fields (smoothed noise, superposed plane waves, rendered droplets) on periodic Cartesian grids in 1-3-D x three methods x grid stretching "
               "{0.01, 0.39, 2, 10, 100} x field scaling x periodic shifts; plane waves with every mode resolved by >= 4 cells per period x spacings over 4-6 orders of "
               "magnitude x random amplitude/offset/phase/axis; non-trivial = every distinct (field, method) / plane-wave configuration")
    ck.assumptions = ["SmoothData1D and scipy.optimize.minimize_scalar are used as they are (covariance contract monitored through the stretching runs)",
                      "peak method: covariance is required within one Fourier bin of the box, plane waves within half a bin (as the property states)",
                      "droplet counting is compared under positive field scaling with threshold='auto'"]
    ck.extra_cov["gen_keys"] = ["mean_length", "peak_length", "default_sigma", "droplet_length"]
    ck.lean = lean_stage("C17", leanchecker=not ck.quick)
    try:
        run_cases(ck, ck.budget(12, 200))
        mixed_periodicity(ck, ck.budget(6, 80))
    except RuntimeError as e:
        ck.mismatch("c17-formulas", f"driver unavailable: {e}", {})
    plane_waves(ck, ck.quick)
    plane_waves_anisotropic(ck, ck.quick)
