"""C09 — analysis never aborts on valid input and returns finite droplets.

Lean: Model/Dispatch.lean + Props/C09.lean (documented errors, totality of the dispatch and of the
cylindrical branches, re-exported totality theorems of the other models).
Correspondence: outcome class (returns / which exception) of the real entry points vs. the model on
a fuzzed stream: fields (noise, constants, binary, smooth, rescaled, single cells, full boxes) x all
grid families x tiny to moderate shapes x every option combination; a malformed stream for the
documented errors; the cylindrical cluster selection on the labelled image.
Predicate: no exception escapes on valid input; every returned parameter is finite (an unset
interface width excepted); rendering and tracking likewise."""
from __future__ import annotations

import itertools
import math

import numpy as np

from .common import Check, lean_stage, run_driver

GRID_KIND = {"CartesianGrid": "cartesian", "UnitGrid": "cartesian", "PolarSymGrid": "sphericalSym", "SphericalSymGrid": "sphericalSym", "CylindricalSymGrid": "cylindricalSym"}


def make_grid(rng):
    from pde import CartesianGrid, CylindricalSymGrid, PolarSymGrid, SphericalSymGrid

    kind = rng.choice(["c1", "c2", "c2", "c3", "polar", "spherical", "cyl", "cylp"])
    if kind == "c1":
        return CartesianGrid([[0, rng.choice([1.0, 7.0, 20.0])]], [rng.choice([1, 2, 3, 8, 20])], periodic=rng.random() < 0.5)
    if kind == "c2":
        return CartesianGrid([[0, 6], [-1, 5]], [rng.choice([1, 2, 5, 10]), rng.choice([1, 3, 8])], periodic=[rng.random() < 0.5, rng.random() < 0.5])
    if kind == "c3":
        return CartesianGrid([[0, 4]] * 3, [rng.choice([1, 2, 4, 6]), rng.choice([2, 5]), rng.choice([1, 4])], periodic=[rng.random() < 0.5] * 3)
    if kind == "polar":
        return PolarSymGrid(rng.choice([1.0, 6.0]), rng.choice([1, 2, 5, 12]))
    if kind == "spherical":
        return SphericalSymGrid(rng.choice([1.0, 6.0]), rng.choice([1, 2, 5, 12]))
    return CylindricalSymGrid(rng.choice([2.0, 4.0]), [0, rng.choice([3.0, 8.0])], [rng.choice([1, 2, 4, 6]), rng.choice([1, 3, 8, 10])], periodic_z=(kind == "cylp"))


def make_field(rng, grid):
    from pde import ScalarField

    shape = grid.shape
    n = int(np.prod(shape))
    kind = rng.choice(["noise", "constant", "binary", "smooth", "rescaled", "single-cell", "full", "off-axis", "stripes"])
    if kind == "noise":
        data = np.array([rng.uniform(0, 1) for _ in range(n)])
    elif kind == "constant":
        data = np.full(n, rng.choice([0.0, 1.0, 0.5, -3.0]))
    elif kind == "binary":
        data = np.array([float(rng.random() < rng.choice([0.2, 0.5, 0.8])) for _ in range(n)])
    elif kind == "smooth":
        idx = np.indices(shape).reshape(len(shape), -1)
        data = 0.5 + 0.5 * np.tanh(2 - np.sqrt(sum((idx[a] - shape[a] / 2 + 0.5) ** 2 for a in range(len(shape)))))
    elif kind == "rescaled":
        data = 1e6 * np.array([rng.uniform(0, 1) for _ in range(n)]) - 3e5
    elif kind == "single-cell":
        data = np.zeros(n)
        data[rng.randrange(n)] = 1.0
    elif kind == "full":
        data = np.ones(n)
    elif kind == "off-axis":
        d2 = np.zeros(shape)
        sl = [slice(None)] * len(shape)
        sl[0] = slice(max(1, shape[0] // 2), None)
        d2[tuple(sl)] = 1.0
        data = d2.ravel()
    else:
        d2 = np.zeros(shape)
        sl = [slice(None)] * len(shape)
        sl[-1] = slice(0, None, 2)
        d2[tuple(sl)] = 1.0
        data = d2.ravel()
    return ScalarField(grid, np.asarray(data, float).reshape(shape)), kind


def finite_droplet(d) -> bool:
    for name in d.data.dtype.names:
        v = np.atleast_1d(d.data[name])
        if name == "interface_width":
            if not (np.all(np.isfinite(v)) or np.all(np.isnan(v))):
                return False
        elif not np.all(np.isfinite(v)):
            return False
    return True


SHARED_LSQ: dict = {"max_nfev": 400}  # (never reset: whatever an implementation writes into it is seen by the later calls)


def locate_stream(ck: Check, n: int, reqs, expect):
    from droplets.image_analysis import locate_droplets

    rng = ck.rng
    for _ in range(n):
        grid = make_grid(rng)
        field, kind = make_field(rng, grid)
        dim = grid.dim
        modes = rng.choice([0, 0, 0, 1, 2, 3])
        opts = dict(threshold=rng.choice([0.5, 0.5, "auto", "extrema", "mean", "otsu", -1.0, 2.0]), minimal_radius=rng.choice([0, 0, 0.7, -np.inf]),
                    modes=modes, interface_width=rng.choice([None, None, 0.0, 0.8]), refine=rng.random() < 0.3)
        if opts["refine"] and rng.random() < 0.5:
            opts["refine_args"] = rng.choice([{"vmin": None, "vmax": None}, {"adjust_values": True}, {"vmin": None, "vmax": None, "adjust_values": True}, {"tolerance": 1e-4},
                                              # solver settings kept by the caller in ONE dict and handed to every analysis of the run (fits with 3 .. 30 parameters):
                                              {"least_squares_params": SHARED_LSQ}, {"vmin": None, "vmax": None, "adjust_values": True, "least_squares_params": SHARED_LSQ}])
            if "least_squares_params" in opts["refine_args"]:
                ck.count("shared_solver_settings")
        gname = type(grid).__name__
        case = {"grid": repr(grid), "field": kind, "options": {k: repr(v) for k, v in opts.items()}, "data": field.data.tolist() if field.data.size <= 64 else None}
        sig = {"grid": gname, "field": kind, "refine": opts["refine"], "modes_positive": modes > 0}
        ck.case((repr(grid), field.data.tobytes(), repr(sorted(opts.items(), key=str))))
        ck.count(f"grid.{gname}")
        ck.count(f"field.{kind}")
        try:
            em = locate_droplets(field, **opts)
            got = "ok"
        except Exception as e:  # noqa: BLE001
            got = "err " + type(e).__name__
            em = None
        ck.count("outcome." + got.replace(" ", "_"))
        documented = modes > 0 and dim not in (2, 3)
        if documented:
            if got != "err ValueError":
                ck.fail(f"modes={modes} in {dim}-D must raise ValueError, got {got}", {**sig, "check": "locate_documented_errors"}, case)
        elif got != "ok":
            ck.fail(f"locate_droplets raised {got[4:]} on a valid request", {**sig, "check": "locate_total", "error": got[4:]}, case)
        elif any(not finite_droplet(d) for d in em):
            ck.fail(f"non-finite droplet parameters returned: {[str(d) for d in em][:2]}", {**sig, "check": "finite"}, case)
        reqs.append(f"c09 locate 1 {GRID_KIND[gname]} {dim} {modes}")
        expect.append((case, got if got != "ok" and documented else ("ok" if got == "ok" or not documented else got), got))
    # malformed stream: documented errors
    from pde import UnitGrid, VectorField
    for obj, want in ((VectorField(UnitGrid([4, 4])), "TypeError"), (np.zeros((4, 4)), "TypeError"), ("field", "TypeError")):
        ck.case(("malformed", type(obj).__name__))
        try:
            locate_droplets(obj)
            got = "ok"
        except Exception as e:  # noqa: BLE001
            got = type(e).__name__
        if got != want:
            ck.fail(f"locate_droplets({type(obj).__name__}) gives {got}, documented {want}", {"check": "locate_documented_errors"}, {"kind": "malformed", "type": type(obj).__name__})
        reqs.append("c09 locate 0 cartesian 2 0")
        expect.append(({"kind": "malformed"}, "err TypeError", "err " + got))


def cylinder_clusters(ck: Check, n: int, reqs, expect):
    """the cluster selection of the cylindrical branch on random labelled images"""
    from pde import CylindricalSymGrid, ScalarField
    from scipy import ndimage
    from droplets.image_analysis import locate_droplets_in_mask

    rng = ck.rng
    for _ in range(n):
        nr, nz = rng.choice([2, 4, 6]), rng.choice([3, 6, 9])
        grid = CylindricalSymGrid(float(nr), [0, float(nz)], [nr, nz], periodic_z=False)
        p = rng.choice([0.15, 0.4, 0.7])
        mask = np.array([rng.random() < p for _ in range(nr * nz)]).reshape(nr, nz)
        ck.case(("cyl-mask", nr, nz, mask.tobytes()), nontrivial=bool(mask.any()))
        labels, k = ndimage.label(mask)
        toks = []
        on_axis = 0
        for s in ndimage.find_objects(labels):
            a = s[0].start == 0
            on_axis += int(a)
            toks += [str(int(a)), "0"]
        case = {"kind": "cyl-mask", "mask": mask.astype(int).tolist()}
        try:
            em = locate_droplets_in_mask(ScalarField(grid, mask, dtype=bool))
            got = "ok"
        except Exception as e:  # noqa: BLE001
            got = "err " + type(e).__name__
            ck.fail(f"cylindrical mask raised {got[4:]}", {"grid": "CylindricalSymGrid", "check": "cyl_total", "error": got[4:]}, case)
            continue
        if len(em) != on_axis:
            ck.fail(f"{len(em)} droplets for {on_axis} clusters touching the axis", {"grid": "CylindricalSymGrid", "check": "cyl_on_axis"}, case)
        reqs.append(("c09 cylsingle " + " ".join(toks)).strip())
        expect.append((case, None, len(em)))


def render_and_track(ck: Check, n: int):
    from droplets import droplets as D
    from droplets.droplet_tracks import DropletTrackList
    from droplets.emulsions import Emulsion, EmulsionTimeCourse
    from .c03 import CLASSES, compatible, make_droplet, make_grid as make_grid3

    rng = ck.rng
    kinds = ["c1", "c2", "c3", "polar", "spherical", "cyl", "cylp"]
    for i in range(n):
        grid = make_grid3(rng, kinds[i % len(kinds)])
        cls = rng.choice([c for c in CLASSES if compatible(c, grid)])
        d = make_droplet(rng, cls, grid, on_cell_centre=rng.random() < 0.4)
        ck.case(("render", repr(grid), d.data.tobytes()))
        case = {"kind": "render", "grid": repr(grid), "droplet": str(d)}
        try:
            f = d.get_phase_field(grid, vmin=rng.choice([0, -1.0]), vmax=rng.choice([1, 2.5]))
            if not np.all(np.isfinite(f.data)):
                ck.fail("rendered field is not finite", {"check": "render_finite", "class": cls}, case)
        except Exception as e:  # noqa: BLE001
            ck.fail(f"rendering raised {type(e).__name__}: {e}", {"check": "render_total", "class": cls, "error": type(e).__name__}, case)
    # perturbed droplets with non-zero amplitudes centred EXACTLY on a cell centre (zero distance: the angles are
    # undefined there), every perturbed class on every compatible grid family; then locating a mirror-symmetric
    # cluster (centre of mass exactly on a cell centre) with modes > 0 and refinement
    from pde import CartesianGrid, ScalarField
    from droplets.image_analysis import locate_droplets

    for kind in kinds:
        for cls in ("PerturbedDroplet2D", "PerturbedDroplet3D", "PerturbedDroplet3DAxisSym"):
            grid = make_grid3(rng, kind)
            if not compatible(cls, grid):
                continue
            d = make_droplet(rng, cls, grid, on_cell_centre=True)
            d.amplitudes = [rng.choice([-1, 1]) * rng.uniform(0.05, 0.25) for _ in d.amplitudes]
            ck.case(("render-centred", repr(grid), d.data.tobytes()))
            ck.count("render_centred_perturbed." + cls)
            case = {"kind": "render-centred", "grid": repr(grid), "droplet": str(d)}
            try:
                f = d.get_phase_field(grid)
                if not np.all(np.isfinite(f.data)):
                    ck.fail("rendered field is not finite", {"check": "render_finite", "class": cls}, case)
            except Exception as e:  # noqa: BLE001
                ck.fail(f"rendering raised {type(e).__name__}: {e}", {"check": "render_total", "class": cls, "error": type(e).__name__}, case)
    # sharp droplets with support points lying EXACTLY on their surface (centre on a cell centre, radius a whole number of
    # cells; 3-4-5 offsets): the rendered value there is 0 or 1, never undefined
    from pde import UnitGrid
    from droplets.emulsions import Emulsion as _Em

    for gridk, centre, radius in ((UnitGrid([6, 6]), [2.5, 2.5], 2.0), (UnitGrid([8]), [3.5], 2.0), (UnitGrid([12, 12]), [5.5, 5.5], 5.0),
                                  (UnitGrid([7, 7, 7], periodic=True), [3.5, 3.5, 3.5], 3.0), (make_grid3(rng, "spherical"), [0.0, 0.0, 0.0], None),
                                  (make_grid3(rng, "cyl"), None, None)):
        gname = type(gridk).__name__
        if gname == "SphericalSymGrid":
            radius = float(gridk.axes_coords[0][2])
        if gname == "CylindricalSymGrid":
            zc = float(gridk.axes_coords[1][3])
            centre, radius = [0.0, 0.0, zc], float(gridk.axes_coords[1][5] - gridk.axes_coords[1][3])
        for cls in (D.SphericalDroplet, D.DiffuseDroplet):
            d = cls(np.array(centre, float), radius) if cls is D.SphericalDroplet else cls(np.array(centre, float), radius, 0.0)
            ck.case(("render-knife-edge", gname, cls.__name__, tuple(centre), radius))
            ck.count("render_surface_through_support_points")
            case = {"kind": "render-knife-edge", "grid": repr(gridk), "droplet": str(d)}
            try:
                for f in (d.get_phase_field(gridk), _Em([d]).get_phasefield(gridk)):
                    if not np.all(np.isfinite(f.data)):
                        ck.fail("rendered field of a sharp droplet is not finite where a support point lies on its surface", {"check": "render_finite", "class": cls.__name__}, case)
                        break
            except Exception as e:  # noqa: BLE001
                ck.fail(f"rendering raised {type(e).__name__}: {e}", {"check": "render_total", "class": cls.__name__, "error": type(e).__name__}, case)
    for dim, n in ((2, 9), (3, 7), (3, 6)):
        grid = CartesianGrid([[0, n * 0.8]] * dim, [n] * dim, periodic=[rng.random() < 0.5 for _ in range(dim)])
        c = np.array([grid.axes_coords[a][n // 2] for a in range(dim)]) if n % 2 else np.array([grid.axes_bounds[a][0] + (n // 2) * 0.8 for a in range(dim)])
        from droplets.droplets import DiffuseDroplet
        field = DiffuseDroplet(c, 0.3 * n * 0.8, 0.8).get_phase_field(grid)
        for modes in (1, 2, 4):
            ck.case(("locate-symmetric", dim, n, modes, tuple(grid.periodic)))
            ck.count("locate_symmetric_cluster")
            case = {"kind": "locate-symmetric", "grid": repr(grid), "centre": c.tolist(), "modes": modes}
            try:
                em = locate_droplets(field, modes=modes, refine=True)
                if any(not finite_droplet(x) for x in em):
                    ck.fail("non-finite droplet parameters returned", {"check": "finite", "grid": "CartesianGrid", "modes_positive": True, "refine": True}, case)
            except Exception as e:  # noqa: BLE001
                ck.fail(f"locate_droplets(modes={modes}, refine=True) raised {type(e).__name__}: {e} on a mirror-symmetric cluster",
                        {"check": "locate_total", "grid": "CartesianGrid", "modes_positive": True, "refine": True, "error": type(e).__name__}, case)
    # tracking arbitrary time courses (incl. empty frames, both methods)
    for _ in range(n):
        dim = rng.choice([1, 2, 3])
        nfr = rng.randint(0, 6)
        frames = [Emulsion([D.SphericalDroplet(np.array([rng.uniform(0, 8) for _ in range(dim)]), rng.uniform(0.1, 1.5)) for _ in range(rng.choice([0, 0, 1, 2, 4]))]) for _ in range(nfr)]
        times = [0.5 * k for k in range(nfr)]
        etc = EmulsionTimeCourse(frames, times)
        for method, kw in (("overlap", {}), ("distance", {}), ("distance", {"max_dist": rng.choice([0.0, 0.5, 3.0])})):
            ck.case(("track", dim, method, repr(kw), tuple(tuple(d.data.tobytes() for d in e) for e in frames)))
            try:
                tl = DropletTrackList.from_emulsion_time_course(etc, method=method, **kw)
                if any(not finite_droplet(d) for tr in tl for d in tr):
                    ck.fail("tracking returned non-finite droplets", {"check": "finite", "method": method}, {"kind": "track"})
            except Exception as e:  # noqa: BLE001
                ck.fail(f"tracking ({method}, {kw}) raised {type(e).__name__}: {e}", {"check": "track_total", "method": method, "error": type(e).__name__},
                        {"kind": "track", "dim": dim, "frames": [len(e) for e in frames], "method": method, **{k: float(v) for k, v in kw.items()}})


def tracker_stream(ck: Check, n: int):
    """locating droplets frame after frame through the public tracker (the same analysis with the same options, called repeatedly on one
    object): every documented option combination on every geometry, several frames, with and without droplets"""
    from pde import CartesianGrid, CylindricalSymGrid, ScalarField, UnitGrid
    from droplets import droplets as D
    from droplets.emulsions import Emulsion
    from droplets.trackers import DropletTracker

    rng = ck.rng
    for i in range(n):
        kind = ["c3", "cyl", "c2", "c3p", "cylp", "c2p"][i % 6]
        if kind.startswith("c3"):
            grid = UnitGrid([10, 10, 10], periodic=kind.endswith("p"))
            centre = lambda: np.array([5.0, 5.0, 5.0]) + np.array([rng.uniform(-0.7, 0.7) for _ in range(3)])  # noqa: E731
        elif kind.startswith("cyl"):
            grid = CylindricalSymGrid(6, [0, 12], [6, 12], periodic_z=kind.endswith("p"))
            centre = lambda: np.array([0.0, 0.0, 6.0 + rng.uniform(-0.7, 0.7)])  # noqa: E731
        else:
            grid = CartesianGrid([[0, 14], [0, 14]], [14, 14], periodic=kind.endswith("p"))
            centre = lambda: np.array([7.0, 7.0]) + np.array([rng.uniform(-0.7, 0.7) for _ in range(2)])  # noqa: E731
        modes = rng.choice([0, 2, 3]) if grid.dim > 1 else 0
        settings = dict(refine=(i % 3 != 2), perturbation_modes=modes, threshold=rng.choice([0.5, "auto"]), minimal_radius=rng.choice([0, 1.0]))
        frames = []
        for f in range(3):
            frames.append(ScalarField(grid, 0.0) if (f == 1 and i % 4 == 3) else D.DiffuseDroplet(centre(), rng.uniform(2.5, 3.2), 1.0).get_phase_field(grid))
        case = {"kind": "tracker", "grid": repr(grid), "settings": {k: repr(v) for k, v in settings.items()}}
        ck.case(("tracker", kind, repr(settings), tuple(fr.data.tobytes() for fr in frames)))
        ck.count("tracker_runs")
        tr = DropletTracker(1, **settings)
        for f, fr in enumerate(frames):
            try:
                tr.handle(fr, float(f))
            except Exception as e:  # noqa: BLE001
                ck.fail(f"DropletTracker({settings}).handle raised {type(e).__name__}: {e} in frame {f} on {type(grid).__name__}",
                        {"check": "locate_total", "grid": type(grid).__name__, "entry": "DropletTracker.handle", "frame": f, "error": type(e).__name__}, case)
                break
        else:
            if any(not finite_droplet(d) for em in tr.data.emulsions for d in em):
                ck.fail("the tracker recorded non-finite droplet parameters", {"check": "finite", "entry": "DropletTracker.handle"}, case)


def run_cases(ck: Check, n_locate: int, n_cyl: int, n_render: int):
    reqs, expect = [], []
    tracker_stream(ck, max(6, n_render // 8))
    locate_stream(ck, n_locate, reqs, expect)
    cylinder_clusters(ck, n_cyl, reqs, expect)
    render_and_track(ck, n_render)
    outs = run_driver(reqs)
    for (case, want, got), req, out in zip(expect, reqs, outs):
        if req.startswith("c09 locate"):
            if out.strip() != want:
                ck.mismatch("c09-dispatch", f"implementation outcome '{got}' (documented '{want}'), model '{out}'", case)
        else:
            m = len(out.split()) - 1 if out.startswith("ok") else None
            if m != got:
                ck.mismatch("c09-dispatch", f"cylindrical selection: implementation {got} droplets, model {out}", case)
    ck.sample({"example_request": reqs[0], "model": outs[0]})


def replay(case: dict):
    ck = Check("C09", "quick", 0)
    run_cases(ck, 150, 60, 40)
    bad = [f["what"] for f in ck.failures] + [m["what"] for m in ck.mismatches]
    return not bad, "; ".join(bad[:3]) or "property holds on re-run"


def run(ck: Check):
    ck.rule = ("fuzzed locate_droplets calls: fields {noise, constant, binary, smooth, rescaled 1e6, single cell, full box, off-axis block, stripes} x grids of every family "
               "from 1 cell to moderate size x thresholds {numbers incl. outside the data range, auto, extrema, mean, otsu} x minimal radius {0, 0.7, -inf} x modes 0-3 x "
               "width {None, 0, 0.8} x refine (with fitted/automatic levels); malformed inputs; random cylindrical masks; rendering of all classes incl. centres on cell "
               "centres; tracking of random time courses with empty frames, both methods; non-trivial = every distinct call")
    ck.assumptions = ["exceptions raised inside scipy/numba for reasons other than the modelled preconditions are observed (and reported), not excluded by proof",
                      "periodic cylindrical grids included (D12 repaired)"]
    ck.lean = lean_stage("C09", leanchecker=not ck.quick)
    try:
        run_cases(ck, ck.budget(350, 6000), ck.budget(150, 3000), ck.budget(60, 1000))
    except RuntimeError as e:
        ck.mismatch("c09-dispatch", f"driver unavailable: {e}", {})
