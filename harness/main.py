"""Entry point: ./check Cxx [--tier quick|thorough] [--replay path]"""
from __future__ import annotations

import argparse
import importlib
import json
import os
import sys
import traceback

from .common import Check


def main() -> int:
    ap = argparse.ArgumentParser()
    ap.add_argument("pid")
    ap.add_argument("--tier", default=os.environ.get("VERIF_TIER", "quick"), choices=["quick", "thorough"])
    ap.add_argument("--replay", default=None)
    a = ap.parse_args()
    try:
        seed = int(os.environ.get("VERIF_SEED", "0"))
    except ValueError:
        seed = 0
    import logging
    import warnings

    warnings.filterwarnings("ignore")
    logging.disable(logging.WARNING)
    mod = importlib.import_module(f"harness.{a.pid.lower()}")
    if a.replay:
        case = json.load(open(a.replay))
        if case.get("kind") != "failing-input" or not hasattr(mod, "replay"):
            print(json.dumps(case, indent=1)[:4000])
            print("replay: this file names a broken obligation (no concrete input); re-run the check to re-evaluate it")
            return 0
        ok, msg = mod.replay(case["case"])
        print(("PASS " if ok else "FAIL ") + msg)
        if not ok:
            print(f"VIOLATION property={a.pid} replay={a.replay}")
        return 0 if ok else 1
    ck = Check(a.pid, a.tier, seed, level=getattr(mod, "LEVEL", "proof"))
    try:
        mod.run(ck)
    except Exception as e:  # noqa: BLE001
        tb = traceback.format_exc()
        traceback.print_exc()
        if ck.lean is None:
            # nothing of the implementation was exercised yet: the machinery itself is broken
            print(f"INFRASTRUCTURE-ERROR property={a.pid}", file=sys.stderr)
            return 2
        # The Lean stage ran and the streams were being driven against /repo: an exception here means that the
        # implementation (or a value it returned) no longer fits the correspondence - on the unchanged tree this does
        # not happen.  It is reported as a diverging correspondence (with whatever concrete failing inputs were found
        # before), never silently as an infrastructure problem.
        ck.mismatch("harness", f"the check could not be completed: {type(e).__name__}: {str(e)[:300]}", {"traceback": tb[-3000:]})
    return ck.finish()


if __name__ == "__main__":
    sys.exit(main())
