"""Entry point: ./check Cxx [--tier quick|thorough] [--replay path]"""
from __future__ import annotations

import argparse
import importlib
import json
import os
import sys
import traceback

from .common import Check


IA, DR, EM, TR, TK, SP = "droplets.image_analysis", "droplets.droplets", "droplets.emulsions", "droplets.droplet_tracks", "droplets.trackers", "droplets.tools.spherical"
# the repository functions each hand-written model mirrors (fingerprints of their current source go into the evidence)
MODELLED = {
    "C01": [f"{IA}._locate_droplets_in_mask_cartesian", f"{IA}._locate_droplets_in_mask_spherical", f"{IA}._locate_droplets_in_mask_cylindrical_single", f"{IA}._locate_droplets_in_mask_cylindrical", f"{IA}.locate_droplets", f"{EM}.Emulsion.get_phasefield", f"{EM}.Emulsion.remove_overlapping", f"{EM}.Emulsion.remove_small", f"{SP}.polar_coordinates", f"{SP}.radius_from_volume"],
    "C02": [f"{IA}._locate_droplets_in_mask_cartesian", f"{IA}._locate_droplets_in_mask_cylindrical_single", f"{IA}._locate_droplets_in_mask_cylindrical", f"{IA}.locate_droplets", f"{EM}.Emulsion.remove_overlapping", f"{EM}.Emulsion.remove_small"],
    "C03": [f"{SP}.polar_coordinates", f"{DR}.SphericalDroplet._get_phase_field", f"{DR}.DiffuseDroplet._get_phase_field", f"{DR}.PerturbedDropletBase._get_phase_field", f"{DR}.SphericalDroplet.get_phase_field", f"{EM}.Emulsion.get_phasefield"],
    "C04": [f"{IA}.refine_droplet", f"{DR}.SphericalDroplet.data_bounds", f"{DR}.DiffuseDroplet.data_bounds", f"{DR}.PerturbedDropletBase.data_bounds"],
    "C05": [f"{IA}.refine_droplet", f"{IA}.locate_droplets"],
    "C06": [f"{TR}.DropletTrackList.from_emulsion_time_course", f"{TR}.DropletTrack.append"],
    "C07": [f"{TR}.DropletTrackList.from_emulsion_time_course", f"{DR}.SphericalDroplet.overlaps"],
    "C08": [f"{EM}.Emulsion._write_hdf_dataset", f"{EM}.Emulsion._from_hdf_dataset", f"{EM}.EmulsionTimeCourse.to_file", f"{EM}.EmulsionTimeCourse.from_file", f"{TR}.DropletTrack._write_hdf_dataset", f"{TR}.DropletTrack._from_hdf_dataset", f"{TR}.DropletTrackList.to_file", f"{TR}.DropletTrackList.from_file", f"{DR}.droplet_from_data"],
    "C09": [f"{IA}.locate_droplets", f"{IA}.locate_droplets_in_mask", f"{IA}._locate_droplets_in_mask_cylindrical_single", f"{IA}._locate_droplets_in_mask_cylindrical"],
    "C10": [f"{EM}.Emulsion.remove_overlapping", f"{EM}.Emulsion.get_pairwise_distances", f"{EM}.Emulsion.get_neighbor_distances", f"{DR}.SphericalDroplet.overlaps"],
    "C14": [f"{TK}.DropletTracker.handle", f"{TK}.LengthScaleTracker.handle", f"{EM}.EmulsionTimeCourse.from_storage", f"{EM}.EmulsionTimeCourse.append"],
    "C15": [f"{IA}.refine_droplets", f"{EM}.EmulsionTimeCourse.from_storage"],
    "C16": [f"{IA}.get_structure_factor"],
    "C17": [f"{IA}.get_length_scale"],
    "C18": [f"{IA}.locate_droplets", f"{IA}.threshold_otsu", f"{EM}.Emulsion.remove_small"],
    "C19": [f"{IA}.locate_droplets", f"{IA}.refine_droplet", f"{DR}.SphericalDroplet.from_droplet"],
    "C20": [f"{EM}.Emulsion", f"{EM}.EmulsionTimeCourse", f"{TR}.DropletTrack"],
}


def main() -> int:
    ap = argparse.ArgumentParser()
    ap.add_argument("pid")
    ap.add_argument("--tier", default=os.environ.get("VERIF_TIER", "quick"), choices=["quick", "thorough"])
    ap.add_argument("--replay", default=None)
    a = ap.parse_args()
    try:
        seed = int(os.environ.get("VERIF_SEED", "0"))
    except ValueError:
        seed = 0
    import logging
    import warnings

    warnings.filterwarnings("ignore")
    logging.disable(logging.WARNING)
    mod = importlib.import_module(f"harness.{a.pid.lower()}")
    if a.replay:
        case = json.load(open(a.replay))
        if case.get("kind") != "failing-input" or not hasattr(mod, "replay"):
            print(json.dumps(case, indent=1)[:4000])
            print("replay: this file names a broken obligation (no concrete input); re-run the check to re-evaluate it")
            return 0
        ok, msg = mod.replay(case["case"])
        print(("PASS " if ok else "FAIL ") + msg)
        if not ok:
            print(f"VIOLATION property={a.pid} replay={a.replay}")
        return 0 if ok else 1
    ck = Check(a.pid, a.tier, seed, level=getattr(mod, "LEVEL", "proof"))
    ck.modelled = MODELLED.get(a.pid, [])
    # The hand-written models were validated against a particular text of the functions they mirror (harness/model_baseline.json,
    # written by tools/update_baseline.py).  When that text has changed, the correspondence has to be re-established: the generated
    # streams of the quick tier are deepened (nothing else changes - a changed source is not a violation).
    try:
        from .common import VERIF, source_fingerprints

        base = json.load(open(VERIF / "harness" / "model_baseline.json")).get(a.pid, {})
        now = source_fingerprints(ck.modelled)
        ck.changed_sources = sorted(k for k in now if base.get(k) != now[k])
    except Exception:  # noqa: BLE001
        ck.changed_sources = []
    if ck.changed_sources:
        ck.deep = True
        print(f"note: the source of {', '.join(ck.changed_sources)} differs from the text the model was validated against; generated streams deepened", file=sys.stderr)
    try:
        mod.run(ck)
    except Exception as e:  # noqa: BLE001
        tb = traceback.format_exc()
        traceback.print_exc()
        if ck.lean is None:
            # nothing of the implementation was exercised yet: the machinery itself is broken
            print(f"INFRASTRUCTURE-ERROR property={a.pid}", file=sys.stderr)
            return 2
        # The Lean stage ran and the streams were being driven against /repo: an exception here means that the
        # implementation (or a value it returned) no longer fits the correspondence - on the unchanged tree this does
        # not happen.  It is reported as a diverging correspondence (with whatever concrete failing inputs were found
        # before), never silently as an infrastructure problem.
        ck.mismatch("harness", f"the check could not be completed: {type(e).__name__}: {str(e)[:300]}", {"traceback": tb[-3000:]})
    return ck.finish()


if __name__ == "__main__":
    sys.exit(main())
