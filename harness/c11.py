"""C11 — merging droplets conserves volume and centre of mass.

Lean: Props/C11.lean over merge_copy/merge_inplace/merge_diffuse_* regenerated from the current
`_make_merge_data.merge_data` closures (statement order + aliasing preserved by the translator).
Correspondence: real `d1.merge(d2, inplace=False/True)`, `Class._merge_data` called directly and
through a numba.njit wrapper vs. the generated definitions run at Float in the driver.
Predicate on the implementation: volume additivity, volume-weighted centre, mean width,
commutativity, path agreement (bitwise), operand immutability, merge trees."""
from __future__ import annotations

import math
import struct

import numpy as np

from .common import Check, bits_to_float, lean_stage, rel_close, run_driver

GEN_KEYS = ["merge_copy", "merge_inplace", "merge_diffuse_copy", "merge_diffuse_inplace",
            "volume_from_radius_nd", "radius_from_volume_nd"]
RTOL = 1e-12


def fbits(x: float) -> str:
    return str(struct.unpack("<Q", struct.pack("<d", float(x)))[0])


_jit_cache: dict = {}


def jit_merge(cls):
    import numba

    if cls not in _jit_cache:
        md = cls._merge_data

        @numba.njit
        def f(a, b, o):
            md(a, b, o)

        _jit_cache[cls] = f
    return _jit_cache[cls]


def vol(d: int, r: float) -> float:
    return {1: 2 * r, 2: math.pi * r * r, 3: 4 * math.pi / 3 * r**3}[d]


def gen_pair(ck: Check, diffuse: bool):
    from droplets.droplets import DiffuseDroplet, SphericalDroplet

    rng = ck.rng
    d = rng.choice([1, 2, 3])
    mode = rng.random()
    if mode < 0.15:
        r1, r2 = 10 ** rng.uniform(-3, 3), 0.0  # zero-radius operand
    elif mode < 0.3:
        r1 = 10 ** rng.uniform(-10, 10)
        r2 = r1 * 10 ** rng.uniform(-3, 3)
    elif mode < 0.42:
        # nearly (not exactly) equal radii, down to a few ulp apart - a nearly monodisperse emulsion - and exactly equal ones
        r1 = 10 ** rng.uniform(-3, 3)
        r2 = r1 * (1 + rng.choice([0.0, 1e-15, 3e-12, 9e-7, -4e-7, 1e-5, -2e-9]))
        ck.count("nearly_equal_radii")
    else:
        r1, r2 = 10 ** rng.uniform(-2, 2), 10 ** rng.uniform(-2, 2)
    if rng.random() < 0.5:
        r1, r2 = r2, r1
    p1 = np.array([rng.uniform(-100, 100) for _ in range(d)])
    p2 = np.array([rng.uniform(-100, 100) for _ in range(d)])
    place = rng.random()
    if place < 0.15:
        # far from the origin relative to the separation (|p1 - p2| / |p| ~ 1e-6: 'close' for numpy's relative tolerance, yet distinct centres)
        base = np.array([rng.choice([-1, 1]) * rng.uniform(1e6, 3e6) for _ in range(d)])
        p1, p2 = base + p1 / 20, base + p2 / 20
        r1, r2 = rng.uniform(0.5, 3), rng.uniform(0.5, 3)
        ck.count("far_from_origin")
    elif place < 0.3:
        # a small unit of length (nanometres given in metres): every coordinate difference is below numpy's absolute tolerance 1e-8
        unit = rng.choice([1e-9, 1e-10])
        p1, p2, r1, r2 = p1 * unit, p2 * unit, rng.uniform(0.5, 30) * unit, rng.uniform(0.5, 30) * unit
        ck.count("small_unit_of_length")
    elif place < 0.4:
        # one shared coordinate (droplets on a common axis), the others different
        k = rng.randrange(d)
        p2[k] = p1[k]
        ck.count("shared_coordinate")
    if diffuse:
        # (a width of exactly 0 - a sharp interface - is valid and occurs in every run, also on one side only)
        w1, w2 = rng.choice([0.0, rng.uniform(0, 5), rng.uniform(0, 5)]), rng.choice([0.0, rng.uniform(0, 5), rng.uniform(0, 5), rng.uniform(0, 5)])
        return d, DiffuseDroplet(p1, r1, w1), DiffuseDroplet(p2, r2, w2)
    return d, SphericalDroplet(p1, r1), SphericalDroplet(p2, r2)


def raw(d):
    return d.data.tobytes()


def one_case(ck: Check, reqs: list, expect: list, diffuse: bool):
    d, a, b = gen_pair(ck, diffuse)
    cls = type(a)
    a0, b0 = raw(a), raw(b)
    sig = {"dim": d, "class": cls.__name__}
    case = {"dim": d, "class": cls.__name__, "a": a.data.tolist(), "b": b.data.tolist()}
    ck.case(("merge", cls.__name__, d, a0, b0))
    ck.count(f"class.{cls.__name__}.dim{d}")
    if a.radius == 0 or b.radius == 0:
        ck.count("zero_radius_operand")
    # --- the real paths
    c_copy = a.merge(b, inplace=False)
    if raw(a) != a0 or raw(b) != b0:
        ck.fail("merge(inplace=False) modified an operand", {**sig, "check": "operands_unchanged"}, case)
    out_direct = np.record(np.zeros_like(a.data))
    cls._merge_data(a.data, b.data, out=out_direct)
    out_jit = np.record(np.zeros_like(a.data))
    jit_merge(cls)(a.data, b.data, out_jit)
    a2 = a.copy()
    c_in = a2.merge(b, inplace=True)
    if c_in is not a2:
        ck.fail("merge(inplace=True) did not return self", {**sig, "check": "inplace_returns_self"}, case)
    if raw(b) != b0:
        ck.fail("merge(inplace=True) modified the other operand", {**sig, "check": "operands_unchanged"}, case)
    # the three interpreted paths run the same Python statements: bit-identical; the numba-compiled
    # path may differ by rounding of LLVM's pow/fma (observed: 1 ulp), compared to 4 ulp
    paths = {"copy": raw(c_copy), "direct": out_direct.tobytes(), "inplace": raw(a2)}
    if len(set(paths.values())) != 1:
        ck.fail(f"code paths disagree: { {k: np.frombuffer(v).tolist() for k, v in paths.items()} }",
                {**sig, "check": "paths_agree"}, case)
    pj, pc = np.frombuffer(out_jit.tobytes()), np.frombuffer(raw(c_copy))
    if not np.allclose(pj, pc, rtol=1e-15, atol=1e-13, equal_nan=True):
        ck.fail(f"compiled path disagrees: {pj.tolist()} vs {pc.tolist()}", {**sig, "check": "paths_agree_compiled"}, case)
    # --- the property itself
    V1, V2 = a.volume, b.volume
    if not rel_close(c_copy.volume, V1 + V2, RTOL):
        ck.fail(f"volume not conserved: {V1}+{V2} -> {c_copy.volume}", {**sig, "check": "merge_volume"}, case)
    want = (V1 * a.position + V2 * b.position) / (V1 + V2)
    if not np.allclose(c_copy.position, want, rtol=1e-11, atol=1e-11 * max(abs(a.position).max(), abs(b.position).max())):
        ck.fail(f"centre is not the volume-weighted mean: {c_copy.position} vs {want}", {**sig, "check": "merge_centre"}, case)
    if diffuse and not rel_close(c_copy.interface_width, (a.interface_width + b.interface_width) / 2, 1e-15):
        ck.fail("width is not the mean of the widths", {**sig, "check": "merge_width"}, case)
    c_swap = b.merge(a)
    if not np.allclose(c_swap.data.tolist()[0], c_copy.data.tolist()[0], rtol=1e-12, atol=1e-12) or not rel_close(c_swap.radius, c_copy.radius, 1e-14):
        ck.fail("merge is not commutative", {**sig, "check": "merge_comm"}, case)
    if type(c_copy) is not cls:
        ck.fail("class changed by merge", {**sig, "check": "class"}, case)
    # --- the second operand may BE the first (or share its record): merging a droplet with itself doubles the volume and keeps the centre
    if a.radius > 0:
        for how in ("same object", "shared record"):
            s1 = a.copy()
            s2 = s1 if how == "same object" else cls.from_data(s1.data)
            p_before, v_before = np.array(s1.position, dtype=float), float(s1.volume)
            try:
                s1.merge(s2, inplace=True)
                okm = rel_close(float(s1.volume), 2 * v_before, 1e-12) and np.allclose(s1.position, p_before, rtol=1e-12, atol=1e-12 * max(1e-300, abs(p_before).max()))
                msg = f"volume {v_before!r} -> {float(s1.volume)!r}, centre {p_before.tolist()} -> {np.asarray(s1.position).tolist()}"
            except Exception as e:  # noqa: BLE001
                okm, msg = False, f"raised {type(e).__name__}: {e}"
            ck.count("merge_with_itself")
            if not okm:
                ck.fail(f"in-place merge of a droplet with itself ({how}): {msg}", {**sig, "check": "merge_centre", "aliased_operands": how}, case)
    # --- model requests: the regenerated scalar merge applied to EVERY coordinate (merge_vector_conserves: one radius, one position vector)
    w1 = a.data["interface_width"] if diffuse else 0.0
    w2 = b.data["interface_width"] if diffuse else 0.0
    a0p = np.array(a.position, dtype=float)
    for variant, got in (("copy", c_copy), ("inplace", a2)):
        v = ("diffuse_" if diffuse else "") + variant
        for k in range(d):
            reqs.append(f"c11 {v} {d} {fbits(a.position[k])} {fbits(a.radius)} {fbits(w1)} {fbits(b.position[k])} {fbits(b.radius)} {fbits(w2)} {fbits(0.0)} {fbits(0.0)} {fbits(0.0)}")
            expect.append((case, f"{v}[coordinate {k}]", float(got.position[k]), float(got.radius), float(got.data["interface_width"]) if diffuse else None,
                           max(abs(float(a0p[k])), abs(float(b.position[k])))))
            ck.count("coordinates_compared")
    return case


def correspond(ck: Check, n: int):
    reqs: list = []
    expect: list = []
    for i in range(n):
        case = one_case(ck, reqs, expect, diffuse=(i % 2 == 1))
        if i < 2:
            ck.sample(case)
    try:
        outs = run_driver(reqs)
    except RuntimeError as e:
        ck.mismatch("c11-merge", f"driver unavailable: {e}", {})
        return
    for (case, v, p, r, w, pscale), out in zip(expect, outs):
        parts = out.split()
        if parts[0] != "ok":
            ck.mismatch("c11-merge", f"{v}: model says {out}, implementation returned a droplet", case)
            continue
        mp, mr, mw = (bits_to_float(x) for x in parts[1:4])
        ok = rel_close(mp, p, 1e-12, 1e-12 * pscale) and rel_close(mr, r, 1e-13)
        if w is not None:
            ok = ok and rel_close(mw, w, 1e-15)
        if not ok:
            ck.mismatch("c11-merge", f"{v}: impl (pos0={p!r}, r={r!r}, w={w!r}) vs model ({mp!r}, {mr!r}, {mw!r})", case)
    # unsupported dimension: model and implementation raise the same error
    from droplets.droplets import SphericalDroplet

    a, b = SphericalDroplet(np.zeros(4), 1.0), SphericalDroplet(np.ones(4), 1.0)
    try:
        a.merge(b)
        got = "ok"
    except Exception as e:  # noqa: BLE001
        got = type(e).__name__
    out = run_driver([f"c11 copy 4 {fbits(0)} {fbits(1)} {fbits(0)} {fbits(1)} {fbits(1)} {fbits(0)} {fbits(0)} {fbits(0)} {fbits(0)}"])[0]
    ck.case(("dim4",))
    if out != f"err {got}":
        ck.mismatch("c11-merge", f"dim 4: impl {got}, model {out}", {"dim": 4})


def trees(ck: Check, n: int, leaves_max: int):
    """repeated merging: total volume and first moment conserved for any grouping"""
    from droplets.droplets import DiffuseDroplet, SphericalDroplet

    rng = ck.rng
    for _ in range(n):
        d = rng.choice([1, 2, 3])
        k = rng.randint(3, leaves_max)
        cls = rng.choice([SphericalDroplet, DiffuseDroplet])
        zero = rng.randrange(k) if rng.random() < 0.5 else -1  # at most one zero-radius leaf: every merge has positive total volume
        drops = [cls(np.array([rng.uniform(-10, 10) for _ in range(d)]), 0.0 if i == zero else 10 ** rng.uniform(-1, 1)) for i in range(k)]
        if cls is DiffuseDroplet:
            for x in drops:
                x.interface_width = rng.choice([0.0, rng.uniform(0, 2), rng.uniform(0, 2)])
        V = sum(x.volume for x in drops)
        M = sum(x.volume * x.position for x in drops)
        results = []
        for grouping in ("left", "random", "random"):
            work = [x.copy() for x in drops]
            if grouping == "random":
                rng.shuffle(work)
            while len(work) > 1:
                i = 0 if grouping == "left" else rng.randrange(len(work) - 1)
                m = work[i].merge(work[i + 1], inplace=rng.random() < 0.5)
                work[i : i + 2] = [m]
            results.append(work[0])
        ck.case(("tree", d, k, tuple(x.data.tobytes() for x in drops)))
        ck.count("merge_trees")
        case = {"kind": "tree", "dim": d, "class": cls.__name__, "leaves": [x.data.tolist() for x in drops]}
        for res in results:
            if not rel_close(res.volume, V, 1e-10):
                ck.fail(f"merge tree: total volume {V} -> {res.volume}", {"check": "mergeTree_conserves", "dim": d}, case)
            if not np.allclose(res.volume * res.position, M, rtol=1e-9, atol=1e-9 * (abs(M).max() + V)):
                ck.fail(f"merge tree: first moment {M} -> {res.volume * res.position}", {"check": "mergeTree_conserves", "dim": d}, case)


def replay(case: dict):
    import numpy as np
    from droplets.droplets import DiffuseDroplet, SphericalDroplet

    ck = Check("C11", "quick", 0)
    if case.get("kind") == "tree":
        trees(ck, 200, 12)
        return not ck.failures, f"{len(ck.failures)} failing merge trees on re-run"
    cls = {"SphericalDroplet": SphericalDroplet, "DiffuseDroplet": DiffuseDroplet}[case["class"]]
    a, b = cls(*case["a"]), cls(*case["b"])
    c = a.merge(b)
    V1, V2 = a.volume, b.volume
    ok = rel_close(c.volume, V1 + V2, RTOL) and np.allclose(c.position, (V1 * a.position + V2 * b.position) / (V1 + V2), rtol=1e-11, atol=1e-9)
    return bool(ok), f"merged {c} from {a}, {b}"


def run(ck: Check):
    ck.rule = ("random operand pairs (dims 1-3, radii over 20 orders of magnitude incl. zero, both classes) through 4 real code "
               "paths + merge trees with random grouping; non-trivial = distinct operand pairs / leaf sets")
    ck.extra_cov["gen_keys"] = GEN_KEYS
    ck.assumptions = ["theorems are over the reals; the regenerated statement is scalar and is applied per coordinate (merge_vector_conserves), every coordinate is compared with the implementation; float agreement to 1e-12",
                      "the numba path is exercised through an njit wrapper around Class._merge_data"]
    ck.lean = lean_stage("C11", leanchecker=not ck.quick)
    correspond(ck, ck.budget(600, 20000))
    trees(ck, ck.budget(100, 3000), ck.budget(12, 64))
    if (not ck.lean.ok or ck.mismatches) and not ck.failures:
        correspond(ck, 5000)
        trees(ck, 1000, 32)
