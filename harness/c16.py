"""C16 — the structure factor is a normalised, symmetry-invariant power spectrum.

Lean: Props/C16.lean (finite abelian group, characters: non-negativity, scale / translation /
automorphism / reflection invariance, Parseval, wave numbers, option logic) and Model/SF.lean
(naive DFT at Float).  Correspondence: real `get_structure_factor(smoothing=None)` vs the naive DFT
of the driver on small grids (even and odd shapes, anisotropic spacing).  Predicates on the real
code: every clause of the property, on random fields in 1-3 dimensions."""
from __future__ import annotations

import itertools
import math

import numpy as np

from .common import Check, bits_to_float, lean_stage, rel_close, run_driver
from .c11 import fbits


def make_case(rng, small=False):
    from pde import CartesianGrid, ScalarField

    dim = rng.choice([1, 2, 2, 3])
    if small:
        shape = {1: [rng.randint(2, 12)], 2: [rng.randint(2, 7), rng.randint(2, 7)], 3: [rng.randint(2, 4), rng.randint(2, 4), rng.randint(2, 5)]}[dim]
    else:
        shape = {1: [rng.randint(4, 64)], 2: [rng.randint(3, 24), rng.randint(3, 24)], 3: [rng.randint(3, 10) for _ in range(3)]}[dim]
    dx = [rng.choice([1.0, 0.5, 0.39, 2.5]) for _ in range(dim)]
    lo = [rng.choice([0.0, -3.0, 1.25]) for _ in range(dim)]
    grid = CartesianGrid([[a, a + n * d] for a, n, d in zip(lo, shape, dx)], shape, periodic=True)
    kind = rng.choice(["noise", "noise+mean", "wave", "blob", "weak-on-mean"])
    n = int(np.prod(shape))
    if kind == "weak-on-mean":
        # fluctuations far smaller than the mean (dyadic amplitudes, so that sums of squares stay well conditioned enough to compare)
        data = rng.choice([50.0, 2.0, -7.0]) + rng.choice([2.0**-7, 2.0**-10, 2.0**-4]) * np.array([rng.uniform(-1, 1) for _ in range(n)])
    elif kind == "noise":
        data = np.array([rng.uniform(-1, 1) for _ in range(n)])
    elif kind == "noise+mean":
        data = np.array([rng.uniform(0, 1) for _ in range(n)]) + rng.choice([0.5, 3.0])
    elif kind == "wave":
        idx = np.indices(shape).reshape(dim, -1)
        m = [rng.randint(0, max(1, s // 3)) for s in shape]
        data = np.cos(2 * np.pi * sum(m[a] * idx[a] / shape[a] for a in range(dim)) + rng.uniform(0, 6)) + 0.1 * np.array([rng.uniform(-1, 1) for _ in range(n)])
    else:
        idx = np.indices(shape).reshape(dim, -1)
        data = np.exp(-sum((idx[a] - shape[a] / 2) ** 2 for a in range(dim)) / 4.0) + 0.01
    return grid, ScalarField(grid, data.reshape(shape)), kind


def sf_raw(field):
    from droplets.image_analysis import get_structure_factor

    return get_structure_factor(field, smoothing=None)


def as_multiset(k, s, nd=9):
    return sorted(zip(np.round(k, nd).tolist(), np.round(s, nd + 3).tolist()))


def same_multiset(k1, s1, k2, s2) -> bool:
    """the pairs (|k|, S) agree as multisets, up to rounding: sorted by (|k| rounded, S) and compared with a tolerance
    (comparing ROUNDED values for equality raises false alarms when a value sits on a rounding boundary: VERIF_SEED=11)"""
    k1, s1, k2, s2 = (np.asarray(x, dtype=float).ravel() for x in (k1, s1, k2, s2))
    if k1.shape != k2.shape or s1.shape != s2.shape:
        return False
    o1 = np.lexsort((s1, np.round(k1, 9)))
    o2 = np.lexsort((s2, np.round(k2, 9)))
    return bool(np.allclose(k1[o1], k2[o2], rtol=1e-12, atol=1e-12) and np.allclose(s1[o1], s2[o2], rtol=1e-9, atol=1e-12))


def run_cases(ck: Check, n_small: int, n_large: int):
    from pde import CartesianGrid, ScalarField
    from droplets.image_analysis import get_structure_factor

    rng = ck.rng
    reqs, expect = [], []
    for i in range(n_small + n_large):
        small = i < n_small
        grid, field, kind = make_case(rng, small=small)
        shape, dim = grid.shape, grid.dim
        data = field.data
        case = {"shape": list(shape), "dx": list(map(float, grid.discretization)), "kind": kind, "data_head": data.ravel()[:6].tolist()}
        sig = {"dim": dim}
        ck.case((tuple(shape), data.tobytes()))
        ck.count(f"dim{dim}")
        ck.count("odd_shape" if any(s % 2 for s in shape) else "even_shape")
        k, s = sf_raw(field)
        n = data.size
        if k.shape != (n - 1,) or s.shape != (n - 1,):
            ck.fail(f"raw structure factor has {len(k)} entries for {n} cells", {**sig, "check": "shape"}, case)
            continue
        # non-negative, Parseval
        if s.min() < -1e-15:
            ck.fail(f"negative structure factor {s.min()}", {**sig, "check": "sf_nonneg"}, case)
        want = float(np.sum((data - data.mean()) ** 2) / np.sum(data**2))  # = 1 - N mean^2 / sum f^2, without the cancellation
        if not rel_close(float(s.sum()), float(want), 1e-9, 1e-11):
            ck.fail(f"sum of the structure factor {s.sum()} != 1 - N mean^2 / sum f^2 = {want}", {**sig, "check": "sf_sum"}, case)
        # wave numbers = 2 pi fftfreq magnitudes
        ks = [2 * np.pi * np.fft.fftfreq(shape[a], d=grid.discretization[a]) for a in range(dim)]
        kk = np.sqrt(sum(np.meshgrid(*[x**2 for x in ks], indexing="ij"))).ravel()[1:]
        if not np.allclose(k, kk, rtol=1e-13, atol=0):
            ck.fail("wave numbers are not the discrete Fourier wave numbers of the grid", {**sig, "check": "k_is_dft_wavenumber"}, case)
        # invariances on the real code
        # any non-zero constant, also very small / very large ones (as long as c^2 sum f^2 neither under- nor overflows)
        c = rng.choice([-2.5, 0.01, 7.0, 1e-7, -3e-9, 1e9, 1e-30, 1e40])
        k2, s2 = sf_raw(ScalarField(grid, c * data))
        if not np.allclose(s2, s, rtol=1e-10, atol=1e-14) or not np.array_equal(k2, k):
            ck.fail(f"structure factor changes when the field is multiplied by {c}", {**sig, "check": "sf_scale_invariant"}, case)
        shift = tuple(rng.randrange(sz) for sz in shape)
        k3, s3 = sf_raw(ScalarField(grid, np.roll(data, shift, axis=tuple(range(dim)))))
        if not np.allclose(s3, s, rtol=1e-9, atol=1e-13):
            ck.fail(f"structure factor changes when the field is translated by {shift} cells", {**sig, "check": "sf_translate_invariant"}, {**case, "shift": list(shift)})
        ax = rng.randrange(dim)
        k4, s4 = sf_raw(ScalarField(grid, np.flip(data, axis=ax)))
        if not np.allclose(s4, s, rtol=1e-9, atol=1e-13):
            # reflection index -> -index maps each wave vector to its mirror image: compare as multisets of (|k|, sf)
            if not same_multiset(k4, s4, k, s):
                ck.fail(f"structure factor changes when the field is reflected along axis {ax}", {**sig, "check": "sf_reflect_invariant"}, {**case, "axis": ax})
        if dim >= 2:
            perm = list(range(dim))
            rng.shuffle(perm)
            g2 = CartesianGrid([grid.axes_bounds[a] for a in perm], [shape[a] for a in perm], periodic=True)
            k5, s5 = sf_raw(ScalarField(g2, np.transpose(data, perm)))
            if not same_multiset(k5, s5, k, s):
                ck.fail(f"structure factor changes when the axes are permuted {perm} together with the grid", {**sig, "check": "sf_axis_perm_invariant"}, {**case, "perm": perm})
        # (also factors that differ from 1 by less than common floating-point tolerances, and boxes measured in a unit so small that every
        # length is below numpy's ABSOLUTE tolerances: same shape, analysed one after the other in this process)
        lam = rng.choice([0.01, 0.5, 3.0, 100.0, 1 + 2.0**-18, 1 - 2.0**-20, 1e-9, 2e-9])
        g3 = CartesianGrid([[b[0] * lam, b[1] * lam] for b in grid.axes_bounds], shape, periodic=True)
        k6, s6 = sf_raw(ScalarField(g3, data))
        if not np.allclose(k6 * lam, k, rtol=1e-12) or not np.allclose(s6, s, rtol=1e-12, atol=1e-15):
            ck.fail(f"wave numbers do not scale inversely with the grid size (factor {lam})", {**sig, "check": "k_scales_inverse"}, {**case, "lambda": lam})
        if lam <= 2e-9:
            # a second tiny box of the same shape, stretched by 2 relative to the first
            g4 = CartesianGrid([[b[0] * lam * 2, b[1] * lam * 2] for b in grid.axes_bounds], shape, periodic=True)
            k7, s7 = sf_raw(ScalarField(g4, data))
            ck.count("tiny_boxes_same_shape_in_sequence")
            if not np.allclose(k7 * lam * 2, k, rtol=1e-12) or not np.allclose(s7, s, rtol=1e-12, atol=1e-15):
                ck.fail(f"wave numbers do not scale inversely with the grid size (boxes scaled by {lam} and then by {2 * lam}, same shape, same process)",
                        {**sig, "check": "k_scales_inverse"}, {**case, "lambda": [lam, 2 * lam]})
        # smoothed variant: requested wave numbers, invariances, add_zero
        req = np.sort(np.array([rng.uniform(0.2, 1.0) * k.max() for _ in range(5)]))
        sm = rng.choice([0.3, "auto", 1.0])
        ka, sa = get_structure_factor(field, smoothing=sm, wave_numbers=req)
        if not np.array_equal(ka, req):
            ck.fail("smoothed structure factor does not return the requested wave numbers", {**sig, "check": "smoothed_returns_requested"}, case)
        kb, sb = get_structure_factor(ScalarField(grid, c * np.roll(np.flip(data, axis=ax), shift, axis=tuple(range(dim)))), smoothing=sm, wave_numbers=req)
        if not np.allclose(sb, sa, rtol=1e-7, atol=1e-12):
            ck.fail("smoothed structure factor is not invariant under scaling+translation+reflection", {**sig, "check": "smoothed_invariant"}, case)
        # requested wave numbers in every documented form: starting at 0, unsorted, repeated, a single one, list / tuple / array
        variants = [np.r_[0.0, req], req[::-1].copy(), [float(req[2]), float(req[2]), 0.0], (float(req[0]),), list(map(float, req))]
        req2 = variants[i % len(variants)]
        ck.count("requested_wave_numbers_variant_%d" % (i % len(variants)))
        kc, sc = get_structure_factor(field, smoothing=sm, wave_numbers=req2)
        if not np.array_equal(kc, np.array(req2)) or len(sc) != len(req2):
            ck.fail(f"smoothed structure factor does not return the requested wave numbers {req2}", {**sig, "check": "smoothed_returns_requested"}, {**case, "wave_numbers": list(map(float, req2))})
        for kw in (dict(smoothing=None), dict(smoothing=sm, wave_numbers=req), dict(smoothing=sm, wave_numbers=req2), dict(smoothing="none"), dict(smoothing=0)):
            k0, s0 = get_structure_factor(field, add_zero=False, **kw)
            kz, sz = get_structure_factor(field, add_zero=True, **kw)
            if not (kz[0] == 0 and sz[0] == 1 and np.array_equal(kz[1:], k0) and np.array_equal(sz[1:], s0)):
                ck.fail(f"add_zero does not prepend (0, 1) for options {kw}", {**sig, "check": "add_zero_prepends"}, {**case, "options": repr(kw)})
            if kw.get("smoothing") in (None, "none", 0) and not (np.array_equal(k0, k) and np.array_equal(s0, s)):
                ck.fail(f"smoothing={kw.get('smoothing')!r} does not return the raw spectrum", {**sig, "check": "unsmoothed_is_raw"}, case)
        kauto, sauto = get_structure_factor(field)  # defaults: smoothing and wave numbers automatic
        if len(kauto) != 128 or not np.all(np.isfinite(sauto)) or not np.all(np.diff(kauto) > 0):
            ck.fail("default smoothed structure factor is not finite on an increasing 128-point wave-number grid", {**sig, "check": "auto"}, case)
        # correspondence with the naive DFT (small grids)
        if small:
            reqs.append(f"c16 sf {dim} " + " ".join(map(str, shape)) + " " + " ".join(fbits(x) for x in grid.discretization) + " " + " ".join(fbits(x) for x in data.ravel()))
            expect.append((case, k, s))
        if len(ck.samples) < 3:
            ck.sample(case)
    outs = run_driver(reqs)
    for (case, k, s), out in zip(expect, outs):
        parts = out.split()
        if parts[0] != "ok" or len(parts) != 1 + 2 * len(k):
            ck.mismatch("c16-dft", f"model answered {out[:80]}", case)
            continue
        vals = np.array([bits_to_float(x) for x in parts[1:]]).reshape(-1, 2)
        if not np.allclose(vals[:, 0], k, rtol=1e-12, atol=0) or not np.allclose(vals[:, 1], s, rtol=1e-8, atol=1e-12 * max(1.0, float(s.max()))):
            bad = int(np.argmax(np.abs(vals[:, 1] - s)))
            ck.mismatch("c16-dft", f"structure factor differs from the naive DFT at entry {bad}: impl ({k[bad]}, {s[bad]}) model ({vals[bad, 0]}, {vals[bad, 1]})", case)


def large_grids(ck: Check, quick: bool):
    """the symmetry invariances of the SMOOTHED spectrum on grids with more than 2**14 Fourier modes (odd and unequal cell counts): reflection,
    whole-cell translation, permutation of the axes together with the grid; the raw spectrum as a multiset"""
    from pde import CartesianGrid, ScalarField
    from droplets.image_analysis import get_structure_factor

    rng = ck.rng
    shapes = [(151, 149), (27, 29, 31)] if quick else [(151, 149), (160, 160), (27, 29, 31), (32, 32, 32), (40, 27, 33)]
    for shape in shapes:
        dim = len(shape)
        dx = [rng.choice([1.0, 0.5, 2.5]) for _ in range(dim)]
        grid = CartesianGrid([[0, n * d] for n, d in zip(shape, dx)], list(shape), periodic=True)
        nrng = np.random.default_rng(rng.randrange(2**31))
        data = nrng.uniform(-1, 1, size=shape) + rng.choice([0.0, 0.5])
        field = ScalarField(grid, data)
        case = {"kind": "large-grid", "shape": list(shape), "spacing": dx, "modes": int(np.prod(shape)) - 1}
        sig = {"dim": dim, "kind": "large-grid"}
        ck.case(("large", shape, tuple(dx), data.ravel()[:64].tobytes()))
        ck.count("large_grids")
        perm = list(range(dim))
        rng.shuffle(perm)
        if perm == list(range(dim)):
            perm = perm[::-1]
        gp = CartesianGrid([[0, shape[a] * dx[a]] for a in perm], [shape[a] for a in perm], periodic=True)
        ax, shift = rng.randrange(dim), tuple(rng.randrange(1, n) for n in shape)
        images = {"reflection+translation": ScalarField(grid, np.roll(np.flip(data, axis=ax), shift, axis=tuple(range(dim)))),
                  "axis permutation": ScalarField(gp, np.transpose(data, perm))}
        k0, s0 = sf_raw(field)
        for sm in ("auto", 0.3):
            ka, sa = get_structure_factor(field, smoothing=sm)
            for how, f2 in images.items():
                kb, sb = get_structure_factor(f2, smoothing=sm)
                if not np.allclose(kb, ka, rtol=1e-12) or not np.allclose(sb, sa, rtol=1e-7, atol=1e-12):
                    ck.fail(f"smoothed structure factor (smoothing={sm!r}) of a {shape} field is not invariant under {how}: relative change up to "
                            f"{float(np.max(np.abs(sb - sa) / np.maximum(np.abs(sa), 1e-300))):.3g}", {**sig, "check": "smoothed_invariant", "how": how}, {**case, "smoothing": repr(sm)})
        for how, f2 in images.items():
            k2, s2 = sf_raw(f2)
            if not same_multiset(k0, s0, k2, s2):
                ck.fail(f"raw structure factor of a {shape} field changes as a multiset under {how}", {**sig, "check": "raw_multiset_invariant", "how": how}, case)


def replay(case: dict):
    ck = Check("C16", "quick", 0)
    run_cases(ck, 30, 60)
    if case.get("kind") == "large-grid":
        large_grids(ck, True)
    bad = [f["what"] for f in ck.failures] + [m["what"] for m in ck.mismatches]
    return not bad, "; ".join(bad[:3]) or "property holds on re-run"


def run(ck: Check):
    ck.rule = ("random fields (noise, noise with mean, plane waves + noise, blobs) on fully periodic Cartesian grids in 1-3 dimensions, even and odd shapes, "
               "anisotropic spacings, offsets; naive-DFT correspondence on small grids; invariances under scaling, translation, reflection, axis permutation, "
               "grid stretching; option logic; grids with more than 2**14 modes (odd, unequal cell counts) for the smoothed invariances; non-trivial = every distinct field")
    ck.assumptions = ["numpy's fftn(norm='ortho') is the unitary DFT (checked against the naive DFT on small grids)",
                      "SmoothData1D (py-pde) is used as is: the smoothed clauses are checked on the implementation"]
    ck.lean = lean_stage("C16", leanchecker=not ck.quick)
    try:
        run_cases(ck, ck.budget(40, 500), ck.budget(60, 800))
    except RuntimeError as e:
        ck.mismatch("c16-dft", f"driver unavailable: {e}", {})
    large_grids(ck, ck.quick)
