#!/bin/bash
# usage: tools/recheck_seed.sh <seed-id> <check ids...> : apply an already confirmed seeded change to /repo, run the checks, undo;
# the check lines of confirm.log are replaced (the confirmation lines - suite, demo - are kept)
set -u
ID=$1; shift
OUT=/verif/seeded/$ID
LOG=$OUT/confirm.log
git -C /repo apply $OUT/patch.diff || { echo "patch does not apply"; exit 2; }
grep -v "^check_\|^VIOLATION\|^OK \|^recheck" $LOG > $LOG.new; mv $LOG.new $LOG
for c in "$@"; do
  ( cd /verif && ./check $c --tier quick > $OUT/check_$c.out 2>&1; echo "check_${c}_exit=$?" >> $LOG; grep -h "VIOLATION\|^OK" $OUT/check_$c.out | head -3 >> $LOG )
done
git -C /repo checkout -- .
git -C /repo status --short | grep -v _version
tail -4 $LOG
