#!/usr/bin/env python3
"""Regenerate MANIFEST.json from the table below (kept in one place so it stays valid)."""
import json
from pathlib import Path

V = Path(__file__).resolve().parent.parent
props = [json.loads(l) for l in open(V / "properties.jsonl")]

CHECKS = {
    "C12": dict(
        category="proof",
        text="Round trips, surface = dV/dr, agreement of all variants, droplet setter/getter, curvature, bbox and the error branches are Lean theorems over the reals about definitions regenerated from the current source by tools/py2lean.py (so a changed formula changes the theorem's subject); the same generated definitions run at Float in the driver and are compared with every real variant (scalar, array, numba-compiled, py-pde, droplet properties) over 30 orders of magnitude.",
        note="Trusted: Lean kernel; propext/Classical.choice/Quot.sound; the translator (monitored by the Float correspondence); real-vs-IEEE gap (round trips checked numerically to 1e-12).",
        technique="Lean 4 theorems over regenerated definitions (translator) + Float correspondence",
        ref="DESIGN.md §5 C12",
    ),
    "C11": dict(
        category="proof",
        text="Volume additivity, volume-weighted centre, mean width, commutativity, equality of the aliased (in-place) and non-aliased statement replays, the zero-radius operand case, conservation of volume and first moment for every merge tree (hence independence of grouping) and the unsupported-dimension error are Lean theorems over the reals about merge_data as regenerated from the current source (statement order and out==drop1 aliasing preserved by the translator). The generated definitions also run at Float in the driver against d1.merge (both inplace settings), Class._merge_data called directly and through a numba.njit wrapper; operand immutability is checked bytewise.",
        note="Trusted: Lean kernel; propext/Classical.choice/Quot.sound; the translator (monitored by the Float correspondence); one position coordinate modelled (numpy broadcasting treats coordinates uniformly); real-vs-IEEE gap (compared to 1e-12; compiled path to 4 ulp).",
        technique="Lean 4 theorems over regenerated definitions (translator) + Float correspondence",
        ref="DESIGN.md §5 C11",
    ),
    "C10": dict(
        category="proof",
        text="For every distance table (symmetric or not), radius table, minimal distance of either sign and item list, in any linear order: survivors are a sublist, every remaining pair is at least min_distance apart, every removed item was too close to a present item at least as large, a strictly largest item survives, a second call removes nothing, input = survivors + removed; the pairwise matrix is symmetric with zero diagonal for any metric and overlap <=> negative surface distance. These are Lean theorems (induction over the loop, fuel = number of items proved sufficient) about an import-free executable model of the greedy loop which is run on the very matrix the real remove_overlapping computed (tapped) as exact rationals; survivors, removal order and tie-breaking must coincide. Exhaustive on a small 1-D lattice with tied radii, random in 1-3-D with periodic grids.",
        note="Trusted: Lean kernel; propext/Classical.choice/Quot.sound; the correspondence harness (agreement on generated inputs only); finite distances; cKDTree and rng.uniform contracts are monitored on the real outputs, not modelled.",
        technique="Lean 4 theorems about a hand-written executable model + exact differential correspondence on tapped distance matrices",
        ref="DESIGN.md §5 C10",
    ),
    "C06": dict(
        category="proof",
        text="For every list of frames, overlap table, distance table, cut-off and both methods: the returned tracks are a permutation of all (droplet, frame time) pairs (track_partition); tracking always returns (track_total; the pre-repair ValueError is kept as a decide-checked counterexample theorem); in every step each existing track is kept or extended by exactly one droplet stamped with the frame's time, only if it ended at the previous time, and every other droplet starts a singleton track (stepDistance_shape for every table; stepOverlap_shape for frames whose droplets do not overlap one another) - with strictly increasing times this is one droplet per frame and a gap-free run. Lean theorems (induction over frames and over the inner loops, aliasing of tracks_alive made literal by indices) about an executable model run against the real from_emulsion_time_course on the same overlap/distance tables; exhaustive small lattice histories + random ones with births, deaths, empty frames, periodic wrap-around.",
        note="Trusted: Lean kernel; propext/Classical.choice/Quot.sound; correspondence harness; tables come from the real overlaps()/cdist (metric checked against an independent periodic metric in C07/C10); copy-on-append and input immutability are checked on the real objects (bytes, identity), modelled in C20.",
        technique="Lean 4 theorems about a hand-written executable model + exact differential correspondence",
        ref="DESIGN.md §5 C06",
    ),
    "C07": dict(
        category="proof",
        text="Overlap method: every track is a chain of overlapping droplets (overlap_links_overlap, all time courses), the rule 'exactly one overlapping alive track continues, none or several start a new track' (overlap_rule, mem_hits). Distance method: every link is within the cut-off, after matching no unmatched track and unmatched droplet are within the cut-off (distance_maximal, fuel len+1 proved sufficient), the loop satisfies the independent specification IsGreedy ('repeatedly join the closest remaining pair') and that specification has a unique solution when distances are distinct. Same model and correspondence as C06; the use of the periodic metric is checked by recomputing overlaps/distances with an independent metric on the real outputs.",
        note="Trusted: as C06. The frame-level one-to-one clause is checked on the implementation (predicate) and follows in the model from overlap_rule + the C06 loop invariant; it is not yet a separate theorem.",
        technique="Lean 4 theorems about a hand-written executable model + exact differential correspondence",
        ref="DESIGN.md §5 C07",
    ),
    "C02": dict(
        category="proof",
        text="For every initial labelling, every list of periodic boundary pairs (any shape, dimension, periodicity) and every cell list: after the merging loop two mask cells carry the same label iff they are connected through initial clusters and boundary pairs (mergeLoop_partition, EqvGen closure), the stored volume of a surviving label is the cell count of its cluster (mergeLoop_volume), and for a component admitting a consistent integer lift (= not winding) the stored position is the centre of mass of the unwrapped component up to whole periods (C02_position_nonwinding). Proved by three loop invariants (labels = quotient; sums over clusters; tracked shifts agree with any consistent lift) over a pointwise executable model of the loop, which runs against the real locate_droplets_in_mask on ALL binary images of small grids x all periodicity masks plus random shaped images; no-overlap / dropped-only-if-dominated are C10's theorems applied to the candidates. FROM THE IMAGE ALONE: Model/Label.lean is an executable labeller written with the same relabelling step; labelExec_isLabelling proves it satisfies the contract of scipy.ndimage.label (background 0, same name iff connected through in-box face pairs inside the image, names ordered like the first raster cells, gap-free), locateMask_partition / locateMask_topology prove that labelling followed by periodic merging puts two image cells into the same cluster exactly when they are connected inside the image by face steps of the grid's topology, stated in coordinates (Lemmas/GridGeom: unflat/setCoord are inverse mixed-radix maps, the generated pairs are exactly 'one step up along one axis' / 'lower face to opposite cell of a periodic axis'); scipy's labelling is compared with labelExec on every image up to 600 cells. This reasoning exposed defect D1 (fixed in /repo a636831; the witness is in the corpus and as a decide-checked example).",
        note="Trusted: Lean kernel; propext/Classical.choice/Quot.sound; scipy.ndimage.label = raster-ordered face-connected labelling (compared with the verified model labeller on every image up to 600 cells and with an independent BFS on every case), center_of_mass/sum (float vs exact rational, compared to 1e-9 L); grid.transform/normalize_point applied in the harness; the cylindrical clause of the property is decided under C01/C09 machinery.",
        technique="Lean 4 invariant proofs about a hand-written executable model + exhaustive differential correspondence + independent oracle",
        ref="DESIGN.md §5 C02",
    ),
    "C18": dict(
        category="proof",
        text="Exact rational model of the threshold rules, the 256-bin Otsu routine (including numpy's NaN-wins argmax rule for constant images) and the remove_small loop. Theorems: 'extrema'/'auto', 'mean' and a mapped numeric threshold commute with every positive affine map and the binary image (strict >) is unchanged (threshold_affine); Otsu's histogram bins and bin centres are affine-invariant (binIdx_affine, center_affine); the selected Otsu index carries a variance no other split exceeds (otsu_is_argmax) and an empty class wins (otsu_nan_rule); the reversed-index pop loop equals filter(radius > min) for every list (removeSmall_eq_filter). Correspondence on dyadic-valued fields (float evaluation exact): the mask handed to locate_droplets_in_mask (tapped) equals data > model threshold, threshold_otsu equals the model's bin centre exactly, results equal locating in the thresholded image, are invariant under exact affine maps, and the size filter is exact - on Cartesian 1-3-D, polar, spherical and cylindrical grids.",
        note="Trusted: Lean kernel; propext/Classical.choice/Quot.sound; correspondence harness; numpy histogram/linspace/mean evaluate exactly on the dyadic data used (stated assumption); full affine invariance of the Otsu argmax is proved up to the bin/centre lemmas and checked on the implementation.",
        technique="Lean 4 theorems about a hand-written exact model + exact differential correspondence on dyadic data",
        ref="DESIGN.md §5 C18",
    ),
    "C19": dict(
        category="proof",
        text="resultClass (model of the class branch of locate_droplets, from_droplet's keyword merge and refine_droplet's promotion) equals the property's table for ALL mode counts and the complete finite product of grid family x dimension x width x refine, including the documented ValueError for modes in 1-D (resultClass_spec); all droplets of one result share class/amplitude count/width flag (layout_uniform); a supplied width is carried by every unrefined result (width_carried). The complete table is enumerated on the real locate_droplets (class, amplitude count, width value, dim, single dtype, Emulsion.data formed) and compared with the model and with the table written out independently in the harness. This exposed defect D4 (fixed in /repo d8763eb).",
        note="Trusted: Lean kernel; propext/Quot.sound; the harness enumerates modes {0,1,2,3,8} (the theorem covers all naturals); refinement itself is scipy's (only the class/shape of its result is observed here).",
        technique="Lean 4 theorem over a decision-table model + complete enumeration on the implementation",
        ref="DESIGN.md §5 C19",
    ),
    "C14": dict(
        category="proof",
        text="For EVERY analysis function (also one that fails on some frame), every settings record and every sequence of (field, time): folding DropletTracker.handle over the frames equals mapping the analysis over the stored fields with the same options and zipping with the times, and both fail alike (tracker_eq_offline, tracker_times); every tracker option is forwarded under the right keyword (optsOf_forwards_all); the length-scale tracker is a total function recording value-or-NaN per frame (lengthscale_records_all). The model is tied to the code by recording stubs patched onto locate_droplets/get_length_scale (kwargs received must equal optsOf for the complete 6x2x2x2x3 settings table; sequences with a raising analysis), by end-to-end runs against EmulsionTimeCourse.from_storage on a MemoryStorage of the same fields with bitwise comparison, by the file written in finalize(), and (thorough) by real Cahn-Hilliard runs.",
        note="Trusted: Lean kernel; propext/Quot.sound; py-pde calls handle(field, t) at the interrupts; extract_field is the identity for a ScalarField; the analysis functions are parameters of the model (their own behaviour is C01-C05, C16-C18).",
        technique="Lean 4 theorems about a parametric model + stub/differential correspondence",
        ref="DESIGN.md §5 C14",
    ),
    "C15": dict(
        category="proof",
        text="Model of executor.map: task i owns slot i, workers complete tasks in any order, results are read in index order. Theorems: for every task function, input list and completion schedule covering all tasks (any permutation, any worker count) the gathered list equals xs.map f (map_schedule_independent, schedules_agree); the pool branches of refine_droplets (with the None filter) and from_storage equal their serial branches. The real code is run with num_processes in {1,2,3,5,'auto'} while per-task delays installed before the pool forks force reversed, rotated and random completion orders (observed orders are recorded and replayed through the model); results are compared bitwise and in order with the serial run, and repeated runs must be identical.",
        note="Trusted: Lean kernel; propext/Quot.sound; concurrent.futures.ProcessPoolExecutor.map yields in submission order and pickling preserves values (stdlib contracts, monitored by the bitwise comparison); determinism of scipy.optimize.least_squares on identical inputs.",
        technique="Lean 4 theorems about a scheduling model + forced-schedule differential runs",
        ref="DESIGN.md §5 C15",
    ),
    "C08": dict(
        category="proof",
        text="Model of the HDF5 layout (record = position, radius, [width], [amplitudes] as opaque 64-bit patterns; class marker; 'None' marker for empty collections; time column of tracks; keys time_%06d/track_%06d read back in sorted order). Theorems: a record parses back to the droplet it came from for every class/dimension/mode count/NaN width (parseRow_row); for every list of well-formed droplets, uniform or not, writing fails or the dataset decodes to exactly that list (encode_error_or_faithful, track_error_or_faithful, encoded_class); fixed-width decimal keys are strictly increasing in string order below 10^6 (digitsW_lt, pad6_lex) so a time course that can be written reads back with the same members, times and order (roundtrip_timecourse); beyond 10^6 the order provably breaks (pad6_overflow_witness, finding D13). The real to_file output is dumped with h5py and compared field by field and bit by bit with the model's encoding, the real from_file result with the model's decoding; mixed classes/layouts must raise. This exposed defect D14 (fixed in /repo da8c25b).",
        note="Trusted: Lean kernel; propext/Classical.choice/Quot.sound; h5py stores and returns float64 patterns unchanged and sorts keys lexicographically (monitored through the dump); times exactly representable in float64; constructor value checks (radius >= 0, on-axis) are a parameter `valid` of the decoder which valid inputs satisfy.",
        technique="Lean 4 theorems about a hand-written executable model + bit-level differential correspondence on file dumps",
        ref="DESIGN.md §5 C08",
    ),
    "C20": dict(
        category="proof",
        text="Heap model of Emulsion / EmulsionTimeCourse / DropletTrack: droplet objects are references, 'copy' allocates, collections and the caller hold references; 22 operations with the code's copy discipline (append/extend with copy and force_consistency, copy(min_radius), integer index = alias, slice/add = fresh copies, remove_small, clear, get_linked_data, in-place member mutation/merge, time-course append/slice/clear with the Emulsion(e)+copy() generations, track append with dimension check and default time). Theorems: a default insert stores a fresh object and mutation through the caller's object and through the stored one are mutually invisible (emInsert_copy, insert_copy_isolated, setVal_other); copies/slices consist of the next unused heap cells carrying the source values, disjoint from every source object (allocAll_fresh, fresh_disjoint); times and members have equal length after EVERY operation sequence (step_aligned, times_members_aligned); a layout mismatch under force_consistency is rejected leaving the state unchanged (consistency_rejects); default time rule (defaultTime_spec). The model is run against the real classes on exhaustive (length<=4) and random (length<=40/200) operation sequences; after every operation values, order, times, dtypes and the ALIAS CLASSES (object identity / shared memory vs equal references) are compared. Statistics (count, mean/std, total volume, area-weighted width, bbox, trajectories, durations, nearest-time lookup, remove_short_tracks) are checked against their definitions and under permutation on the implementation.",
        note="Trusted: Lean kernel; propext/Classical.choice/Quot.sound; the correspondence harness (alias detection by `is`/np.shares_memory); remove_overlapping is C10's; the statistics clauses are checked numerically on the implementation (their exact-arithmetic permutation invariance is not a Lean theorem here).",
        technique="Lean 4 invariants over a heap/state-machine model + differential correspondence on operation sequences incl. alias structure",
        ref="DESIGN.md §5 C20",
    ),
    "C03": dict(
        category="proof",
        text="Profile theorems over the reals about the expressions REGENERATED on every run from the three _get_phase_field bodies and from get_phase_field (translator checks the 'width == 0 or boolean dtype' branch shape and the None-width default): the smooth profile is strictly between 0 and 1 for every radius/width/distance, exceeds 1/2 exactly when the distance is below the (interface) radius, is antitone in the distance, the sharp branch is exactly the indicator, scaling stays between vmin and vmax (either order) and preserves the midpoint criterion; the perturbed renderer is definitionally the diffuse one with the interface distance as radius. Geometry theorems over Q about the hand model: the periodic difference is invariant under whole periods, lies in [-L/2, L/2), differs from the plain difference by whole periods, and translating the centre by m cells along a periodic axis maps cell j to cell j+m mod n (render_roll); the emulsion field is the clipped sum, in [0,1] and permutation invariant. Tied to the code by evaluating the generated profile at Float on the per-cell distance/interface the real code computes (1e-15), by the exact rational inside/outside pattern on Cartesian grids, and by an independent periodic metric for the predicates on all five classes and all grid families. Exposed D3 (NaN at a cell centre) and D4 (axisymmetric rendering), both fixed in /repo; D12 (py-pde periodic cylindrical metric) is a known finding.",
        note="Trusted: Lean kernel; propext/Classical.choice/Quot.sound; the translator (monitored by the Float correspondence); spherical harmonics enter through the droplets' own interface_distance (C13); finiteness beyond the profile bounds (overflow of the tanh argument is harmless; inf/nan droplet parameters are not valid droplets) is argued, not proved; py-pde's grid.transform/cell_coords.",
        technique="Lean 4 theorems over regenerated definitions (translator) and a hand-written geometry model + Float/rational correspondence",
        ref="DESIGN.md §5 C03",
    ),
    "C13": dict(
        category="proof",
        text="Theorems over the reals about the loops of PerturbedDroplet2D/3D/3DAxisSym as REGENERATED from the source on every run (the translator preserves '=' vs '+=', the 'if a != 0' guards and the powers of the radius), with the harmonics as an arbitrary table: interface distance = R(1 + sum a_k B_k); 2-D curvature = 1/(R(1 - sum (n^2-1)(...))); 3-D/axisymmetric curvature = 1/R + (1/R) sum a_k (l^2+l-2)/2 Y_k with ALL modes contributing; curvature scales like 1/R and distance like R for any radius and mode combination; 2-D volume = pi R^2 (1 + sum a^2/2) with setter/getter round trip; volume_approx = sphere volume (no first-order term); with all amplitudes zero every quantity reduces to the sphere's; mode indexing (l,m)<->k round trips for all k. IN 2-D THE GEOMETRY ITSELF IS PROVED (Lemmas/Fourier.lean, pure Mathlib): the reported volume equals the integral of r(phi)^2/2 over [0, 2 pi] of the regenerated interface distance, for every mode count (p2d_volume_is_area: orthogonality of sin/cos + Parseval for trigonometric polynomials); the outline t -> centre + r(t)(cos t, sin t) has derivatives r', r'' given by the derived coefficient lists, its signed curvature is the polar formula (polar_param_curv), and with all amplitudes scaled by eps the true curvature and the reported one agree at eps = 0 (both 1/R) and have the same derivative in eps at 0 (p2d_curvature_first_order) - i.e. agreement to first order in the amplitudes for any radius, modes and direction. For the 3-D classes the geometric meaning of the linearised specification is validated numerically (exact planar curvature, finite-difference mean curvature of the level set, spectral quadrature of volume and arc length; 'to first order' = the discrepancy drops >6.6x when amplitudes shrink 4x); outline and triangulation vertices are checked on the implementation. Exposed D7/D8 (curvature), D9 (volume_approx), D15 (scalar call with zero amplitudes) and D18 (axisymmetric droplets reported interface positions / triangulations of the unperturbed sphere), all fixed in /repo.",
        note="Trusted: Lean kernel; propext/Classical.choice/Quot.sound; the translator (monitored by the Float correspondence at 1e-12); scipy's sph_harm_y through the library wrappers; for the 3-D and axisymmetric classes the first-order expansion of mean curvature/volume of r = R(1+eps u) (classical; Mathlib has no spherical harmonics) is validated numerically only (the 2-D case is proved); the 256-point surface_area rule and dblquad volume are compared with independent quadrature.",
        technique="Lean 4 theorems over regenerated definitions (translator) + Float correspondence + numerical validation of the specification",
        ref="DESIGN.md §5 C13",
    ),
    "C16": dict(
        category="proof",
        text="The grid is modelled as an arbitrary finite abelian group and wave vectors as its characters (covers every dimension, even/odd shapes). Theorems (Mathlib, kernel-checked): the structure factor |sum f psi(-g)|^2/(N sum|f|^2) is non-negative; invariant under multiplication by any non-zero constant, under translation by any group element (|psi| = 1), under every automorphism of the grid with the spectrum re-indexed by the dual map (reflections and axis permutations), and for real fields under reflection wave vector by wave vector; Plancherel (parseval) and hence sum over non-trivial characters = 1 - |sum f|^2/(N sum|f|^2) (sf_sum); wave numbers 2 pi m/(n dx) scale inversely with the grid size; option logic (smoothing None/'none'/0 off, requested wave numbers returned exactly, add_zero prepends (0,1)) for every smoother. An executable naive DFT (Float) is compared with the real get_structure_factor(smoothing=None) on small grids; all clauses incl. the smoothed variant are checked on the real code for random fields in 1-3-D.",
        note="Trusted: Lean kernel; propext/Classical.choice/Quot.sound; fftn(norm='ortho') = unitary DFT over the characters exp(2 pi i m.g/n) (FFT-library contract, checked against the naive DFT); SmoothData1D as is; the executable Float model is the evaluation of the abstract definition at those characters (by inspection).",
        technique="Lean 4 theorems (Mathlib character orthogonality) + naive-DFT correspondence",
        ref="DESIGN.md §5 C16",
    ),
    "C17": dict(
        category="proof",
        text="Theorems over the reals about the closed-form lines of get_length_scale REGENERATED on every run (mean_length, peak_length, the default smoothing width, droplet_length): the moment-based length is multiplied by lambda when all wave numbers are divided by lambda and is unchanged when the structure factor is multiplied by a constant; the peak length is 2 pi / k* and stretches with the grid when the maximiser scales; the default smoothing width scales like 1/lambda, i.e. is a wave number (default_sigma_covariant - false for the code before the D10 repair, whose default was 0.01 dx); if the smoother is covariant and the width scales like 1/lambda the maximiser scales like 1/lambda; the droplet-counting length is (volume/count)^(1/d) and is multiplied by lambda when all axes are stretched. The generated formulas are evaluated at Float on the tapped intermediate values (structure factor, maximiser, width, count) and must reproduce the returned length; on the real code: stretching over 4 orders of magnitude, field scaling, periodic shifts, plane waves with every admissible mode x spacings over 4-6 orders of magnitude (finite, within half a Fourier bin), droplet-counting formula. Exposed D10 (fixed in /repo 33e2c43); droplet counting on images with winding/overlapping components is a known finding.",
        note="Trusted: Lean kernel; propext/Classical.choice/Quot.sound; the translator (monitored by the Float correspondence); SmoothData1D's scale covariance and scipy.optimize.minimize_scalar (contracts, monitored by the stretching runs); structure-factor invariances are C16's; the half-bin accuracy of the peak method is numerical and validated by runs only.",
        technique="Lean 4 theorems over regenerated definitions (translator) + tapped Float correspondence + covariance runs",
        ref="DESIGN.md §5 C17",
    ),
    "C04": dict(
        category="proof",
        text="Model of everything refine_droplet itself contributes: the free mask from the grid's coordinate constraints, the per-class bounds (radius >= 0, width >= 0, amplitudes in [-1,1], positions free), the starting point with or without fitted intensity levels, scattering the solver's answer back into the record, and - around the solver call - the promotion of the candidate (a width that is SET, even 0, is what the fit starts from; only an unset width becomes the grid's typical discretisation: promote_width) and the final wrapping of the position with numpy's floored modulo (wrap1_in_box: the result lies in [lo, lo+L) and differs by whole periods; wrap1_id; wrapPos_spec per axis; refineResult_tail: only the position is touched). Theorems: constrained coordinates are never written whatever the solver returns (refine_constrained_untouched); scatter(select) = id, i.e. a solver that stays at its start returns the candidate (scatter_select); the written entries are exactly the answer (select_scatter); the bounds say what the property requires (bounds_spec); the starting point is feasible for every valid candidate and vmin <= vmax, with and without fitted levels (refinePlan_x0_feasible; the pre-repair starting point is refuted by old_x0_infeasible_witness, D11); under the solver contract SolverOK the cost does not increase and the answer is inside the bounds. The solver is wrapped as seen from droplets.image_analysis: the model receives the candidate AS GIVEN (class, width set or not) and x0/lb/ub must equal its plan bit for bit, the returned droplet must equal refineResult(answer) including the wrap, SolverOK is monitored; class, bounds, untouched coordinates, wrapped position, unmodified image, fixed point and cost are checked on every fit over all grid families (incl. candidates given by their periodic image outside the box and periodic cylinders), all five classes, sharp / unset / positive widths and all option combinations.",
        note="Trusted: Lean kernel; propext/Classical.choice/Quot.sound; scipy.optimize.least_squares satisfies SolverOK (monitored, not proved); binary_dilation/rendering define the fitted region (rendering is C03's); grid.normalize_point for the final wrap.",
        technique="Lean 4 theorems about a hand-written executable model + exact correspondence on the tapped solver call",
        ref="DESIGN.md §5 C04",
    ),
    "C01": dict(
        category="proof",
        text="THE PROPERTY IS PROVED FOR THE MODEL PIPELINE FROM PHYSICAL HYPOTHESES ONLY (C01_emulsion_model): any number of droplets on any well-formed Cartesian grid (any dimension >= 1, anisotropic spacing, any periodicity mask, centres inside or outside the box) whose centres are pairwise at least R_i + R_j + h apart under the grid's periodic metric (h >= every cell size: 'well-separated') and which are resolved (periodic axes: 2(R+dx) <= L; other axes: sphere inside the box) - then for every droplet that covers a cell centre the pipeline rendering -> labelling -> periodic merging forms ONE cluster consisting of exactly the cells the droplet covers, its volume is the number of covered cells (x cell volume) and its position in grid coordinates lies within HALF A CELL of the droplet's centre along every axis, up to whole periods along periodic axes only. Ingredients, all kernel-checked: the covered cells are one component of the grid's topology for every grid/centre/radius (ball_connected: descent along face steps that never increase the distance, unique nearest cell per axis also across periodic boundaries - Lemmas/BallConn); distant centres => no shared and no face-adjacent covered cells (separated_of_distance: minimal periodic representative + Minkowski in squared form); components of the union image = droplets (emulsion_components) => clusters by C02's locateMask_topology; the wrap counts of the periodic differences are a consistent lift (comp_lift_consistent) => C02's position theorem gives centre + mean periodic offset + whole periods, none along non-periodic axes (off_zero_along); the cells of every grid line are all points of an arithmetic progression inside a ball, in explicit bijection with an integer run also across the periodic boundary (fibre_mean, progression_mean, lattice_run_mean) summed over the grid lines (ball_offset_mean). For one droplet the EXECUTED function returns a list with exactly one entry carrying the number of covered cells (locateMask_single). The image is what rendering and thresholding at the midpoint produce (threshold_of_render_is_ball, C03). Radial grids: the located radius m dr is within dr/2 of R (C01_radial) and the sphere of that radius has exactly the volume of the covered shells (shells_telescope). The model pipeline (exact rational inside -> verified labeller -> merge loop, all inside Lean up to 600 cells) is run against the real get_phasefield -> locate_droplets; predicates: count, exact volume, half-spacing bound per axis under an independent periodic metric, position inside the box, on Cartesian 1-3-D (all periodicities, anisotropic, offsets, straddling and corner droplets on grids with unequal cell counts), polar/spherical (centred) and cylindrical (on-axis) grids; exhaustive lattice offsets in the thorough tier. Exposed D2 (fixed in /repo a0c22cd).",
        note="Trusted: Lean kernel; propext/Classical.choice/Quot.sound; the correspondence model pipeline <-> real code (scipy labelling/centre of mass, grid.transform/normalize_point, from_volume at Float: 1e-12 / 1e-9). NOT proved: that the overlap filter keeps every cluster (it compares equal-volume spheres: needs cube roots; checked on the implementation) and the volume -> radius conversion (C12's theorems); cylindrical grids are checked on the implementation (model: C09 dispatch + C02 periodic-cylinder stream).",
        technique="Lean 4 theorems (end-to-end emulsion theorem for the model pipeline, radial lemmas) + model-pipeline correspondence + independent-metric predicates",
        ref="DESIGN.md §0.2a, §5 C01",
    ),
    "C09": dict(
        category="proof",
        text="Totality face of the models. Proved here: the dispatch of locate_droplets / locate_droplets_in_mask raises exactly the documented errors (TypeError for a non-ScalarField, ValueError for modes in 1-D, NotImplementedError/ValueError for unsupported grids) and returns otherwise (locate_documented_errors, locate_total); the cylindrical branches return for every cluster configuration, periodic or not, spanning or not, and give an empty result when no cluster touches the axis (cyl_total, cyl_none_on_axis). Re-exported so that breaking them breaks C09: rendering finite (C03), tracking total incl. empty frames (C06), class table incl. the documented error (C19), feasible fit start (C04), length-scale tracker total (C14). The outcome class of the real entry points is compared with the model on a fuzzed stream (9 field kinds x all grid families from 1 cell up x all option combinations incl. refine with fitted/automatic levels), malformed inputs, random cylindrical masks, rendering of all classes, tracking of random time courses; every returned parameter must be finite. Exposed D5, D16 (empty fit region), D17 (zero intensity range) - all fixed in /repo - besides D3, D4, D6, D11 found with other properties.",
        note="Trusted: Lean kernel; propext/Classical.choice/Quot.sound; exceptions raised inside scipy/numba/py-pde for reasons other than the modelled preconditions are observed by the fuzz stream, not excluded by proof; finiteness of fitted parameters is observed, not proved.",
        technique="Lean 4 totality theorems over hand-written models + outcome-class correspondence on a fuzzed stream",
        ref="DESIGN.md §5 C09",
    ),
    "C05": dict(
        category="other",
        text="The recovery clause (relative error below 1e-4) is a statement about the convergence of scipy's floating-point trust-region solver from a half-cell-accurate start; it is NOT a theorem and is validated here by differential runs of the real locate_droplets(refine=True) against the idealised model locate(render(E)) = E with the property's own tolerance (all grid families, periodicities, spacing ratios <= 1.5, centres across periodic faces, 1-4 droplets, every threshold rule, levels default / supplied / fitted under affine intensity maps; observed worst relative error ~1e-8). The Lean part (Props/C05.lean over definitions REGENERATED from _image_deviation and get_phase_field) proves the logic recovery depends on: the ground truth is a zero of the residual for supplied and for fitted levels (truth_zero_residual) - so it is a global minimiser of cost 0 inside the bounds -, zero residual pins the profile (zero_residual_iff_same_profile, profile_injective), the start is feasible (C04) and within half a cell (C01). These do detect the realistic logic mutations (renderer/fit-model mismatch, wrong initial guess, wrong free mask).",
        note="Not decided by proof: convergence and accuracy of scipy.optimize.least_squares. Trusted for the Lean part: kernel, standard axioms, translator (monitored by evaluating the regenerated residual at Float on the vectors the real code evaluates).",
        technique="differential recovery runs (testing) + Lean 4 theorems over regenerated residual/renderer for the supporting logic",
        ref="DESIGN.md §5 C05",
    ),
}

NOT_APPLICABLE = {}

def main():
    m = {
        "version": 1,
        "setup_cmd": "cd lean && /venv/bin/python ../tools/py2lean.py && lake build DropletsVerif driver",
        "hooks": {
            "guard": "PY_DROPLETS_VERIF",
            "enable": "no source hooks are needed: the harness taps library calls by monkey-patching inside its own process (PY_DROPLETS_VERIF is reserved and unused)",
            "baseline_off_cmd": "cd /repo && /venv/bin/python -m pytest -ra -q -p no:cacheprovider --timeout=900 --continue-on-collection-errors",
            "source_commits": [],
            "add_only": True,
        },
        "engines": [
            {"name": "lean-model", "path": "lean/", "serves_properties": sorted(CHECKS), "kind_free_text": "Lean 4 models (hand-written + regenerated by tools/py2lean.py), property theorems in lean/DropletsVerif/Props, compiled line-protocol driver"},
            {"name": "harness", "path": "harness/", "serves_properties": sorted(CHECKS), "kind_free_text": "Python correspondence harness running the real code in-process against the Lean driver, property predicates, failing-input search"},
        ],
        "checks": [],
        "not_applicable": [],
        "notes": "Technique family: machine-checked proof in Lean 4. See DESIGN.md.",
    }
    for p in props:
        pid = p["id"]
        if pid in CHECKS:
            c = CHECKS[pid]
            m["checks"].append({
                "property_id": pid,
                "quick_cmd": f"./check {pid} --tier quick",
                "thorough_cmd": f"./check {pid} --tier thorough",
                "evidence_file": f"evidence/{pid}.json",
                "replay_cmd_template": f"./check {pid} --replay {{path}}",
                "engine": "lean-model",
                "level_claimed": {"category": c["category"], "text": c["text"], "design_ref": c["ref"]},
                "level_note": c["note"],
                "technique": c["technique"],
            })
        else:
            m["not_applicable"].append({"property_id": pid, "reason": NOT_APPLICABLE.get(pid, "check under construction (framework being built in the order of DESIGN.md §7); not claimed yet")})
    (V / "MANIFEST.json").write_text(json.dumps(m, indent=1))

main()
