#!/venv/bin/python
"""py2lean — regenerate the Lean formula models from the CURRENT /repo source.

For a fixed whitelist of closed-form functions of py-droplets the Python AST is read from the
working tree (never from an installed copy or a cache) and translated into Lean 4 definitions
over the law-free operation class `DV.DNum α` (lean/DropletsVerif/Num.lean).  The theorems in
lean/DropletsVerif/Props/*.lean are stated about these generated definitions, so they are
re-checked against what the code says now on every run.

Supported fragment (anything else -> the function is emitted as `DNum.untranslated`, which no
theorem can say anything about, and the reason is recorded in Generated/MANIFEST.json):
  arithmetic + - * / unary -, ** with a literal/closed exponent, np.sqrt/tanh/sin/cos/hypot,
  np.pi / π, np.sum(x**2) over the amplitude list, if/elif/else on `dim == k` and on scalar
  comparisons, return, raise, local assignment, augmented assignment to accumulators, the two
  for-loops over amplitudes (`enumerate(iterate_in_pairs(amps), 1)` and `enumerate(amps, 1)`),
  attribute reads of records (`self.radius`, `drop1.position`), record writes in statement
  order (merge_data), calls to other translated functions.
"""
from __future__ import annotations

import ast
import hashlib
import json
import os
import sys
import textwrap
from decimal import Decimal
from fractions import Fraction
from pathlib import Path

REPO = Path(os.environ.get("VERIF_REPO", "/repo"))
OUT = Path(__file__).resolve().parent.parent / "lean" / "DropletsVerif" / "Generated"


class Untranslatable(Exception):
    pass


# ----------------------------------------------------------------------------------------
# source access
# ----------------------------------------------------------------------------------------

_trees: dict[str, ast.Module] = {}


def module_tree(relpath: str) -> ast.Module:
    if relpath not in _trees:
        if relpath.startswith("pde:"):
            import importlib.util

            spec = importlib.util.find_spec(relpath[4:])
            src = Path(spec.origin).read_text()
        else:
            src = (REPO / relpath).read_text()
        _trees[relpath] = ast.parse(src)
    return _trees[relpath]


def find_def(tree: ast.AST, path: str) -> ast.FunctionDef:
    """path like 'SphericalDroplet.volume' / 'make_x.inner' / 'Class.volume@setter'."""
    node: ast.AST = tree
    parts = path.split(".")
    for i, part in enumerate(parts):
        want_setter = part.endswith("@setter")
        name = part.replace("@setter", "")
        found = None
        for child in ast.walk(node) if i > 0 and isinstance(node, ast.FunctionDef) else ast.iter_child_nodes(node):
            if isinstance(child, (ast.FunctionDef, ast.ClassDef)) and child.name == name and child is not node:
                if isinstance(child, ast.FunctionDef):
                    is_setter = any(
                        isinstance(d, ast.Attribute) and d.attr == "setter" for d in child.decorator_list
                    )
                    if is_setter != want_setter:
                        continue
                found = child
                break
        if found is None:
            raise Untranslatable(f"definition {path} not found")
        node = found
    if not isinstance(node, ast.FunctionDef):
        raise Untranslatable(f"{path} is not a function")
    return node


def ast_hash(node: ast.AST) -> str:
    return hashlib.sha256(ast.dump(node, include_attributes=False).encode()).hexdigest()[:16]


# ----------------------------------------------------------------------------------------
# expression translation
# ----------------------------------------------------------------------------------------


def lit(n: int) -> str:
    if n < 0:
        return f"(-(DNum.lit {-n}))"
    return f"(DNum.lit {n})"


def const(c) -> str:
    if isinstance(c, bool):
        raise Untranslatable("bool constant in numeric position")
    if isinstance(c, int):
        return lit(c)
    if isinstance(c, float):
        fr = Fraction(Decimal(repr(c)))
        if fr.denominator == 1:
            return lit(fr.numerator)
        return f"({lit(fr.numerator)} / {lit(fr.denominator)})"
    raise Untranslatable(f"constant {c!r}")


def dotted(node: ast.AST) -> str | None:
    if isinstance(node, ast.Name):
        return node.id
    if isinstance(node, ast.Attribute):
        base = dotted(node.value)
        return None if base is None else base + "." + node.attr
    return None


class Ctx:
    """Translation context: python names -> (lean expression, type)."""

    def __init__(self, names: dict[str, tuple[str, str]], funcs: dict[str, tuple[str, str]] | None = None):
        self.names = dict(names)  # dotted python name -> (lean, type in {num,nat,list,bool})
        self.funcs = dict(funcs or {})  # dotted python callee -> (lean function, 'res'|'pure')
        self.counter = 0

    def fresh(self, base: str) -> str:
        self.counter += 1
        return f"{base}_{self.counter}"

    def copy(self) -> "Ctx":
        c = Ctx(self.names, self.funcs)
        c.counter = self.counter
        return c


PI_NAMES = {"π", "np.pi", "math.pi", "numpy.pi"}
UNARY_FUNCS = {
    "np.sqrt": "DNum.sqrt",
    "math.sqrt": "DNum.sqrt",
    "np.tanh": "DNum.tanh",
    "np.sin": "DNum.sin",
    "np.cos": "DNum.cos",
}


def closed_exponent(node: ast.AST, ctx: Ctx):
    """Return an int if the exponent is a literal natural number, else None."""
    if isinstance(node, ast.Constant) and isinstance(node.value, int) and not isinstance(node.value, bool):
        if node.value >= 0:
            return node.value
    return None


def expr(node: ast.AST, ctx: Ctx) -> str:
    """Translate a numeric expression (type num)."""
    if isinstance(node, ast.Constant):
        return const(node.value)
    d = dotted(node)
    if d is not None:
        if d in PI_NAMES:
            return "DNum.pi"
        if d in ctx.names:
            lean, ty = ctx.names[d]
            if ty == "num":
                return lean
            if ty == "nat":
                return f"(DNum.lit {lean})"
            raise Untranslatable(f"{d} has type {ty} in numeric position")
        raise Untranslatable(f"unknown name {d}")
    if isinstance(node, ast.BinOp):
        if isinstance(node.op, ast.Pow):
            base = expr(node.left, ctx)
            n = closed_exponent(node.right, ctx)
            if n is not None:
                return f"(DNum.npow {base} {n})"
            return f"(DNum.rpow {base} {expr(node.right, ctx)})"
        ops = {ast.Add: "+", ast.Sub: "-", ast.Mult: "*", ast.Div: "/"}
        for k, v in ops.items():
            if isinstance(node.op, k):
                return f"({expr(node.left, ctx)} {v} {expr(node.right, ctx)})"
        raise Untranslatable(f"operator {type(node.op).__name__}")
    if isinstance(node, ast.UnaryOp):
        if isinstance(node.op, ast.USub):
            return f"(-{expr(node.operand, ctx)})"
        if isinstance(node.op, ast.UAdd):
            return expr(node.operand, ctx)
        raise Untranslatable("unary operator")
    if isinstance(node, ast.Call):
        f = dotted(node.func)
        if f in UNARY_FUNCS and len(node.args) == 1 and not node.keywords:
            return f"({UNARY_FUNCS[f]} {expr(node.args[0], ctx)})"
        if f == "np.hypot" and len(node.args) == 2:
            a, b = (expr(x, ctx) for x in node.args)
            return f"(DNum.sqrt ((DNum.npow {a} 2) + (DNum.npow {b} 2)))"
        if f in ("float", "int") and len(node.args) == 1:
            return expr(node.args[0], ctx)
        if f in ("abs", "np.abs") and len(node.args) == 1:
            a = expr(node.args[0], ctx)
            return f"(if DNum.lt {a} (DNum.lit 0) = true then (-{a}) else {a})"
        if f == "len" and len(node.args) == 1:
            d2 = dotted(node.args[0])
            if d2 in ctx.names and ctx.names[d2][1] == "list":
                return f"(DNum.lit ({ctx.names[d2][0]}).length)"
            if d2 in ctx.names and ctx.names[d2][1] == "lennat":
                return f"(DNum.lit {ctx.names[d2][0]})"
        if f == "np.sum" and len(node.args) == 1:
            # np.sum(amps ** 2)
            a = node.args[0]
            if (
                isinstance(a, ast.BinOp)
                and isinstance(a.op, ast.Pow)
                and dotted(a.left) in ctx.names
                and ctx.names[dotted(a.left)][1] == "list"
                and closed_exponent(a.right, ctx) is not None
            ):
                xs = ctx.names[dotted(a.left)][0]
                n = closed_exponent(a.right, ctx)
                return f"(List.foldl (fun acc x => acc + (DNum.npow x {n})) (DNum.lit 0) {xs})"
        if f in ctx.funcs and ctx.funcs[f][1] == "pure":
            args = " ".join(argexpr(a, ctx) for a in node.args)
            return f"({ctx.funcs[f][0]} {args})"
        raise Untranslatable(f"call to {f}")
    if isinstance(node, ast.IfExp):
        return f"(if {cond(node.test, ctx)} then {expr(node.body, ctx)} else {expr(node.orelse, ctx)})"
    if isinstance(node, ast.Subscript):
        d = dotted(node.value)
        if d in ctx.names and ctx.names[d][1] == "list":
            idx = node.slice
            if isinstance(idx, ast.Constant) and isinstance(idx.value, int) and idx.value >= 0:
                return f"(({ctx.names[d][0]}).getD {idx.value} (DNum.lit 0))"
        raise Untranslatable("subscript")
    raise Untranslatable(f"expression {type(node).__name__}")


def argexpr(node: ast.AST, ctx: Ctx) -> str:
    """Argument of a call: numeric, or a nat variable passed as nat."""
    d = dotted(node)
    if d is not None and d in ctx.names and ctx.names[d][1] in ("nat", "list"):
        return ctx.names[d][0]
    if isinstance(node, ast.Constant) and isinstance(node.value, int) and getattr(node, "_as_nat", False):
        return str(node.value)
    return expr(node, ctx)


def cond(node: ast.AST, ctx: Ctx) -> str:
    """Translate a test to a Lean `Bool`/decidable Prop usable after `if`."""
    if isinstance(node, ast.Compare) and len(node.ops) == 1:
        l, r, op = node.left, node.comparators[0], node.ops[0]
        dl = dotted(l)
        is_nat = (
            dl in ctx.names
            and ctx.names[dl][1] == "nat"
            and isinstance(r, ast.Constant)
            and isinstance(r.value, int)
        )
        if is_nat:
            sym = {ast.Eq: "=", ast.NotEq: "≠", ast.Lt: "<", ast.Gt: ">", ast.LtE: "≤", ast.GtE: "≥"}
            for k, v in sym.items():
                if isinstance(op, k):
                    return f"{ctx.names[dl][0]} {v} {r.value}"
        if isinstance(l, ast.Call) and dotted(l.func) == "len" and isinstance(r, ast.Constant):
            d2 = dotted(l.args[0])
            if d2 in ctx.names and ctx.names[d2][1] == "list":
                sym = {ast.Eq: "=", ast.NotEq: "≠", ast.Lt: "<", ast.Gt: ">", ast.LtE: "≤", ast.GtE: "≥"}
                for k, v in sym.items():
                    if isinstance(op, k):
                        return f"({ctx.names[d2][0]}).length {v} {r.value}"
        a, b = expr(l, ctx), expr(r, ctx)
        if isinstance(op, ast.Lt):
            return f"DNum.lt {a} {b} = true"
        if isinstance(op, ast.Gt):
            return f"DNum.lt {b} {a} = true"
        if isinstance(op, ast.NotEq) and isinstance(r, ast.Constant) and r.value == 0:
            return f"DNum.eqz {a} = false"
        if isinstance(op, ast.Eq) and isinstance(r, ast.Constant) and r.value == 0:
            return f"DNum.eqz {a} = true"
        raise Untranslatable("comparison")
    raise Untranslatable(f"condition {type(node).__name__}")


def is_isinstance_ndarray(node: ast.AST) -> bool:
    return (
        isinstance(node, ast.Call)
        and dotted(node.func) == "isinstance"
        and len(node.args) == 2
        and dotted(node.args[1]) in ("np.ndarray", "nb.types.Array")
    )


# ----------------------------------------------------------------------------------------
# statement blocks -> `Res τ` terms   (continuation style so that fall-through is faithful)
# ----------------------------------------------------------------------------------------


def strip_doc(body: list[ast.stmt]) -> list[ast.stmt]:
    if body and isinstance(body[0], ast.Expr) and isinstance(body[0].value, ast.Constant) and isinstance(body[0].value.value, str):
        return body[1:]
    return body


def exc_name(node: ast.Raise) -> str:
    e = node.exc
    if isinstance(e, ast.Call):
        e = e.func
    d = dotted(e) if e is not None else None
    return d or "Exception"


class BlockT:
    """Translate a statement list returning a scalar (or tuple / bool) into a Res term."""

    def __init__(self, ret: str = "num", local_defs: dict[str, ast.FunctionDef] | None = None):
        self.ret = ret
        self.local_defs = local_defs or {}

    def ret_expr(self, node: ast.AST, ctx: Ctx) -> str:
        """value expression of a `return` (may be a Res-call)."""
        if self.ret == "bool":
            return f".ok (decide ({cond(node, ctx)}))"
        if self.ret == "pair":
            if isinstance(node, ast.Call) and dotted(node.func) == "Cuboid.from_points" and len(node.args) == 2:
                return f".ok ({expr(node.args[0], ctx)}, {expr(node.args[1], ctx)})"
            if isinstance(node, ast.Tuple) and len(node.elts) == 2:
                return f".ok ({expr(node.elts[0], ctx)}, {expr(node.elts[1], ctx)})"
            raise Untranslatable("pair return")
        rc = self.res_call(node, ctx)
        if rc is not None:
            return rc
        return f".ok {expr(node, ctx)}"

    def res_call(self, node: ast.AST, ctx: Ctx) -> str | None:
        """If node is a call to a Res-valued translated function or a local def, its term."""
        if isinstance(node, ast.Call):
            f = dotted(node.func)
            if f in ctx.funcs and ctx.funcs[f][1] == "res":
                args = " ".join(argexpr(a, ctx) for a in node.args)
                for kw in node.keywords:
                    args += " " + argexpr(kw.value, ctx)
                return f"({ctx.funcs[f][0]} {args})"
            if f in self.local_defs:
                fd = self.local_defs[f]
                sub = ctx.copy()
                params = [a.arg for a in fd.args.args]
                if len(params) != len(node.args):
                    raise Untranslatable("arity of local call")
                binds = []
                for p, a in zip(params, node.args):
                    v = sub.fresh(p)
                    binds.append(f"let {v} := {expr(a, ctx)}; ")
                    sub.names[p] = (v, "num")
                return "(" + "".join(binds) + self.block(strip_doc(fd.body), sub) + ")"
        return None

    def block(self, stmts: list[ast.stmt], ctx: Ctx) -> str:
        if not stmts:
            return '.error "fallthrough"'
        s, rest = stmts[0], stmts[1:]
        if isinstance(s, ast.Return):
            if s.value is None:
                raise Untranslatable("bare return")
            return self.ret_expr(s.value, ctx)
        if isinstance(s, ast.Raise):
            return f'.error "{exc_name(s)}"'
        if isinstance(s, ast.If):
            if is_isinstance_ndarray(s.test):
                # scalar reading of an array/scalar dispatch: the non-array branch
                return self.block(list(s.orelse) + rest, ctx)
            c = cond(s.test, ctx)
            a = self.block(list(s.body) + rest, ctx.copy())
            b = self.block(list(s.orelse) + rest, ctx.copy())
            return f"(if {c} then {a} else {b})"
        if (
            isinstance(s, ast.Assign)
            and isinstance(s.value, (ast.JoinedStr, ast.Constant))
            and (isinstance(s.value, ast.JoinedStr) or isinstance(s.value.value, str))
        ):
            return self.block(rest, ctx)  # message strings of exceptions carry no semantics
        if isinstance(s, ast.Assign) and len(s.targets) == 1 and isinstance(s.targets[0], ast.Name):
            name = s.targets[0].id
            v = ctx.fresh(name)
            rc = self.res_call(s.value, ctx)
            sub = ctx.copy()
            sub.counter = ctx.counter
            sub.names[name] = (v, "num")
            if rc is not None:
                return f"(Except.bind {rc} (fun {v} => {self.block(rest, sub)}))"
            return f"(let {v} := {expr(s.value, ctx)}; {self.block(rest, sub)})"
        if isinstance(s, ast.AugAssign) and isinstance(s.target, ast.Name):
            name = s.target.id
            if name not in ctx.names:
                raise Untranslatable("augmented assignment to unknown")
            op = {ast.Add: "+", ast.Sub: "-", ast.Mult: "*", ast.Div: "/"}.get(type(s.op))
            if op is None:
                raise Untranslatable("augmented operator")
            v = ctx.fresh(name)
            sub = ctx.copy()
            sub.counter = ctx.counter
            sub.names[name] = (v, "num")
            return f"(let {v} := ({ctx.names[name][0]} {op} {expr(s.value, ctx)}); {self.block(rest, sub)})"
        if isinstance(s, ast.Assign) and len(s.targets) == 1 and dotted(s.targets[0]) == "self.radius":
            # a setter: the new radius is the result
            return self.ret_expr(s.value, ctx)
        if isinstance(s, ast.Expr) and isinstance(s.value, ast.Constant):
            return self.block(rest, ctx)
        if isinstance(s, ast.FunctionDef):
            self.local_defs = dict(self.local_defs)
            self.local_defs[s.name] = s
            return self.block(rest, ctx)
        raise Untranslatable(f"statement {type(s).__name__}")


RET_TY = {"num": "α", "bool": "Bool", "pair": "(α × α)"}


def lean_params(params: list[tuple[str, str, str]]) -> str:
    tymap = {"num": "α", "nat": "Nat", "list": "List α"}
    return " ".join(f"({lean} : {tymap[ty]})" for _, lean, ty in params)


def emit_def(name: str, params: list[tuple[str, str, str]], body: str, ret: str = "num") -> str:
    return f"def {name} {{α : Type}} [DNum α] {lean_params(params)} : Res {RET_TY[ret]} :=\n  {body}\n"


def emit_stub(name: str, params: list[tuple[str, str, str]], ret: str, why: str) -> str:
    val = {"num": ".ok DNum.untranslated", "bool": ".error \"untranslated\"", "pair": ".ok (DNum.untranslated, DNum.untranslated)"}[ret]
    return f"/- UNTRANSLATED: {why} -/\n" + emit_def(name, params, val, ret)


# ----------------------------------------------------------------------------------------
# the whitelist
# ----------------------------------------------------------------------------------------

SPH = "droplets/tools/spherical.py"
DRP = "droplets/droplets.py"

SPHERICAL_FUNCS = {
    "spherical.volume_from_radius": ("Gen.volume_from_radius_pde", "res"),
    "spherical.radius_from_volume": ("Gen.radius_from_volume", "res"),
    "spherical.surface_from_radius": ("Gen.surface_from_radius", "res"),
    "volume_from_radius": ("Gen.volume_from_radius_nd", "res"),  # closure variables of merge_data
    "radius_from_volume": ("Gen.radius_from_volume_nd", "res"),
}


def P(*triples):
    return [tuple(t) for t in triples]


class Item:
    def __init__(self, lean_name, module, path, params, ret="num", kind="fn", extra=None):
        self.lean_name, self.module, self.path = lean_name, module, path
        self.params, self.ret, self.kind, self.extra = params, ret, kind, extra or {}


def translate_fn(item: Item, record: dict) -> str:
    """plain function / method: body block -> Res."""
    try:
        fd = find_def(module_tree(item.module), item.path)
        record[item.lean_name] = {"source": f"{item.module}:{item.path}", "ast_sha": ast_hash(fd), "status": "ok"}
        ctx = Ctx({py: (lean, ty) for py, lean, ty in item.params}, {**SPHERICAL_FUNCS, **item.extra.get("funcs", {})})
        body = BlockT(item.ret).block(strip_doc(fd.body), ctx)
        return emit_def(item.lean_name, item.params, body, item.ret)
    except Untranslatable as e:
        record[item.lean_name] = {"source": f"{item.module}:{item.path}", "status": "untranslated", "why": str(e)}
        return emit_stub(item.lean_name, item.params, item.ret, str(e))


def translate_factory(item: Item, record: dict) -> str:
    """`make_*_compiled(dim)`: if/elif chain on dim, each branch defining the inner function;
    the function named by the final `return jit(<name>)`/`return <name>` is the result."""
    try:
        fd = find_def(module_tree(item.module), item.path)
        record[item.lean_name] = {"source": f"{item.module}:{item.path}", "ast_sha": ast_hash(fd), "status": "ok"}
        body = strip_doc(fd.body)
        body = [s for s in body if not isinstance(s, (ast.Import, ast.ImportFrom))]
        # the returned name
        last = body[-1]
        if not isinstance(last, ast.Return):
            raise Untranslatable("factory does not end in return")
        rv = last.value
        if isinstance(rv, ast.Call) and len(rv.args) == 1:
            rv = rv.args[0]
        result_name = dotted(rv)
        if result_name is None:
            raise Untranslatable("factory result")
        inner_param = item.params[1]
        ctx0 = Ctx({item.params[0][0]: (item.params[0][1], "nat")}, SPHERICAL_FUNCS)

        def branch(stmts: list[ast.stmt]) -> str:
            stmts = [s for s in stmts if not isinstance(s, (ast.Import, ast.ImportFrom))]
            defs = {s.name: s for s in stmts if isinstance(s, ast.FunctionDef)}
            others = [s for s in stmts if not isinstance(s, ast.FunctionDef)]
            if len(others) == 1 and isinstance(others[0], ast.Raise):
                return f'.error "{exc_name(others[0])}"'
            if len(others) == 1 and isinstance(others[0], ast.If):
                return chain(others[0])
            if others:
                raise Untranslatable("unexpected statement in factory branch")
            if result_name not in defs:
                raise Untranslatable("branch does not define the result function")
            f = defs[result_name]
            ps = [a.arg for a in f.args.args]
            if len(ps) != 1:
                raise Untranslatable("inner arity")
            ctx = ctx0.copy()
            ctx.names[ps[0]] = (inner_param[1], "num")
            return BlockT(item.ret, defs).block(strip_doc(f.body), ctx)

        def chain(node: ast.If) -> str:
            c = cond(node.test, ctx0)
            a = branch(list(node.body))
            b = branch(list(node.orelse))
            return f"(if {c} then {a} else {b})"

        pre = body[:-1]
        if len(pre) != 1 or not isinstance(pre[0], ast.If):
            raise Untranslatable("factory body is not a single if-chain")
        return emit_def(item.lean_name, item.params, chain(pre[0]), item.ret)
    except Untranslatable as e:
        record[item.lean_name] = {"source": f"{item.module}:{item.path}", "status": "untranslated", "why": str(e)}
        return emit_stub(item.lean_name, item.params, item.ret, str(e))


def gen_spherical(record: dict) -> str:
    out = [
        "/- GENERATED by tools/py2lean.py from droplets/tools/spherical.py, droplets/droplets.py and",
        "   pde.grids.spherical — do not edit. -/",
        "import DropletsVerif.Num",
        "namespace DV.Gen",
        "open DV",
        "",
    ]
    vol = ("volume", "volume", "num")
    rad = ("radius", "radius", "num")
    srf = ("surface", "surface", "num")
    dim = ("dim", "dim", "nat")
    items = [
        (translate_fn, Item("radius_from_volume", SPH, "radius_from_volume", P(vol, dim))),
        (translate_factory, Item("radius_from_volume_compiled", SPH, "make_radius_from_volume_compiled", P(dim, vol))),
        (translate_fn, Item("radius_from_volume_nd", SPH, "make_radius_from_volume_nd_compiled.radius_from_volume", P(vol, dim))),
        (translate_factory, Item("volume_from_radius_compiled", SPH, "make_volume_from_radius_compiled", P(dim, rad))),
        (translate_fn, Item("volume_from_radius_nd", SPH, "make_volume_from_radius_nd_compiled.volume_from_radius_impl", P(rad, dim))),
        (translate_fn, Item("volume_from_radius_pde", "pde:pde.grids.spherical", "volume_from_radius", P(rad, dim))),
        (translate_fn, Item("surface_from_radius", SPH, "surface_from_radius", P(rad, dim))),
        (translate_fn, Item("radius_from_surface", SPH, "radius_from_surface", P(srf, dim))),
        (translate_factory, Item("surface_from_radius_compiled", SPH, "make_surface_from_radius_compiled", P(dim, rad))),
    ]
    for fn, it in items:
        out.append(fn(it, record))
    # droplet properties (self.* become parameters)
    selfr = ("self.radius", "radius", "num")
    selfd = ("self.dim", "dim", "nat")
    selfp = ("self.position", "position", "num")
    ditems = [
        Item("droplet_volume", DRP, "SphericalDroplet.volume", P(selfr, selfd)),
        Item("droplet_set_volume", DRP, "SphericalDroplet.volume@setter", P(("volume", "volume", "num"), selfd)),
        Item("droplet_surface_area", DRP, "SphericalDroplet.surface_area", P(selfr, selfd)),
        Item("droplet_curvature", DRP, "SphericalDroplet.interface_curvature", P(selfr)),
        Item("droplet_bbox", DRP, "SphericalDroplet.bbox", P(selfp, selfr), ret="pair"),
    ]
    for it in ditems:
        out.append(translate_fn(it, record))
    out.append("end DV.Gen\n")
    return "\n".join(out)


# ----------------------------------------------------------------------------------------
# merge_data (record writes in statement order, possible aliasing out ≡ drop1)
# ----------------------------------------------------------------------------------------


def gen_merge(record: dict) -> str:
    """Translate both `merge_data` closures.

    The record is modelled for ONE coordinate of the position (the code treats coordinates
    uniformly through numpy broadcasting): `Rec α = {pos, radius, width}`.  The function is
    generated twice: `merge_copy` (out is a fresh record) and `merge_inplace` (out ≡ drop1: every
    read of drop1.* AFTER a write to out.* sees the written value), both by replaying the
    statements in order on an explicit state."""
    out = [
        "/- GENERATED by tools/py2lean.py from droplets/droplets.py (_make_merge_data) — do not edit. -/",
        "import DropletsVerif.Generated.Spherical",
        "namespace DV.Gen",
        "open DV",
        "",
        "structure Rec (α : Type) where",
        "  pos : α",
        "  radius : α",
        "  width : α",
        "",
    ]

    def run(alias: bool, lean_name: str, with_width: bool) -> str:
        key = lean_name
        try:
            fd = find_def(module_tree(DRP), "SphericalDroplet._make_merge_data.merge_data")
            stmts = strip_doc(fd.body)
            h = ast_hash(fd)
            if with_width:
                fd2 = find_def(module_tree(DRP), "DiffuseDroplet._make_merge_data.merge_data")
                st2 = strip_doc(fd2.body)
                h += "+" + ast_hash(fd2)
                # first statement must be parent_merge(drop1, drop2, out)
                first = st2[0]
                ok = (
                    isinstance(first, ast.Expr)
                    and isinstance(first.value, ast.Call)
                    and dotted(first.value.func) == "parent_merge"
                    and [dotted(a) for a in first.value.args] == ["drop1", "drop2", "out"]
                )
                if not ok:
                    raise Untranslatable("DiffuseDroplet.merge_data does not start with parent_merge(drop1, drop2, out)")
                stmts = stmts + st2[1:]
            record[key] = {"source": f"{DRP}:_make_merge_data.merge_data", "ast_sha": h, "status": "ok"}
            # state: lean expressions for the current value of each record field
            state = {
                "drop1.position": "d1.pos", "drop1.radius": "d1.radius", "drop1.interface_width": "d1.width",
                "drop2.position": "d2.pos", "drop2.radius": "d2.radius", "drop2.interface_width": "d2.width",
                "out.position": "o.pos", "out.radius": "o.radius", "out.interface_width": "o.width",
            }
            if alias:
                for f in ("position", "radius", "interface_width"):
                    state["out." + f] = state["drop1." + f]
            ctx = Ctx({k: (v, "num") for k, v in state.items()}, SPHERICAL_FUNCS)
            ctx.names["dim"] = ("dim", "nat")
            bt = BlockT("num")

            def go(rest: list[ast.stmt], ctx: Ctx) -> str:
                if not rest:
                    g = lambda f: ctx.names["out." + f][0]
                    return f".ok {{ pos := {g('position')}, radius := {g('radius')}, width := {g('interface_width')} }}"
                s, rest = rest[0], rest[1:]
                if isinstance(s, ast.Assign) and len(s.targets) == 1:
                    t = s.targets[0]
                    # dim = len(drop1.position)
                    if isinstance(t, ast.Name) and t.id == "dim":
                        v = s.value
                        if isinstance(v, ast.Call) and dotted(v.func) == "len" and dotted(v.args[0]) == "drop1.position":
                            return go(rest, ctx)
                        raise Untranslatable("dim is not len(drop1.position)")
                    target = dotted(t)
                    if target is None and isinstance(t, ast.Subscript):
                        target = dotted(t.value)  # out.position[...] = ...
                    if target is None:
                        raise Untranslatable("assignment target")
                    rc = bt.res_call(s.value, ctx)
                    v = ctx.fresh(target.replace(".", "_"))
                    sub = ctx.copy()
                    sub.counter = ctx.counter
                    if target.startswith("out."):
                        sub.names[target] = (v, "num")
                        if alias:
                            sub.names["drop1." + target[4:]] = (v, "num")
                    elif isinstance(t, ast.Name):
                        sub.names[target] = (v, "num")
                    else:
                        raise Untranslatable(f"write to {target}")
                    if rc is not None:
                        return f"(Except.bind {rc} (fun {v} =>\n    {go(rest, sub)}))"
                    return f"(let {v} := {expr(s.value, ctx)};\n    {go(rest, sub)})"
                if isinstance(s, ast.Expr) and isinstance(s.value, ast.Constant):
                    return go(rest, ctx)
                raise Untranslatable(f"statement {type(s).__name__} in merge_data")

            body = go(stmts, ctx)
            return (
                f"def {lean_name} {{α : Type}} [DNum α] (dim : Nat) (d1 d2 o : Rec α) : Res (Rec α) :=\n  {body}\n"
            )
        except Untranslatable as e:
            record[key] = {"source": f"{DRP}:_make_merge_data.merge_data", "status": "untranslated", "why": str(e)}
            return (
                f"/- UNTRANSLATED: {e} -/\n"
                f"def {lean_name} {{α : Type}} [DNum α] (dim : Nat) (d1 d2 o : Rec α) : Res (Rec α) :=\n"
                "  .ok { pos := DNum.untranslated, radius := DNum.untranslated, width := DNum.untranslated }\n"
            )

    out.append(run(False, "merge_copy", False))
    out.append(run(True, "merge_inplace", False))
    out.append(run(False, "merge_diffuse_copy", True))
    out.append(run(True, "merge_diffuse_inplace", True))
    out.append("end DV.Gen\n")
    return "\n".join(out)



# ----------------------------------------------------------------------------------------
# rendering profiles (C03): the expressions inside the three `_get_phase_field` and the scaling
# ----------------------------------------------------------------------------------------


def _is_sharp_condition(test: ast.AST) -> bool:
    """`interface_width == 0 or np.issubdtype(dtype, bool)`"""
    if not (isinstance(test, ast.BoolOp) and isinstance(test.op, ast.Or) and len(test.values) == 2):
        return False
    a, b = test.values
    ok_a = (isinstance(a, ast.Compare) and dotted(a.left) == "interface_width" and len(a.ops) == 1
            and isinstance(a.ops[0], ast.Eq) and isinstance(a.comparators[0], ast.Constant) and a.comparators[0].value == 0)
    ok_b = isinstance(b, ast.Call) and dotted(b.func) == "np.issubdtype" and [dotted(x) for x in b.args] == ["dtype", "bool"]
    return ok_a and ok_b


def _profile_of(fd: ast.FunctionDef, radius_name: str):
    """returns (sharp compare node, smooth expression node) of a `_get_phase_field` body"""
    for node in ast.walk(fd):
        if isinstance(node, ast.If) and _is_sharp_condition(node.test):
            if len(node.body) == 1 and len(node.orelse) == 1 and all(
                isinstance(x, ast.Assign) and dotted(x.targets[0]) == "result" for x in (node.body[0], node.orelse[0])
            ):
                return node.body[0].value, node.orelse[0].value
    raise Untranslatable("no `if interface_width == 0 or np.issubdtype(dtype, bool)` with result assignments")


def _none_width_default(fd: ast.FunctionDef) -> bool:
    """`if self.interface_width is None: interface_width = grid.typical_discretization else: … = self.interface_width`"""
    for node in ast.walk(fd):
        if (isinstance(node, ast.If) and isinstance(node.test, ast.Compare) and dotted(node.test.left) == "self.interface_width"
                and isinstance(node.test.ops[0], ast.Is) and isinstance(node.test.comparators[0], ast.Constant) and node.test.comparators[0].value is None):
            b, o = node.body[0], node.orelse[0]
            if (isinstance(b, ast.Assign) and dotted(b.value) == "grid.typical_discretization" and dotted(b.targets[0]) == "interface_width"
                    and isinstance(o, ast.Assign) and dotted(o.value) == "self.interface_width"):
                return True
    return False


def gen_profile(record: dict) -> str:
    out = [
        "/- GENERATED by tools/py2lean.py from droplets/droplets.py (_get_phase_field, get_phase_field) — do not edit. -/",
        "import DropletsVerif.Num",
        "namespace DV.Gen",
        "open DV",
        "",
    ]

    def emit(name, params, body, ret="α"):
        ps = " ".join(f"({p} : α)" for p in params)
        return f"def {name} {{α : Type}} [DNum α] {ps} : {ret} :=\n  {body}\n"

    def guarded(name, src, build, params, ret="α", stub=None):
        try:
            text, h = build()
            record[name] = {"source": src, "ast_sha": h, "status": "ok"}
            out.append(text)
        except Untranslatable as e:
            record[name] = {"source": src, "status": "untranslated", "why": str(e)}
            ps = " ".join(f"({p} : α)" for p in params)
            val = "DNum.untranslated" if ret == "α" else "false"
            out.append(f"/- UNTRANSLATED: {e} -/\ndef {name} {{α : Type}} [DNum α] {ps} : {ret} :=\n  {val}\n")

    tree = module_tree(DRP)
    # spherical: `(dist < self.radius).astype(dtype)`
    def spherical():
        fd = find_def(tree, "SphericalDroplet._get_phase_field")
        for node in ast.walk(fd):
            if isinstance(node, ast.Return) and isinstance(node.value, ast.Call) and isinstance(node.value.func, ast.Attribute) \
                    and node.value.func.attr == "astype" and isinstance(node.value.func.value, ast.Compare):
                ctx = Ctx({"dist": ("dist", "num"), "self.radius": ("R", "num")})
                return emit("spherical_inside", ["R", "dist"], f"decide ({cond(node.value.func.value, ctx)})", "Bool"), ast_hash(fd)
        raise Untranslatable("return (dist < self.radius).astype(dtype) not found")

    guarded("spherical_inside", f"{DRP}:SphericalDroplet._get_phase_field", spherical, ["R", "dist"], "Bool")

    for cls, rname, pyname in (("DiffuseDroplet", "diffuse", "self.radius"), ("PerturbedDropletBase", "perturbed", "interface")):
        def sharp(cls=cls, rname=rname, pyname=pyname):
            fd = find_def(tree, f"{cls}._get_phase_field")
            cmp_node, _ = _profile_of(fd, pyname)
            ctx = Ctx({"dist": ("dist", "num"), pyname: ("R", "num")})
            return emit(f"{rname}_inside", ["R", "dist"], f"decide ({cond(cmp_node, ctx)})", "Bool"), ast_hash(fd)

        def smooth(cls=cls, rname=rname, pyname=pyname):
            fd = find_def(tree, f"{cls}._get_phase_field")
            _, expr_node = _profile_of(fd, pyname)
            if not _none_width_default(fd):
                raise Untranslatable("the None-width default (grid.typical_discretization) is not the documented if/else")
            ctx = Ctx({"dist": ("dist", "num"), pyname: ("R", "num"), "interface_width": ("w", "num")})
            return emit(f"{rname}_smooth", ["R", "w", "dist"], expr(expr_node, ctx)), ast_hash(fd)

        guarded(f"{rname}_inside", f"{DRP}:{cls}._get_phase_field", sharp, ["R", "dist"], "Bool")
        guarded(f"{rname}_smooth", f"{DRP}:{cls}._get_phase_field", smooth, ["R", "w", "dist"])

    def scale():
        fd = find_def(tree, "SphericalDroplet.get_phase_field")
        for node in ast.walk(fd):
            if isinstance(node, ast.Assign) and dotted(node.targets[0]) == "data" and isinstance(node.value, ast.BinOp):
                ctx = Ctx({"vmin": ("vmin", "num"), "vmax": ("vmax", "num"), "data": ("x", "num")})
                return emit("scale_field", ["vmin", "vmax", "x"], expr(node.value, ctx)), ast_hash(fd)
        raise Untranslatable("data = vmin + (vmax - vmin) * data not found")

    guarded("scale_field", f"{DRP}:SphericalDroplet.get_phase_field", scale, ["vmin", "vmax", "x"])
    out.append("""/-- the branch structure shared by the diffuse and perturbed renderers:
`if interface_width == 0 or np.issubdtype(dtype, bool): dist < R  else: smooth profile` -/
def render_value {α : Type} [DNum α] (inside : α → α → Bool) (smooth : α → α → α → α)
    (R w dist : α) (boolDtype : Bool) : α :=
  if DNum.eqz w = true ∨ boolDtype = true then (if inside R dist = true then DNum.lit 1 else DNum.lit 0)
  else smooth R w dist
""")
    out.append("end DV.Gen\n")
    return "\n".join(out)


# ----------------------------------------------------------------------------------------
# perturbed droplets (C13): harmonic series, linearised curvature, volumes
# ----------------------------------------------------------------------------------------


def _init_value(node: ast.AST) -> str:
    """initial value of an accumulator: np.ones(..) -> 1, np.zeros(..)/0 -> 0, literal"""
    if isinstance(node, ast.Call) and dotted(node.func) in ("np.ones",):
        return lit(1)
    if isinstance(node, ast.Call) and dotted(node.func) in ("np.zeros",):
        return lit(0)
    if isinstance(node, ast.Constant) and isinstance(node.value, (int, float)) and not isinstance(node.value, bool):
        return const(node.value)
    raise Untranslatable("accumulator initialisation")


HARMONIC_CALLS = {"spherical.spherical_harmonic_real_k", "Yk", "spherical.spherical_harmonic_symmetric", "Yl"}


class LoopT:
    """translate  <acc> = init; for i,(a,b)|a in enumerate(..amplitudes.., 1): body; return f(acc)"""

    def __init__(self, fd: ast.FunctionDef, params: dict[str, tuple[str, str]]):
        self.fd, self.params = fd, params

    def expr(self, node: ast.AST, ctx: Ctx) -> str:
        # harmonics are uninterpreted: Y k
        if isinstance(node, ast.Call) and dotted(node.func) in HARMONIC_CALLS:
            k = node.args[0]
            dk = dotted(k)
            if dk in ctx.names and ctx.names[dk][1] == "nat":
                return f"(Y {ctx.names[dk][0]})"
            raise Untranslatable("harmonic index")
        if isinstance(node, ast.BinOp):
            if isinstance(node.op, ast.Pow):
                n = closed_exponent(node.right, ctx)
                if n is not None:
                    return f"(DNum.npow {self.expr(node.left, ctx)} {n})"
            ops = {ast.Add: "+", ast.Sub: "-", ast.Mult: "*", ast.Div: "/"}
            for k_, v in ops.items():
                if isinstance(node.op, k_):
                    return f"({self.expr(node.left, ctx)} {v} {self.expr(node.right, ctx)})"
        if isinstance(node, ast.Call) and dotted(node.func) in UNARY_FUNCS and len(node.args) == 1:
            return f"({UNARY_FUNCS[dotted(node.func)]} {self.expr(node.args[0], ctx)})"
        if isinstance(node, ast.UnaryOp) and isinstance(node.op, ast.USub):
            return f"(-{self.expr(node.operand, ctx)})"
        return expr(node, ctx)

    def body(self, stmts: list[ast.stmt], ctx: Ctx, acc: str) -> str:
        """returns a Lean expression for the accumulator after executing stmts"""
        if not stmts:
            return ctx.names[acc][0]
        s, rest = stmts[0], stmts[1:]
        if isinstance(s, ast.If):
            if s.orelse:
                raise Untranslatable("else in loop body")
            c = cond(s.test, ctx)
            inner = self.body(list(s.body), ctx.copy(), acc)
            v = ctx.fresh(acc)
            sub = ctx.copy()
            sub.counter = ctx.counter
            sub.names[acc] = (v, "num")
            return f"(let {v} := (if {c} then {inner} else {ctx.names[acc][0]}); {self.body(rest, sub, acc)})"
        if isinstance(s, ast.AugAssign) and isinstance(s.target, ast.Name) and s.target.id == acc:
            op = {ast.Add: "+", ast.Sub: "-"}.get(type(s.op))
            if op is None:
                raise Untranslatable("augmented operator in loop")
            v = ctx.fresh(acc)
            sub = ctx.copy()
            sub.counter = ctx.counter
            sub.names[acc] = (v, "num")
            return f"(let {v} := ({ctx.names[acc][0]} {op} {self.expr(s.value, ctx)}); {self.body(rest, sub, acc)})"
        if isinstance(s, ast.Assign) and len(s.targets) == 1:
            t = s.targets[0]
            if isinstance(t, ast.Name) and t.id == acc:
                # plain assignment to the accumulator OVERWRITES it (kept faithfully)
                v = ctx.fresh(acc)
                sub = ctx.copy()
                sub.counter = ctx.counter
                sub.names[acc] = (v, "num")
                return f"(let {v} := {self.expr(s.value, ctx)}; {self.body(rest, sub, acc)})"
            if isinstance(t, ast.Tuple) and isinstance(s.value, ast.Call) and dotted(s.value.func) == "spherical.spherical_index_lm":
                # l, _ = spherical.spherical_index_lm(k): degree of mode k
                k = dotted(s.value.args[0])
                if k not in ctx.names or not isinstance(t.elts[0], ast.Name):
                    raise Untranslatable("spherical_index_lm call")
                sub = ctx.copy()
                sub.names[t.elts[0].id] = (f"(degree {ctx.names[k][0]})", "nat")
                return self.body(rest, sub, acc)
            if isinstance(t, ast.Name):
                v = ctx.fresh(t.id)
                sub = ctx.copy()
                sub.counter = ctx.counter
                sub.names[t.id] = (v, "num")
                return f"(let {v} := {self.expr(s.value, ctx)}; {self.body(rest, sub, acc)})"
        raise Untranslatable(f"loop statement {type(s).__name__}")

    def translate(self) -> str:
        stmts = strip_doc(self.fd.body)
        ctx = Ctx(self.params)
        acc = None
        init = None
        i = 0
        # statements before the loop
        while i < len(stmts) and not isinstance(stmts[i], ast.For):
            s = stmts[i]
            if isinstance(s, (ast.Assign, ast.AnnAssign)):
                tgt = s.targets[0] if isinstance(s, ast.Assign) else s.target
                if isinstance(tgt, ast.Name) and dotted(s.value) in ("spherical.spherical_harmonic_real_k", "spherical.spherical_harmonic_symmetric"):
                    i += 1
                    continue  # alias Yk / Yl
                if isinstance(tgt, ast.Name):
                    acc, init = tgt.id, _init_value(s.value)
                    i += 1
                    continue
            if isinstance(s, ast.If):
                i += 1
                continue  # argument normalisation (φ is None / shape check)
            raise Untranslatable(f"statement before loop: {type(s).__name__}")
        if acc is None or i >= len(stmts):
            raise Untranslatable("no accumulator loop")
        loop = stmts[i]
        it = loop.iter
        if not (isinstance(it, ast.Call) and dotted(it.func) == "enumerate" and len(it.args) == 2
                and isinstance(it.args[1], ast.Constant) and it.args[1].value == 1):
            raise Untranslatable("loop is not enumerate(.., 1)")
        src = it.args[0]
        paired = isinstance(src, ast.Call) and dotted(src.func) == "iterate_in_pairs" and dotted(src.args[0]) == "self.amplitudes"
        plain = dotted(src) == "self.amplitudes"
        tgt = loop.target
        lctx = ctx.copy()
        lctx.names[acc] = ("acc", "num")
        if paired and isinstance(tgt, ast.Tuple) and isinstance(tgt.elts[1], ast.Tuple):
            n, (a, b) = tgt.elts[0].id, [e.id for e in tgt.elts[1].elts]
            lctx.names[n] = ("n", "nat")
            lctx.names[a] = ("ab.1", "num")
            lctx.names[b] = ("ab.2", "num")
            body = self.body(list(loop.body), lctx, acc)
            folded = f"(foldEnum (fun acc n ab => {body}) {init} (pairs (DNum.lit 0) amps) 1)"
        elif plain and isinstance(tgt, ast.Tuple):
            n, a = tgt.elts[0].id, tgt.elts[1].id
            lctx.names[n] = ("n", "nat")
            lctx.names[a] = ("a", "num")
            body = self.body(list(loop.body), lctx, acc)
            folded = f"(foldEnum (fun acc n a => {body}) {init} amps 1)"
        else:
            raise Untranslatable("loop target")
        after = stmts[i + 1:]
        if len(after) != 1 or not isinstance(after[0], ast.Return):
            raise Untranslatable("statements after loop")
        rctx = ctx.copy()
        rctx.names[acc] = ("res", "num")
        return f"let res := {folded}; {self.expr(after[0].value, rctx)}"


def gen_perturbed(record: dict) -> str:
    out = [
        "/- GENERATED by tools/py2lean.py from droplets/droplets.py (PerturbedDroplet2D/3D/3DAxisSym) — do not edit.",
        "   `Y k` is the value of the k-th (real / axisymmetric) spherical harmonic in the direction considered,",
        "   `degree k` the degree l of mode k (`spherical_index_lm`). -/",
        "import DropletsVerif.Num",
        "namespace DV.Gen",
        "open DV",
        "",
    ]
    tree = module_tree(DRP)
    R = {"self.radius": ("R", "num")}

    def item(name, path, sig, params, build):
        src = f"{DRP}:{path}"
        try:
            fd = find_def(tree, path)
            body = build(fd)
            record[name] = {"source": src, "ast_sha": ast_hash(fd), "status": "ok"}
            out.append(f"def {name} {{α : Type}} [DNum α] {sig} : α :=\n  {body}\n")
        except Untranslatable as e:
            record[name] = {"source": src, "status": "untranslated", "why": str(e)}
            out.append(f"/- UNTRANSLATED: {e} -/\ndef {name} {{α : Type}} [DNum α] {sig} : α :=\n  DNum.untranslated\n")

    loop = lambda extra: (lambda fd: LoopT(fd, {**R, **extra}).translate())
    phi = {"φ": ("φ", "num")}
    item("p2d_distance", "PerturbedDroplet2D.interface_distance", "(R : α) (amps : List α) (φ : α)", None, loop(phi))
    item("p2d_curvature", "PerturbedDroplet2D.interface_curvature", "(R : α) (amps : List α) (φ : α)", None, loop(phi))
    item("p2d_surface_approx", "PerturbedDroplet2D.surface_area_approx", "(R : α) (amps : List α)", None, loop({}))
    ysig = "(R : α) (amps : List α) (Y : Nat → α) (degree : Nat → Nat)"
    item("p3d_distance", "PerturbedDroplet3D.interface_distance", ysig, None, loop({}))
    item("p3d_curvature", "PerturbedDroplet3D.interface_curvature", ysig, None, loop({}))
    item("axi_distance", "PerturbedDroplet3DAxisSym.interface_distance", ysig, None, loop({}))
    item("axi_curvature", "PerturbedDroplet3DAxisSym.interface_curvature", ysig, None, loop({}))

    # straight-line bodies
    def straight(extra, funcs=None):
        def build(fd):
            ctx = Ctx({**R, **extra}, funcs or {})
            stmts = strip_doc(fd.body)
            # `term = 1 + np.sum(self.amplitudes**2) / 2` etc.: let-bind locals, last statement returns / sets radius
            text = ""
            for s in stmts:
                if isinstance(s, ast.Assign) and isinstance(s.targets[0], ast.Name):
                    v = ctx.fresh(s.targets[0].id)
                    text += f"let {v} := {expr(s.value, ctx)}; "
                    ctx.names[s.targets[0].id] = (v, "num")
                elif isinstance(s, ast.Assign) and dotted(s.targets[0]) == "self.radius":
                    return text + expr(s.value, ctx)
                elif isinstance(s, ast.Return):
                    return text + expr(s.value, ctx)
                elif isinstance(s, ast.If):
                    raise Untranslatable("conditional in straight-line body (e.g. an extra first-order term)")
                else:
                    raise Untranslatable(f"statement {type(s).__name__}")
            raise Untranslatable("no result")
        return build

    amps = {"self.amplitudes": ("amps", "list")}
    item("p2d_volume", "PerturbedDroplet2D.volume", "(R : α) (amps : List α)", None, straight(amps))
    item("p2d_set_volume", "PerturbedDroplet2D.volume@setter", "(volume : α) (amps : List α)", None, straight({**amps, "volume": ("volume", "num")}))
    vol3 = {"spherical.volume_from_radius": ("sphereVolume3", "pure")}

    def vol_approx(fd):
        stmts = strip_doc(fd.body)
        if len(stmts) == 1 and isinstance(stmts[0], ast.Return):
            v = stmts[0].value
            if isinstance(v, ast.Call) and dotted(v.func) == "spherical.volume_from_radius" and dotted(v.args[0]) == "self.radius" \
                    and isinstance(v.args[1], ast.Constant) and v.args[1].value == 3:
                return "sphereVolume3 R"
        raise Untranslatable("volume_approx is not `return spherical.volume_from_radius(self.radius, 3)`")

    out.insert(7, "/-- `spherical.volume_from_radius(r, 3)` -/\ndef sphereVolume3 {α : Type} [DNum α] (r : α) : α :=\n  ((((DNum.lit 4) / (DNum.lit 3)) * DNum.pi) * (DNum.npow r 3))\n")
    item("p3d_volume_approx", "PerturbedDroplet3D.volume_approx", "(R : α) (amps : List α)", None, vol_approx)
    item("axi_volume_approx", "PerturbedDroplet3DAxisSym.volume_approx", "(R : α) (amps : List α)", None, vol_approx)
    out.append("end DV.Gen\n")
    return "\n".join(out)


# ----------------------------------------------------------------------------------------
# length scales (C17): the closed-form lines of get_length_scale
# ----------------------------------------------------------------------------------------


def gen_scales(record: dict) -> str:
    IA = "droplets/image_analysis.py"
    out = [
        "/- GENERATED by tools/py2lean.py from droplets/image_analysis.py (get_length_scale) — do not edit. -/",
        "import DropletsVerif.Num",
        "namespace DV.Gen",
        "open DV",
        "",
        "def lsum {α : Type} [DNum α] (xs : List α) : α := xs.foldl (· + ·) (DNum.lit 0)",
        "def ldot {α : Type} [DNum α] (xs ys : List α) : α := (xs.zip ys).foldl (fun acc p => acc + p.1 * p.2) (DNum.lit 0)",
        "",
    ]
    fd = find_def(module_tree(IA), "get_length_scale")

    def branch(method: str) -> list[ast.stmt]:
        """body of `if method == "<method>" or ...`"""
        node = None
        for s in fd.body:
            if isinstance(s, ast.If) and any(dotted(n) == "method" for n in ast.walk(s.test)):
                node = s
                break
        while node is not None:
            names = [c.value for c in ast.walk(node.test) if isinstance(c, ast.Constant) and isinstance(c.value, str)]
            if method in names:
                return list(node.body)
            node = node.orelse[0] if node.orelse and isinstance(node.orelse[0], ast.If) else None
        raise Untranslatable(f"branch for {method} not found")

    def assigns(stmts, name):
        res = []
        for s in stmts:
            for n in ast.walk(s):
                if isinstance(n, ast.Assign) and dotted(n.targets[0]) == name:
                    res.append(n.value)
        return res

    class E:
        """expression translator knowing array sums"""
        def __init__(self, names, lists):
            self.ctx = Ctx(names)
            self.lists = lists

        def tr(self, node):
            if isinstance(node, ast.Call) and dotted(node.func) == "np.sum" and len(node.args) == 1:
                a = node.args[0]
                if dotted(a) in self.lists:
                    return f"(lsum {self.lists[dotted(a)]})"
                if isinstance(a, ast.BinOp) and isinstance(a.op, ast.Mult) and dotted(a.left) in self.lists and dotted(a.right) in self.lists:
                    return f"(ldot {self.lists[dotted(a.left)]} {self.lists[dotted(a.right)]})"
                raise Untranslatable("np.sum argument")
            if isinstance(node, ast.BinOp):
                if isinstance(node.op, ast.Pow):
                    return f"(DNum.rpow {self.tr(node.left)} {self.tr(node.right)})"
                op = {ast.Add: "+", ast.Sub: "-", ast.Mult: "*", ast.Div: "/"}.get(type(node.op))
                if op:
                    return f"({self.tr(node.left)} {op} {self.tr(node.right)})"
            if isinstance(node, ast.Call) and dotted(node.func) == "len" and dotted(node.args[0]) in self.ctx.names:
                return f"(DNum.lit {self.ctx.names[dotted(node.args[0])][0]})"
            return expr(node, self.ctx)

    def item(name, sig, build):
        try:
            body = build()
            record[name] = {"source": f"{IA}:get_length_scale", "ast_sha": ast_hash(fd), "status": "ok"}
            out.append(f"def {name} {{α : Type}} [DNum α] {sig} : α :=\n  {body}\n")
        except Untranslatable as e:
            record[name] = {"source": f"{IA}:get_length_scale", "status": "untranslated", "why": str(e)}
            out.append(f"/- UNTRANSLATED: {e} -/\ndef {name} {{α : Type}} [DNum α] {sig} : α :=\n  DNum.untranslated\n")

    def mean():
        vals = assigns(branch("structure_factor_mean"), "length_scale")
        if len(vals) != 1:
            raise Untranslatable("length_scale assignment in the mean branch")
        return E({}, {"sf": "sfs", "k_mag": "ks"}).tr(vals[0])

    def peak():
        vals = [v for v in assigns(branch("structure_factor_maximum"), "length_scale") if not (dotted(v) == "math.nan")]
        if len(vals) != 1:
            raise Untranslatable("length_scale assignment in the maximum branch")
        return E({"result.x": ("x", "num")}, {}).tr(vals[0])

    def sigma():
        vals = assigns(branch("structure_factor_maximum"), "smoothing")
        vals = [v for v in vals if not (isinstance(v, ast.Call) and dotted(v.func) == "kwargs.pop")]
        if len(vals) != 1:
            raise Untranslatable("default smoothing assignment")
        v = vals[0]
        # scalar_field.grid.cuboid.size.max()  ->  Lmax ;  grid.typical_discretization -> dx
        class R(ast.NodeTransformer):
            def visit_Call(self, n):
                if dotted(n.func) == "scalar_field.grid.cuboid.size.max":
                    return ast.Name(id="Lmax", ctx=ast.Load())
                return self.generic_visit(n)
            def visit_Attribute(self, n):
                if dotted(n) == "scalar_field.grid.typical_discretization":
                    return ast.Name(id="dx", ctx=ast.Load())
                return self.generic_visit(n)
        v = R().visit(v)
        return E({"Lmax": ("Lmax", "num"), "dx": ("dx", "num")}, {}).tr(v)

    def droplet():
        b = branch("droplet_detection")
        vpd = assigns(b, "volume_per_droplet")
        ls = assigns(b, "length_scale")
        if len(vpd) != 1 or len(ls) != 1:
            raise Untranslatable("droplet_detection assignments")
        e = E({"volume": ("volume", "num"), "droplets": ("count", "nat"), "axes": ("naxes", "nat")}, {})
        inner = e.tr(vpd[0])
        e.ctx.names["volume_per_droplet"] = ("vpd", "num")
        return f"let vpd := {inner}; {e.tr(ls[0])}"

    item("mean_length", "(ks sfs : List α)", mean)
    item("peak_length", "(x : α)", peak)
    item("default_sigma", "(Lmax dx : α)", sigma)
    item("droplet_length", "(volume : α) (count naxes : Nat)", droplet)
    out.append("end DV.Gen\n")
    return "\n".join(out)


# ----------------------------------------------------------------------------------------
# residual of the refinement (C05): `img = vmin + vrng * render; return img - data`
# ----------------------------------------------------------------------------------------


def gen_residual(record: dict) -> str:
    IA = "droplets/image_analysis.py"
    out = [
        "/- GENERATED by tools/py2lean.py from droplets/image_analysis.py (refine_droplet: residual_scale, _image_deviation) — do not edit. -/",
        "import DropletsVerif.Num",
        "namespace DV.Gen",
        "open DV",
        "",
    ]
    fd = find_def(module_tree(IA), "refine_droplet")
    # the unit in which deviations are measured: `residual_scale = <expr in vrng>` in the body of refine_droplet (not in a closure)
    try:
        sc = [n for n in fd.body if isinstance(n, ast.Assign) and dotted(n.targets[0]) == "residual_scale"]
        if len(sc) != 1:
            raise Untranslatable(f"expected one assignment to residual_scale in refine_droplet, found {len(sc)}")
        body = expr(sc[0].value, Ctx({"vrng": ("vrng", "num")}))
        record["residual_scale"] = {"source": f"{IA}:refine_droplet (residual_scale)", "ast_sha": ast_hash(sc[0]), "status": "ok"}
        out.append(f"def residual_scale {{α : Type}} [DNum α] (vrng : α) : α :=\n  {body}\n")
    except Untranslatable as e:
        record["residual_scale"] = {"source": f"{IA}:refine_droplet (residual_scale)", "status": "untranslated", "why": str(e)}
        out.append(f"/- UNTRANSLATED: {e} -/\ndef residual_scale {{α : Type}} [DNum α] (vrng : α) : α :=\n  DNum.untranslated\n")
    inner = [n for n in ast.walk(fd) if isinstance(n, ast.FunctionDef) and n.name == "_image_deviation"]
    names = ["residual_fitted_levels", "residual_fixed_levels"]
    try:
        if len(inner) != 2:
            raise Untranslatable(f"expected two _image_deviation closures, found {len(inner)}")
        for name, f in zip(names, inner):
            img = [n.value for n in ast.walk(f) if isinstance(n, ast.Assign) and dotted(n.targets[0]) == "img"]
            ret = [n.value for n in ast.walk(f) if isinstance(n, ast.Return)]
            if len(img) != 1 or len(ret) != 1:
                raise Untranslatable("img / return statements of _image_deviation")
            if any(isinstance(n, ast.Assign) and any("residual_scale" in (dotted(t) or "") or any(dotted(e) == "residual_scale" for e in getattr(t, "elts", []))
                                                  for t in n.targets) for n in ast.walk(f)):
                raise Untranslatable("residual_scale is reassigned inside _image_deviation")
            # droplet._get_phase_field(phase_field.grid)[mask]  ->  render ;  data_mask -> data ; residual_scale -> scale (fixed before the fit)
            class R(ast.NodeTransformer):
                def visit_Subscript(self, n):
                    if isinstance(n.value, ast.Call) and dotted(n.value.func) == "droplet._get_phase_field":
                        return ast.Name(id="render", ctx=ast.Load())
                    return self.generic_visit(n)
            e_img = R().visit(img[0])
            ctx = Ctx({"vmin": ("vmin", "num"), "vrng": ("vrng", "num"), "render": ("render", "num"), "data_mask": ("data", "num"),
                       "residual_scale": ("scale", "num")})
            v = expr(e_img, ctx)
            ctx.names["img"] = ("img", "num")
            body = f"let img := {v}; {expr(ret[0], ctx)}"
            record[name] = {"source": f"{IA}:refine_droplet._image_deviation", "ast_sha": ast_hash(f), "status": "ok"}
            out.append(f"def {name} {{α : Type}} [DNum α] (vmin vrng render data scale : α) : α :=\n  {body}\n")
    except Untranslatable as e:
        for name in names:
            record[name] = {"source": f"{IA}:refine_droplet._image_deviation", "status": "untranslated", "why": str(e)}
            out.append(f"/- UNTRANSLATED: {e} -/\ndef {name} {{α : Type}} [DNum α] (vmin vrng render data scale : α) : α :=\n  DNum.untranslated\n")
    out.append("end DV.Gen\n")
    return "\n".join(out)

# ----------------------------------------------------------------------------------------
# driver
# ----------------------------------------------------------------------------------------

GENERATORS = {"Spherical": gen_spherical, "Merge": gen_merge, "Profile": gen_profile, "Perturbed": gen_perturbed, "Scales": gen_scales, "Residual": gen_residual}


def write_if_changed(path: Path, text: str) -> bool:
    if path.exists() and path.read_text() == text:
        return False
    path.write_text(text)
    return True


def main() -> int:
    OUT.mkdir(parents=True, exist_ok=True)
    record: dict = {}
    changed = []
    for name, gen in GENERATORS.items():
        text = gen(record)
        if write_if_changed(OUT / f"{name}.lean", text):
            changed.append(name)
    (OUT / "MANIFEST.json").write_text(json.dumps(record, indent=1, sort_keys=True))
    bad = {k: v for k, v in record.items() if v.get("status") != "ok"}
    print(json.dumps({"changed": changed, "untranslated": bad}))
    return 0


if __name__ == "__main__":
    sys.exit(main())
