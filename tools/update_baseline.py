#!/venv/bin/python
"""Record the text of the repository functions the hand-written Lean models mirror (harness/model_baseline.json).
Run after the models have been validated against the current /repo tree (all checks pass on it)."""
import json, sys
sys.path.insert(0, "/verif")
from harness.common import source_fingerprints
from harness.main import MODELLED

out = {pid: source_fingerprints(names) for pid, names in MODELLED.items()}
json.dump(out, open("/verif/harness/model_baseline.json", "w"), indent=1, sort_keys=True)
print("baseline written for", len(out), "properties")
