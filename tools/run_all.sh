#!/bin/bash
# run every registered check (quick tier by default) on the current /repo tree, in parallel batches
cd /verif
TIER=${1:-quick}
ids=$(/venv/bin/python -c "import json;print(' '.join(c['property_id'] for c in json.load(open('MANIFEST.json'))['checks']))")
for id in $ids; do
  ( ./check $id --tier $TIER > /tmp/runall_$id.out 2>&1; echo "$id exit=$? $(grep -h 'VIOLATION\|^OK\|KNOWN' /tmp/runall_$id.out | head -2 | cut -c1-150 | tr '\n' ' ')" ) &
  # the Lean stage is serialised by a lock; python parts overlap
  sleep 0.5
done
wait
