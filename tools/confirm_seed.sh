#!/bin/bash
# usage: tools/confirm_seed.sh <dir-with-patch.diff,demo.py,meta.json> <seed-id>
# stage A of tools/try_seed.sh only (may run in parallel for several seeds: it uses its own scratch worktree):
# the unedited suite passes with the change, the demo fails with it and passes without it.  Stage B: tools/recheck_seed.sh <seed-id> <checks>.
set -u
SRC=$1; NAME=$2
OUT=/verif/seeded/$NAME
mkdir -p $OUT
cp $SRC/patch.diff $SRC/demo.py $SRC/meta.json $OUT/ 2>/dev/null
WT=$(mktemp -d /tmp/seedwt.XXXX)
git -C /repo worktree add -q --detach $WT HEAD
cp /repo/droplets/_version.py $WT/droplets/_version.py
LOG=$OUT/confirm.log; : > $LOG
( cd $WT && PYTHONPATH=$WT timeout 600 /venv/bin/python $OUT/demo.py > /dev/null 2>&1; echo "demo_without_change_exit=$?" >> $LOG )
git -C $WT apply $OUT/patch.diff && echo "patch_applies=yes" >> $LOG || echo "patch_applies=NO" >> $LOG
( cd $WT && PYTHONPATH=$WT timeout 600 /venv/bin/python $OUT/demo.py > $OUT/demo_with_change.out 2>&1; echo "demo_with_change_exit=$?" >> $LOG )
( cd $WT && PYTHONPATH=$WT /venv/bin/python -m pytest -q -p no:cacheprovider --timeout=900 tests 2>&1 | tail -1 >> $LOG )
git -C /repo worktree remove --force $WT
cat $LOG
