#!/bin/bash
# run every registered check in the thorough tier, 4 at a time; prints one line per check
cd "$(dirname "$0")/.."
( cd lean && /venv/bin/python ../tools/py2lean.py > /dev/null && lake build DropletsVerif driver > /dev/null 2>&1 )
ids=$(/venv/bin/python -c "import json;print(' '.join(c['property_id'] for c in json.load(open('MANIFEST.json'))['checks']))")
run() { s=$(date +%s); ./check $1 --tier thorough > thorough_$1.out 2>&1; echo "$1 exit=$? $(( $(date +%s) - s ))s $(grep -h 'VIOLATION\|^OK\|INFRA' thorough_$1.out | head -2 | cut -c1-160 | tr '\n' ' ')"; }
export -f run
echo $ids | tr ' ' '\n' | xargs -P 4 -I{} bash -c 'run {}'
