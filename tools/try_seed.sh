#!/bin/bash
# usage: tools/try_seed.sh <seed-dir-with-patch.diff,demo.py,meta.json> <name> <check ids...>
# 1. confirm the seeded change in a scratch worktree: tests pass, demo fails with / passes without
# 2. apply it to /repo, run the named checks, undo it straight afterwards
set -u
SRC=$1; NAME=$2; shift 2
OUT=/verif/seeded/$NAME
mkdir -p $OUT
cp $SRC/patch.diff $SRC/demo.py $SRC/meta.json $OUT/ 2>/dev/null
WT=$(mktemp -d /tmp/seedwt.XXXX)
git -C /repo worktree add -q --detach $WT HEAD
cp /repo/droplets/_version.py $WT/droplets/_version.py
LOG=$OUT/confirm.log; : > $LOG
( cd $WT && PYTHONPATH=$WT /venv/bin/python $OUT/demo.py > /dev/null 2>&1; echo "demo_without_change_exit=$?" >> $LOG )
git -C $WT apply $OUT/patch.diff && echo "patch_applies=yes" >> $LOG || echo "patch_applies=NO" >> $LOG
( cd $WT && PYTHONPATH=$WT /venv/bin/python $OUT/demo.py > $OUT/demo_with_change.out 2>&1; echo "demo_with_change_exit=$?" >> $LOG )
( cd $WT && PYTHONPATH=$WT /venv/bin/python -m pytest -q -p no:cacheprovider --timeout=900 tests 2>&1 | tail -1 >> $LOG )
git -C /repo worktree remove --force $WT
# run the checks against the change
git -C /repo apply $OUT/patch.diff
for c in "$@"; do
  ( cd /verif && ./check $c --tier quick > $OUT/check_$c.out 2>&1; echo "check_${c}_exit=$?" >> $LOG; grep -h "VIOLATION\|^OK" $OUT/check_$c.out | head -3 >> $LOG )
done
git -C /repo checkout -- .
git -C /repo status --short | grep -v _version >> $LOG
# the evidence files now describe the mutated tree: re-run on the clean tree so that what gets committed is valid
for c in "$@"; do ( cd /verif && ./check $c --tier quick > /dev/null 2>&1 ); done
cat $LOG
