#!/venv/bin/python
"""Update seeded/<id>/meta.json (confirmation record, caught_by) from confirm.log and write seeded/README.md."""
import json, re, pathlib

ROOT = pathlib.Path("/verif/seeded")
# catches observed in earlier runs of tools/try_seed.sh whose confirm.log has since been overwritten by a re-run
EARLIER = {"C01-a": ["C02"], "C03-a": ["C13"], "C05-a": ["C01", "C02"], "C05-b": ["C02"], "C09-a": ["C03"], "C09-b": ["C06"],
           "C17-b": ["C02"]}
MISSED_FIRST = {  # the property's own check missed it before it was strengthened (what was changed)
    "C01-a": "C01: corner droplets on grids with unequal cell counts added to the generator",
    "C03-a": "C03: interface oracle made independent of the droplet's own interface_distance; sparse amplitude vectors",
    "C04-a": "C04: sharp (width 0) candidates; promotion moved into the Lean model (`c04 full`)",
    "C04-b": "C04: candidates given by their periodic image outside the box, mixed periodicity, periodic cylinders; wrap in the Lean model",
    "C05-a": "C05: droplets crossing the boundary of a periodic axis that follows a non-periodic one",
    "C09-a": "C09: perturbed droplets with non-zero amplitudes centred exactly on a cell centre; symmetric clusters with modes > 0 and refine",
    "C13-a": "C13: sparse amplitude vectors (whole low-degree blocks zero); before that only the broken translation was reported (no-failing-input-found)",
    "C13-b": "C13: exact 3-D volume with sizeable amplitudes against an independent quadrature (third-order terms)",
    "C16-b": "C16: requested wave numbers starting at 0 / unsorted / repeated / single, with add_zero",
    "C17-d": "C17: droplet counting on grids with mixed periodicity (elongated droplets cut by a periodic boundary that follows a non-periodic axis)",
    "C10-d": "C10: polydisperse traps (nearest centre is a separated satellite while two large droplets overlap)",
    "C10-e": "C10: exactly coincident centres with different radii in the neighbour-distance check",
    "C20-d": "C20: vanished droplets and copy(min_radius=0) in the random and exhaustive op streams; exact statistics model",
    "C20-e": "C20: nearest-time lookup with times in any order / repeated; exact model `nearestIdx` (theorem for unsorted lists)",
    "C09-d": "C09: sharp droplets with support points exactly on their surface; before that only the broken obligation was reported",
    "C14-b": "C14: time axes that start negative and pass through exactly 0",
    "C14-c": "C14: source selection (None / 0 / k / callable) on field collections, modelled in Lean (`extract`)",
    "C19-b": "C19: sub-resolution cluster on an anisotropic grid (nothing to fit) in the table; C04: promotion on that path",
    "C20-c": "C20: copy construction of tracks / time courses; shared time lists detected in the dump",
    "C02-b": "C02: periodic cylinders with on-axis components across the boundary and off-axis z-spanning tubes (this stream also exposed D19)",
    "C08-b": "C08: collections reached through histories that leave a stale declared layout; read-back exceptions reported as failures",
    "C15-b": "C15: more candidates than 4 x workers (11, 13)",
    "C15-c": "C15: repetition after analyses with other solver settings (history independence)",
    "C05-b": "C05: corner droplets on grids with unequal cell counts where the main piece is the upper cluster of both merges",
    "C17-b": "C17: ring+blob fields (overlap filter decides the count), shifts that put the common centre on a periodic boundary; known finding narrowed to winding components",
    "C02-d": "C02: overlap-filter traps in the corpus (a small cluster inside a larger one's bounding sphere, equal-sized touching clusters)",
    "C02-e": "C02: cylindrical 'head + tail' masks on taller grids (nr 6..9, nz 12..16) so that off-axis tails decide the candidate",
    "C05-c": "C05: finely resolved polar/spherical grids with droplets of 3..3.5 cells radius and fitted levels (`small_radial`)",
    "C05-d": "C05: droplets centred on the periodic z boundary of cylindrical grids",
    "C08-d": "C08: writing over an existing file of another layout; read-back compared entry-wise",
    "C08-e": "C08: mixed time stamps (ints, floats, repeated) in one collection",
    "C14-d": "C14: restarted / decreasing time axes in the handled-times comparison",
    "C14-e": "C14: more exception kinds in the interrupt stream (KeyboardInterrupt, StopIteration inside the tracker)",
    "C15-d": "C15: float32 fields with automatic intensity levels",
    "C15-e": "C15: repeated time stamps in the parallel stream",
    "C17-e": "C17: grid sizes with large prime factors (13, 17, 29, 37, 58) - every generated grid had an FFT-friendly size before",
    "C05-e": "C05: an overall unit of length (cells of size 0.02 .. 37) - every generated length was of order 1; this also exposed D22 (fixed in /repo 8d4e282)",
    "C05-f": "C05: one settings dict shared by all calls of a run (an implementation that writes into the caller's refine_args leaks state into later calls)",
    "C07-f": "C06/C07: tracked diffuse droplets WITH interface widths (narrow and wide): tracking looks at radii only",
    "C08-f": "C08: tracks with decreasing / restarted / repeated / shuffled time stamps",
    "C12-f": "C12: bounding boxes of diffuse droplets (width unset / relative / absolute), not only of SphericalDroplet",
    "C15-f": "C15: refinement in the stored-frames stream with interface widths that differ from the grid spacing (serial runs must not carry state from frame to frame)",
    "C15-g": "C15: nothing to refine (image without droplets, every droplet below minimal_radius, empty candidate list) for num_processes 1 / 2 / 'auto'",
    "C20-f": "C20: remove overlaps on overlap chains A-B-C against the list model (C10's verified loop)",
    "C01-g": "C01: an overall unit of length 1e-9 .. 1e4 (located radii far below numpy's absolute tolerances)",
    "C02-i": "C02: the second observation point `locate_droplets(field, threshold)` with default options must return the droplets of the binary image (unit of length 1e-9)",
    "C03-h": "C03: twin-grid history (the same droplet rendered on grids that differ only in their periodic axes, in one process)",
    "C04-h": "C04: second refinement of an already refined droplet on an image with a structured disturbance (the squared deviation must not grow)",
    "C05-g": "C05: a quick preview call with a coarse tolerance before the analysis proper (settings must not leak from call to call)",
    "C05-h": "C05: every threshold rule on EMULSIONS under every intensity map (images wholly below / above the unit interval, contrasts 1e-3 .. 1e3); this stream also exposed D23 (fixed in /repo d2a7f21)",
    "C07-h": "C06/C07: vanished droplets (radius 0) listed before live ones in tracked frames",
    "C11-h": "C11: widths of exactly 0 (sharp interface) on one side of a merge; before that only the broken translation was reported (no-failing-input-found)",
    "C12-h": "C12: the volume setter on droplets of other sizes, incl. vanished ones (radius exactly 0) and numpy scalars; before that only the broken obligation was reported",
    "C14-i": "C14: the tracker's output file name is reused from run to run (a longer file left by an earlier run is written over)",
    "C15-h": "C15: a supplied interface width (candidates already diffuse: the serial path refines in place, the workers refine copies) with droplets cut by a non-periodic edge",
    "C15-i": "C15: more stored frames than 4 x workers (11 frames) with forced out-of-order completion",
    "C16-g": "C16: stretch factors that differ from 1 by 2**-18 / 2**-20 and boxes of size 1e-9 and 2e-9 of the same shape analysed in sequence (state keyed by shape and tolerances)",
    "C17-g": "C17: droplet counting under every threshold rule x exact binary scalings 2**-30, 2**-40, 2**20 of the field",
    "C17-h": "C17: stretch factors 1e-9, 2e-9, 3e-9 in sequence (lengths below numpy's absolute tolerances)",
    "C18-i": "C18: the size filter evaluated together with the other options of the analysis (supplied interface widths far wider than the small clusters, requested modes)",
    "C20-h": "C20: statistics of emulsions whose members' volumes are not the sphere volume of their radius (2-D perturbed droplets with non-zero amplitudes)",
    "C20-i": "C20: droplets arriving through every kind of iterable (list, tuple, generator, iterator, map, Emulsion) x constructor / extend x consistency check",
    "C02-j": "C02: corpus images whose contacts across ONE periodic boundary form a cycle (4 pieces, non-winding) and a tilted lamella; first caught only by the four-fold deepened random stream",
    "C03-i": "C03: the droplet asked for is compared with the object after rendering (a centre outside the box on a periodic axis silently replaced by its image)",
    "C04-i": "C04: callers limiting the solver's effort (max_nfev 1..5); the tap no longer evaluates the residual after the solver returned (that evaluation repaired - and hid - the result); the clause is evaluated on the RETURNED droplet with an independent rendering. Reported as a diverging correspondence (the worse droplet needs a rejected last step: no failing input in the quick stream)",
    "C08-j": "C08: stationary stretches (the same non-empty frame recorded again at later times)",
    "C09-i": "C09: the analysis driven frame after frame through the public tracker (refine x modes x 3-D / cylindrical / 2-D grids); the stream was written after reading the sub-agent's report",
    "C10-j": "C10: distance queries after remove_overlapping on the same emulsion object (with the radius-subtracted query first)",
    "C11-j": "C11: nearly (not exactly) equal radii, from 1e-15 to 1e-5 relative difference; before that only the broken translation was reported",
    "C15-j": "C15: the same field object analysed with workers, updated in place, analysed again",
    "C16-i": "C16: fluctuations far smaller than the mean (2**-10 on 50) with a cancellation-free reference for the Parseval sum",
    "C17-i": "C17: corpus images with diagonal-only contacts (corner-touching squares, a tilted one-cell filament) under every whole-cell translation along each axis",
    "C18-j": "C18: every threshold rule with refine_args (intensity levels, tolerance) present while refinement is off",
    "C19-j": "C19: droplets cut by a wall of a non-periodic box (fitted centre outside the grid) in the table",
    "C20-j": "C20: nearest-time lookup after clear() and refilling the same object with as many members at other times",
    "C20-g": "C20: consistency requested while droplets arrive through another collection (extend / constructor with a mixed Emulsion)",
    "C04-j": "C04: candidates / droplets centred OUTSIDE the box along a non-periodic axis (cut by a wall); before that only the diverging correspondence was reported (no-failing-input-found)",
    "C05-j": "C05: intensity maps below numpy's default tolerances (range 4e-9; contrast 0.05 on a background of 1e4) in the cycled maps; before that only the broken obligation residual_scale was reported",
    "C11-k": "C11: droplets far from the origin relative to their separation (2e6 +- 5), a unit of length of 1e-9, droplets on a common axis; every coordinate sent to the model; tolerances relative to the operands; before that only the broken translation was reported",
    "C01-j": "C01: centres between half a period and several periods outside the box on periodic axes (any periodic image is a valid centre)",
    "C08-k": "C08: a history on one object - droplets linked to a common array (get_linked_data), then the list reordered in place (reverse / sort / swap) - before writing",
    "C12-k": "C12: the comparison helper rel_close accepted an infinite value for any finite one (inf <= rtol * inf); radii down to 1e-15 were in the stream all along; before the repair only the broken obligation was reported",
    "C17-j": "C17: plane waves on boxes with unequal spacings and cell counts (ratios up to 8), also shorter than two cells of a coarser axis (`plane_waves_anisotropic`)",
    "C18-k": "C18: fields with more than 2**20 cells under 'otsu' against an exact oracle on the histogram of ALL cells; extremes attained once each (hot / cold pixel) at random positions - whether a strided subsample misses them depends on the seed",
    "C20-k": "C20: `append` pairs the member with the time that was given, stated directly on the implementation (explicit time 0 on a non-empty collection); before that the diverging op sequence was reported without a failing input",
    "C09-k": "C09: solver settings kept by the caller in ONE dict (`least_squares_params`) and handed to every analysis of the run (fits with different numbers of parameters)",
    "C13-k": "C13: the documented call form with the azimuth omitted (= 0) for PerturbedDroplet3D: distance, curvature and interface_position must equal the explicit form; before that only the broken translation was reported",
    "C16-k": "C16: grids with more than 2**14 Fourier modes (151 x 149, 27 x 29 x 31) for the invariances of the SMOOTHED spectrum under reflection, translation and axis permutation (`large_grids`)",
    "C19-l": "C19: the same droplets rendered with a SHARP interface (binary image, two distinct values) through the whole table",
    "C05-k": "C05: an intensity map whose upper level is exactly 0 (levels -1 / 0 supplied) in the cycled maps",
    "C11-l": "C11: in-place merge of a droplet with itself (same object / shared record): volume doubles, centre stays; before that only the broken translation was reported",
    "C17-k": "C17: structure-factor methods on grids with mixed periodicity (3-D, first axis not periodic) under translations along every periodic axis",
    "C18-l": "C18: the same integer intensities stored with an INTEGER dtype (256 levels or more): thresholds do not depend on the dtype",
    "C20-l": "C20: `remove_small` keeps the surviving OBJECTS (identity, order), stated directly on the implementation; before that the diverging alias dump was reported without a failing input",
}
rows = []
for d in sorted(ROOT.iterdir()):
    if not (d / "patch.diff").exists():
        continue
    meta = json.loads((d / "meta.json").read_text()) if (d / "meta.json").exists() else {}
    log = (d / "confirm.log").read_text().splitlines() if (d / "confirm.log").exists() else []
    caught = set(meta.get("caught_by", [])) | set(EARLIER.get(d.name, []))
    missed = set()
    for line in log:
        m = re.match(r"check_(C\d\d)_exit=(\d+)", line)
        if m:
            (caught if m.group(2) == "1" else missed).add(m.group(1))
    nofail = any("no-failing-input-found" in l for l in log)
    confirmed = {"demo_passes_without_change": "demo_without_change_exit=0" in log, "demo_fails_with_change": any(l.startswith("demo_with_change_exit=") and not l.endswith("=0") for l in log),
                 "test_suite_with_change": next((l for l in log if "passed" in l), "?")}
    meta["confirmed_by_me"] = {**confirmed, "log": log}
    meta["caught_by"] = sorted(caught)
    meta["last_run_missed_by"] = sorted(missed - caught)
    (d / "meta.json").write_text(json.dumps(meta, indent=1, ensure_ascii=False))
    what = meta.get("summary") or meta.get("clause") or ""
    needs = meta.get("needs") or meta.get("manifests") or ""
    rows.append((d.name, meta.get("property", d.name[:3]), what, needs, sorted(caught), nofail, confirmed, MISSED_FIRST.get(d.name, "")))

out = ["# Seeded changes", "",
       "Each directory holds `patch.diff` (the change, written by an independent sub-agent that saw only the property text and a scratch worktree),",
       "`demo.py` (fails with the change, passes without), `meta.json` and `confirm.log` (my confirmation: the unedited test suite passes with the change,",
       "the demo fails with it and passes without it; then the named checks were run against `/repo` with the patch applied and the patch was removed again).",
       "None of these changes is committed to `/repo`.  Re-run one with `tools/try_seed.sh seeded/<id> <id> <checks...>`.", "",
       "| id | property | what the change breaks / what it needs to manifest | suite | demo | caught by (quick tier) | note |", "|---|---|---|---|---|---|---|"]
for name, prop, what, needs, caught, nofail, conf, note in rows:
    txt = (what[:220] + ("…" if len(what) > 220 else "")) + (" — needs: " + needs[:260] + ("…" if len(needs) > 260 else "") if needs else "")
    txt = txt.replace("|", "/").replace("\n", " ")
    suite = conf["test_suite_with_change"].split(",")[0]
    demo = "fails with / passes without" if conf["demo_fails_with_change"] and conf["demo_passes_without_change"] else "?"
    out.append(f"| {name} | {prop} | {txt} | {suite} | {demo} | {', '.join(caught) or '**none**'} | {note} |")
out += ["", f"{len(rows)} changes; {sum(1 for r in rows if r[4])} caught by at least one quick check, "
        f"{sum(1 for r in rows if r[1] in r[4])} by the quick check of the property they were written against."]
(ROOT / "README.md").write_text("\n".join(out) + "\n")
print(out[-1])
