import DropletsVerif.Basic
