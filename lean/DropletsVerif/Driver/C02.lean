import DropletsVerif.Driver.Util
import DropletsVerif.Model.Merge
import DropletsVerif.Model.Label
import DropletsVerif.Model.Cyl
namespace DV.Drv
open DV.Merge

/-- `c02 merge dim n_0..n_{dim-1} p_0..p_{dim-1} labels...` -/
def handleC02 (args : List String) : String :=
  match args with
  | "merge" :: d :: rest =>
    match d.toNat?, parseNats rest with
    | some d, some vals =>
      let shape := vals.take d
      let per := ((vals.drop d).take d).map (· != 0)
      let labels := vals.drop (2 * d)
      if labels.length ≠ numCells shape then "bad-op" else
      let res := locateCells shape per labels
      "ok " ++ ";".intercalate (res.map fun (r, v, p) =>
        toString r ++ ":" ++ showRat v ++ ":" ++ ",".intercalate (p.map showRat))
    | _, _ => "bad-op"
  | "mask" :: d :: rest =>
    -- `c02 mask dim n_0.. p_0.. bits...`: the verified labeller followed by the merge loop
    match d.toNat?, parseNats rest with
    | some d, some vals =>
      let shape := vals.take d
      let per := ((vals.drop d).take d).map (· != 0)
      let bits := (vals.drop (2 * d)).map (· != 0)
      if bits.length ≠ numCells shape then "bad-op" else
      let m := bits.toArray
      let labels := DV.Label.labelExec shape fun c => m.getD c false
      let res := locateCells shape per labels
      "ok " ++ " ".intercalate (labels.map toString) ++ " | " ++ ";".intercalate (res.map fun (r, v, p) =>
        toString r ++ ":" ++ showRat v ++ ":" ++ ",".intercalate (p.map showRat))
    | _, _ => "bad-op"
  | "cyl" :: nr :: nz :: per :: rest =>
    -- `c02 cyl nr nz periodic bits...`: candidates of the cylindrical branch before the overlap filter
    match nr.toNat?, nz.toNat?, parseNats rest with
    | some nr, some nz, some bits =>
      if bits.length ≠ nr * nz then "bad-op" else
      let m := (bits.map (· != 0)).toArray
      match DV.Cyl.candidates nr nz (per == "1") (fun c => m.getD c false) with
      | none => "ok spanning"
      | some cs => "ok " ++ ";".intercalate (cs.map fun p => showRat p.1 ++ ":" ++ toString p.2)
    | _, _, _ => "bad-op"
  | _ => "bad-op"

end DV.Drv
