import DropletsVerif.Driver.Util
import DropletsVerif.Model.Merge
namespace DV.Drv
open DV.Merge

/-- `c02 merge dim n_0..n_{dim-1} p_0..p_{dim-1} labels...` -/
def handleC02 (args : List String) : String :=
  match args with
  | "merge" :: d :: rest =>
    match d.toNat?, parseNats rest with
    | some d, some vals =>
      let shape := vals.take d
      let per := ((vals.drop d).take d).map (· != 0)
      let labels := vals.drop (2 * d)
      if labels.length ≠ numCells shape then "bad-op" else
      let res := locateCells shape per labels
      "ok " ++ ";".intercalate (res.map fun (r, v, p) =>
        toString r ++ ":" ++ showRat v ++ ":" ++ ",".intercalate (p.map showRat))
    | _, _ => "bad-op"
  | _ => "bad-op"

end DV.Drv
