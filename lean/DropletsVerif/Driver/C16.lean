import DropletsVerif.Driver.Util
import DropletsVerif.Model.SF
namespace DV.Drv
open DV.SF

/-- `c16 sf dim n_1.. dx_1..(float bits) f...(float bits)` → `ok k sf k sf …` (float bits) -/
def handleC16 (args : List String) : String :=
  match args with
  | "sf" :: d :: rest =>
    match d.toNat? with
    | some d =>
      match parseNats (rest.take d), parseFloats (rest.drop d) with
      | some shape, some vals =>
        let dx := vals.take d
        let f := vals.drop d
        if f.length ≠ shape.foldl (· * ·) 1 then "bad-op" else
        "ok " ++ " ".intercalate ((structureFactor shape dx f).map fun p => showFloat p.1 ++ " " ++ showFloat p.2)
      | _, _ => "bad-op"
    | none => "bad-op"
  | _ => "bad-op"

end DV.Drv
