import DropletsVerif.Driver.Util
import DropletsVerif.Model.Tracker
import DropletsVerif.Model.Executor
namespace DV.Drv
open DV.Tracker DV.Executor

def pairUp : List String → List (String × String)
  | a :: b :: rest => (a, b) :: pairUp rest
  | _ => []

/-- `c14 optsof thr minr refine rargs modes` · `c14 run (tok t)*` · `c14 ls (tok t)*`
    tokens starting with `!` are analyses that raise the named error -/
def handleC14 (args : List String) : String :=
  match args with
  | ["optsof", thr, minr, refine, rargs, modes] =>
    match modes.toNat? with
    | some m =>
      let o := optsOf (θ := String) (ρ := String) ⟨thr, minr, refine == "1", rargs, m⟩
      s!"threshold={o.threshold} minimal_radius={o.minimalRadius} refine={if o.refine then 1 else 0} refine_args={o.refineArgs} modes={o.modes}"
    | none => "bad-op"
  | "run" :: rest =>
    let frames := pairUp rest
    let locate : Opts String String → String → Except String String := fun _ f =>
      if f.startsWith "!" then .error (f.drop 1).toString else .ok f
    match runTracker locate ⟨"", "", false, "", 0⟩ frames with
    | .ok res => "ok " ++ " ".intercalate (res.map fun p => p.1 ++ ":" ++ p.2)
    | .error e => "err " ++ e
  | ["extract", src, coll, n] =>
    -- `c14 extract <none|func|k> <0|1: state is a collection> <number of fields>`: index of the selected field
    match n.toNat? with
    | some n =>
      let source : Option Source := if src == "none" then some .asIs else if src == "func" then some .func else src.toNat?.map .index
      match source with
      | some sr =>
        -- fields are named by their index; the callable picks the last one
        match extract sr (fun fs => fs.getLastD 0) ⟨coll == "1", List.range n⟩ with
        | .ok k => s!"ok {k}"
        | .error e => "err " ++ e
      | none => "bad-op"
    | none => "bad-op"
  | "ls" :: rest =>
    let frames := pairUp rest
    let ls : String → Except String String := fun f =>
      if f.startsWith "!" then .error (f.drop 1).toString else .ok f
    "ok " ++ " ".intercalate ((runLs ls frames).map fun p => p.1 ++ ":" ++ (p.2.getD "nan"))
  | _ => "bad-op"

/-- `c15 map n sched..` (task i returns i) · `c15 refine n nonebits sched..` (task i returns None
when bit i is 1) -/
def handleC15 (args : List String) : String :=
  match args with
  | "map" :: n :: sched =>
    match n.toNat?, parseNats sched with
    | some n, some sched => "ok " ++ " ".intercalate ((storageParallel (fun i => i) (List.range n) sched).map toString)
    | _, _ => "bad-op"
  | "refine" :: n :: bits :: sched =>
    match n.toNat?, parseNats sched with
    | some n, some sched =>
      let bs := bits.toList
      let f : Nat → Option Nat := fun i => if bs.getD i '0' == '1' then none else some i
      "ok " ++ " ".intercalate ((refineParallel f (List.range n) sched).map toString)
    | _, _ => "bad-op"
  | _ => "bad-op"

end DV.Drv
