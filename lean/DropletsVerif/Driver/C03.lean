import DropletsVerif.Driver.Util
import DropletsVerif.Generated.Profile
import DropletsVerif.Model.Render
namespace DV.Drv
open DV.Gen DV.Render

def parseAxes : Nat → List String → Option (List Axis × List String)
  | 0, rest => some ([], rest)
  | d + 1, lo :: dx :: n :: per :: rest => do
      let lo ← parseRat lo
      let dx ← parseRat dx
      let n ← n.toNat?
      let (axs, rest') ← parseAxes d rest
      some (⟨lo, dx, n, per == "1"⟩ :: axs, rest')
  | _, _ => none

/-- `c03 value <spherical|diffuse|perturbed> R w dist bool` (float bits) · `c03 scale vmin vmax x`
    · `c03 inside dim (lo dx n per)*dim c*dim R` (rationals) -/
def handleC03 (args : List String) : String :=
  match args with
  | ["value", kind, r, w, d, b] =>
    match parseFloat r, parseFloat w, parseFloat d with
    | some r, some w, some d =>
      let isB := b == "1"
      match kind with
      | "spherical" => "ok " ++ showFloat (if spherical_inside r d then 1.0 else 0.0)
      | "diffuse" => "ok " ++ showFloat (render_value diffuse_inside diffuse_smooth r w d isB)
      | "perturbed" => "ok " ++ showFloat (render_value perturbed_inside perturbed_smooth r w d isB)
      | _ => "bad-op"
    | _, _, _ => "bad-op"
  | ["scale", a, b, x] =>
    match parseFloat a, parseFloat b, parseFloat x with
    | some a, some b, some x => "ok " ++ showFloat (scale_field a b x)
    | _, _, _ => "bad-op"
  | "inside" :: d :: rest =>
    match d.toNat? with
    | some d =>
      match parseAxes d rest with
      | some (axes, rest') =>
        match parseRats rest' with
        | some vals =>
          if vals.length ≠ d + 1 then "bad-op" else
          let c := vals.take d
          let R := vals.getD d 0
          "ok " ++ String.ofList ((indices (axes.map (·.n))).map fun idx => if inside axes c R idx then '1' else '0')
        | none => "bad-op"
      | none => "bad-op"
    | none => "bad-op"
  | _ => "bad-op"

end DV.Drv
