import DropletsVerif.Driver.Util
import DropletsVerif.Model.Thresh
namespace DV.Drv
open DV.Thresh

/-- `c18 thr <extrema|mean|otsu> x..`, `c18 otsu x..` (index, threshold, best and runner-up
variance), `c18 small min r..` (indices kept) -/
def handleC18 (args : List String) : String :=
  match args with
  | "thr" :: rule :: rest =>
    match parseRats rest with
    | some xs =>
      match rule with
      | "extrema" => "ok " ++ showRat (extrema xs)
      | "mean" => "ok " ++ showRat (mean xs)
      | "otsu" => "ok " ++ showRat (otsu xs)
      | _ => "bad-op"
    | none => "bad-op"
  | "otsu" :: rest =>
    match parseRats rest with
    | some xs =>
      let (lo, hi) := histRange xs
      let cs := counts xs
      let vs := variances cs (center lo hi)
      let idx := otsuIdx xs
      let best := (vs.getD idx none)
      -- runner-up among the splits with a different left-class weight (splits separated only by
      -- empty bins have identical cumulative sums, hence bit-identical float variances)
      let w1s : List Nat := (cs.foldl (fun (acc : Nat × List Nat) c => (acc.1 + c, (acc.1 + c) :: acc.2)) (0, [])).2.reverse
      let w1 : Nat → Nat := fun i => w1s.getD i 0
      let others := (vs.zipIdx.filter fun p => w1 p.2 != w1 idx).filterMap (·.1)
      let second := others.foldl (fun (m : Option Rat) v => match m with
        | none => some v
        | some w => if w < v then some v else some w) none
      let sh := fun (o : Option Rat) => match o with | some v => showRat v | none => "nan"
      "ok " ++ toString idx ++ " " ++ showRat (otsu xs) ++ " " ++ sh best ++ " " ++ sh second
    | none => "bad-op"
  | "small" :: rest =>
    match parseRats rest with
    | some (m :: rs) =>
      let kept := removeSmall (fun (p : Nat × Rat) => p.2) m (rs.zipIdx.map (fun p => (p.2, p.1)))
      "ok " ++ " ".intercalate (kept.map fun p => toString p.1)
    | _ => "bad-op"
  | _ => "bad-op"

end DV.Drv
