import DropletsVerif.Driver.Util
import DropletsVerif.Model.ClassSel
namespace DV.Drv
open DV.ClassSel

/-- `c19 <family> <dim> <modes> <width 0/1> <refine 0/1>` -/
def handleC19 (args : List String) : String :=
  match args with
  | [fam, d, m, w, r] =>
    let g : Option GridFam := match fam with
      | "cartesian" => some .cartesian | "polar" => some .polar
      | "spherical" => some .spherical | "cylindrical" => some .cylindrical | _ => none
    match g, d.toNat?, m.toNat? with
    | some g, some d, some m =>
      match resultClass g d m (w == "1") (r == "1") with
      | .ok res =>
        let c := match res.cls with
          | .spherical => "SphericalDroplet" | .diffuse => "DiffuseDroplet" | .p2d => "PerturbedDroplet2D"
          | .p3d => "PerturbedDroplet3D" | .p3dAxi => "PerturbedDroplet3DAxisSym"
        "ok " ++ c ++ " " ++ toString res.amps ++ " " ++ (if res.hasWidth then "1" else "0")
      | .error e => "err " ++ e
    | _, _, _ => "bad-op"
  | _ => "bad-op"

end DV.Drv
