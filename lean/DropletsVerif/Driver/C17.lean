import DropletsVerif.Driver.Util
import DropletsVerif.Generated.Scales
namespace DV.Drv
open DV.Gen

/-- `c17 mean n k_1..k_n sf_1..sf_n` · `c17 peak x` · `c17 sigma Lmax dx` · `c17 droplet volume count naxes` -/
def handleC17 (args : List String) : String :=
  match args with
  | "mean" :: n :: rest =>
    match n.toNat?, parseFloats rest with
    | some n, some vals => "ok " ++ showFloat (mean_length (vals.take n) (vals.drop n))
    | _, _ => "bad-op"
  | ["peak", x] => match parseFloat x with
    | some x => "ok " ++ showFloat (peak_length x)
    | none => "bad-op"
  | ["sigma", l, dx] => match parseFloat l, parseFloat dx with
    | some l, some dx => "ok " ++ showFloat (default_sigma l dx)
    | _, _ => "bad-op"
  | ["droplet", v, c, a] => match parseFloat v, c.toNat?, a.toNat? with
    | some v, some c, some a => "ok " ++ showFloat (droplet_length v c a)
    | _, _, _ => "bad-op"
  | _ => "bad-op"

end DV.Drv
