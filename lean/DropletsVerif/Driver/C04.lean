import DropletsVerif.Driver.Util
import DropletsVerif.Model.Refine
namespace DV.Drv
open DV.Refine

def showOpt (o : Option Float) : String := match o with | some v => showFloat v | none => "inf"

/-- `c04 plan dim modes adjust ncon con.. vmin vmax flat..`
    `c04 finish dim modes adjust ncon con.. nflat flat.. x..`   (numbers as float bits) -/
def handleC04 (args : List String) : String :=
  match args with
  | "plan" :: d :: m :: adj :: nc :: rest =>
    match d.toNat?, m.toNat?, nc.toNat? with
    | some d, some m, some nc =>
      match parseNats (rest.take nc), parseFloats (rest.drop nc) with
      | some cons, some (vmin :: vmax :: flat) =>
        let p := plan (α := Float) ⟨d, m⟩ cons flat vmin vmax (adj == "1")
        "ok " ++ " ".intercalate (p.x0.map showFloat) ++ " | " ++ " ".intercalate (p.lb.map showOpt) ++ " | " ++
          " ".intercalate (p.ub.map showOpt)
      | _, _ => "bad-op"
    | _, _, _ => "bad-op"
  | "finish" :: d :: m :: adj :: nc :: rest =>
    match d.toNat?, m.toNat?, nc.toNat? with
    | some d, some m, some nc =>
      match parseNats (rest.take nc), (rest.drop nc) with
      | some cons, nf :: rest' =>
        match nf.toNat?, parseFloats rest' with
        | some nf, some vals =>
          "ok " ++ " ".intercalate ((finish ⟨d, m⟩ cons (vals.take nf) (vals.drop nf) (adj == "1")).map showFloat)
        | _, _ => "bad-op"
      | _, _ => "bad-op"
    | _, _, _ => "bad-op"
  | ["iterations", w, dx] =>
    match parseFloat w, parseFloat dx with
    | some w, some dx => s!"ok {fitIterationsF w dx}"
    | _, _ => "bad-op"
  | "full" :: d :: m :: adj :: nc :: rest =>
    -- `c04 full dim modes adjust ncon con.. axis_0..axis_{dim-1} dx vmin vmax wflag cand(dim+2+modes) x..`
    --   axis_i = "-" (not periodic) or "lo:len" (float bits); wflag = 1 iff the candidate's width is set
    -- answer: `ok x0 | lb | ub | returned flat record`
    match d.toNat?, m.toNat?, nc.toNat? with
    | some d, some m, some nc =>
      let parseAxis (t : String) : Option (Option (Float × Float)) :=
        if t == "-" then some none else
        match t.splitOn ":" with
        | [a, b] => match parseFloat a, parseFloat b with
          | some lo, some len => some (some (lo, len))
          | _, _ => none
        | _ => none
      match parseNats (rest.take nc), ((rest.drop nc).take d).mapM parseAxis, (rest.drop (nc + d)) with
      | some cons, some axes, dxs :: vmins :: vmaxs :: wf :: vals =>
        match parseFloat dxs, parseFloat vmins, parseFloat vmaxs, parseFloats vals with
        | some dx, some vmin, some vmax, some vs =>
          let n := d + 2 + m
          if vs.length < n then "bad-op" else
          let rec_ := vs.take n
          let x := vs.drop n
          let c : Cand Float := ⟨rec_.take d, rec_.getD d 0, if wf == "1" then some (rec_.getD (d + 1) 0) else none,
            rec_.drop (d + 2)⟩
          let L : Layout := ⟨d, m⟩
          let p := plan (α := Float) L cons (promote dx c) vmin vmax (adj == "1")
          let res := refineResult L cons axes dx c x (adj == "1")
          "ok " ++ " ".intercalate (p.x0.map showFloat) ++ " | " ++ " ".intercalate (p.lb.map showOpt) ++ " | " ++
            " ".intercalate (p.ub.map showOpt) ++ " | " ++ " ".intercalate (res.map showFloat)
        | _, _, _, _ => "bad-op"
      | _, _, _ => "bad-op"
    | _, _, _ => "bad-op"
  | _ => "bad-op"

end DV.Drv
