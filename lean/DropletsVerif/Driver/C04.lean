import DropletsVerif.Driver.Util
import DropletsVerif.Model.Refine
namespace DV.Drv
open DV.Refine

def showOpt (o : Option Float) : String := match o with | some v => showFloat v | none => "inf"

/-- `c04 plan dim modes adjust ncon con.. vmin vmax flat..`
    `c04 finish dim modes adjust ncon con.. nflat flat.. x..`   (numbers as float bits) -/
def handleC04 (args : List String) : String :=
  match args with
  | "plan" :: d :: m :: adj :: nc :: rest =>
    match d.toNat?, m.toNat?, nc.toNat? with
    | some d, some m, some nc =>
      match parseNats (rest.take nc), parseFloats (rest.drop nc) with
      | some cons, some (vmin :: vmax :: flat) =>
        let p := plan (α := Float) ⟨d, m⟩ cons flat vmin vmax (adj == "1")
        "ok " ++ " ".intercalate (p.x0.map showFloat) ++ " | " ++ " ".intercalate (p.lb.map showOpt) ++ " | " ++
          " ".intercalate (p.ub.map showOpt)
      | _, _ => "bad-op"
    | _, _, _ => "bad-op"
  | "finish" :: d :: m :: adj :: nc :: rest =>
    match d.toNat?, m.toNat?, nc.toNat? with
    | some d, some m, some nc =>
      match parseNats (rest.take nc), (rest.drop nc) with
      | some cons, nf :: rest' =>
        match nf.toNat?, parseFloats rest' with
        | some nf, some vals =>
          "ok " ++ " ".intercalate ((finish ⟨d, m⟩ cons (vals.take nf) (vals.drop nf) (adj == "1")).map showFloat)
        | _, _ => "bad-op"
      | _, _ => "bad-op"
    | _, _, _ => "bad-op"
  | _ => "bad-op"

end DV.Drv
