import DropletsVerif.Driver.Util
import DropletsVerif.Model.Dispatch
namespace DV.Drv
open DV.Dispatch

/-- `c09 locate <isScalar 0/1> <gridkind> <dim> <modes>` · `c09 cylsingle (onAxis spans)*` -/
def handleC09 (args : List String) : String :=
  match args with
  | ["locate", sc, g, d, m] =>
    let gk : Option GridKind := match g with
      | "cartesian" => some .cartesian | "sphericalSym" => some .sphericalSym | "cylindricalSym" => some .cylindricalSym
      | "otherGrid" => some .otherGrid | "notAGrid" => some .notAGrid | _ => none
    match gk, d.toNat?, m.toNat? with
    | some gk, some d, some m =>
      match locateOutcome (sc == "1") gk d m with
      | .ok _ => "ok"
      | .error e => "err " ++ e
    | _, _, _ => "bad-op"
  | "cylsingle" :: rest =>
    let rec go : List String → List Cluster
      | a :: b :: t => ⟨a == "1", b == "1"⟩ :: go t
      | _ => []
    match cylSingle (go rest) with
    | .ok idx => ("ok " ++ " ".intercalate (idx.map toString)).trimAscii.toString
    | .error e => "err " ++ e
  | _ => "bad-op"

end DV.Drv
