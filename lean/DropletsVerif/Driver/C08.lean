import DropletsVerif.Driver.Util
import DropletsVerif.Model.Hdf
namespace DV.Drv
open DV.Hdf DV.ClassSel

def clsName : Cls → String
  | .spherical => "SphericalDroplet" | .diffuse => "DiffuseDroplet" | .p2d => "PerturbedDroplet2D"
  | .p3d => "PerturbedDroplet3D" | .p3dAxi => "PerturbedDroplet3DAxisSym"

def parseCls : String → Option Cls
  | "SphericalDroplet" => some .spherical | "DiffuseDroplet" => some .diffuse
  | "PerturbedDroplet2D" => some .p2d | "PerturbedDroplet3D" => some .p3d
  | "PerturbedDroplet3DAxisSym" => some .p3dAxi | _ => none

def parseNatList (s : String) : Option (List Nat) :=
  if s == "-" then some [] else (s.splitOn ",").mapM String.toNat?

def showNatList (xs : List Nat) : String := if xs.isEmpty then "-" else ",".intercalate (xs.map toString)

/-- droplet token `cls:pos,..:radius:width|-:amps,..|-` -/
def parseDrop (s : String) : Option Drop :=
  match s.splitOn ":" with
  | [c, pos, r, w, amps] => do
    let c ← parseCls c
    let pos ← parseNatList pos
    let r ← r.toNat?
    let w ← if w == "-" then some none else w.toNat?.map some
    let amps ← parseNatList amps
    some ⟨c, pos, r, w, amps⟩
  | _ => none

def showDrop (d : Drop) : String :=
  clsName d.cls ++ ":" ++ showNatList d.pos ++ ":" ++ toString d.radius ++ ":" ++
    (match d.width with | some w => toString w | none => "-") ++ ":" ++ showNatList d.amps

/-- dataset tokens: `cls|None dim modes row row ..` (row = comma-separated patterns) -/
def showDataset (s : Dataset) : String :=
  (match s.cls with | some c => clsName c | none => "None") ++ " " ++ toString s.dim ++ " " ++ toString s.modes ++
    String.join (s.rows.map fun r => " " ++ showNatList r)

def parseDataset (toks : List String) : Option Dataset :=
  match toks with
  | c :: d :: m :: rows => do
    let d ← d.toNat?
    let m ← m.toNat?
    let rows ← rows.mapM parseNatList
    if c == "None" then some ⟨none, d, m, rows⟩ else (parseCls c).map fun c => ⟨some c, d, m, rows⟩
  | _ => none

def pairTD : List String → Option (List (Nat × Drop))
  | [] => some []
  | t :: d :: rest => do
    let t ← t.toNat?
    let d ← parseDrop d
    let r ← pairTD rest
    some ((t, d) :: r)
  | _ => none

def handleC08 (args : List String) : String :=
  match args with
  | "encE" :: ds =>
    match ds.mapM parseDrop with
    | some ds => match encodeEmulsion ds with
      | .ok s => "ok " ++ showDataset s
      | .error e => "err " ++ e
    | none => "bad-op"
  | "decE" :: toks =>
    match parseDataset toks with
    | some s => match decodeEmulsion (fun _ => true) s with
      | .ok ds => ("ok " ++ " ".intercalate (ds.map showDrop)).trimAscii.toString
      | .error e => "err " ++ e
    | none => "bad-op"
  | "encT" :: rest =>
    match pairTD rest with
    | some tr => match encodeTrack tr with
      | .ok s => "ok " ++ showDataset s
      | .error e => "err " ++ e
    | none => "bad-op"
  | "decT" :: toks =>
    match parseDataset toks with
    | some s => match decodeTrack (fun _ => true) s with
      | .ok tr => ("ok " ++ " ".intercalate (tr.map fun p => toString p.1 ++ " " ++ showDrop p.2)).trimAscii.toString
      | .error e => "err " ++ e
    | none => "bad-op"
  | ["key", i] =>
    match i.toNat? with
    | some i => "ok " ++ String.join ((pad6 i).map toString)
    | none => "bad-op"
  | ["sorted", a, b] =>
    match a.toNat?, b.toNat? with
    | some a, some b => if lexLt (pad6 a) (pad6 b) then "ok lt" else "ok ge"
    | _, _ => "bad-op"
  | _ => "bad-op"

end DV.Drv
