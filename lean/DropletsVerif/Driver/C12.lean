import DropletsVerif.Driver.Util
import DropletsVerif.Generated.Spherical
namespace DV.Drv
open DV.Gen

/-- `c12 <function> <dim> <float bits>` -/
def handleC12 (args : List String) : String :=
  match args with
  | ["droplet_bbox", p, r] =>
    match parseFloat p, parseFloat r with
    | some p, some r =>
      match (droplet_bbox p r : Res (Float × Float)) with
      | .ok (a, b) => "ok " ++ showFloat a ++ " " ++ showFloat b
      | .error e => "err " ++ e
    | _, _ => "bad-op"
  | [f, d, x] =>
    match d.toNat?, parseFloat x with
    | some d, some x =>
      match f with
      | "radius_from_volume" => showRes (radius_from_volume x d)
      | "radius_from_volume_compiled" => showRes (radius_from_volume_compiled d x)
      | "radius_from_volume_nd" => showRes (radius_from_volume_nd x d)
      | "volume_from_radius_compiled" => showRes (volume_from_radius_compiled d x)
      | "volume_from_radius_nd" => showRes (volume_from_radius_nd x d)
      | "volume_from_radius_pde" => showRes (volume_from_radius_pde x d)
      | "surface_from_radius" => showRes (surface_from_radius x d)
      | "radius_from_surface" => showRes (radius_from_surface x d)
      | "surface_from_radius_compiled" => showRes (surface_from_radius_compiled d x)
      | "droplet_volume" => showRes (droplet_volume x d)
      | "droplet_set_volume" => showRes (droplet_set_volume x d)
      | "droplet_surface_area" => showRes (droplet_surface_area x d)
      | "droplet_curvature" => showRes (droplet_curvature x)
      | _ => "bad-op"
    | _, _ => "bad-op"
  | _ => "bad-op"

end DV.Drv
