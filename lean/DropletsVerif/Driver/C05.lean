import DropletsVerif.Driver.Util
import DropletsVerif.Generated.Residual
namespace DV.Drv
open DV.Gen

/-- `c05 <fixed|fitted> vmin vrng render data vrng0` (float bits): the residual in the unit `residual_scale vrng0`;
`c05 scale vrng0`: that unit -/
def handleC05 (args : List String) : String :=
  match args with
  | [kind, a, b, c, d, e] =>
    match parseFloat a, parseFloat b, parseFloat c, parseFloat d, parseFloat e with
    | some a, some b, some c, some d, some e =>
      match kind with
      | "fixed" => "ok " ++ showFloat (residual_fixed_levels a b c d (residual_scale e))
      | "fitted" => "ok " ++ showFloat (residual_fitted_levels a b c d (residual_scale e))
      | _ => "bad-op"
    | _, _, _, _, _ => "bad-op"
  | ["scale", a] =>
    match parseFloat a with
    | some a => "ok " ++ showFloat (residual_scale a)
    | none => "bad-op"
  | _ => "bad-op"

end DV.Drv
