import DropletsVerif.Driver.Util
import DropletsVerif.Generated.Residual
namespace DV.Drv
open DV.Gen

/-- `c05 <fixed|fitted> vmin vrng render data` (float bits) -/
def handleC05 (args : List String) : String :=
  match args with
  | [kind, a, b, c, d] =>
    match parseFloat a, parseFloat b, parseFloat c, parseFloat d with
    | some a, some b, some c, some d =>
      match kind with
      | "fixed" => "ok " ++ showFloat (residual_fixed_levels a b c d)
      | "fitted" => "ok " ++ showFloat (residual_fitted_levels a b c d)
      | _ => "bad-op"
    | _, _, _, _ => "bad-op"
  | _ => "bad-op"

end DV.Drv
