import DropletsVerif.Driver.Util
import DropletsVerif.Generated.Perturbed
namespace DV.Drv
open DV.Gen

/-- `c13 <fn> …` (float bits).  2-D: `R φ amps…`; `p2d_volume R amps…`; `p2d_set_volume v amps…`;
    3-D/axisym: `R n amps(n)… Y(n)…`; `lm k` -/
def handleC13 (args : List String) : String :=
  match args with
  | ["lm", k] =>
    match k.toNat? with
    | some k => "ok " ++ toString (Nat.sqrt k) ++ " " ++ toString ((k : Int) - (Nat.sqrt k : Int) * ((Nat.sqrt k : Int) + 1))
    | none => "bad-op"
  | fn :: rest =>
    match parseFloats rest with
    | none => "bad-op"
    | some vals =>
      match fn, vals with
      | "p2d_distance", r :: φ :: amps => "ok " ++ showFloat (p2d_distance r amps φ)
      | "p2d_curvature", r :: φ :: amps => "ok " ++ showFloat (p2d_curvature r amps φ)
      | "p2d_volume", r :: amps => "ok " ++ showFloat (p2d_volume r amps)
      | "p2d_set_volume", v :: amps => "ok " ++ showFloat (p2d_set_volume v amps)
      | "p2d_surface_approx", r :: amps => "ok " ++ showFloat (p2d_surface_approx r amps)
      | "p3d_volume_approx", r :: amps => "ok " ++ showFloat (p3d_volume_approx r amps)
      | "axi_volume_approx", r :: amps => "ok " ++ showFloat (axi_volume_approx r amps)
      | f, r :: n :: rest' =>
        let n := n.toUInt64.toNat
        let amps := rest'.take n
        let ys := rest'.drop n
        let Y : Nat → Float := fun k => ys.getD (k - 1) 0
        match f with
        | "p3d_distance" => "ok " ++ showFloat (p3d_distance r amps Y Nat.sqrt)
        | "p3d_curvature" => "ok " ++ showFloat (p3d_curvature r amps Y Nat.sqrt)
        | "axi_distance" => "ok " ++ showFloat (axi_distance r amps Y Nat.sqrt)
        | "axi_curvature" => "ok " ++ showFloat (axi_curvature r amps Y Nat.sqrt)
        | _ => "bad-op"
      | _, _ => "bad-op"
  | _ => "bad-op"

end DV.Drv
