import DropletsVerif.Driver.Util
import DropletsVerif.Model.Coll
import DropletsVerif.Model.Stats
namespace DV.Drv
open DV.Coll

def optInt (s : String) : Option (Option Int) := if s == "-" then some none else s.toInt?.map some

def parseOp (toks : List String) : Option Op :=
  match toks with
  | ["newDrop", l, d, r] => do some (.newDrop ⟨← l.toNat?, ← d.toNat?, ← r.toInt?⟩)
  | ["setVar", x, r] => do some (.setVar (← x.toNat?) (← r.toInt?))
  | ["newEm"] => some .newEm
  | ["emAppend", e, x, c, f] => do some (.emAppend (← e.toNat?) (← x.toNat?) (c == "1") (f == "1"))
  | ["emExtend", e, e2] => do some (.emExtend (← e.toNat?) (← e2.toNat?))
  | ["emCopy", e, m] => do some (.emCopy (← e.toNat?) (← m.toInt?))
  | ["emSlice", e, lo, hi] => do some (.emSlice (← e.toNat?) (← lo.toNat?) (← hi.toNat?))
  | ["emAdd", a, b] => do some (.emAdd (← a.toNat?) (← b.toNat?))
  | ["emGet", e, i] => do some (.emGet (← e.toNat?) (← i.toNat?))
  | ["emSetMember", e, i, r] => do some (.emSetMember (← e.toNat?) (← i.toNat?) (← r.toInt?))
  | ["emRemoveSmall", e, m] => do some (.emRemoveSmall (← e.toNat?) (← m.toInt?))
  | ["emClear", e] => do some (.emClear (← e.toNat?))
  | ["emLink", e] => do some (.emLink (← e.toNat?))
  | ["newTc"] => some .newTc
  | ["tcAppend", tc, e, t, c] => do some (.tcAppend (← tc.toNat?) (← e.toNat?) (← optInt t) (c == "1"))
  | ["tcGet", tc, i] => do some (.tcGet (← tc.toNat?) (← i.toNat?))
  | ["tcSlice", tc, lo, hi] => do some (.tcSlice (← tc.toNat?) (← lo.toNat?) (← hi.toNat?))
  | ["tcClear", tc] => do some (.tcClear (← tc.toNat?))
  | ["newTr"] => some .newTr
  | ["trAppend", tr, x, t] => do some (.trAppend (← tr.toNat?) (← x.toNat?) (← optInt t))
  | ["trGet", tr, i] => do some (.trGet (← tr.toNat?) (← i.toNat?))
  | ["trSlice", tr, lo, hi] => do some (.trSlice (← tr.toNat?) (← lo.toNat?) (← hi.toNat?))
  | _ => none

/-- canonical numbering by first appearance -/
def idx (seen : List Nat) (r : Nat) : List Nat × Nat :=
  match seen.idxOf? r with
  | some i => (seen, i)
  | none => (seen ++ [r], seen.length)

def dump (s : St) : String := Id.run do
  let mut seenD : List Nat := []
  let mut seenE : List Nat := []
  let mut out := "V"
  for r in s.vars do
    let (sd, i) := idx seenD r
    seenD := sd
    out := out ++ " " ++ toString i
  out := out ++ " E"
  let visitE := fun (seenD : List Nat) (seenE : List Nat) (e : Nat) =>
    let (se, i) := idx seenE e
    let sd := ((s.ems.getD e ([], none)).1).foldl (fun acc r => (idx acc r).1) seenD
    (sd, se, i)
  for e in s.emVars do
    let (sd, se, i) := visitE seenD seenE e
    seenD := sd; seenE := se
    out := out ++ " " ++ toString i
  out := out ++ " T"
  for tc in s.tcs do
    out := out ++ " ["
    for (t, e) in tc.1.zip tc.2 do
      let (sd, se, i) := visitE seenD seenE e
      seenD := sd; seenE := se
      out := out ++ toString t ++ ":" ++ toString i ++ " "
    out := out ++ "]"
  out := out ++ " K"
  for tr in s.trs do
    out := out ++ " ["
    for (t, r) in tr.1.zip tr.2 do
      let (sd, i) := idx seenD r
      seenD := sd
      out := out ++ toString t ++ ":" ++ toString i ++ " "
    out := out ++ "]"
  out := out ++ " O"
  for e in seenE do
    let (m, dt) := s.ems.getD e ([], none)
    out := out ++ " (" ++ (match dt with | some d => toString d | none => "-") ++ ")"
    for r in m do
      out := out ++ (toString (seenD.idxOf r)) ++ ","
  out := out ++ " D"
  for r in seenD do
    let v := s.val r
    out := out ++ " " ++ toString v.layout ++ "/" ++ toString v.dim ++ "/" ++ toString v.radius
  return out

def pairsR : List Rat → List (Rat × Rat)
  | a :: b :: rest => (a, b) :: pairsR rest
  | _ => []

def showOptRat (o : Option Rat) : String := match o with | some q => showRat q | none => "none"

/-- `c20 stats size <incl> r..` · `stats width w a w a ..` · `stats bbox p r p r ..` · `stats nearest t t1 t2 ..`
    · `stats keep m r..` · `stats duration t..`   (exact rationals) -/
def handleStats (args : List String) : String :=
  match args with
  | "size" :: incl :: rest =>
    match parseRats rest with
    | some rs =>
      let sel := DV.Stats.select (incl == "1") rs
      if sel.isEmpty then "ok 0 nan nan"
      else s!"ok {sel.length} {showRat (DV.Stats.mean sel)} {showRat (DV.Stats.variance sel)}"
    | none => "bad-op"
  | "width" :: rest =>
    match parseRats rest with
    | some xs => "ok " ++ showOptRat (DV.Stats.weightedWidth (pairsR xs))
    | none => "bad-op"
  | "bbox" :: rest =>
    match parseRats rest with
    | some xs => "ok " ++ showOptRat (DV.Stats.lower (pairsR xs)) ++ " " ++ showOptRat (DV.Stats.upper (pairsR xs))
    | none => "bad-op"
  | "nearest" :: rest =>
    match parseRats rest with
    | some (t :: ts) => match DV.Stats.nearestIdx ts t with
      | some i => s!"ok {i}"
      | none => "ok none"
    | _ => "bad-op"
  | "keep" :: rest =>
    match parseRats rest with
    | some (m :: rs) => "ok " ++ " ".intercalate ((DV.Stats.keepLarger rs m).map showRat)
    | _ => "bad-op"
  | "duration" :: rest =>
    match parseRats rest with
    | some ts => "ok " ++ showRat (DV.Stats.duration ts)
    | none => "bad-op"
  | _ => "bad-op"

/-- `c20 op ; op ; …` → per-op result and canonical dump, joined by ` || ` -/
def handleC20 (args : List String) : String :=
  if args.head? == some "stats" then handleStats (args.drop 1) else
  let groups := (args.splitOn ";").filter (fun g => !g.isEmpty)
  match groups.mapM parseOp with
  | none => "bad-op"
  | some ops =>
    let (_, outs) := ops.foldl (fun (acc : St × List String) op =>
      let (s, r) := step acc.1 op
      let tag := match r with | .ok => "ok" | .err k => "err " ++ k
      (s, acc.2 ++ [tag ++ " " ++ dump s])) (St.empty, [])
    " || ".intercalate outs

end DV.Drv
