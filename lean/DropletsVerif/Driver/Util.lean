/- line-protocol helpers (import-free) -/
import DropletsVerif.Num
namespace DV.Drv

def parseFloat (s : String) : Option Float :=
  s.toNat?.map (fun n => Float.ofBits (UInt64.ofNat n))

def showFloat (x : Float) : String := toString x.toBits.toNat

def showRes (r : Res Float) : String :=
  match r with
  | .ok v => "ok " ++ showFloat v
  | .error e => "err " ++ e

/-- exact rational `n/d` (d > 0) or integer -/
def parseRat (s : String) : Option Rat :=
  match s.splitOn "/" with
  | [n] => n.toInt?.map (fun i => (i : Rat))
  | [n, d] => do
      let i ← n.toInt?
      let k ← d.toNat?
      if k = 0 then none else some ((i : Rat) / (k : Rat))
  | _ => none

def showRat (q : Rat) : String := toString q.num ++ "/" ++ toString q.den

def parseRats (xs : List String) : Option (List Rat) := xs.mapM parseRat
def parseNats (xs : List String) : Option (List Nat) := xs.mapM String.toNat?
def parseFloats (xs : List String) : Option (List Float) := xs.mapM parseFloat

end DV.Drv
