import DropletsVerif.Driver.Util
import DropletsVerif.Model.Track
namespace DV.Drv
open DV.Track

def parseFrames : Nat → Nat → List String → Option (List (Rat × List Nat) × List String)
  | 0, _, rest => some ([], rest)
  | f + 1, start, t :: c :: rest => do
      let t ← parseRat t
      let c ← c.toNat?
      let (frs, rest') ← parseFrames f (start + c) rest
      some ((t, (List.range c).map (· + start)) :: frs, rest')
  | _, _, _ => none

def showTracks (trs : List (Track Rat)) : String :=
  ";".intercalate (trs.map fun tr => ",".intercalate (tr.map fun e => toString e.1 ++ "@" ++ showRat e.2))

/-- `c06 overlap N F (t c)*F bits`   /   `c06 distance N F (t c)*F raises maxd d_00 ..` -/
def handleC06 (args : List String) : String :=
  match args with
  | m :: n :: f :: rest =>
    match n.toNat?, f.toNat? with
    | some n, some f =>
      match parseFrames f 0 rest with
      | none => "bad-op"
      | some (frames, rest) =>
        let res : Option (Except String (List (Track Rat))) :=
          match m, rest with
          | "overlap", [bits] =>
            let bs := bits.toList
            let ov : Nat → Nat → Bool := fun a b => bs.getD (a * n + b) '0' == '1'
            some (trackAll (α := Rat) (.overlap ov) frames)
          | "distance", raises :: maxd :: ds =>
            match parseRats ds with
            | some ds =>
              let dist : Nat → Nat → Rat := fun a b => ds.getD (a * n + b) 0
              let md : Option (Option Rat) := if maxd == "inf" then some none else (parseRat maxd).map some
              md.map fun md => trackAll (.distance dist md (raises == "1")) frames
            | none => none
          | _, _ => none
        match res with
        | some (.ok trs) => "ok " ++ showTracks trs
        | some (.error e) => "err " ++ e
        | none => "bad-op"
    | _, _ => "bad-op"
  | _ => "bad-op"

end DV.Drv
