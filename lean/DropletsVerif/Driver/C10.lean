import DropletsVerif.Driver.Util
import DropletsVerif.Model.Overlap
namespace DV.Drv
open DV.Overlap

def showNats (xs : List Nat) : String := " ".intercalate (xs.map toString)

/-- `c10 remove n minDist r_0..r_{n-1} D_00 .. D_{n-1,n-1}` (exact rationals; diagonal ignored)
    `c10 pairwise n sub r_0.. d_00 ..` (float bits) -/
def handleC10 (args : List String) : String :=
  match args with
  | "remove" :: n :: rest =>
    match n.toNat?, parseRats rest with
    | some n, some (m :: vals) =>
      if vals.length ≠ n + n * n then "bad-op" else
      let rs := vals.take n
      let ds := vals.drop n
      let r : Nat → Rat := fun i => rs.getD i 0
      let D : Nat → Nat → Rat := fun i j => ds.getD (i * n + j) 0
      let (res, log) := loop D r m n (List.range n)
      "ok " ++ showNats res ++ " | " ++ " ".intercalate (log.map fun e => toString e.removed ++ ":" ++ toString e.witness)
    | _, _ => "bad-op"
  | "pairwise" :: n :: sub :: rest =>
    match n.toNat?, parseFloats rest with
    | some n, some vals =>
      if vals.length ≠ n + n * n then "bad-op" else
      let rs := vals.take n
      let ds := vals.drop n
      let r : Nat → Float := fun i => rs.getD i 0
      let d : Nat → Nat → Float := fun i j => ds.getD (i * n + j) 0
      let out := (List.range n).flatMap fun i => (List.range n).map fun j =>
        showFloat (pairwise d r (sub == "1") i j)
      "ok " ++ " ".intercalate out
    | _, _ => "bad-op"
  | _ => "bad-op"

end DV.Drv
