import DropletsVerif.Driver.Util
import DropletsVerif.Generated.Merge
namespace DV.Drv
open DV.Gen

/-- `c11 <variant> <dim> p1 r1 w1 p2 r2 w2 po ro wo` (float bits) -/
def handleC11 (args : List String) : String :=
  match args with
  | v :: d :: rest =>
    match d.toNat?, parseFloats rest with
    | some d, some [p1, r1, w1, p2, r2, w2, po, ro, wo] =>
      let d1 : Rec Float := ⟨p1, r1, w1⟩
      let d2 : Rec Float := ⟨p2, r2, w2⟩
      let o : Rec Float := ⟨po, ro, wo⟩
      let res : Option (Res (Rec Float)) :=
        match v with
        | "copy" => some (merge_copy d d1 d2 o)
        | "inplace" => some (merge_inplace d d1 d2 o)
        | "diffuse_copy" => some (merge_diffuse_copy d d1 d2 o)
        | "diffuse_inplace" => some (merge_diffuse_inplace d d1 d2 o)
        | _ => none
      match res with
      | some (.ok r) => "ok " ++ showFloat r.pos ++ " " ++ showFloat r.radius ++ " " ++ showFloat r.width
      | some (.error e) => "err " ++ e
      | none => "bad-op"
    | _, _ => "bad-op"
  | _ => "bad-op"

end DV.Drv
