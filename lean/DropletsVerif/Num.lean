/-
  DropletsVerif.Num — the law-free operation class the *generated* formula models are
  written against.  The same generated definition is instantiated
    * at `Float`  (here, import-free) for the line-protocol driver, and
    * at `ℝ`      (in `Lemmas/RealInst.lean`, Mathlib) for the theorems.
  No law is assumed in the class: every theorem is about the `ℝ` instance.
-/
namespace DV

/-- Arithmetic vocabulary of the translated Python formulas.  `untranslated` is the value the
translator emits for a construct outside its fragment; nothing is known about it, so any
theorem that depended on the construct stops being provable. -/
class DNum (α : Type) extends Add α, Sub α, Mul α, Div α, Neg α where
  lit : Nat → α
  pi : α
  sqrt : α → α
  rpow : α → α → α
  npow : α → Nat → α
  tanh : α → α
  sin : α → α
  cos : α → α
  lt : α → α → Bool
  eqz : α → Bool
  untranslated : α

instance : DNum Float where
  lit n := Float.ofNat n
  pi := 3.141592653589793
  sqrt := Float.sqrt
  rpow := Float.pow
  npow x n := Float.pow x (Float.ofNat n)
  tanh := Float.tanh
  sin := Float.sin
  cos := Float.cos
  lt x y := x < y
  eqz x := x == 0
  untranslated := 0.0 / 0.0

/-- Result of a translated Python function: a value or the name of the raised exception. -/
abbrev Res (α : Type) := Except String α

/-- fold over `enumerate(xs, start)` -/
def foldEnum {α β : Type} (f : β → Nat → α → β) (init : β) (xs : List α) (start : Nat) : β :=
  match xs with
  | [] => init
  | x :: rest => foldEnum f (f init start x) rest (start + 1)

/-- `iterate_in_pairs(xs, fill)` of droplets.py -/
def pairs {α : Type} (fill : α) : List α → List (α × α)
  | [] => []
  | [a] => [(a, fill)]
  | a :: b :: rest => (a, b) :: pairs fill rest

end DV
