/-
  Model of the periodic merging loop of `_locate_droplets_in_mask_cartesian`
  (droplets/image_analysis.py), import-free and executable.  Written POINTWISE (every component
  of the state is a function), which is what makes the invariants provable by case analysis.

  Python                                                        model
  ------                                                        -----
  labels (image), labels_init                                   `St.lab`, `lab0 : cell → label`
  cluster[k-1]  (merged cluster of initial cluster k)           `St.cur`
  offsets[k-1]  (shift of initial cluster k, in periods)        `St.off`
  positions[r-1], volumes[r-1]                                  `St.pos`, `St.vol` (cell units / counts)
  for ax in periodic axes: for l, h in boundary pairs:          `edges.foldl mergeStep`
      i_l, i_h = labels[l], labels[h]
      if i_l > 0 and i_h > 0 and i_l != i_h:
          shift = offsets[init[l]] - offsets[init[h]]; shift[ax] -= 1
          members = cluster == i_h; offsets[members] += shift; cluster[members] = i_l
          pos = (pos_l v_l + (pos_h + shift*shape) v_h)/(v_l+v_h)
          positions[i_h] = positions[i_l] = pos; volumes[..] = v_l + v_h
          labels[labels == i_h] = i_l
-/
namespace DV.Merge

/-- a boundary pair: axis, low cell, high cell (cells are flat C-order indices) -/
structure Edge where
  ax : Nat
  l : Nat
  h : Nat

structure St where
  lab : Nat → Nat
  cur : Nat → Nat
  off : Nat → Nat → Int
  pos : Nat → Nat → Rat
  vol : Nat → Rat

def delta (a b : Nat) : Int := if a = b then 1 else 0

/-- shift (in periods, per axis) applied to the upper cluster when merging through edge `e` -/
def shiftOf (lab0 : Nat → Nat) (st : St) (e : Edge) (a : Nat) : Int :=
  st.off (lab0 e.l) a - st.off (lab0 e.h) a - delta a e.ax

def mergeStep (shape : Nat → Nat) (lab0 : Nat → Nat) (st : St) (e : Edge) : St :=
  let il := st.lab e.l
  let ih := st.lab e.h
  if 0 < il ∧ 0 < ih ∧ il ≠ ih then
    let vl := st.vol il
    let vh := st.vol ih
    { lab := fun c => if st.lab c = ih then il else st.lab c
      cur := fun k => if st.cur k = ih then il else st.cur k
      off := fun k a => if st.cur k = ih then st.off k a + shiftOf lab0 st e a else st.off k a
      pos := fun r a =>
        if r = il ∨ r = ih then
          (st.pos il a * vl + (st.pos ih a + (shiftOf lab0 st e a : Rat) * (shape a : Rat)) * vh) / (vl + vh)
        else st.pos r a
      vol := fun r => if r = il ∨ r = ih then vl + vh else st.vol r }
  else st

def mergeLoop (shape : Nat → Nat) (lab0 : Nat → Nat) (init : St) (edges : List Edge) : St :=
  edges.foldl (mergeStep shape lab0) init

/-! ### initial state from the labelled image -/

/-- sum of `f c` over the cells carrying label `r` -/
def wsum (lab : Nat → Nat) (r : Nat) (f : Nat → Rat) (cells : List Nat) : Rat :=
  (cells.map fun c => if lab c = r then f c else 0).sum

def count (lab : Nat → Nat) (r : Nat) (cells : List Nat) : Rat := wsum lab r (fun _ => 1) cells

/-- `ndimage.center_of_mass + 0.5` and `ndimage.sum` (in cell units) -/
def initSt (coord : Nat → Nat → Nat) (lab0 : Nat → Nat) (cells : List Nat) : St where
  lab := lab0
  cur := fun k => k
  off := fun _ _ => 0
  pos := fun r a => wsum lab0 r (fun c => (coord c a : Rat) + 1 / 2) cells / count lab0 r cells
  vol := fun r => count lab0 r cells

/-! ### concrete grids: C-order cells and the boundary pairs in `itertools.product` order -/

def unflat (shape : List Nat) (c : Nat) : List Nat :=
  (shape.foldr (fun n (acc : List Nat × Nat) => ((acc.2 % n) :: acc.1, acc.2 / n)) ([], c)).1

def coordOf (shape : List Nat) (c a : Nat) : Nat := (unflat shape c).getD a 0

def numCells (shape : List Nat) : Nat := shape.foldl (· * ·) 1

/-- flat index of the cell obtained from `c` by setting coordinate `ax` to `v` -/
def setCoord (shape : List Nat) (c ax v : Nat) : Nat :=
  let idx := (unflat shape c).set ax v
  (idx.zip shape).foldl (fun acc p => acc * p.2 + p.1) 0

def edgesOf (shape : List Nat) (periodic : List Bool) : List Edge :=
  (List.range shape.length).flatMap fun ax =>
    if periodic.getD ax false then
      ((List.range (numCells shape)).filter fun c => coordOf shape c ax == 0).map fun c =>
        ⟨ax, c, setCoord shape c ax (shape.getD ax 1 - 1)⟩
    else []

/-- surviving labels (sorted) with cell count and position (cell units) -/
def locateCells (shape : List Nat) (periodic : List Bool) (labels : List Nat) :
    List (Nat × Rat × List Rat) :=
  let n := numCells shape
  let cells := List.range n
  let lab0 : Nat → Nat := fun c => labels.getD c 0
  let shp : Nat → Nat := fun a => shape.getD a 1
  let st := mergeLoop shp lab0 (initSt (coordOf shape) lab0 cells) (edgesOf shape periodic)
  let nlab := labels.foldl max 0
  ((List.range (nlab + 1)).filter fun r => r > 0 && cells.any fun c => st.lab c == r).map fun r =>
    (r, st.vol r, (List.range shape.length).map fun a => st.pos r a)

end DV.Merge
