/-
  Model of the dispatch and error branches of `locate_droplets` / `locate_droplets_in_mask` /
  `_locate_droplets_in_mask_cylindrical*` (droplets/image_analysis.py).  Import-free.

  Python                                                              model
  not isinstance(phase_field, ScalarField) -> TypeError               `locateOutcome`
  modes > 0 and dim not in [2, 3] -> ValueError
  locate_droplets_in_mask: Cartesian / spherical-symmetric /          `maskOutcome`
      cylindrical handled; another GridBase -> NotImplementedError;
      not a grid -> ValueError
  cylindrical_single: clusters touching the axis are kept; none ->    `cylSingle`
      empty emulsion; a cluster spanning the padded z range raises
      the internal signal (periodic case only)
  cylindrical: periodic -> pad, locate; signal -> fall back to the     `cylLocate`
      unpadded image; keep candidates inside the box
-/
namespace DV.Dispatch

inductive GridKind where
  | cartesian | sphericalSym | cylindricalSym | otherGrid | notAGrid
  deriving DecidableEq, Repr

def maskOutcome : GridKind → Except String Unit
  | .cartesian => .ok ()
  | .sphericalSym => .ok ()
  | .cylindricalSym => .ok ()
  | .otherGrid => .error "NotImplementedError"
  | .notAGrid => .error "ValueError"

def locateOutcome (isScalarField : Bool) (g : GridKind) (dim modes : Nat) : Except String Unit :=
  if !isScalarField then .error "TypeError"
  else if modes > 0 ∧ dim ≠ 2 ∧ dim ≠ 3 then .error "ValueError"
  else maskOutcome g

/-- a labelled cluster of a cylindrical image: does it touch the axis (`slices[0].start == 0`), does
it span the whole padded z range -/
structure Cluster where
  onAxis : Bool
  spans : Bool

/-- `_locate_droplets_in_mask_cylindrical_single`: indices (1-based) of the clusters that become
droplets, or the spanning signal -/
def cylSingle (clusters : List Cluster) : Except String (List Nat) :=
  if clusters.zipIdx.any (fun p => p.1.onAxis && p.1.spans) then .error "_SpanningDropletSignal"
  else .ok ((clusters.zipIdx.filter fun p => p.1.onAxis).map fun p => p.2 + 1)

/-- `_locate_droplets_in_mask_cylindrical`: number of droplet candidates returned -/
def cylLocate (periodic : Bool) (padded unpadded : List Cluster) (insideBox : Nat → Bool) : Except String (List Nat) :=
  if periodic then
    match cylSingle padded with
    | .ok idx => .ok (idx.filter insideBox)
    | .error _ => cylSingle (unpadded.map fun c => { c with spans := false })
  else cylSingle (unpadded.map fun c => { c with spans := false })

end DV.Dispatch
