/-
  Model of `Emulsion.remove_overlapping` and `Emulsion.get_pairwise_distances`
  (droplets/emulsions.py).  Import-free and executable; generic over the number type (only `<`).

  Python                                                     model
  ------                                                     -----
  dists = get_pairwise_distances(subtract_radius=True)       `D : Nat → Nat → α` on ORIGINAL indices
  np.fill_diagonal(dists, inf)                               pairs range over `offDiag` only
  while len(dists) > 1:                                      fuel = number of items
      x, y = unravel_index(argmin(dists))                    `firstMin` : row-major FIRST minimum
      if dists[x, y] < min_distance:
          if self[x].radius > self[y].radius: pop(y) …       `items.erase y`
          else: pop(x) …                                     `items.erase x`
          dists = delete row+column                          (indexing by original ids is the same thing)
      else: break
-/
namespace DV.Overlap

variable {α : Type} [LT α] [DecidableRel (α := α) (· < ·)]

/-- ordered off-diagonal pairs in row-major order -/
def offDiag (items : List Nat) : List (Nat × Nat) :=
  items.flatMap fun a => (items.filter (fun b => b != a)).map fun b => (a, b)

def better (D : Nat → Nat → α) (best : Option (Nat × Nat)) (p : Nat × Nat) : Option (Nat × Nat) :=
  match best with
  | none => some p
  | some q => if D p.1 p.2 < D q.1 q.2 then some p else some q

/-- `np.argmin` over the listed entries: the first entry that is strictly below all earlier ones -/
def firstMin (D : Nat → Nat → α) (ps : List (Nat × Nat)) : Option (Nat × Nat) :=
  ps.foldl (better D) none

/-- one log entry: the removed item, the item it was too close to, the list at that moment -/
structure Removal where
  removed : Nat
  witness : Nat
  present : List Nat

/-- the `while` loop; returns the survivors and the removal log (oldest first) -/
def loop (D : Nat → Nat → α) (r : Nat → α) (minDist : α) :
    Nat → List Nat → List Nat × List Removal
  | 0, items => (items, [])
  | fuel + 1, items =>
    match firstMin D (offDiag items) with
    | none => (items, [])
    | some (x, y) =>
      if D x y < minDist then
        let (u, w) := if r y < r x then (y, x) else (x, y)
        let (res, log) := loop D r minDist fuel (items.erase u)
        (res, ⟨u, w, items⟩ :: log)
      else (items, [])

/-- `remove_overlapping` on items `0..n-1` -/
def removeOverlapping (D : Nat → Nat → α) (r : Nat → α) (minDist : α) (n : Nat) : List Nat :=
  (loop D r minDist n (List.range n)).1

/-- `get_pairwise_distances`: upper triangle computed from `d`, mirrored, zero diagonal -/
def pairwise [Sub α] [Add α] [OfNat α 0] (d : Nat → Nat → α) (r : Nat → α) (sub : Bool) (i j : Nat) : α :=
  if i = j then 0
  else
    let lo := min i j
    let hi := max i j
    if sub then d lo hi - (r lo + r hi) else d lo hi

end DV.Overlap
