/-
  Model of `DropletTracker.handle`, `EmulsionTimeCourse.from_storage` (serial branch) and
  `LengthScaleTracker.handle` (droplets/trackers.py, droplets/emulsions.py).  Import-free.
  The analysis itself (`locate_droplets`, `get_length_scale`) is a PARAMETER: the statements hold
  for every analysis function, including ones that fail on some frames.

  Python                                                          model
  DropletTracker.handle(field, t):                                `handle`
      emulsion = locate_droplets(extract(field),
          threshold=self.threshold, refine=self.refine,           `optsOf`
          refine_args=self.refine_args, modes=self.perturbation_modes,
          minimal_radius=self.minimal_radius)
      self.data.append(emulsion, t)                               `st ++ [(t, e)]`  (exception escapes)
  EmulsionTimeCourse.from_storage(storage, refine=, **kwargs):    `fromStorage`
      cls([locate_droplets(f, refine=refine, **kwargs) for f in storage], times=storage.times)
  LengthScaleTracker.handle: try get_length_scale except: nan     `lsHandle`
-/
namespace DV.Tracker

/-- tracker attributes (opaque tokens: the model only moves them around) -/
structure Settings (θ ρ : Type) where
  threshold : θ
  minimalRadius : ρ
  refine : Bool
  refineArgs : ρ
  perturbationModes : Nat

/-- keyword arguments of `locate_droplets` -/
structure Opts (θ ρ : Type) where
  threshold : θ
  minimalRadius : ρ
  refine : Bool
  refineArgs : ρ
  modes : Nat

def optsOf {θ ρ : Type} (s : Settings θ ρ) : Opts θ ρ :=
  { threshold := s.threshold, minimalRadius := s.minimalRadius, refine := s.refine,
    refineArgs := s.refineArgs, modes := s.perturbationModes }

variable {θ ρ F E T : Type}

/-- one interrupt of the simulation -/
def handle (locate : Opts θ ρ → F → Except String E) (s : Settings θ ρ)
    (st : List (T × E)) (fr : F × T) : Except String (List (T × E)) :=
  match locate (optsOf s) fr.1 with
  | .ok e => .ok (st ++ [(fr.2, e)])
  | .error err => .error err

def runTracker (locate : Opts θ ρ → F → Except String E) (s : Settings θ ρ) (frames : List (F × T)) :
    Except String (List (T × E)) :=
  frames.foldlM (handle locate s) []

/-- offline analysis of the stored fields with the given keyword arguments -/
def fromStorage (locate : Opts θ ρ → F → Except String E) (o : Opts θ ρ) (frames : List (F × T)) :
    Except String (List (T × E)) :=
  match (frames.map (·.1)).mapM (locate o) with
  | .ok es => .ok ((frames.map (·.2)).zip es)
  | .error err => .error err

/-- `try: get_length_scale(..) except Exception: nan` -/
def valueOrNaN {V : Type} (r : Except String V) : Option V :=
  match r with
  | .ok v => some v
  | .error _ => none

/-- length-scale tracker: value, or NaN (`none`) when the analysis raises; never fails -/
def lsHandle {V : Type} (ls : F → Except String V) (st : List (T × Option V)) (fr : F × T) :
    List (T × Option V) :=
  st ++ [(fr.2, valueOrNaN (ls fr.1))]

def runLs {V : Type} (ls : F → Except String V) (frames : List (F × T)) : List (T × Option V) :=
  frames.foldl (lsHandle ls) []

/-! ### source selection (`pde.visualization.plotting.extract_field(fields, source, 0)`)

  source is None      -> the state itself (must not be a collection)
  callable(source)    -> source(state)
  otherwise (an int, 0 INCLUDED) -> state[source] of a collection -/

inductive Source where
  | asIs
  | index (k : Nat)
  | func

/-- state handed to the tracker: a single field or a collection of fields -/
structure State (F : Type) where
  isCollection : Bool
  fields : List F

def extract (src : Source) (g : List F → F) (st : State F) : Except String F :=
  match src with
  | .asIs => if st.isCollection then .error "TypeError" else
      match st.fields with
      | f :: _ => .ok f
      | [] => .error "TypeError"
  | .func => .ok (g st.fields)
  | .index k => if st.isCollection then
      match st.fields[k]? with
      | some f => .ok f
      | none => .error "IndexError"
    else .error "TypeError"

/-- length-scale tracker with a source: the selection happens OUTSIDE the exception guard -/
def lsHandleSrc {V : Type} (src : Source) (g : List F → F) (ls : F → Except String V)
    (st : List (T × Option V)) (fr : State F × T) : Except String (List (T × Option V)) :=
  match extract src g fr.1 with
  | .ok f => .ok (st ++ [(fr.2, valueOrNaN (ls f))])
  | .error e => .error e

end DV.Tracker
