/-
  Executable model of the contract of `scipy.ndimage.label` as used by
  `_locate_droplets_in_mask_cartesian` (default structuring element: face connectivity inside the
  box, clusters numbered 1, 2, … in raster (C) order of their first cell), import-free.

  The labeller is deliberately written with the SAME relabelling step as the periodic merge loop
  (`DV.Merge.mergeStep`): every mask cell starts in its own cluster (`seedLab`), the in-box face pairs
  are processed one after the other, and the resulting clusters are then renumbered in raster order.
  This makes the partition theorem of the merge loop (`LabInv`) apply verbatim, so that
  `locateMask` (mask → labelling → periodic merging → clusters) is covered by one theorem that
  speaks about the mask and the grid's adjacency only (Props/C02.lean: `locateMask_partition`).

  scipy's labelling itself remains outside the repository; the correspondence check compares it
  with `labelExec` on every generated image small enough for this quadratic algorithm.
-/
import DropletsVerif.Model.Merge
namespace DV.Label
open DV.Merge

/-- in-box face pairs `(c, c + e_ax)`, in raster order of the lower cell -/
def inboxEdges (shape : List Nat) : List Edge :=
  (List.range (numCells shape)).flatMap fun c =>
    (List.range shape.length).filterMap fun ax =>
      if coordOf shape c ax + 1 < shape.getD ax 1 then
        some ⟨ax, c, setCoord shape c ax (coordOf shape c ax + 1)⟩
      else none

/-- every mask cell is its own initial cluster -/
def seedLab (mask : Nat → Bool) (c : Nat) : Nat := if mask c then c + 1 else 0

/-- final state of the relabelling loop over the in-box face pairs (a value: computed once) -/
def rawState (shape : List Nat) (mask : Nat → Bool) : St :=
  let cells := List.range (numCells shape)
  let shp : Nat → Nat := fun a => shape.getD a 1
  mergeLoop shp (seedLab mask) (initSt (coordOf shape) (seedLab mask) cells) (inboxEdges shape)

/-- clusters of the in-box adjacency, with arbitrary (non-canonical) names -/
def rawLabel (shape : List Nat) (mask : Nat → Bool) : Nat → Nat := (rawState shape mask).lab

/-- first cell (in raster order, among the first `n`) carrying the same label as `c` -/
def firstOf (n : Nat) (lab : Nat → Nat) (c : Nat) : Nat :=
  ((List.range n).find? fun c' => lab c' == lab c).getD c

/-- `c` is the first cell of its cluster, given the table `first` of first cells -/
def isFirstF (lab first : Nat → Nat) (c : Nat) : Bool := decide (0 < lab c) && first c == c

/-- number of clusters whose first cell is not after the first cell of `c`'s cluster -/
def rankF (lab first : Nat → Nat) (c : Nat) : Nat :=
  if lab c = 0 then 0 else ((List.range (first c + 1)).filter (isFirstF lab first)).length

def isFirst (n : Nat) (lab : Nat → Nat) (c : Nat) : Bool := isFirstF lab (firstOf n lab) c

/-- raster-order name of the cluster of `c` -/
def rank (n : Nat) (lab : Nat → Nat) (c : Nat) : Nat := rankF lab (firstOf n lab) c

/-- the labelled image (flat, C order) -/
def labelExec (shape : List Nat) (mask : Nat → Bool) : List Nat :=
  let n := numCells shape
  let st := rawState shape mask
  -- tabulate once: `st.lab` is a chain of closures, `firstOf` a linear search
  let tab := ((List.range n).map st.lab).toArray
  let lab : Nat → Nat := fun c => tab.getD c 0
  let ftab := ((List.range n).map (firstOf n lab)).toArray
  let first : Nat → Nat := fun c => ftab.getD c 0
  (List.range n).map (rankF lab first)

/-- mask → clusters (label, cell count, position in cell units): the whole Cartesian pipeline
before the conversion to grid coordinates -/
def locateMask (shape : List Nat) (periodic : List Bool) (mask : List Bool) :
    List (Nat × Rat × List Rat) :=
  let m := mask.toArray
  locateCells shape periodic (labelExec shape fun c => m.getD c false)

end DV.Label
