/-
  Heap model of the collection classes: `Emulsion` (a list of droplet OBJECTS), `EmulsionTimeCourse`
  (parallel lists times / emulsions) and `DropletTrack` (parallel lists times / droplets) with the
  copy discipline of droplets/emulsions.py and droplets/droplet_tracks.py.  Import-free, executable.

  A droplet object is a reference into `heap`; "copy" allocates a new cell.  Collections hold
  references, the caller holds references (`vars`).  The abstract view of a collection is the list
  of VALUES its references point to.

  Python                                            model
  Emulsion.append(d, copy=True, force_consistency)  `emAppend`  (copy -> fresh cell; dtype check)
  Emulsion.extend / Emulsion(droplets)              `emExtend`  (append each, copying)
  Emulsion.copy(min_radius)                         `emCopy`    (fresh cells of members with r > min)
  em[i]                                             `emGet`     (THE stored object: an alias)
  em[a:b], em1 + em2                                `emSlice`, `emAdd` (Emulsion(list): fresh cells)
  remove_small(min)                                 `emRemoveSmall` (same objects, filtered)
  clear()                                           `emClear`
  get_linked_data()                                 no change of the abstract state (same objects,
                                                    same values; their storage moves into one array)
  member.merge(other, inplace=True) / d.radius = …  `setVal` through the member's reference
  EmulsionTimeCourse.append(e, time=None, copy)     `tcAppend` (Emulsion(e) then .copy(): fresh emulsion
                                                    of fresh cells; time default 0 / last+1)
  tc[i] / tc[a:b] / clear()                         `tcGet` (alias) / `tcSlice` (fresh) / `tcClear`
  DropletTrack.append(d, time=None)                 `trAppend` (dim check; fresh cell; time default)
  track[i] / track[a:b]                             `trGet` (alias) / `trSlice` (fresh)
-/
namespace DV.Coll

/-- value of a droplet: data layout tag (class & dimension & modes), dimension, radius -/
structure Val where
  layout : Nat
  dim : Nat
  radius : Int
  deriving DecidableEq, Repr

abbrev Ref := Nat

structure St where
  heap : List Val
  vars : List Ref                      -- droplets held by the caller
  ems : List (List Ref × Option Nat)   -- every emulsion object: members, dtype (layout of first insert)
  emVars : List Nat                    -- emulsions held by the caller (indices into `ems`)
  tcs : List (List Int × List Nat)     -- time courses: parallel lists `times`, `emulsions` (objects)
  trs : List (List Int × List Ref)     -- tracks: parallel lists `times`, `droplets` (objects)
  deriving Repr

def St.empty : St := ⟨[], [], [], [], [], []⟩

def St.val (s : St) (r : Ref) : Val := s.heap.getD r ⟨0, 0, 0⟩

/-- allocate a copy of `v`; returns the new state and the fresh reference -/
def alloc (s : St) (v : Val) : St × Ref := ({ s with heap := s.heap ++ [v] }, s.heap.length)

/-- copy the objects `rs` (in order) -/
def allocAll (s : St) (rs : List Ref) : St × List Ref :=
  rs.foldl (fun (acc : St × List Ref) r =>
    let (s', r') := alloc acc.1 (acc.1.val r)
    (s', acc.2 ++ [r'])) (s, [])

inductive Res where
  | ok
  | err (kind : String)
  deriving DecidableEq, Repr

/-- insert one object into emulsion `e` -/
def emInsert (s : St) (e : Nat) (r : Ref) (copy force : Bool) : St × Res :=
  match s.ems[e]? with
  | none => (s, .err "IndexError")
  | some (members, dtype) =>
    let lay := (s.val r).layout
    if force && dtype.any (· != lay) then (s, .err "ValueError")
    else if copy then
      ({ s with heap := s.heap ++ [s.val r],
                ems := s.ems.set e (members ++ [s.heap.length], some (dtype.getD lay)) }, .ok)
    else
      ({ s with ems := s.ems.set e (members ++ [r], some (dtype.getD lay)) }, .ok)

def newEm (s : St) : St := { s with ems := s.ems ++ [([], none)] }

/-- `Emulsion(list of objects)`: a new emulsion object holding copies -/
def emOfRefs (s : St) (rs : List Ref) : St × Nat :=
  let e := s.ems.length
  let s1 := newEm s
  (rs.foldl (fun acc r => (emInsert acc e r true false).1) s1, e)

def defaultTime (ts : List Int) : Int :=
  match ts.getLast? with
  | none => 0
  | some t => t + 1

/-- `Emulsion(droplets_already_copied, copy=False)` held by nobody yet: returns the new emulsion id -/
def emOfOwned (s : St) (rs : List Ref) : St × Nat :=
  let e := s.ems.length
  (rs.foldl (fun acc r => (emInsert acc e r false false).1) (newEm s), e)

/-- `emulsion.copy()`: copies of the members, wrapped in a new emulsion -/
def emCopyOf (s : St) (src : List Ref) : St × Nat :=
  let (s1, rs) := allocAll s src
  emOfOwned s1 rs

/-- what `EmulsionTimeCourse.append` stores for the emulsion object `eo` -/
def tcStored (s : St) (eo : Nat) (copy : Bool) : St × Nat :=
  -- `emulsion = Emulsion(emulsion)`; `if copy: emulsion = emulsion.copy()`
  let (s1, e1) := emOfRefs s (s.ems.getD eo ([], none)).1
  if copy then emCopyOf s1 (s1.ems.getD e1 ([], none)).1 else (s1, e1)

/-- members of a sliced time course: `Emulsion(e)` in `__init__`, then `append` (default copy) -/
def tcSliceMembers (s : St) (part : List Nat) : St × List Nat :=
  part.foldl (fun (acc : St × List Nat) eo =>
    let (sa, e1) := emOfRefs acc.1 (acc.1.ems.getD eo ([], none)).1
    let (sb, e3) := tcStored sa e1 true
    (sb, acc.2 ++ [e3])) (s, [])

inductive Op where
  | newDrop (v : Val)
  | setVar (x : Nat) (radius : Int)                 -- mutate the caller's droplet `vars[x]`
  | newEm                                           -- `Emulsion()` held by the caller
  | emAppend (e x : Nat) (copy force : Bool)        -- e, x index `emVars`, `vars`
  | emExtend (e e2 : Nat)                           -- `e.extend(e2)`
  | emCopy (e : Nat) (minR : Int)
  | emSlice (e lo hi : Nat)
  | emAdd (e1 e2 : Nat)
  | emGet (e i : Nat)                               -- `vars.append(e[i])`
  | emSetMember (e i : Nat) (radius : Int)          -- `e[i].radius = …` / in-place merge
  | emRemoveSmall (e : Nat) (minR : Int)
  | emClear (e : Nat)
  | emLink (e : Nat)                                -- `get_linked_data()`
  | newTc
  | tcAppend (tc e : Nat) (time : Option Int) (copy : Bool)
  | tcGet (tc i : Nat)                              -- `emVars.append(tc[i])`
  | tcSlice (tc lo hi : Nat)
  | tcClear (tc : Nat)
  | newTr
  | trAppend (tr x : Nat) (time : Option Int)
  | trGet (tr i : Nat)
  | trSlice (tr lo hi : Nat)
  deriving Repr

def emObj (s : St) (e : Nat) : Option Nat := s.emVars[e]?

def step (s : St) (op : Op) : St × Res :=
  match op with
  | .newDrop v =>
    let (s1, r) := alloc s v
    ({ s1 with vars := s1.vars ++ [r] }, .ok)
  | .setVar x radius =>
    match s.vars[x]? with
    | none => (s, .err "IndexError")
    | some r => ({ s with heap := s.heap.modify r (fun v => { v with radius := radius }) }, .ok)
  | .newEm => ({ newEm s with emVars := s.emVars ++ [s.ems.length] }, .ok)
  | .emAppend e x copy force =>
    match emObj s e, s.vars[x]? with
    | some eo, some r => emInsert s eo r copy force
    | _, _ => (s, .err "IndexError")
  | .emExtend e e2 =>
    match emObj s e, emObj s e2 with
    | some eo, some eo2 =>
      let src := (s.ems.getD eo2 ([], none)).1
      (src.foldl (fun acc r => (emInsert acc eo r true false).1) s, .ok)
    | _, _ => (s, .err "IndexError")
  | .emCopy e minR =>
    match emObj s e with
    | some eo =>
      let src := ((s.ems.getD eo ([], none)).1).filter fun r => decide (minR < (s.val r).radius)
      -- `[d.copy() for d in self if …]` then `Emulsion(droplets, copy=False)`
      let (s1, e') := emCopyOf s src
      ({ s1 with emVars := s1.emVars ++ [e'] }, .ok)
    | none => (s, .err "IndexError")
  | .emSlice e lo hi =>
    match emObj s e with
    | some eo =>
      let src := (((s.ems.getD eo ([], none)).1).take hi).drop lo
      let (s1, e') := emOfRefs s src
      ({ s1 with emVars := s1.emVars ++ [e'] }, .ok)
    | none => (s, .err "IndexError")
  | .emAdd e1 e2 =>
    match emObj s e1, emObj s e2 with
    | some a, some b =>
      let src := (s.ems.getD a ([], none)).1 ++ (s.ems.getD b ([], none)).1
      let (s1, e') := emOfRefs s src
      ({ s1 with emVars := s1.emVars ++ [e'] }, .ok)
    | _, _ => (s, .err "IndexError")
  | .emGet e i =>
    match emObj s e with
    | some eo =>
      match ((s.ems.getD eo ([], none)).1)[i]? with
      | some r => ({ s with vars := s.vars ++ [r] }, .ok)
      | none => (s, .err "IndexError")
    | none => (s, .err "IndexError")
  | .emSetMember e i radius =>
    match emObj s e with
    | some eo =>
      match ((s.ems.getD eo ([], none)).1)[i]? with
      | some r => ({ s with heap := s.heap.modify r (fun v => { v with radius := radius }) }, .ok)
      | none => (s, .err "IndexError")
    | none => (s, .err "IndexError")
  | .emRemoveSmall e minR =>
    match emObj s e with
    | some eo =>
      let (m, dt) := s.ems.getD eo ([], none)
      ({ s with ems := s.ems.set eo (m.filter (fun r => decide (minR < (s.val r).radius)), dt) }, .ok)
    | none => (s, .err "IndexError")
  | .emClear e =>
    match emObj s e with
    | some eo =>
      let (_, dt) := s.ems.getD eo ([], none)
      ({ s with ems := s.ems.set eo ([], dt) }, .ok)
    | none => (s, .err "IndexError")
  | .emLink e =>
    match emObj s e with
    | some _ => (s, .ok)
    | none => (s, .err "IndexError")
  | .newTc => ({ s with tcs := s.tcs ++ [([], [])] }, .ok)
  | .tcAppend tc e time copy =>
    match s.tcs[tc]?, emObj s e with
    | some (times, members), some eo =>
      let (s2, e2) := tcStored s eo copy
      let t := match time with | some t => t | none => defaultTime times
      -- `self.emulsions.append(emulsion)` … `self.times.append(time)`
      ({ s2 with tcs := s2.tcs.set tc (times ++ [t], members ++ [e2]) }, .ok)
    | _, _ => (s, .err "IndexError")
  | .tcGet tc i =>
    match s.tcs[tc]? with
    | some (_, members) =>
      match members[i]? with
      | some eo => ({ s with emVars := s.emVars ++ [eo] }, .ok)
      | none => (s, .err "IndexError")
    | none => (s, .err "IndexError")
  | .tcSlice tc lo hi =>
    match s.tcs[tc]? with
    | some (times, members) =>
      -- `self.__class__(emulsions=result, times=self.times[key])`: each member goes through append
      let s1 := tcSliceMembers s ((members.take hi).drop lo)
      -- `self.times = list(times)`; a length mismatch raises ValueError (cannot happen for a slice of aligned lists)
      let ts := (times.take hi).drop lo
      if ts.length ≠ s1.2.length then (s, .err "ValueError")
      else ({ s1.1 with tcs := s1.1.tcs ++ [(ts, s1.2)] }, .ok)
    | none => (s, .err "IndexError")
  | .tcClear tc =>
    match s.tcs[tc]? with
    | some _ => ({ s with tcs := s.tcs.set tc ([], []) }, .ok)
    | none => (s, .err "IndexError")
  | .newTr => ({ s with trs := s.trs ++ [([], [])] }, .ok)
  | .trAppend tr x time =>
    match s.trs[tr]?, s.vars[x]? with
    | some (times, drops), some r =>
      let dimOk := match drops.getLast? with
        | some last => (s.val last).dim == (s.val r).dim
        | none => true
      if !dimOk then (s, .err "ValueError")
      else
        let (s1, r') := alloc s (s.val r)
        let t := match time with | some t => t | none => defaultTime times
        ({ s1 with trs := s1.trs.set tr (times ++ [t], drops ++ [r']) }, .ok)
    | _, _ => (s, .err "IndexError")
  | .trGet tr i =>
    match s.trs[tr]? with
    | some (_, drops) =>
      match drops[i]? with
      | some r => ({ s with vars := s.vars ++ [r] }, .ok)
      | none => (s, .err "IndexError")
    | none => (s, .err "IndexError")
  | .trSlice tr lo hi =>
    match s.trs[tr]? with
    | some (times, drops) =>
      let (s1, rs) := allocAll s ((drops.take hi).drop lo)
      let ts := (times.take hi).drop lo
      if ts.length ≠ rs.length then (s, .err "ValueError")
      else ({ s1 with trs := s1.trs ++ [(ts, rs)] }, .ok)
    | none => (s, .err "IndexError")

def run (ops : List Op) : St × List Res :=
  ops.foldl (fun (acc : St × List Res) op =>
    let (s, r) := step acc.1 op
    (s, acc.2 ++ [r])) (St.empty, [])

end DV.Coll
