/-
  Model of `_locate_droplets_in_mask_cylindrical_single` and `_locate_droplets_in_mask_cylindrical`
  (droplets/image_analysis.py) up to the overlap filter, exact over `Rat`/`Nat`, import-free, executable.

  Python                                                                   model
  labels = ndimage.label(mask)                                              `DV.Label.labelExec [nr, nzp]` (C02: contract proved)
  for index, slices in enumerate(find_objects(labels), 1):                  `clusters` in label order
      if slices[0].start == 0:            # touches the symmetry axis        `Cluster.onAxis`
          if slices[1].start == 0 and slices[1].stop > grid.shape[1]: raise  `Cluster.spans nz`  (z-extent from 0 beyond nz)
  pos = center_of_mass(mask, labels, index=indices) + 0.5                   `Cluster.zpos`  (mean z index + 1/2, cell units)
  vol = sum_labels(outer(vol_r, dz), labels, indices)                       `Cluster.weight` (Σ (2 i_r + 1): volume / (π dr² dz))
  periodic: pad 3x, candidates, position -= length, keep z_min <= z <= z_max,
            wrap z into [z_min, z_max) (repair 45d5185); spanning -> fall back to the unpadded image
-/
import DropletsVerif.Model.Label
namespace DV.Cyl
open DV.Merge DV.Label

structure Cluster where
  label : Nat
  cells : List Nat        -- flat indices in the image it was found in
  deriving Repr

/-- clusters of a labelled image, in label order -/
def clustersOf (labels : List Nat) : List Cluster :=
  let k := labels.foldl max 0
  (List.range k).map fun j =>
    ⟨j + 1, (List.range labels.length).filter fun c => labels.getD c 0 == j + 1⟩

variable (nzp : Nat)   -- z extent of the image the cluster lives in

def rIdx (c : Nat) : Nat := c / nzp
def zIdx (c : Nat) : Nat := c % nzp

def Cluster.onAxis (cl : Cluster) : Bool := cl.cells.any fun c => rIdx nzp c == 0

/-- `slices[1].start == 0 and slices[1].stop > nz` -/
def Cluster.spans (cl : Cluster) (nz : Nat) : Bool :=
  (cl.cells.any fun c => zIdx nzp c == 0) && (cl.cells.any fun c => decide (nz ≤ zIdx nzp c))

/-- mean z index + 1/2 (cell units of the image) -/
def Cluster.zpos (cl : Cluster) : Rat :=
  ((cl.cells.map fun c => (zIdx nzp c : Rat)).foldl (· + ·) 0) / (cl.cells.length : Rat) + 1 / 2

/-- volume in units of π dr² dz -/
def Cluster.weight (cl : Cluster) : Nat := (cl.cells.map fun c => 2 * rIdx nzp c + 1).foldl (· + ·) 0

/-- result of the single-image routine: `none` = the spanning signal -/
def single (nr nzImg nz : Nat) (mask : Nat → Bool) : Option (List (Rat × Nat)) :=
  let labels := labelExec [nr, nzImg] mask
  let on := (clustersOf labels).filter (Cluster.onAxis nzImg)
  if on.any (fun cl => cl.spans nzImg nz) then none
  else some (on.map fun cl => (cl.zpos nzImg, cl.weight nzImg))

/-- wrap-padded image: three copies along z -/
def padded (nz : Nat) (mask : Nat → Bool) (c : Nat) : Bool :=
  mask (rIdx (3 * nz) c * nz + zIdx (3 * nz) c % nz)

/-- candidates handed to the overlap filter: (z in cell units of the ORIGINAL grid, weight) -/
def candidates (nr nz : Nat) (periodic : Bool) (mask : Nat → Bool) : Option (List (Rat × Nat)) :=
  let plain := single nr nz nz mask
  if periodic then
    match single nr (3 * nz) nz (padded nz mask) with
    | none => plain
    | some cs =>
      let shifted := cs.map fun p => (p.1 - (nz : Rat), p.2)
      let kept := shifted.filter fun p => decide (0 ≤ p.1) && decide (p.1 ≤ (nz : Rat))
      some (kept.map fun p => (if p.1 == (nz : Rat) then 0 else p.1, p.2))
  else plain

end DV.Cyl
