/-
  Summary queries of the collections (droplets/emulsions.py, droplets/droplet_tracks.py), exact over `Rat`.
  Import-free, executable.

  Python                                                              model
  get_size_statistics(incl_vanished): count, np.mean, np.std          `select`, `mean`, `variance` (std² — no square root)
  total_droplet_volume = sum(d.volume)                                `total`
  interface_width = sum(w·A)/sum(A) over droplets with a width,       `weightedWidth` (none when the total area is 0)
      None if the total area is 0
  bbox: per axis min(pos − r), max(pos + r)                           `lower`, `upper`
  EmulsionTimeCourse.get_emulsion(t): argmin |times − t| (first)      `nearestIdx`
  Emulsion.copy(min_radius) / remove_small: radius > min_radius        `keepLarger`
  DropletTrack.duration = times[-1] − times[0]                        `duration`
-/
namespace DV.Stats

def sum (xs : List Rat) : Rat := xs.foldl (· + ·) 0

def mean (xs : List Rat) : Rat := sum xs / (xs.length : Rat)

/-- population variance (`np.std` squared) -/
def variance (xs : List Rat) : Rat := sum (xs.map fun x => (x - mean xs) * (x - mean xs)) / (xs.length : Rat)

/-- radii that enter the size statistics -/
def select (inclVanished : Bool) (rs : List Rat) : List Rat :=
  if inclVanished then rs else rs.filter fun r => decide (0 < r)

/-- area-weighted mean of the interface widths; `ws` = (width, surface area) of the droplets that have a width -/
def weightedWidth (ws : List (Rat × Rat)) : Option Rat :=
  let area := sum (ws.map (·.2))
  if area == 0 then none else some (sum (ws.map fun p => p.1 * p.2) / area)

def minList : List Rat → Option Rat
  | [] => none
  | x :: xs => some (xs.foldl (fun a b => if b < a then b else a) x)

def maxList : List Rat → Option Rat
  | [] => none
  | x :: xs => some (xs.foldl (fun a b => if a < b then b else a) x)

/-- bounding box along one axis from (position, radius) pairs -/
def lower (ps : List (Rat × Rat)) : Option Rat := minList (ps.map fun p => p.1 - p.2)
def upper (ps : List (Rat × Rat)) : Option Rat := maxList (ps.map fun p => p.1 + p.2)

def absR (x : Rat) : Rat := if x < 0 then -x else x

/-- `np.argmin(np.abs(times - t))`: index of the first member nearest in time -/
def nearestIdx (ts : List Rat) (t : Rat) : Option Nat :=
  match ts with
  | [] => none
  | x :: xs =>
    some ((xs.foldl (fun (acc : Nat × Nat × Rat) y =>
      let i := acc.1 + 1
      if absR (y - t) < acc.2.2 then (i, i, absR (y - t)) else (i, acc.2.1, acc.2.2)) (0, 0, absR (x - t))).2.1)

/-- `[d for d in droplets if d.radius > min_radius]` -/
def keepLarger (rs : List Rat) (m : Rat) : List Rat := rs.filter fun r => decide (m < r)

def duration : List Rat → Rat
  | [] => 0
  | x :: xs => (x :: xs).getLast (by simp) - x

end DV.Stats
