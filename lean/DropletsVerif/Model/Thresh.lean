/-
  Model of the threshold rules of `locate_droplets`, of `threshold_otsu` and of
  `Emulsion.remove_small` (droplets/image_analysis.py, droplets/emulsions.py).
  Import-free, executable, exact over `Rat` (every finite double is a rational; the
  correspondence uses dyadic data for which the float computations of the rules are exact).

  rule                Python                                              model
  extrema / auto      float(data.min() + data.max()) / 2                  `extrema`
  mean                float(data.mean())                                  `mean`
  otsu                256 equal bins on [min,max] (constant data:         `otsu`
                      [x-1/2,x+1/2]), last bin closed; split i in 0..254;
                      w1 w2 (mu1-mu2)^2; np.argmax (first maximum, a NaN
                      - empty class - wins); bin centre
  binarize            data > threshold                                    `binarize`
  remove_small        for i in reversed(range(len)): if r_i <= min: pop   `removeSmall`
-/
namespace DV.Thresh

def minL : List Rat → Rat
  | [] => 0
  | x :: xs => xs.foldl min x

def maxL : List Rat → Rat
  | [] => 0
  | x :: xs => xs.foldl max x

def extrema (xs : List Rat) : Rat := (minL xs + maxL xs) / 2

def mean (xs : List Rat) : Rat := xs.sum / (xs.length : Rat)

/-- histogram range: `[min,max]`, widened by ½ on both sides for constant data -/
def histRange (xs : List Rat) : Rat × Rat :=
  let lo := minL xs
  let hi := maxL xs
  if lo = hi then (lo - 1 / 2, hi + 1 / 2) else (lo, hi)

def nbins : Nat := 256

/-- bin of `x` among `nbins` equal bins on `[lo,hi]`, last bin closed -/
def binIdx (lo hi x : Rat) : Nat :=
  let k := ((x - lo) / (hi - lo) * (nbins : Rat)).floor.toNat
  if k ≥ nbins then nbins - 1 else k

def counts (xs : List Rat) : List Nat :=
  let (lo, hi) := histRange xs
  let idxs := xs.map (binIdx lo hi)
  (List.range nbins).map fun b => idxs.count b

def center (lo hi : Rat) (b : Nat) : Rat := lo + ((b : Rat) + 1 / 2) * (hi - lo) / (nbins : Rat)

/-- between-class variance of a split with left weight `w1`, left first moment `s1`, totals `W`, `S`;
`none` when a class is empty (the float computation yields NaN) -/
def varianceOf (W S w1 s1 : Rat) : Option Rat :=
  let w2 := W - w1
  if w1 = 0 ∨ w2 = 0 then none
  else
    let m1 := s1 / w1
    let m2 := (S - s1) / w2
    some (w1 * w2 * (m1 - m2) * (m1 - m2))

/-- left weight and left first moment of the split after bin `i` -/
def leftSums (cs : List Nat) (ctr : Nat → Rat) (i : Nat) : Rat × Rat :=
  (List.range (i + 1)).foldl (fun acc j => (acc.1 + (cs.getD j 0 : Rat), acc.2 + (cs.getD j 0 : Rat) * ctr j)) (0, 0)

/-- variances of the splits `i = 0 .. nbins-2`, computed in one pass -/
def variances (cs : List Nat) (ctr : Nat → Rat) : List (Option Rat) :=
  let tot := leftSums cs ctr (nbins - 1)
  ((List.range (nbins - 1)).foldl
    (fun (st : Rat × Rat × List (Option Rat)) i =>
      let w1 := st.1 + (cs.getD i 0 : Rat)
      let s1 := st.2.1 + (cs.getD i 0 : Rat) * ctr i
      (w1, s1, varianceOf tot.1 tot.2 w1 s1 :: st.2.2))
    (0, 0, [])).2.2.reverse

/-- `np.argmax`: index of the first NaN if there is one, else of the first maximum -/
def argmaxNaN (vs : List (Option Rat)) : Nat :=
  match vs.findIdx? (· == none) with
  | some i => i
  | none =>
    let rec go (best : Nat) (bv : Rat) (i : Nat) : List (Option Rat) → Nat
      | [] => best
      | some v :: rest => if bv < v then go i v (i + 1) rest else go best bv (i + 1) rest
      | none :: rest => go best bv (i + 1) rest
    match vs with
    | some v :: rest => go 0 v 1 rest
    | _ => 0

def otsuIdx (xs : List Rat) : Nat :=
  let (lo, hi) := histRange xs
  let cs := counts xs
  argmaxNaN (variances cs (center lo hi))

def otsu (xs : List Rat) : Rat :=
  let (lo, hi) := histRange xs
  center lo hi (otsuIdx xs)

inductive Rule where
  | extrema | mean | otsu
  | value (t : Rat)

def thresholdOf (r : Rule) (xs : List Rat) : Rat :=
  match r with
  | .extrema => extrema xs
  | .mean => mean xs
  | .otsu => otsu xs
  | .value t => t

def binarize (thr : Rat) (xs : List Rat) : List Bool := xs.map fun x => decide (thr < x)

/-- `remove_small`: indices from the back, `pop(i)` when `radius <= min_radius` -/
def removeSmall {β : Type} (radius : β → Rat) (minR : Rat) (xs : List β) : List β :=
  (List.range xs.length).reverse.foldl
    (fun acc i => match acc[i]? with
      | some d => if radius d ≤ minR then acc.eraseIdx i else acc
      | none => acc) xs

end DV.Thresh
