/-
  Model of the droplet-class selection of `locate_droplets` (droplets/image_analysis.py),
  `DropletBase.from_droplet` and the promotion in `refine_droplet`.  Import-free.

  Python                                                           model
  if modes > 0 and dim not in [2, 3]: raise ValueError             `.error "ValueError"`
  droplet_class = droplet.__class__  (SphericalDroplet)            `.spherical`
  if interface_width is not None: DiffuseDroplet, args[width]      `.diffuse`, hasWidth
  if modes > 0: dim 2 -> PerturbedDroplet2D; dim 3 -> AxisSym on   `.p2d / .p3d / .p3dAxi`, amps = modes
      CylindricalSymGrid else PerturbedDroplet3D; args[amplitudes] = zeros(modes)
  if class changed: droplet_class.from_droplet(droplet, **args)
  refine: not a DiffuseDroplet -> DiffuseDroplet.from_droplet;      `.spherical ↦ .diffuse`
          width None -> typical_discretization                     hasWidth := true
-/
namespace DV.ClassSel

inductive GridFam where
  | cartesian | polar | spherical | cylindrical
  deriving DecidableEq, Repr

inductive Cls where
  | spherical | diffuse | p2d | p3d | p3dAxi
  deriving DecidableEq, Repr

structure Result where
  cls : Cls
  amps : Nat
  hasWidth : Bool
  deriving DecidableEq, Repr

/-- space dimension of a grid of the given family (`cartDim` only matters for Cartesian grids) -/
def dimOf (g : GridFam) (cartDim : Nat) : Nat :=
  match g with
  | .cartesian => cartDim
  | .polar => 2
  | .spherical => 3
  | .cylindrical => 3

def candidateClass (g : GridFam) (dim modes : Nat) (width : Bool) : Except String Result :=
  if modes > 0 ∧ dim ≠ 2 ∧ dim ≠ 3 then .error "ValueError"
  else
    let c0 : Cls := if width then .diffuse else .spherical
    if modes > 0 then
      if dim = 2 then .ok ⟨.p2d, modes, width⟩
      else if dim = 3 then
        if g = .cylindrical then .ok ⟨.p3dAxi, modes, width⟩ else .ok ⟨.p3d, modes, width⟩
      else .error "NotImplementedError"
    else .ok ⟨c0, 0, width⟩

def refineClass (r : Result) : Result :=
  { cls := if r.cls = .spherical then .diffuse else r.cls, amps := r.amps, hasWidth := true }

def resultClass (g : GridFam) (dim modes : Nat) (width refine : Bool) : Except String Result :=
  match candidateClass g dim modes width with
  | .ok r => .ok (if refine then refineClass r else r)
  | .error e => .error e

/-- every candidate of one call is converted with the same request -/
def locateClasses (g : GridFam) (dim modes : Nat) (width refine : Bool) (nCandidates : Nat) :
    Except String (List Result) :=
  (List.range nCandidates).mapM fun _ => resultClass g dim modes width refine

end DV.ClassSel
