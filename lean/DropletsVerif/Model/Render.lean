/-
  Geometry of rendering on Cartesian grids (droplets/tools/spherical.py `polar_coordinates`,
  py-pde `_difference_vector`, `Emulsion.get_phasefield`), exact over `Rat`.  Import-free.

  Python                                                        model
  diff[..., i] = (diff[..., i] + size/2) % size - size/2        `wrapDiff`   (floored modulo)
  cell centre  lo + (i + 1/2) dx                                `centre`
  dist = norm(diff)                                             `dist2` = squared distance (no sqrt)
  (dist < R)                                                    `inside`  (R ≥ 0: dist2 < R²)
  result += d.get_phase_field; np.clip(result, 0, 1)            `emulsionField`
-/
namespace DV.Render

/-- floored modulo `x % L` for `L > 0` -/
def fmod (x L : Rat) : Rat := x - L * ((x / L).floor : Rat)

/-- shortest periodic difference in `[-L/2, L/2)` -/
def wrapDiff (L x : Rat) : Rat := fmod (x + L / 2) L - L / 2

structure Axis where
  lo : Rat
  dx : Rat
  n : Nat
  periodic : Bool

def Axis.length (a : Axis) : Rat := a.dx * (a.n : Rat)

/-- coordinate of the centre of cell `i` -/
def Axis.centre (a : Axis) (i : Nat) : Rat := a.lo + ((i : Rat) + 1 / 2) * a.dx

/-- component of the vector from the droplet centre `c` to cell `i` along this axis -/
def Axis.diff (a : Axis) (c : Rat) (i : Nat) : Rat :=
  if a.periodic then wrapDiff a.length (a.centre i - c) else a.centre i - c

/-- squared distance of the cell with multi-index `idx` from the centre `c` -/
def dist2 (axes : List Axis) (c : List Rat) (idx : List Nat) : Rat :=
  ((axes.zip (c.zip idx)).map fun p => (p.1.diff p.2.1 p.2.2) * (p.1.diff p.2.1 p.2.2)).sum

/-- sharp rendering: the cell centre is strictly inside the sphere of radius `R ≥ 0` -/
def inside (axes : List Axis) (c : List Rat) (R : Rat) (idx : List Nat) : Bool :=
  decide (dist2 axes c idx < R * R)

/-- all multi-indices in C order -/
def indices : List Nat → List (List Nat)
  | [] => [[]]
  | n :: rest => (List.range n).flatMap fun i => (indices rest).map fun t => i :: t

def clip01 (x : Rat) : Rat := if x < 0 then 0 else if 1 < x then 1 else x

/-- `Emulsion.get_phasefield`: cell-wise sum of the droplets' fields, clipped to [0,1] -/
def emulsionField (fields : List (List Rat)) (ncells : Nat) : List Rat :=
  (List.range ncells).map fun k => clip01 ((fields.map fun f => f.getD k 0).sum)

end DV.Render
