/-
  Model of the process-pool branches of `refine_droplets` (droplets/image_analysis.py) and
  `EmulsionTimeCourse.from_storage` (droplets/emulsions.py).  Import-free.

  `executor.map(f, xs)`: task `i` gets result slot `i`; workers complete tasks in ANY order (the
  schedule: a list of task indices); results are yielded in index order once all are there.
  The number of worker processes only restricts which schedules can occur.
-/
namespace DV.Executor

variable {α β : Type}

/-- a worker finishes task `i` -/
def complete (f : α → β) (xs : List α) (slots : List (Option β)) (i : Nat) : List (Option β) :=
  slots.set i (xs[i]?.map f)

def runSchedule (f : α → β) (xs : List α) (sched : List Nat) : List (Option β) :=
  sched.foldl (complete f xs) (List.replicate xs.length none)

/-- `list(executor.map(f, xs))` after the pool has drained -/
def poolMap (f : α → β) (xs : List α) (sched : List Nat) : List β :=
  (runSchedule f xs sched).filterMap id

/-- `refine_droplets`, serial branch: `[d for c in cands if (d := f(c)) is not None]` -/
def refineSerial (f : α → Option β) (xs : List α) : List β := xs.filterMap f

/-- `refine_droplets`, pool branch: `[d for d in executor.map(f, cands) if d is not None]` -/
def refineParallel (f : α → Option β) (xs : List α) (sched : List Nat) : List β :=
  (poolMap f xs sched).filterMap id

/-- `from_storage`, serial / pool branch -/
def storageSerial (f : α → β) (xs : List α) : List β := xs.map f
def storageParallel (f : α → β) (xs : List α) (sched : List Nat) : List β := poolMap f xs sched

end DV.Executor
