/-
  Executable (Float) model of `get_structure_factor(smoothing=None)` (droplets/image_analysis.py)
  by a NAIVE discrete Fourier transform over the characters of `Π ZMod n_i`, and of the wave-number
  grid `k2s`.  Import-free.  Used by the correspondence check only (the theorems of C16 are about
  the abstract definition of which this is the evaluation at the characters
  ψ_m(g) = exp(2πi Σ m_i g_i / n_i)).
-/
namespace DV.SF

def twoPi : Float := 6.283185307179586

/-- all multi-indices in C order -/
def indices : List Nat → List (List Nat)
  | [] => [[]]
  | n :: rest => (List.range n).flatMap fun i => (indices rest).map fun t => i :: t

/-- `np.fft.fftfreq(n)[j] * n` -/
def fftRep (n j : Nat) : Int := if 2 * j < n + n % 2 then (j : Int) else (j : Int) - n

def intToFloat (i : Int) : Float := if i < 0 then -(Float.ofNat i.natAbs) else Float.ofNat i.natAbs

/-- phase `2π Σ m_i g_i / n_i` -/
def phase (shape m g : List Nat) : Float :=
  twoPi * ((shape.zip (m.zip g)).foldl (fun acc p => acc + Float.ofNat (p.2.1 * p.2.2 % p.1) / Float.ofNat p.1) 0.0)

/-- (|k|, sf) for every non-zero wave vector in C order -/
def structureFactor (shape : List Nat) (dx : List Float) (f : List Float) : List (Float × Float) :=
  let idx := indices shape
  let n := Float.ofNat (shape.foldl (· * ·) 1)
  let energy := f.foldl (fun a x => a + x * x) 0.0
  (idx.drop 1).map fun m =>
    let (re, im) := (idx.zip f).foldl (fun (acc : Float × Float) p =>
      let ph := phase shape m p.1
      (acc.1 + p.2 * Float.cos ph, acc.2 - p.2 * Float.sin ph)) (0.0, 0.0)
    let k2 := (shape.zip (m.zip dx)).foldl (fun acc p =>
      let k := intToFloat (fftRep p.1 p.2.1) / (Float.ofNat p.1 * (p.2.2 / twoPi))
      acc + k * k) 0.0
    (Float.sqrt k2, (re * re + im * im) / n / energy)

end DV.SF
