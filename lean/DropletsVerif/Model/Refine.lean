/-
  Model of the parameter handling of `refine_droplet` (droplets/image_analysis.py) and of
  `*.data_bounds` (droplets/droplets.py).  Import-free, executable, generic over the number type.
  The least-squares solver is NOT modelled: it is a parameter with a contract (`SolverOK`, see
  Props/C04.lean) which the correspondence check monitors on every real call.

  Python                                                         model
  droplet promoted to DiffuseDroplet, width None -> typical dx    layout has a width slot
  data_flat = structured_to_unstructured(droplet.data)           `flat` = position ++ [radius, width] ++ amplitudes
  free = ones; free[grid.coordinate_constraints] = False         `freeMask`
  l, h = droplet.data_bounds; bounds = l[free], h[free]          `lowerBounds`, `upperBounds` (none = ∓inf)
  adjust_values (and vrng != 0, else the intensities are kept fixed):
      parameters = r_[data_flat[free], vmin, vrng]                `plan` (x0, lb, ub), `adjust` = effective flag
      bounds = r_[l, vmin - vrng, 0], r_[h, vmax, 3 vrng]
  data_flat[free] = result.x[:-2] / result.x                      `scatter`
-/
namespace DV.Refine

structure Layout where
  dim : Nat
  modes : Nat

def Layout.len (L : Layout) : Nat := L.dim + 2 + L.modes

variable {α : Type}

def freeMask (L : Layout) (constraints : List Nat) : List Bool :=
  (List.range L.len).map fun i => !constraints.contains i

def lowerBounds [Neg α] [OfNat α 0] [OfNat α 1] (L : Layout) : List (Option α) :=
  List.replicate L.dim none ++ [some 0, some 0] ++ List.replicate L.modes (some (-1))

def upperBounds [OfNat α 1] (L : Layout) : List (Option α) :=
  List.replicate L.dim none ++ [none, none] ++ List.replicate L.modes (some 1)

/-- `xs[mask]` -/
def select {β : Type} : List Bool → List β → List β
  | true :: m, x :: xs => x :: select m xs
  | false :: m, _ :: xs => select m xs
  | _, _ => []

/-- `flat[mask] = x` -/
def scatter {β : Type} : List Bool → List β → List β → List β
  | true :: m, _ :: fs, x :: xs => x :: scatter m fs xs
  | true :: m, f :: fs, [] => f :: scatter m fs []
  | false :: m, f :: fs, xs => f :: scatter m fs xs
  | _, fs, _ => fs

structure Plan (α : Type) where
  x0 : List α
  lb : List (Option α)
  ub : List (Option α)

def plan [Neg α] [Sub α] [Mul α] [OfNat α 0] [OfNat α 1] [OfNat α 3]
    (L : Layout) (constraints : List Nat) (flat : List α) (vmin vmax : α) (adjust : Bool) : Plan α :=
  let free := freeMask L constraints
  let x0 := select free flat
  let lb := select free (lowerBounds L)
  let ub := select free (upperBounds L)
  let vrng := vmax - vmin
  if adjust then
    { x0 := x0 ++ [vmin, vrng], lb := lb ++ [some (vmin - vrng), some 0], ub := ub ++ [some vmax, some (3 * vrng)] }
  else { x0 := x0, lb := lb, ub := ub }

/-- the flat record after the fit: the free entries replaced by the solver's answer (without the
two intensity parameters when `adjust`) -/
def finish (L : Layout) (constraints : List Nat) (flat x : List α) (adjust : Bool) : List α :=
  let free := freeMask L constraints
  let x' := if adjust then x.take (x.length - 2) else x
  scatter free flat x'

end DV.Refine
