/-
  Model of the parameter handling of `refine_droplet` (droplets/image_analysis.py) and of
  `*.data_bounds` (droplets/droplets.py).  Import-free, executable, generic over the number type.
  The least-squares solver is NOT modelled: it is a parameter with a contract (`SolverOK`, see
  Props/C04.lean) which the correspondence check monitors on every real call.

  Python                                                         model
  droplet promoted to DiffuseDroplet, width None -> typical dx    layout has a width slot
  data_flat = structured_to_unstructured(droplet.data)           `flat` = position ++ [radius, width] ++ amplitudes
  free = ones; free[grid.coordinate_constraints] = False         `freeMask`
  l, h = droplet.data_bounds; bounds = l[free], h[free]          `lowerBounds`, `upperBounds` (none = ∓inf)
  adjust_values (and vrng != 0, else the intensities are kept fixed):
      parameters = r_[data_flat[free], vmin, vrng]                `plan` (x0, lb, ub), `adjust` = effective flag
      bounds = r_[l, vmin - vrng, 0], r_[h, vmax, 3 vrng]
  data_flat[free] = result.x[:-2] / result.x                      `scatter`
-/
namespace DV.Refine

structure Layout where
  dim : Nat
  modes : Nat

def Layout.len (L : Layout) : Nat := L.dim + 2 + L.modes

variable {α : Type}

def freeMask (L : Layout) (constraints : List Nat) : List Bool :=
  (List.range L.len).map fun i => !constraints.contains i

def lowerBounds [Neg α] [OfNat α 0] [OfNat α 1] (L : Layout) : List (Option α) :=
  List.replicate L.dim none ++ [some 0, some 0] ++ List.replicate L.modes (some (-1))

def upperBounds [OfNat α 1] (L : Layout) : List (Option α) :=
  List.replicate L.dim none ++ [none, none] ++ List.replicate L.modes (some 1)

/-- `xs[mask]` -/
def select {β : Type} : List Bool → List β → List β
  | true :: m, x :: xs => x :: select m xs
  | false :: m, _ :: xs => select m xs
  | _, _ => []

/-- `flat[mask] = x` -/
def scatter {β : Type} : List Bool → List β → List β → List β
  | true :: m, _ :: fs, x :: xs => x :: scatter m fs xs
  | true :: m, f :: fs, [] => f :: scatter m fs []
  | false :: m, f :: fs, xs => f :: scatter m fs xs
  | _, fs, _ => fs

structure Plan (α : Type) where
  x0 : List α
  lb : List (Option α)
  ub : List (Option α)

def plan [Neg α] [Sub α] [Mul α] [OfNat α 0] [OfNat α 1] [OfNat α 3]
    (L : Layout) (constraints : List Nat) (flat : List α) (vmin vmax : α) (adjust : Bool) : Plan α :=
  let free := freeMask L constraints
  let x0 := select free flat
  let lb := select free (lowerBounds L)
  let ub := select free (upperBounds L)
  let vrng := vmax - vmin
  if adjust then
    { x0 := x0 ++ [vmin, vrng], lb := lb ++ [some (vmin - vrng), some 0], ub := ub ++ [some vmax, some (3 * vrng)] }
  else { x0 := x0, lb := lb, ub := ub }

/-- the flat record after the fit: the free entries replaced by the solver's answer (without the
two intensity parameters when `adjust`) -/
def finish (L : Layout) (constraints : List Nat) (flat x : List α) (adjust : Bool) : List α :=
  let free := freeMask L constraints
  let x' := if adjust then x.take (x.length - 2) else x
  scatter free flat x'

/-! ### before and after the fit: promotion of the candidate, wrapping of the position

  Python                                                                     model
  if not isinstance(droplet, DiffuseDroplet): droplet = DiffuseDroplet.from_droplet(droplet)
  if droplet.interface_width is None: droplet.interface_width = grid.typical_discretization
                                                                             `promote` (a width that is SET, even 0, is kept)
  coords = grid.transform(position, "cartesian", "grid")
  position = grid.transform(grid.normalize_point(coords), "grid", "cartesian")  `wrapPos` (periodic axes: floored modulo) -/

/-- the candidate as the code receives it (`width = none`: unset, i.e. `None`/NaN or a class without a width) -/
structure Cand (α : Type) where
  pos : List α
  radius : α
  width : Option α
  amps : List α

/-- flat record of the droplet that is fitted -/
def promote (dx : α) (c : Cand α) : List α :=
  c.pos ++ [c.radius, c.width.getD dx] ++ c.amps

class HasFloor (α : Type) where
  floor : α → α

instance : HasFloor Float := ⟨Float.floor⟩
instance : HasFloor Rat := ⟨fun q => (q.floor : Rat)⟩

/-- `(x - lo) % len + lo` with numpy's floored modulo -/
def wrap1 [Add α] [Sub α] [Mul α] [Div α] [HasFloor α] (lo len x : α) : α :=
  ((x - lo) - len * HasFloor.floor ((x - lo) / len)) + lo

/-- per axis: `none` = not periodic (coordinate kept), `some (lo, len)` = periodic axis -/
def wrapPos [Add α] [Sub α] [Mul α] [Div α] [HasFloor α] : List (Option (α × α)) → List α → List α
  | some (lo, len) :: axes, x :: xs => wrap1 lo len x :: wrapPos axes xs
  | none :: axes, x :: xs => x :: wrapPos axes xs
  | _, xs => xs

/-- everything `refine_droplet` does to the record around the solver call: the flat record that is
returned for the solver's answer `x` -/
def refineResult [Add α] [Sub α] [Mul α] [Div α] [HasFloor α] (L : Layout) (constraints : List Nat)
    (axes : List (Option (α × α))) (dx : α) (c : Cand α) (x : List α) (adjust : Bool) : List α :=
  let out := finish L constraints (promote dx c) x adjust
  wrapPos axes (out.take L.dim) ++ out.drop L.dim

/-! ### the fitted region

  mask = droplet._get_phase_field(grid, dtype=bool)
  width_in_cells = droplet.interface_width / grid.typical_discretization
  dilation_iterations = 1 + int(2 * width_in_cells)                     `fitIterations`  (repair 8d4e282: cells, not physical units)
  mask = ndimage.binary_dilation(mask, iterations=dilation_iterations)   (scipy: contract) -/

/-- number of dilation steps for an interface width `w ≥ 0` on a grid with typical cell size `dx > 0`:
twice the width IN CELLS, rounded down, plus one -/
def fitIterations (w dx : Rat) : Nat := 1 + (2 * (w / dx)).floor.toNat

/-- the same at `Float` (the driver), with the operations in the order of the code -/
def fitIterationsF (w dx : Float) : Nat := 1 + (Float.floor (2 * (w / dx))).toUInt64.toNat

end DV.Refine
