/-
  Model of `DropletTrackList.from_emulsion_time_course` (droplets/droplet_tracks.py).
  Import-free, executable.  Droplets are global ids (`Nat`); a frame is `(time, ids)`.
  The geometric predicates enter as tables computed by the REAL code:
    `ov a b`    = `a.overlaps(b, grid=grid)`
    `dist a b`  = `cdist` entry (Euclidean norm or `grid.distance(.., coords="cartesian")`)

  Python (per frame `t, emulsion`)                     model
  -------------------------------                     -----
  tracks_alive = [tr for tr in tracks                  `aliveIdx`: indices, computed ONCE per frame
                  if tr.end == t_last]                   (the Python list holds references to track
                                                          objects that are mutated while the frame
                                                          is processed; indices make that literal)
  overlap:  for droplet in emulsion:                   `stepOverlap` = foldl `procDroplet`
      overlaps = [tr for tr in tracks_alive              evaluated against the CURRENT last element
                  if tr.last.overlaps(droplet)]
      exactly one -> append, else new track
  distance: if tracks_alive:                           `stepDistance`
      dists = cdist(prev last positions, now)            matrix from the lasts at frame start
      dists[dists > max_dist] = inf                      `within`
      loop argmin / append / blank row+column            `greedy` (row-major first minimum)
    unmatched droplets -> new tracks (in order)
-/
import DropletsVerif.Model.Overlap
namespace DV.Track
open DV.Overlap

variable {τ : Type} [DecidableEq τ]
variable {α : Type} [LT α] [DecidableRel (α := α) (· < ·)]

abbrev Entry (τ : Type) := Nat × τ
abbrev Track (τ : Type) := List (Entry τ)

def endOf (tr : Track τ) : Option τ := tr.getLast?.map (·.2)
def lastId (tr : Track τ) : Option Nat := tr.getLast?.map (·.1)

/-- indices of the tracks that ended at `tlast` -/
def aliveIdx (tracks : List (Track τ)) (tlast : Option τ) : List Nat :=
  (List.range tracks.length).filter fun i => decide (endOf (tracks.getD i []) = tlast) && !(tracks.getD i []).isEmpty

def lastOf (tracks : List (Track τ)) (i : Nat) : Option Nat := lastId (tracks.getD i [])

/-! ### overlap method -/

def hits (ov : Nat → Nat → Bool) (alive : List Nat) (tracks : List (Track τ)) (d : Nat) : List Nat :=
  alive.filter fun i => match lastOf tracks i with
    | some a => ov a d
    | none => false

def procDroplet (ov : Nat → Nat → Bool) (alive : List Nat) (t : τ) (tracks : List (Track τ)) (d : Nat) :
    List (Track τ) :=
  match hits ov alive tracks d with
  | [i] => tracks.modify i (· ++ [(d, t)])
  | _ => tracks ++ [[(d, t)]]

def stepOverlap (ov : Nat → Nat → Bool) (tracks : List (Track τ)) (tlast : Option τ) (t : τ) (ds : List Nat) :
    List (Track τ) :=
  ds.foldl (procDroplet ov (aliveIdx tracks tlast) t) tracks

/-! ### distance method -/

/-- `dists[dists > max_dist] = inf`: an entry stays finite iff it is not above the cut-off -/
def within (maxd : Option α) (x : α) : Bool :=
  match maxd with
  | none => true
  | some m => !decide (m < x)

/-- remaining finite entries, row-major -/
def cands (D : Nat → Nat → α) (maxd : Option α) (rows cols : List Nat) : List (Nat × Nat) :=
  rows.flatMap fun i => (cols.filter fun j => within maxd (D i j)).map fun j => (i, j)

/-- the `while True` loop: repeatedly take the first minimal finite entry, blank its row and column.
Returns the links and the columns (droplets) that stay unmatched, in their original order. -/
def greedy (D : Nat → Nat → α) (maxd : Option α) : Nat → List Nat → List Nat → List (Nat × Nat) × List Nat
  | 0, _, cols => ([], cols)
  | fuel + 1, rows, cols =>
    match firstMin D (cands D maxd rows cols) with
    | none => ([], cols)
    | some (i, j) =>
      let (links, rest) := greedy D maxd fuel (rows.erase i) (cols.erase j)
      ((i, j) :: links, rest)

def applyLinks (t : τ) (tracks : List (Track τ)) (links : List (Nat × Nat)) : List (Track τ) :=
  links.foldl (fun trs l => trs.modify l.1 (· ++ [(l.2, t)])) tracks

/-- `dist` is indexed by droplet ids; rows are alive track indices, read through the last element
at frame start.  `emptyFrameRaises = true` reproduces the behaviour before the repair of the
`cdist` call on an empty frame (kept to state the finding as a theorem). -/
def stepDistance (dist : Nat → Nat → α) (maxd : Option α) (emptyFrameRaises : Bool)
    (tracks : List (Track τ)) (tlast : Option τ) (t : τ) (ds : List Nat) : Except String (List (Track τ)) :=
  let alive := aliveIdx tracks tlast
  if alive.isEmpty then .ok (tracks ++ ds.map fun d => [(d, t)])
  else if ds.isEmpty then (if emptyFrameRaises then .error "ValueError" else .ok tracks)
  else
    let D : Nat → Nat → α := fun i j => dist ((lastOf tracks i).getD 0) j
    let (links, rest) := greedy D maxd (ds.length + 1) alive ds
    .ok (applyLinks t tracks links ++ rest.map fun d => [(d, t)])

/-! ### all frames -/

inductive Method (α : Type) where
  | overlap (ov : Nat → Nat → Bool)
  | distance (dist : Nat → Nat → α) (maxd : Option α) (emptyFrameRaises : Bool)

def stepFrame (m : Method α) (st : List (Track τ) × Option τ) (fr : τ × List Nat) :
    Except String (List (Track τ) × Option τ) :=
  match m with
  | .overlap ov => .ok (stepOverlap ov st.1 st.2 fr.1 fr.2, some fr.1)
  | .distance dist maxd e =>
    match stepDistance dist maxd e st.1 st.2 fr.1 fr.2 with
    | .ok trs => .ok (trs, some fr.1)
    | .error s => .error s

def trackAll (m : Method α) (frames : List (τ × List Nat)) : Except String (List (Track τ)) :=
  (frames.foldlM (stepFrame m) (([] : List (Track τ)), (none : Option τ))).map (·.1)

end DV.Track
