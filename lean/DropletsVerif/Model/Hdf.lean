/-
  Model of the HDF5 layout written/read by `Emulsion`, `EmulsionTimeCourse`, `DropletTrack`
  and `DropletTrackList` (droplets/emulsions.py, droplets/droplet_tracks.py, `droplet_from_data`).
  Import-free, executable.  Floating-point numbers are opaque 64-bit patterns (`Nat`): the file
  stores and returns them unchanged (h5py contract, monitored).

  Python                                                              model
  Emulsion._write_hdf_dataset: empty -> shape () + class "None";      `encodeEmulsion`
      else create_dataset(data=self.data), class = self[0].__class__
      self.data: one class (TypeError), np.array of the records
      (different layouts -> object dtype -> h5py TypeError)
  Emulsion._from_hdf_dataset: droplet_from_data(class, row)           `decodeEmulsion` (constructor
                                                                        checks re-run: `valid`)
  DropletTrack.data: [("time","f8")] + layout of the first droplet;   `encodeTrack` / `decodeTrack`
      every droplet must have that class and layout (TypeError)
  EmulsionTimeCourse.to_file: key f"time_{i:06d}", attr time          `encodeTC`, `pad6`
  from_file: for key in sorted(fp.keys())                             `decodeTC` (merge sort by key)
-/
import DropletsVerif.Model.ClassSel
namespace DV.Hdf
open DV.ClassSel

structure Drop where
  cls : Cls
  pos : List Nat
  radius : Nat
  width : Option Nat
  amps : List Nat
  deriving DecidableEq, Repr

def classDim : Cls → Option Nat
  | .p2d => some 2
  | .p3d => some 3
  | .p3dAxi => some 3
  | _ => none

def hasWidth : Cls → Bool
  | .spherical => false
  | _ => true

def isPerturbed : Cls → Bool
  | .p2d => true
  | .p3d => true
  | .p3dAxi => true
  | _ => false

/-- shape constraints every constructed droplet satisfies -/
def WF (d : Drop) : Bool :=
  decide (1 ≤ d.pos.length) &&
  (match classDim d.cls with
    | some k => d.pos.length == k
    | none => true) &&
  (d.width.isSome == hasWidth d.cls) &&
  (if isPerturbed d.cls then decide (1 ≤ d.amps.length) else d.amps.isEmpty)

/-- the record of a droplet as stored: position, radius, [width], [amplitudes] -/
def row (d : Drop) : List Nat := d.pos ++ [d.radius] ++ d.width.toList ++ d.amps

def rowLen (c : Cls) (dim modes : Nat) : Nat := dim + 1 + (if hasWidth c then 1 else 0) + modes

/-- `droplet_from_data`: split a stored record by the layout of the dataset -/
def parseRow (c : Cls) (dim modes : Nat) (r : List Nat) : Except String Drop :=
  if r.length ≠ rowLen c dim modes then .error "ValueError"
  else
    let pos := r.take dim
    let rest := r.drop dim
    let radius := rest.headD 0
    let rest := rest.drop 1
    let width := if hasWidth c then rest.head? else none
    let rest := if hasWidth c then rest.drop 1 else rest
    .ok { cls := c, pos := pos, radius := radius, width := width, amps := rest }

structure Dataset where
  cls : Option Cls   -- `none` = the marker "None" of an empty collection
  dim : Nat
  modes : Nat
  rows : List (List Nat)
  deriving DecidableEq, Repr

def layout (d : Drop) : Nat × Nat := (d.pos.length, d.amps.length)

def encodeEmulsion (ds : List Drop) : Except String Dataset :=
  match ds with
  | [] => .ok ⟨none, 0, 0, []⟩
  | d0 :: _ =>
    if ds.any (fun d => d.cls != d0.cls) then .error "TypeError"
    else if ds.any (fun d => layout d != layout d0) then .error "TypeError"
    else if isPerturbed d0.cls && d0.amps.isEmpty then .error "ValueError"
    else .ok ⟨some d0.cls, d0.pos.length, d0.amps.length, ds.map row⟩

/-- one stored record back to a droplet; `valid` = the value checks of the constructors
(radius ≥ 0, axisymmetric droplets on the axis) which `droplet_from_data` re-runs -/
def decodeRow (valid : Drop → Bool) (c : Cls) (dim modes : Nat) (r : List Nat) : Except String Drop :=
  match parseRow c dim modes r with
  | .ok d => if valid d then .ok d else .error "ValueError"
  | .error e => .error e

def decodeEmulsion (valid : Drop → Bool) (s : Dataset) : Except String (List Drop) :=
  match s.cls with
  | none => .ok []
  | some c => s.rows.mapM (decodeRow valid c s.dim s.modes)

/-! ### tracks: a time column in front of the droplet record -/

def encodeTrack (tr : List (Nat × Drop)) : Except String Dataset :=
  match tr with
  | [] => .ok ⟨none, 0, 0, []⟩
  | (_, d0) :: _ =>
    if tr.any (fun p => p.2.cls != d0.cls || layout p.2 != layout d0) then .error "TypeError"
    else if isPerturbed d0.cls && d0.amps.isEmpty then .error "ValueError"
    else .ok ⟨some d0.cls, d0.pos.length, d0.amps.length, tr.map fun p => p.1 :: row p.2⟩

def decodeTRow (valid : Drop → Bool) (c : Cls) (dim modes : Nat) (r : List Nat) : Except String (Nat × Drop) :=
  match r with
  | [] => .error "ValueError"
  | t :: rest =>
    match decodeRow valid c dim modes rest with
    | .ok d => .ok (t, d)
    | .error e => .error e

def decodeTrack (valid : Drop → Bool) (s : Dataset) : Except String (List (Nat × Drop)) :=
  match s.cls with
  | none => .ok []
  | some c => s.rows.mapM (decodeTRow valid c s.dim s.modes)

/-! ### keys `time_%06d` / `track_%06d` and their sorted order -/

/-- the decimal digits of `n` in exactly `w` places, most significant first -/
def digitsW : Nat → Nat → List Nat
  | 0, _ => []
  | w + 1, n => digitsW w (n / 10) ++ [n % 10]

def numDigits : Nat → Nat → Nat
  | 0, _ => 1
  | fuel + 1, n => if n < 10 then 1 else 1 + numDigits fuel (n / 10)

/-- `f"{i:06d}"`: at least six digits -/
def pad6 (i : Nat) : List Nat :=
  if i < 10 ^ 6 then digitsW 6 i else digitsW (numDigits i i) i

/-- strict lexicographic order of strings (digit lists) -/
def lexLt : List Nat → List Nat → Bool
  | _, [] => false
  | [], _ :: _ => true
  | a :: as, b :: bs => decide (a < b) || (a == b && lexLt as bs)

def lexLe (a b : List Nat) : Bool := a == b || lexLt a b

abbrev File := List (List Nat × Nat × Dataset)

def encEntryTC (p : (Nat × List Drop) × Nat) : Except String (List Nat × Nat × Dataset) :=
  match encodeEmulsion p.1.2 with
  | .ok s => .ok (pad6 p.2, p.1.1, s)
  | .error e => .error e

def decEntryTC (valid : Drop → Bool) (e : List Nat × Nat × Dataset) : Except String (Nat × List Drop) :=
  match decodeEmulsion valid e.2.2 with
  | .ok ds => .ok (e.2.1, ds)
  | .error err => .error err

def keyLe (a b : List Nat × Nat × Dataset) : Bool := lexLe a.1 b.1

def encodeTC (tc : List (Nat × List Drop)) : Except String File := tc.zipIdx.mapM encEntryTC

def decodeTC (valid : Drop → Bool) (f : File) : Except String (List (Nat × List Drop)) :=
  (f.mergeSort keyLe).mapM (decEntryTC valid)

def encEntryTL (p : List (Nat × Drop) × Nat) : Except String (List Nat × Nat × Dataset) :=
  match encodeTrack p.1 with
  | .ok s => .ok (pad6 p.2, 0, s)
  | .error e => .error e

def encodeTL (tl : List (List (Nat × Drop))) : Except String File := tl.zipIdx.mapM encEntryTL

def decodeTL (valid : Drop → Bool) (f : File) : Except String (List (List (Nat × Drop))) :=
  (f.mergeSort keyLe).mapM fun e => decodeTrack valid e.2.2

end DV.Hdf
