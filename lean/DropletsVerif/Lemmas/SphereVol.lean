/-
  Real analysis used by Props/C13.lean for the volume of a perturbed sphere that is NOT axisymmetric (pure Mathlib, nothing generated):
  * differentiation under the integral sign for jointly continuous derivatives             (`hasDerivAt_paramIntegral`);
  * a function on the sphere that satisfies the eigen-equation of the spherical Laplacian with eigenvalue −l(l+1), l ≥ 1,
    and is 2π-periodic in the azimuth has zero mean over the sphere: the azimuthal average is a ZONAL eigenfunction, to which
    `zonal_mean_zero` applies                                                                  (`harmonic_mean_zero`);
  * the volume enclosed by the radial graph r(θ, φ), `(1/3) ∫₀^π (∫₀^2π r³ dφ) sin θ dθ`, of r = R(1 + εu) is the sphere's volume
    at ε = 0 and has the ε-derivative `R³ ∫∫ u sin θ` there                                   (`sphVolume_first_order`).
-/
import DropletsVerif.Lemmas.Fourier
import Mathlib.Analysis.Calculus.ParametricIntervalIntegral
import Mathlib.MeasureTheory.Integral.DominatedConvergence
import Mathlib.Topology.Algebra.Module.Cardinality

namespace DV.Fourier
open Real intervalIntegral MeasureTheory Set Filter Topology

/-- differentiation under the integral sign when the partial derivative is jointly continuous -/
theorem hasDerivAt_paramIntegral (F F' : ℝ → ℝ → ℝ) (a b : ℝ)
    (hF : ∀ x, Continuous (F x)) (hF' : Continuous (Function.uncurry F'))
    (hd : ∀ x t, HasDerivAt (fun x => F x t) (F' x t) x) (x₀ : ℝ) :
    HasDerivAt (fun x => ∫ t in a..b, F x t) (∫ t in a..b, F' x₀ t) x₀ := by
  have hK : IsCompact (Metric.closedBall x₀ 1 ×ˢ Set.uIcc a b) := (isCompact_closedBall x₀ 1).prod isCompact_uIcc
  obtain ⟨M, hM⟩ := hK.exists_bound_of_continuousOn hF'.continuousOn
  have hF'x : Continuous (F' x₀) := hF'.comp (continuous_const.prodMk continuous_id)
  have h := intervalIntegral.hasDerivAt_integral_of_dominated_loc_of_deriv_le (μ := volume) (F := F) (F' := F')
    (x₀ := x₀) (a := a) (b := b) (bound := fun _ => M) (s := Metric.closedBall x₀ 1)
    (Metric.closedBall_mem_nhds x₀ one_pos)
    (Eventually.of_forall fun x => (hF x).aestronglyMeasurable)
    ((hF x₀).intervalIntegrable a b)
    hF'x.aestronglyMeasurable
    (Eventually.of_forall fun t ht x hx => hM (x, t) ⟨hx, Set.uIoc_subset_uIcc ht⟩)
    intervalIntegrable_const
    (Eventually.of_forall fun t _ x _ => hd x t)
  exact h.2

/-- a continuous function that vanishes wherever `sin` does not vanishes everywhere -/
theorem eq_zero_of_sin_mul_eq_zero (g : ℝ → ℝ) (hg : Continuous g) (h : ∀ t, sin t * g t = 0) : ∀ t, g t = 0 := by
  have hcount : ({t : ℝ | sin t = 0}).Countable := by
    have : {t : ℝ | sin t = 0} = Set.range (fun n : ℤ => (n : ℝ) * π) := by
      ext t; simp only [Set.mem_ofPred_eq, Set.mem_range, Real.sin_eq_zero_iff]
    rw [this]; exact Set.countable_range _
  have hdense : Dense ({t : ℝ | sin t = 0}ᶜ) := hcount.dense_compl ℝ
  have heq : g = fun _ => 0 := by
    refine Continuous.ext_on hdense hg continuous_const ?_
    intro t ht
    rcases mul_eq_zero.mp (h t) with h0 | h0
    · exact absurd h0 ht
    · exact h0
  intro t; rw [heq]

/-- **A spherical harmonic of degree `l ≥ 1` has zero mean over the sphere** — from the eigen-equation of the spherical Laplacian
(multiplied by `sin² θ`, so nothing is divided by `sin θ`) and periodicity in the azimuth alone.  `Yt`, `Ytt` are the first two
`θ`-derivatives, `Ypp` the `φ`-derivative of a function `Yp` that is 2π-periodic in `φ` (for a harmonic: `Yp = ∂Y/∂φ`). -/
theorem harmonic_mean_zero (Y Yt Ytt Yp Ypp : ℝ → ℝ → ℝ) (l : ℕ) (hl : 1 ≤ l)
    (hYc : ∀ θ, Continuous (Y θ)) (hYtc : Continuous (Function.uncurry Yt)) (hYttc : Continuous (Function.uncurry Ytt))
    (h1 : ∀ θ φ, HasDerivAt (fun θ => Y θ φ) (Yt θ φ) θ)
    (h2 : ∀ θ φ, HasDerivAt (fun θ => Yt θ φ) (Ytt θ φ) θ)
    (h3 : ∀ θ φ, HasDerivAt (fun φ => Yp θ φ) (Ypp θ φ) φ) (hYppc : ∀ θ, Continuous (Ypp θ))
    (hper : ∀ θ, Yp θ (2 * π) = Yp θ 0)
    (heig : ∀ θ φ, sin θ * (sin θ * Ytt θ φ + cos θ * Yt θ φ) + Ypp θ φ = -((l : ℝ) * (l + 1)) * (sin θ ^ 2 * Y θ φ)) :
    ∫ θ in (0 : ℝ)..π, (∫ φ in (0 : ℝ)..(2 * π), Y θ φ) * sin θ = 0 := by
  -- the azimuthal average and its derivatives
  set A : ℝ → ℝ := fun θ => ∫ φ in (0 : ℝ)..(2 * π), Y θ φ with hA
  set A1 : ℝ → ℝ := fun θ => ∫ φ in (0 : ℝ)..(2 * π), Yt θ φ with hA1
  set A2 : ℝ → ℝ := fun θ => ∫ φ in (0 : ℝ)..(2 * π), Ytt θ φ with hA2
  have hYtc' : ∀ θ, Continuous (Yt θ) := fun θ => hYtc.comp (continuous_const.prodMk continuous_id)
  have hYttc' : ∀ θ, Continuous (Ytt θ) := fun θ => hYttc.comp (continuous_const.prodMk continuous_id)
  have hd1 : ∀ θ, HasDerivAt A (A1 θ) θ := fun θ => hasDerivAt_paramIntegral Y Yt 0 (2 * π) hYc hYtc h1 θ
  have hd2 : ∀ θ, HasDerivAt A1 (A2 θ) θ := fun θ => hasDerivAt_paramIntegral Yt Ytt 0 (2 * π) hYtc' hYttc h2 θ
  have hA2c : Continuous A2 := intervalIntegral.continuous_parametric_intervalIntegral_of_continuous' hYttc 0 (2 * π)
  have hA1c : Continuous A1 := continuous_iff_continuousAt.mpr fun t => (hd2 t).continuousAt
  have hAc : Continuous A := continuous_iff_continuousAt.mpr fun t => (hd1 t).continuousAt
  -- the azimuthal integral of the φφ term vanishes
  have hpp : ∀ θ, ∫ φ in (0 : ℝ)..(2 * π), Ypp θ φ = 0 := by
    intro θ
    rw [integral_eq_sub_of_hasDerivAt (fun φ _ => h3 θ φ) ((hYppc θ).intervalIntegrable _ _), hper θ, sub_self]
  -- integrate the eigen-equation over the azimuth
  have hint : ∀ θ, sin θ * (sin θ * A2 θ + cos θ * A1 θ + (l : ℝ) * (l + 1) * (sin θ * A θ)) = 0 := by
    intro θ
    have e : ∫ φ in (0 : ℝ)..(2 * π), (sin θ * (sin θ * Ytt θ φ + cos θ * Yt θ φ) + Ypp θ φ)
        = ∫ φ in (0 : ℝ)..(2 * π), -((l : ℝ) * (l + 1)) * (sin θ ^ 2 * Y θ φ) := by
      congr 1; funext φ; exact heig θ φ
    have i1 : IntervalIntegrable (fun φ => sin θ * (sin θ * Ytt θ φ + cos θ * Yt θ φ)) volume 0 (2 * π) :=
      (show Continuous fun φ => sin θ * (sin θ * Ytt θ φ + cos θ * Yt θ φ) from
        continuous_const.mul ((continuous_const.mul (hYttc' θ)).add (continuous_const.mul (hYtc' θ)))).intervalIntegrable _ _
    have i2 : IntervalIntegrable (fun φ => sin θ * Ytt θ φ) volume 0 (2 * π) :=
      (show Continuous fun φ => sin θ * Ytt θ φ from continuous_const.mul (hYttc' θ)).intervalIntegrable _ _
    have i3 : IntervalIntegrable (fun φ => cos θ * Yt θ φ) volume 0 (2 * π) :=
      (show Continuous fun φ => cos θ * Yt θ φ from continuous_const.mul (hYtc' θ)).intervalIntegrable _ _
    rw [intervalIntegral.integral_add i1 ((hYppc θ).intervalIntegrable _ _), hpp θ, add_zero,
      intervalIntegral.integral_const_mul, intervalIntegral.integral_add i2 i3, intervalIntegral.integral_const_mul,
      intervalIntegral.integral_const_mul, intervalIntegral.integral_const_mul, intervalIntegral.integral_const_mul] at e
    simp only [hA, hA1, hA2]
    linear_combination e
  have hg : Continuous fun θ => sin θ * A2 θ + cos θ * A1 θ + (l : ℝ) * (l + 1) * (sin θ * A θ) :=
    ((continuous_sin.mul hA2c).add (continuous_cos.mul hA1c)).add (continuous_const.mul (continuous_sin.mul hAc))
  have hz := eq_zero_of_sin_mul_eq_zero _ hg hint
  exact zonal_mean_zero A A1 A2 l hl hd1 hd2 hA2c (fun t => by have := hz t; linarith)

/-- volume enclosed by the radial graph `r(θ, φ)`: `(1/3) ∫₀^π (∫₀^{2π} r³ dφ) sin θ dθ` -/
noncomputable def sphVolume (r : ℝ → ℝ → ℝ) : ℝ :=
  1 / 3 * ∫ θ in (0 : ℝ)..π, (∫ φ in (0 : ℝ)..(2 * π), r θ φ ^ 3) * sin θ

/-- **The volume of a perturbed sphere has no first-order term when the perturbation has zero mean over the sphere**:
`V[R(1 + εu)] = 4πR³/3 + R³ ε ∫∫ u sin θ + O(ε²)` -/
theorem sphVolume_first_order (R : ℝ) (u : ℝ → ℝ → ℝ) (hu : Continuous (Function.uncurry u))
    (hmean : ∫ θ in (0 : ℝ)..π, (∫ φ in (0 : ℝ)..(2 * π), u θ φ) * sin θ = 0) :
    sphVolume (fun _ _ => R) = 4 / 3 * π * R ^ 3 ∧
    HasDerivAt (fun ε : ℝ => sphVolume (fun θ φ => R * (1 + ε * u θ φ))) 0 0 := by
  have hI0 : ∫ t in (0 : ℝ)..π, sin t = 2 := by rw [integral_sin]; simp; norm_num
  constructor
  · unfold sphVolume
    simp only [intervalIntegral.integral_const, sub_zero, smul_eq_mul]
    rw [intervalIntegral.integral_const_mul, hI0]; ring
  · have hpow : ∀ k : ℕ, Continuous (Function.uncurry fun θ φ => u θ φ ^ k) := fun k => hu.pow k
    have hsec : ∀ k : ℕ, ∀ θ, Continuous fun φ => u θ φ ^ k := fun k θ =>
      (hpow k).comp (continuous_const.prodMk continuous_id)
    -- azimuthal moments
    set J : ℕ → ℝ → ℝ := fun k θ => ∫ φ in (0 : ℝ)..(2 * π), u θ φ ^ k with hJ
    have hJc : ∀ k, Continuous (J k) := fun k =>
      intervalIntegral.continuous_parametric_intervalIntegral_of_continuous' (hpow k) 0 (2 * π)
    have hJi : ∀ k, IntervalIntegrable (fun θ => J k θ * sin θ) volume 0 π :=
      fun k => ((hJc k).mul continuous_sin).intervalIntegrable _ _
    set I2 := ∫ θ in (0 : ℝ)..π, J 2 θ * sin θ with hI2
    set I3 := ∫ θ in (0 : ℝ)..π, J 3 θ * sin θ with hI3
    have hJ1 : ∫ θ in (0 : ℝ)..π, J 1 θ * sin θ = 0 := by
      simpa [hJ, pow_one] using hmean
    have hexp : ∀ ε : ℝ, sphVolume (fun θ φ => R * (1 + ε * u θ φ)) =
        1 / 3 * R ^ 3 * (2 * π * 2) + 0 * ε + (1 / 3 * R ^ 3 * (3 * I2 + ε * I3)) * ε ^ 2 := by
      intro ε
      unfold sphVolume
      have inner : ∀ θ, ∫ φ in (0 : ℝ)..(2 * π), (R * (1 + ε * u θ φ)) ^ 3
          = R ^ 3 * (2 * π) + 3 * R ^ 3 * ε * J 1 θ + 3 * R ^ 3 * ε ^ 2 * J 2 θ + R ^ 3 * ε ^ 3 * J 3 θ := by
        intro θ
        have e : (fun φ => (R * (1 + ε * u θ φ)) ^ 3) = fun φ =>
            R ^ 3 + 3 * R ^ 3 * ε * u θ φ ^ 1 + 3 * R ^ 3 * ε ^ 2 * u θ φ ^ 2 + R ^ 3 * ε ^ 3 * u θ φ ^ 3 := by
          funext φ; ring
        have c : ∀ (c : ℝ) (k : ℕ), IntervalIntegrable (fun φ => c * u θ φ ^ k) volume 0 (2 * π) := fun c k =>
          (show Continuous fun φ => c * u θ φ ^ k from continuous_const.mul (hsec k θ)).intervalIntegrable _ _
        rw [e, intervalIntegral.integral_add ((((intervalIntegrable_const).add (c _ 1)).add (c _ 2))) (c _ 3),
          intervalIntegral.integral_add ((intervalIntegrable_const).add (c _ 1)) (c _ 2),
          intervalIntegral.integral_add intervalIntegrable_const (c _ 1),
          intervalIntegral.integral_const_mul, intervalIntegral.integral_const_mul, intervalIntegral.integral_const_mul,
          intervalIntegral.integral_const]
        simp only [hJ, sub_zero, smul_eq_mul]; ring
      have e2 : (fun θ => (∫ φ in (0 : ℝ)..(2 * π), (R * (1 + ε * u θ φ)) ^ 3) * sin θ) = fun θ =>
          R ^ 3 * (2 * π) * sin θ + 3 * R ^ 3 * ε * (J 1 θ * sin θ) + 3 * R ^ 3 * ε ^ 2 * (J 2 θ * sin θ)
            + R ^ 3 * ε ^ 3 * (J 3 θ * sin θ) := by
        funext θ; rw [inner θ]; ring
      have cs : IntervalIntegrable (fun θ => R ^ 3 * (2 * π) * sin θ) volume 0 π :=
        (show Continuous fun θ => R ^ 3 * (2 * π) * sin θ from continuous_const.mul continuous_sin).intervalIntegrable _ _
      have ck : ∀ (c : ℝ) (k : ℕ), IntervalIntegrable (fun θ => c * (J k θ * sin θ)) volume 0 π := fun c k =>
        (hJi k).const_mul c
      rw [e2, intervalIntegral.integral_add ((cs.add (ck _ 1)).add (ck _ 2)) (ck _ 3),
        intervalIntegral.integral_add (cs.add (ck _ 1)) (ck _ 2), intervalIntegral.integral_add cs (ck _ 1),
        intervalIntegral.integral_const_mul, intervalIntegral.integral_const_mul, intervalIntegral.integral_const_mul,
        intervalIntegral.integral_const_mul, hI0, hJ1]
      ring
    have hfun : (fun ε : ℝ => sphVolume (fun θ φ => R * (1 + ε * u θ φ))) = fun ε =>
        1 / 3 * R ^ 3 * (2 * π * 2) + 0 * ε + (1 / 3 * R ^ 3 * (3 * I2 + ε * I3)) * ε ^ 2 := funext hexp
    rw [hfun]
    have hd : HasDerivAt (fun ε : ℝ => 1 / 3 * R ^ 3 * (2 * π * 2) + 0 * ε + (1 / 3 * R ^ 3 * (3 * I2 + ε * I3)) * ε ^ 2)
        (0 + 0 * 1 + ((1 / 3 * R ^ 3 * (0 + 1 * I3)) * (0 : ℝ) ^ 2 + (1 / 3 * R ^ 3 * (3 * I2 + 0 * I3)) * (2 * (0 : ℝ) ^ 1 * 1))) 0 := by
      refine ((hasDerivAt_const _ _).add ((hasDerivAt_id (0 : ℝ)).const_mul 0)).add ?_
      refine HasDerivAt.mul ?_ ?_
      · exact ((hasDerivAt_const _ _).add ((hasDerivAt_id (0 : ℝ)).mul_const I3)).const_mul _
      · have hp := hasDerivAt_pow 2 (0 : ℝ)
        simpa using hp
    convert hd using 1; ring

end DV.Fourier
