/-
  Lemmas about the executable labeller (Model/Label.lean), used by Props/C02.lean.
  Part A: raster renumbering (`firstOf`, `rank`) keeps the partition and numbers the clusters
          1, 2, … in the order of their first cells.
  Part B: the raw clusters are the classes of the in-box adjacency restricted to the mask.
-/
import DropletsVerif.Model.Label
import DropletsVerif.Lemmas.MergeInv

namespace DV.LabelInv
open DV.Merge DV.MergeInv DV.Label Relation

/-! ### Part A: renumbering -/

section rank
variable (n : Nat) (lab : Nat → Nat)

theorem firstOf_spec {c : Nat} (hc : c < n) :
    firstOf n lab c < n ∧ firstOf n lab c ≤ c ∧ lab (firstOf n lab c) = lab c ∧
      ∀ j, j < firstOf n lab c → lab j ≠ lab c := by
  unfold firstOf
  cases hf : (List.range n).find? (fun c' => lab c' == lab c) with
  | none =>
    rw [List.find?_range_eq_none] at hf
    have := hf c hc
    simp at this
  | some i =>
    rw [List.find?_range_eq_some] at hf
    obtain ⟨h1, h2, h3⟩ := hf
    simp only [Option.getD_some]
    refine ⟨List.mem_range.mp h2, ?_, by simpa using h1, ?_⟩
    · by_contra hlt
      have := h3 c (by omega)
      simp at this
    · intro j hj
      have := h3 j hj
      simpa using this

theorem firstOf_congr {c1 c2 : Nat} (h1 : c1 < n) (h2 : c2 < n) (h : lab c1 = lab c2) :
    firstOf n lab c1 = firstOf n lab c2 := by
  unfold firstOf; rw [h]
  cases hf : (List.range n).find? (fun c' => lab c' == lab c2) with
  | none =>
    rw [List.find?_range_eq_none] at hf
    have := hf c2 h2
    simp at this
  | some i => rfl

theorem firstOf_eq_iff {c1 c2 : Nat} (h1 : c1 < n) (h2 : c2 < n) :
    firstOf n lab c1 = firstOf n lab c2 ↔ lab c1 = lab c2 := by
  constructor
  · intro h
    have a := (firstOf_spec n lab h1).2.2.1
    have b := (firstOf_spec n lab h2).2.2.1
    rw [← a, ← b, h]
  · exact firstOf_congr n lab h1 h2

theorem firstOf_idem {c : Nat} (hc : c < n) : firstOf n lab (firstOf n lab c) = firstOf n lab c := by
  obtain ⟨h1, h2, h3, h4⟩ := firstOf_spec n lab hc
  obtain ⟨g1, g2, g3, g4⟩ := firstOf_spec n lab h1
  by_contra hne
  have hlt : firstOf n lab (firstOf n lab c) < firstOf n lab c := by omega
  exact h4 _ hlt (by rw [g3, h3])

theorem isFirst_firstOf {c : Nat} (hc : c < n) (hp : 0 < lab c) : isFirst n lab (firstOf n lab c) = true := by
  unfold isFirst isFirstF
  have := (firstOf_spec n lab hc).2.2.1
  simp [firstOf_idem n lab hc, this, hp]

/-- number of cluster heads among the cells `0..k` -/
def cnt (k : Nat) : Nat := ((List.range (k + 1)).filter (isFirst n lab)).length

theorem cnt_succ (k : Nat) : cnt n lab (k + 1) = cnt n lab k + (if isFirst n lab (k + 1) then 1 else 0) := by
  unfold cnt
  rw [List.range_succ, List.filter_append, List.length_append]
  by_cases h : isFirst n lab (k + 1) <;> simp [h]

theorem cnt_mono {a b : Nat} (h : a ≤ b) : cnt n lab a ≤ cnt n lab b := by
  induction b with
  | zero => have : a = 0 := by omega
            subst this; exact Nat.le_refl _
  | succ b ih =>
    by_cases hab : a = b + 1
    · subst hab; exact Nat.le_refl _
    · have := ih (by omega)
      rw [cnt_succ]; omega

theorem cnt_strict {a b : Nat} (h : a < b) (hb : isFirst n lab b = true) : cnt n lab a < cnt n lab b := by
  cases b with
  | zero => omega
  | succ b =>
    have := cnt_mono n lab (show a ≤ b by omega)
    rw [cnt_succ, hb]; simp; omega

theorem cnt_pos {a : Nat} (ha : isFirst n lab a = true) : 0 < cnt n lab a := by
  cases a with
  | zero => unfold cnt; simp [ha]
  | succ a => rw [cnt_succ, ha]; simp

theorem rank_eq_cnt {c : Nat} (hp : 0 < lab c) : rank n lab c = cnt n lab (firstOf n lab c) := by
  unfold rank rankF cnt
  rw [if_neg (by omega)]
  rfl

theorem rank_zero_iff (c : Nat) (hc : c < n) : rank n lab c = 0 ↔ lab c = 0 := by
  constructor
  · intro h
    by_contra hne
    have hp : 0 < lab c := by omega
    rw [rank_eq_cnt n lab hp] at h
    have := cnt_pos n lab (isFirst_firstOf n lab hc hp)
    omega
  · intro h; unfold rank rankF; rw [if_pos h]

theorem rank_lt_iff {c1 c2 : Nat} (h1 : c1 < n) (h2 : c2 < n) (p1 : 0 < lab c1) (p2 : 0 < lab c2) :
    rank n lab c1 < rank n lab c2 ↔ firstOf n lab c1 < firstOf n lab c2 := by
  rw [rank_eq_cnt n lab p1, rank_eq_cnt n lab p2]
  constructor
  · intro h
    by_contra hge
    have := cnt_mono n lab (show firstOf n lab c2 ≤ firstOf n lab c1 by omega)
    omega
  · intro h
    exact cnt_strict n lab h (isFirst_firstOf n lab h2 p2)

/-- the renumbering keeps the partition -/
theorem rank_eq_iff {c1 c2 : Nat} (h1 : c1 < n) (h2 : c2 < n) (p1 : 0 < lab c1) (p2 : 0 < lab c2) :
    rank n lab c1 = rank n lab c2 ↔ lab c1 = lab c2 := by
  rw [← firstOf_eq_iff n lab h1 h2]
  constructor
  · intro h
    by_contra hne
    rcases Nat.lt_or_gt_of_ne hne with hlt | hlt
    · have := (rank_lt_iff n lab h1 h2 p1 p2).mpr hlt; omega
    · have := (rank_lt_iff n lab h2 h1 p2 p1).mpr hlt; omega
  · intro h
    rw [rank_eq_cnt n lab p1, rank_eq_cnt n lab p2, h]

/-- the names are gap-free: every number between 1 and the name of a cluster is the name of a
cluster whose first cell is not later -/
theorem cnt_surj (m : Nat) : ∀ k, 1 ≤ k → k ≤ cnt n lab m →
    ∃ f, f ≤ m ∧ isFirst n lab f = true ∧ cnt n lab f = k := by
  induction m with
  | zero =>
    intro k hk hle
    by_cases h0 : isFirst n lab 0 = true
    · refine ⟨0, Nat.le_refl _, h0, ?_⟩
      have : cnt n lab 0 = 1 := by unfold cnt; simp [h0]
      omega
    · have : cnt n lab 0 = 0 := by unfold cnt; simp [h0]
      omega
  | succ m ih =>
    intro k hk hle
    rw [cnt_succ] at hle
    by_cases hf : isFirst n lab (m + 1) = true
    · rw [hf] at hle
      simp only [if_true] at hle
      by_cases hk' : k = cnt n lab m + 1
      · refine ⟨m + 1, Nat.le_refl _, hf, ?_⟩
        rw [cnt_succ, hf]; simp [hk']
      · obtain ⟨f, h1, h2, h3⟩ := ih k hk (by omega)
        exact ⟨f, by omega, h2, h3⟩
    · have hf' : isFirst n lab (m + 1) = false := by simpa using hf
      rw [hf'] at hle
      simp only [Bool.false_eq_true, if_false, Nat.add_zero] at hle
      obtain ⟨f, h1, h2, h3⟩ := ih k hk hle
      exact ⟨f, by omega, h2, h3⟩

theorem isFirst_spec {f : Nat} (h : isFirst n lab f = true) : 0 < lab f ∧ firstOf n lab f = f := by
  unfold isFirst isFirstF at h
  simp only [Bool.and_eq_true, decide_eq_true_eq, beq_iff_eq] at h
  exact h

theorem rank_gapfree {c : Nat} (hc : c < n) (hp : 0 < lab c) (k : Nat) (hk : 1 ≤ k)
    (hle : k ≤ rank n lab c) : ∃ c', c' < n ∧ c' ≤ c ∧ 0 < lab c' ∧ rank n lab c' = k := by
  rw [rank_eq_cnt n lab hp] at hle
  obtain ⟨f, h1, h2, h3⟩ := cnt_surj n lab _ k hk hle
  obtain ⟨g1, g2⟩ := isFirst_spec n lab h2
  obtain ⟨s1, s2, _, _⟩ := firstOf_spec n lab hc
  refine ⟨f, by omega, by omega, g1, ?_⟩
  rw [rank_eq_cnt n lab g1, g2, h3]

/-- `rank` only looks at the labels of the first `n` cells -/
theorem rank_congr (lab' : Nat → Nat) (h : ∀ c, c < n → lab c = lab' c) {c : Nat} (hc : c < n) :
    rank n lab c = rank n lab' c := by
  have hfirst : ∀ c, c < n → firstOf n lab c = firstOf n lab' c := by
    intro c hc
    unfold firstOf
    congr 1
    apply List.find?_congr
    intro x hx
    rw [h x (List.mem_range.mp hx), h c hc]
  have hisf : ∀ c, c < n → isFirst n lab c = isFirst n lab' c := by
    intro c hc
    unfold isFirst isFirstF; rw [hfirst c hc, h c hc]
  unfold rank rankF
  rw [h c hc, hfirst c hc]
  by_cases h0 : lab' c = 0
  · simp [h0]
  · simp only [h0, if_false]
    congr 1
    apply List.filter_congr
    intro x hx
    have hx' := List.mem_range.mp hx
    have hlt : firstOf n lab' c < n := by
      rw [← hfirst c hc]; exact (firstOf_spec n lab hc).1
    exact hisf x (by omega)

/-- `rankF` only looks at the table of first cells below `n` -/
theorem rankF_congr (first first' : Nat → Nat) (h : ∀ c, c < n → first c = first' c)
    (hb : ∀ c, c < n → first c < n) {c : Nat} (hc : c < n) :
    rankF lab first c = rankF lab first' c := by
  unfold rankF
  rw [← h c hc]
  by_cases h0 : lab c = 0
  · simp [h0]
  · simp only [h0, if_false]
    congr 1
    apply List.filter_congr
    intro x hx
    have hx' := List.mem_range.mp hx
    have := hb c hc
    unfold isFirstF
    rw [h x (by omega)]

end rank

/-! ### Part B: raw clusters = classes of the in-box adjacency on the mask -/

/-- connectivity of mask cells through the pairs `es` -/
def MaskLink (mask : Nat → Bool) (es : List Edge) (a b : Nat) : Prop :=
  mask a = true ∧ mask b = true ∧ (a = b ∨ ∃ e ∈ es, e.l = a ∧ e.h = b)

def MaskConn (mask : Nat → Bool) (es : List Edge) : Nat → Nat → Prop := EqvGen (MaskLink mask es)

theorem seedLab_pos (mask : Nat → Bool) (c : Nat) : 0 < seedLab mask c ↔ mask c = true := by
  unfold seedLab; by_cases h : mask c <;> simp [h]

theorem seedLab_inj (mask : Nat → Bool) {a b : Nat} (ha : mask a = true) (hb : mask b = true) :
    seedLab mask a = seedLab mask b ↔ a = b := by
  unfold seedLab; simp [ha, hb]

theorem link_seed_iff (mask : Nat → Bool) (es : List Edge) (a b : Nat) :
    Link (seedLab mask) es a b ↔ MaskLink mask es a b := by
  unfold Link MaskLink
  rw [seedLab_pos, seedLab_pos]
  constructor
  · rintro ⟨ha, hb, h⟩
    exact ⟨ha, hb, h.imp (fun h => (seedLab_inj mask ha hb).mp h) id⟩
  · rintro ⟨ha, hb, h⟩
    exact ⟨ha, hb, h.imp (fun h => (seedLab_inj mask ha hb).mpr h) id⟩

theorem conn_seed_iff (mask : Nat → Bool) (es : List Edge) (a b : Nat) :
    Conn (seedLab mask) es a b ↔ MaskConn mask es a b := by
  unfold Conn MaskConn
  have : Link (seedLab mask) es = MaskLink mask es := by
    funext a b; exact propext (link_seed_iff mask es a b)
  rw [this]

theorem MaskConn.mono {mask : Nat → Bool} {es es' : List Edge} (h : ∀ e ∈ es, e ∈ es') {a b : Nat}
    (hc : MaskConn mask es a b) : MaskConn mask es' a b := by
  induction hc with
  | rel a b hl =>
    obtain ⟨ha, hb, hor⟩ := hl
    exact EqvGen.rel _ _ ⟨ha, hb, hor.imp id (fun ⟨e, he, h1, h2⟩ => ⟨e, h e he, h1, h2⟩)⟩
  | refl a => exact EqvGen.refl _
  | symm a b _ ih => exact EqvGen.symm _ _ ih
  | trans a b c _ _ ih1 ih2 => exact EqvGen.trans _ _ _ ih1 ih2

/-- the label invariant at the end of any run of the relabelling loop -/
theorem labInv_final (shape : Nat → Nat) (lab0 : Nat → Nat) (coord : Nat → Nat → Nat) (cells : List Nat)
    (edges : List Edge) : LabInv lab0 (mergeLoop shape lab0 (initSt coord lab0 cells) edges) edges := by
  have := foldl_inv shape lab0 (fun st es => LabInv lab0 st es)
    (fun st es e h => labInv_step shape lab0 st es e h) edges (initSt coord lab0 cells) []
    (labInv_init lab0 coord cells)
  simpa [mergeLoop] using this

theorem rawLabel_pos_iff (shape : List Nat) (mask : Nat → Bool) (c : Nat) :
    0 < rawLabel shape mask c ↔ mask c = true := by
  unfold rawLabel rawState
  rw [(labInv_final _ _ _ _ _).pos_iff c, seedLab_pos]

theorem rawLabel_eq_iff (shape : List Nat) (mask : Nat → Bool) {c1 c2 : Nat}
    (h1 : mask c1 = true) (h2 : mask c2 = true) :
    rawLabel shape mask c1 = rawLabel shape mask c2 ↔ MaskConn mask (inboxEdges shape) c1 c2 := by
  unfold rawLabel rawState
  have inv := labInv_final (fun a => shape.getD a 1) (seedLab mask) (coordOf shape)
    (List.range (numCells shape)) (inboxEdges shape)
  rw [← conn_seed_iff]
  have p1 := (seedLab_pos mask c1).mpr h1
  have p2 := (seedLab_pos mask c2).mpr h2
  exact ⟨inv.conn_of_eq c1 c2 p1 p2, fun h => inv.eq_of_conn (seedLab mask) h⟩

/-! ### the labelled image -/

theorem toArray_getD (l : List Nat) (c : Nat) : l.toArray.getD c 0 = l.getD c 0 := by
  simp only [Array.getD, List.getD_eq_getElem?_getD, List.size_toArray]
  split <;> simp_all

/-- the label image as a function (0 outside the grid) -/
def labelFn (shape : List Nat) (mask : Nat → Bool) (c : Nat) : Nat := (labelExec shape mask).getD c 0

theorem labelFn_eq (shape : List Nat) (mask : Nat → Bool) {c : Nat} (hc : c < numCells shape) :
    labelFn shape mask c = rank (numCells shape) (rawLabel shape mask) c := by
  unfold labelFn labelExec
  simp only
  rw [List.getD_eq_getElem?_getD, List.getElem?_map, List.getElem?_range hc]
  simp only [Option.map_some, Option.getD_some]
  set n := numCells shape
  set raw := rawLabel shape mask with hraw
  have hst : (rawState shape mask).lab = raw := rfl
  rw [hst]
  set lab : Nat → Nat := fun c => ((List.range n).map raw).toArray.getD c 0 with hlab
  have hlr : ∀ x, x < n → lab x = raw x := by
    intro x hx
    simp only [hlab]
    rw [toArray_getD, List.getD_eq_getElem?_getD, List.getElem?_map, List.getElem?_range hx]
    simp
  have hft : ∀ x, x < n → ((List.range n).map (firstOf n lab)).toArray.getD x 0 = firstOf n lab x := by
    intro x hx
    rw [toArray_getD, List.getD_eq_getElem?_getD, List.getElem?_map, List.getElem?_range hx]
    simp
  rw [rankF_congr n lab _ (firstOf n lab) hft (fun x hx => by rw [hft x hx]; exact (firstOf_spec n lab hx).1) hc]
  exact rank_congr n lab raw hlr hc

theorem labelFn_out (shape : List Nat) (mask : Nat → Bool) {c : Nat} (hc : numCells shape ≤ c) :
    labelFn shape mask c = 0 := by
  unfold labelFn labelExec
  simp only
  rw [List.getD_eq_getElem?_getD, List.getElem?_eq_none (by simpa using hc)]
  rfl

end DV.LabelInv
