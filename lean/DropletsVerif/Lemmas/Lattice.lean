/-
  Packing bound for lattice cells inside a ball (Lebesgue measure; pure Mathlib): the cells of a rectangular lattice
  whose centres lie within `R` of a point are pairwise disjoint boxes inside the ball of radius `R + ρ`, ρ = half the
  cell diagonal; hence (number of cells) × (cell volume) ≤ volume of that ball, with the explicit volumes 2r, πr², 4πr³/3.
-/
import Mathlib.MeasureTheory.Measure.Lebesgue.VolumeOfBalls
import Mathlib.MeasureTheory.Measure.Haar.InnerProductSpace

open MeasureTheory Metric Set WithLp

namespace DV.Lattice
variable {d : ℕ}

/-- the cell (half-open box) of size `h` centred at `x` -/
def cell (x h : Fin d → ℝ) : Set (Fin d → ℝ) := Set.pi univ fun a => Ico (x a - h a / 2) (x a + h a / 2)

theorem volume_cell (x h : Fin d → ℝ) (hh : ∀ a, 0 ≤ h a) : volume (cell x h) = ENNReal.ofReal (∏ a, h a) := by
  unfold cell
  rw [Real.volume_pi_Ico, ENNReal.ofReal_prod_of_nonneg (fun a _ => hh a)]
  congr 1; funext a; congr 1; ring

/-- centre of the lattice cell with index `n` -/
noncomputable def centre (o h : Fin d → ℝ) (n : Fin d → ℤ) : Fin d → ℝ := fun a => o a + ((n a : ℝ) + 1 / 2) * h a

theorem cells_disjoint (o h : Fin d → ℝ) (hh : ∀ a, 0 < h a) {n m : Fin d → ℤ} (hnm : n ≠ m) :
    Disjoint (cell (centre o h n) h) (cell (centre o h m) h) := by
  rw [Set.disjoint_left]
  intro y hy1 hy2
  apply hnm
  funext a
  have h1 := hy1 a (mem_univ a)
  have h2 := hy2 a (mem_univ a)
  simp only [centre, mem_Ico] at h1 h2
  have hpos := hh a
  -- o + n h ≤ y < o + (n+1) h and the same for m  ⇒ n = m
  by_contra hne
  rcases lt_or_gt_of_ne hne with hlt | hgt
  · have : (n a : ℝ) + 1 ≤ m a := by exact_mod_cast hlt
    nlinarith
  · have : (m a : ℝ) + 1 ≤ n a := by exact_mod_cast hgt
    nlinarith


theorem measurable_cell (x h : Fin d → ℝ) : MeasurableSet (cell x h) :=
  MeasurableSet.univ_pi fun _ => measurableSet_Ico

/-- a point of a cell is within half the cell diagonal of the cell's centre -/
theorem cell_near (x h : Fin d → ℝ) (hh : ∀ a, 0 ≤ h a) {y : Fin d → ℝ} (hy : y ∈ cell x h) :
    ‖(toLp 2 y : EuclideanSpace ℝ (Fin d)) - toLp 2 x‖ ≤ ‖(toLp 2 (fun a => h a / 2) : EuclideanSpace ℝ (Fin d))‖ := by
  rw [EuclideanSpace.norm_eq, EuclideanSpace.norm_eq]
  apply Real.sqrt_le_sqrt
  apply Finset.sum_le_sum
  intro a _
  have h1 := hy a (mem_univ a)
  simp only [mem_Ico] at h1
  simp only [PiLp.sub_apply, Real.norm_eq_abs, sq_abs]
  have : |y a - x a| ≤ |h a / 2| := by
    rw [abs_le, abs_of_nonneg (by linarith [hh a])]
    constructor <;> linarith [h1.1, h1.2]
  exact sq_le_sq' (by linarith [neg_abs_le (y a - x a), abs_nonneg (h a / 2), neg_le_abs (y a - x a), this, abs_le.mp this |>.1]) (le_trans (le_abs_self _) this) |> fun t => by
    have := sq_le_sq.mpr (show |y a - x a| ≤ |h a / 2| by simpa using this)
    simpa using this

/-- **Packing bound**: lattice cells whose centres lie within `R` of `c` are disjoint boxes inside the ball of radius
`R + ρ` (ρ = half the cell diagonal); hence their number times the cell volume is at most the volume of that ball. -/
theorem card_mul_cell_le (S : Finset (Fin d → ℤ)) (o h c : Fin d → ℝ) (hh : ∀ a, 0 < h a) (R : ℝ)
    (hS : ∀ n ∈ S, ‖(toLp 2 (centre o h n) : EuclideanSpace ℝ (Fin d)) - toLp 2 c‖ < R) :
    (S.card : ENNReal) * ENNReal.ofReal (∏ a, h a) ≤
      volume (ball (toLp 2 c : EuclideanSpace ℝ (Fin d)) (R + ‖(toLp 2 (fun a => h a / 2) : EuclideanSpace ℝ (Fin d))‖)) := by
  set U : Set (Fin d → ℝ) := ⋃ n ∈ S, cell (centre o h n) h with hU
  have hUm : MeasurableSet U := Finset.measurableSet_biUnion _ fun n _ => measurable_cell _ _
  have hvolU : volume U = (S.card : ENNReal) * ENNReal.ofReal (∏ a, h a) := by
    rw [hU, measure_biUnion_finset]
    · simp only [volume_cell _ _ (fun a => (hh a).le), Finset.sum_const, nsmul_eq_mul]
    · intro n _ m _ hnm
      exact cells_disjoint o h hh hnm
    · intro n _; exact measurable_cell _ _
  rw [← hvolU, ← (PiLp.volume_preserving_ofLp (Fin d)).measure_preimage hUm.nullMeasurableSet]
  apply measure_mono
  intro y hy
  simp only [mem_preimage, hU, mem_iUnion] at hy
  obtain ⟨n, hn, hyn⟩ := hy
  rw [mem_ball, dist_eq_norm]
  have h1 := cell_near (centre o h n) h (fun a => (hh a).le) hyn
  have h2 := hS n hn
  have : y = toLp 2 (ofLp y) := rfl
  calc ‖y - toLp 2 c‖ = ‖(toLp 2 (ofLp y) - toLp 2 (centre o h n)) + (toLp 2 (centre o h n) - toLp 2 c)‖ := by
        rw [sub_add_sub_cancel]
    _ ≤ ‖(toLp 2 (ofLp y) : EuclideanSpace ℝ (Fin d)) - toLp 2 (centre o h n)‖ + ‖(toLp 2 (centre o h n) : EuclideanSpace ℝ (Fin d)) - toLp 2 c‖ := norm_add_le _ _
    _ < R + ‖(toLp 2 (fun a => h a / 2) : EuclideanSpace ℝ (Fin d))‖ := by linarith


/-- half the cell diagonal -/
noncomputable def halfDiag (h : Fin d → ℝ) : ℝ := ‖(toLp 2 (fun a => h a / 2) : EuclideanSpace ℝ (Fin d))‖

theorem halfDiag_nonneg (h : Fin d → ℝ) : 0 ≤ halfDiag h := norm_nonneg _

/-- real form of the packing bound in three dimensions -/
theorem card_vol_le_three (S : Finset (Fin 3 → ℤ)) (o h c : Fin 3 → ℝ) (hh : ∀ a, 0 < h a) (R : ℝ) (hR : 0 ≤ R)
    (hS : ∀ n ∈ S, ‖(toLp 2 (centre o h n) : EuclideanSpace ℝ (Fin 3)) - toLp 2 c‖ < R) :
    (S.card : ℝ) * ∏ a, h a ≤ (R + halfDiag h) ^ 3 * (Real.pi * 4 / 3) := by
  have hb := card_mul_cell_le S o h c hh R hS
  rw [EuclideanSpace.volume_ball_fin_three] at hb
  have hprod : 0 ≤ ∏ a, h a := Finset.prod_nonneg fun a _ => (hh a).le
  have hρ : 0 ≤ R + halfDiag h := add_nonneg hR (halfDiag_nonneg h)
  have e1 : (S.card : ENNReal) * ENNReal.ofReal (∏ a, h a) = ENNReal.ofReal ((S.card : ℝ) * ∏ a, h a) := by
    rw [ENNReal.ofReal_mul (Nat.cast_nonneg _), ENNReal.ofReal_natCast]
  have e2 : ENNReal.ofReal (R + halfDiag h) ^ 3 * ENNReal.ofReal (Real.pi * 4 / 3)
      = ENNReal.ofReal ((R + halfDiag h) ^ 3 * (Real.pi * 4 / 3)) := by
    rw [ENNReal.ofReal_mul (pow_nonneg hρ 3), ENNReal.ofReal_pow hρ]
  rw [e1] at hb
  change _ ≤ ENNReal.ofReal (R + halfDiag h) ^ 3 * ENNReal.ofReal (Real.pi * 4 / 3) at hb
  rw [e2] at hb
  exact (ENNReal.ofReal_le_ofReal_iff (by positivity)).mp hb

theorem card_vol_le_two (S : Finset (Fin 2 → ℤ)) (o h c : Fin 2 → ℝ) (hh : ∀ a, 0 < h a) (R : ℝ) (hR : 0 ≤ R)
    (hS : ∀ n ∈ S, ‖(toLp 2 (centre o h n) : EuclideanSpace ℝ (Fin 2)) - toLp 2 c‖ < R) :
    (S.card : ℝ) * ∏ a, h a ≤ (R + halfDiag h) ^ 2 * Real.pi := by
  have hb := card_mul_cell_le S o h c hh R hS
  rw [EuclideanSpace.volume_ball_fin_two] at hb
  have hρ : 0 ≤ R + halfDiag h := add_nonneg hR (halfDiag_nonneg h)
  have e1 : (S.card : ENNReal) * ENNReal.ofReal (∏ a, h a) = ENNReal.ofReal ((S.card : ℝ) * ∏ a, h a) := by
    rw [ENNReal.ofReal_mul (Nat.cast_nonneg _), ENNReal.ofReal_natCast]
  have e2 : ENNReal.ofReal (R + halfDiag h) ^ 2 * ENNReal.ofReal Real.pi
      = ENNReal.ofReal ((R + halfDiag h) ^ 2 * Real.pi) := by
    rw [ENNReal.ofReal_mul (pow_nonneg hρ 2), ENNReal.ofReal_pow hρ]
  rw [e1] at hb
  change _ ≤ ENNReal.ofReal (R + halfDiag h) ^ 2 * ENNReal.ofReal Real.pi at hb
  rw [e2] at hb
  exact (ENNReal.ofReal_le_ofReal_iff (by positivity)).mp hb


theorem volume_ball_fin_one (x : EuclideanSpace ℝ (Fin 1)) (r : ℝ) :
    volume (ball x r) = ENNReal.ofReal r ^ 1 * ENNReal.ofReal 2 := by
  norm_num [InnerProductSpace.volume_ball_of_dim_odd (k := 0) (by simp) x]

theorem card_vol_le_one (S : Finset (Fin 1 → ℤ)) (o h c : Fin 1 → ℝ) (hh : ∀ a, 0 < h a) (R : ℝ) (hR : 0 ≤ R)
    (hS : ∀ n ∈ S, ‖(toLp 2 (centre o h n) : EuclideanSpace ℝ (Fin 1)) - toLp 2 c‖ < R) :
    (S.card : ℝ) * ∏ a, h a ≤ 2 * (R + halfDiag h) := by
  have hb := card_mul_cell_le S o h c hh R hS
  rw [volume_ball_fin_one] at hb
  have hρ : 0 ≤ R + halfDiag h := add_nonneg hR (halfDiag_nonneg h)
  have e1 : (S.card : ENNReal) * ENNReal.ofReal (∏ a, h a) = ENNReal.ofReal ((S.card : ℝ) * ∏ a, h a) := by
    rw [ENNReal.ofReal_mul (Nat.cast_nonneg _), ENNReal.ofReal_natCast]
  have e2 : ENNReal.ofReal (R + halfDiag h) ^ 1 * ENNReal.ofReal 2 = ENNReal.ofReal (2 * (R + halfDiag h)) := by
    rw [pow_one, mul_comm, ENNReal.ofReal_mul (by norm_num)]
  rw [e1] at hb
  change _ ≤ ENNReal.ofReal (R + halfDiag h) ^ 1 * ENNReal.ofReal 2 at hb
  rw [e2] at hb
  exact (ENNReal.ofReal_le_ofReal_iff (by positivity)).mp hb

end DV.Lattice

/-! ### the covering bound (the ball of radius R − ρ is covered by the cells) -/

open MeasureTheory Metric Set WithLp

namespace DV.Lattice
variable {d : ℕ}

/-- every point lies in the cell of some lattice point -/
theorem exists_cell (o h : Fin d → ℝ) (hh : ∀ a, 0 < h a) (y : Fin d → ℝ) : ∃ n : Fin d → ℤ, y ∈ cell (centre o h n) h := by
  refine ⟨fun a => ⌊(y a - o a) / h a⌋, ?_⟩
  intro a _
  simp only [centre, mem_Ico]
  have hpos := hh a
  have h1 := Int.floor_le ((y a - o a) / h a)
  have h2 := Int.lt_floor_add_one ((y a - o a) / h a)
  rw [le_div_iff₀ hpos] at h1
  rw [div_lt_iff₀ hpos] at h2
  constructor <;> nlinarith

/-- **Covering bound**: if `T` contains every lattice point whose cell centre lies within `R` of `c`, the ball of radius
`R − ρ` (ρ = half the cell diagonal) is covered by the cells of `T`; hence its volume is at most (number of cells) × (cell volume). -/
theorem ball_le_card_mul_cell (T : Finset (Fin d → ℤ)) (o h c : Fin d → ℝ) (hh : ∀ a, 0 < h a) (R : ℝ)
    (hT : ∀ n : Fin d → ℤ, ‖(toLp 2 (centre o h n) : EuclideanSpace ℝ (Fin d)) - toLp 2 c‖ < R → n ∈ T) :
    volume (ball (toLp 2 c : EuclideanSpace ℝ (Fin d)) (R - halfDiag h)) ≤ (T.card : ENNReal) * ENNReal.ofReal (∏ a, h a) := by
  set U : Set (Fin d → ℝ) := ⋃ n ∈ T, cell (centre o h n) h with hU
  have hUm : MeasurableSet U := Finset.measurableSet_biUnion _ fun n _ => measurable_cell _ _
  have hvolU : volume U ≤ (T.card : ENNReal) * ENNReal.ofReal (∏ a, h a) := by
    rw [hU]
    refine le_trans (measure_biUnion_finset_le _ _) ?_
    simp only [volume_cell _ _ (fun a => (hh a).le), Finset.sum_const, nsmul_eq_mul, le_refl]
  refine le_trans ?_ hvolU
  rw [← (PiLp.volume_preserving_ofLp (Fin d)).measure_preimage hUm.nullMeasurableSet]
  apply measure_mono
  intro y hy
  rw [mem_ball, dist_eq_norm] at hy
  simp only [mem_preimage, hU, mem_iUnion]
  obtain ⟨n, hn⟩ := exists_cell o h hh (ofLp y)
  refine ⟨n, hT n ?_, hn⟩
  have h1 := cell_near (centre o h n) h (fun a => (hh a).le) hn
  have e : (toLp 2 (centre o h n) : EuclideanSpace ℝ (Fin d)) - toLp 2 c
      = -((toLp 2 (ofLp y) : EuclideanSpace ℝ (Fin d)) - toLp 2 (centre o h n)) + (y - toLp 2 c) := by
    have : (toLp 2 (ofLp y) : EuclideanSpace ℝ (Fin d)) = y := rfl
    rw [this]; abel
  rw [e]
  calc ‖-((toLp 2 (ofLp y) : EuclideanSpace ℝ (Fin d)) - toLp 2 (centre o h n)) + (y - toLp 2 c)‖
      ≤ ‖-((toLp 2 (ofLp y) : EuclideanSpace ℝ (Fin d)) - toLp 2 (centre o h n))‖ + ‖y - toLp 2 c‖ := norm_add_le _ _
    _ = ‖(toLp 2 (ofLp y) : EuclideanSpace ℝ (Fin d)) - toLp 2 (centre o h n)‖ + ‖y - toLp 2 c‖ := by rw [norm_neg]
    _ < R := by unfold halfDiag at hy; linarith


theorem card_vol_ge_three (T : Finset (Fin 3 → ℤ)) (o h c : Fin 3 → ℝ) (hh : ∀ a, 0 < h a) (R : ℝ) (hR : 0 ≤ R - halfDiag h)
    (hT : ∀ n : Fin 3 → ℤ, ‖(toLp 2 (centre o h n) : EuclideanSpace ℝ (Fin 3)) - toLp 2 c‖ < R → n ∈ T) :
    (R - halfDiag h) ^ 3 * (Real.pi * 4 / 3) ≤ (T.card : ℝ) * ∏ a, h a := by
  have hb := ball_le_card_mul_cell T o h c hh R hT
  rw [EuclideanSpace.volume_ball_fin_three] at hb
  have e1 : (T.card : ENNReal) * ENNReal.ofReal (∏ a, h a) = ENNReal.ofReal ((T.card : ℝ) * ∏ a, h a) := by
    rw [ENNReal.ofReal_mul (Nat.cast_nonneg _), ENNReal.ofReal_natCast]
  have e2 : ENNReal.ofReal (R - halfDiag h) ^ 3 * ENNReal.ofReal (Real.pi * 4 / 3)
      = ENNReal.ofReal ((R - halfDiag h) ^ 3 * (Real.pi * 4 / 3)) := by
    rw [ENNReal.ofReal_mul (pow_nonneg hR 3), ENNReal.ofReal_pow hR]
  rw [e1] at hb
  change ENNReal.ofReal (R - halfDiag h) ^ 3 * ENNReal.ofReal (Real.pi * 4 / 3) ≤ _ at hb
  rw [e2] at hb
  have hprod : 0 ≤ (T.card : ℝ) * ∏ a, h a := mul_nonneg (Nat.cast_nonneg _) (Finset.prod_nonneg fun a _ => (hh a).le)
  exact (ENNReal.ofReal_le_ofReal_iff hprod).mp hb

theorem card_vol_ge_two (T : Finset (Fin 2 → ℤ)) (o h c : Fin 2 → ℝ) (hh : ∀ a, 0 < h a) (R : ℝ) (hR : 0 ≤ R - halfDiag h)
    (hT : ∀ n : Fin 2 → ℤ, ‖(toLp 2 (centre o h n) : EuclideanSpace ℝ (Fin 2)) - toLp 2 c‖ < R → n ∈ T) :
    (R - halfDiag h) ^ 2 * Real.pi ≤ (T.card : ℝ) * ∏ a, h a := by
  have hb := ball_le_card_mul_cell T o h c hh R hT
  rw [EuclideanSpace.volume_ball_fin_two] at hb
  have e1 : (T.card : ENNReal) * ENNReal.ofReal (∏ a, h a) = ENNReal.ofReal ((T.card : ℝ) * ∏ a, h a) := by
    rw [ENNReal.ofReal_mul (Nat.cast_nonneg _), ENNReal.ofReal_natCast]
  have e2 : ENNReal.ofReal (R - halfDiag h) ^ 2 * ENNReal.ofReal Real.pi
      = ENNReal.ofReal ((R - halfDiag h) ^ 2 * Real.pi) := by
    rw [ENNReal.ofReal_mul (pow_nonneg hR 2), ENNReal.ofReal_pow hR]
  rw [e1] at hb
  change ENNReal.ofReal (R - halfDiag h) ^ 2 * ENNReal.ofReal Real.pi ≤ _ at hb
  rw [e2] at hb
  have hprod : 0 ≤ (T.card : ℝ) * ∏ a, h a := mul_nonneg (Nat.cast_nonneg _) (Finset.prod_nonneg fun a _ => (hh a).le)
  exact (ENNReal.ofReal_le_ofReal_iff hprod).mp hb

theorem card_vol_ge_one (T : Finset (Fin 1 → ℤ)) (o h c : Fin 1 → ℝ) (hh : ∀ a, 0 < h a) (R : ℝ) (hR : 0 ≤ R - halfDiag h)
    (hT : ∀ n : Fin 1 → ℤ, ‖(toLp 2 (centre o h n) : EuclideanSpace ℝ (Fin 1)) - toLp 2 c‖ < R → n ∈ T) :
    2 * (R - halfDiag h) ≤ (T.card : ℝ) * ∏ a, h a := by
  have hb := ball_le_card_mul_cell T o h c hh R hT
  rw [volume_ball_fin_one] at hb
  have e1 : (T.card : ENNReal) * ENNReal.ofReal (∏ a, h a) = ENNReal.ofReal ((T.card : ℝ) * ∏ a, h a) := by
    rw [ENNReal.ofReal_mul (Nat.cast_nonneg _), ENNReal.ofReal_natCast]
  have e2 : ENNReal.ofReal (R - halfDiag h) ^ 1 * ENNReal.ofReal 2 = ENNReal.ofReal (2 * (R - halfDiag h)) := by
    rw [pow_one, mul_comm, ENNReal.ofReal_mul (by norm_num)]
  rw [e1] at hb
  change ENNReal.ofReal (R - halfDiag h) ^ 1 * ENNReal.ofReal 2 ≤ _ at hb
  rw [e2] at hb
  have hprod : 0 ≤ (T.card : ℝ) * ∏ a, h a := mul_nonneg (Nat.cast_nonneg _) (Finset.prod_nonneg fun a _ => (hh a).le)
  exact (ENNReal.ofReal_le_ofReal_iff hprod).mp hb

end DV.Lattice
