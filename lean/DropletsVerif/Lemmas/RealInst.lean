/-
  The `ℝ` instance of the operation class, with the rewriting lemmas that expose the
  real-number reading of a generated definition (`simp only [dnum]`).
-/
import Mathlib.Analysis.SpecialFunctions.Pow.Real
import Mathlib.Analysis.SpecialFunctions.Trigonometric.Basic
import Mathlib.Analysis.SpecialFunctions.Trigonometric.DerivHyp
import DropletsVerif.Num

namespace DV

/-- value of an untranslatable construct: an opaque real about which nothing can be proved -/
opaque untranslatedReal : ℝ

noncomputable instance instDNumReal : DNum ℝ :=
  { (inferInstance : Add ℝ), (inferInstance : Sub ℝ), (inferInstance : Mul ℝ),
    (inferInstance : Div ℝ), (inferInstance : Neg ℝ) with
    lit := fun n => (n : ℝ)
    pi := Real.pi
    sqrt := Real.sqrt
    rpow := fun x y => x ^ y
    npow := fun x n => x ^ n
    tanh := Real.tanh
    sin := Real.sin
    cos := Real.cos
    lt := fun x y => decide (x < y)
    eqz := fun x => decide (x = 0)
    untranslated := untranslatedReal }

@[simp] theorem dnum_lit (n : Nat) : (DNum.lit n : ℝ) = (n : ℝ) := rfl
@[simp] theorem dnum_pi : (DNum.pi : ℝ) = Real.pi := rfl
@[simp] theorem dnum_sqrt (x : ℝ) : DNum.sqrt x = Real.sqrt x := rfl
@[simp] theorem dnum_rpow (x y : ℝ) : DNum.rpow x y = x ^ y := rfl
@[simp] theorem dnum_npow (x : ℝ) (n : Nat) : DNum.npow x n = x ^ n := rfl
@[simp] theorem dnum_tanh (x : ℝ) : DNum.tanh x = Real.tanh x := rfl
@[simp] theorem dnum_sin (x : ℝ) : DNum.sin x = Real.sin x := rfl
@[simp] theorem dnum_cos (x : ℝ) : DNum.cos x = Real.cos x := rfl
@[simp] theorem dnum_lt (x y : ℝ) : (DNum.lt x y = true) = (x < y) := by
  show (decide (x < y) = true) = _; simp
@[simp] theorem dnum_eqz_true (x : ℝ) : (DNum.eqz x = true) = (x = 0) := by
  show (decide (x = 0) = true) = _; simp
@[simp] theorem dnum_eqz_false (x : ℝ) : (DNum.eqz x = false) = (x ≠ 0) := by
  show (decide (x = 0) = false) = _; simp

end DV
