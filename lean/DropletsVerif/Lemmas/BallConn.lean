/-
  A rendered ball is ONE face-connected set of cells under the grid's topology.

  `S = { cells : Σ_a diff_a(c_a, i_a)² < R² }` with `diff` the (periodic) difference of Model/Render.lean.
  From every cell of `S` one can walk, one face step at a time and without leaving `S`, to a cell that is
  nearest to the centre along every axis; two such nearest cells are face neighbours of equal distance.
  No assumption on the radius, the position of the centre (inside or outside the box) or the periodicity.
-/
import DropletsVerif.Lemmas.WrapDiff
import DropletsVerif.Lemmas.GridGeom

namespace DV.BallConn
open DV.Render DV.WrapDiff

/-! ### one axis -/

section axis
variable (a : Axis) (c : ℚ)

/-- an axis is well formed: positive spacing, at least one cell -/
structure Axis.WF (a : Axis) : Prop where
  dx_pos : 0 < a.dx
  n_pos : 0 < a.n

theorem length_pos (h : Axis.WF a) : 0 < a.length := by
  unfold Axis.length
  exact mul_pos h.dx_pos (by exact_mod_cast h.n_pos)

theorem dx_le_length (h : Axis.WF a) : a.dx ≤ a.length := by
  unfold Axis.length
  have : (1 : ℚ) ≤ a.n := by exact_mod_cast h.n_pos
  nlinarith [h.dx_pos]

theorem centre_succ (i : ℕ) : a.centre (i + 1) = a.centre i + a.dx := by
  unfold Axis.centre; push_cast; ring

/-- `i'` is the face neighbour of `i` in the direction of increasing index (inside the box, or across the
periodic boundary from the last to the first cell) -/
def Up (i i' : ℕ) : Prop := (i' = i + 1 ∧ i' < a.n) ∨ (a.periodic = true ∧ i = a.n - 1 ∧ i' = 0 ∧ i < a.n)

/-- moving up by one cell adds `dx` to the difference, as long as the result stays in the fundamental range -/
theorem diff_up (h : Axis.WF a) {i i' : ℕ} (hup : Up a i i') (hi : i < a.n)
    (hr : a.periodic = true → a.diff c i + a.dx < a.length / 2) :
    a.diff c i' = a.diff c i + a.dx := by
  have hL := length_pos a h
  unfold Axis.diff at hr ⊢
  by_cases hp : a.periodic = true
  · simp only [hp, if_true] at hr ⊢
    have hr := hr trivial
    obtain ⟨k, hk⟩ := wrapDiff_congr a.length (a.centre i - c)
    obtain ⟨r1, r2⟩ := wrapDiff_range a.length (a.centre i - c) hL
    rcases hup with ⟨rfl, _⟩ | ⟨_, hin, rfl, _⟩
    · apply wrapDiff_unique a.length _ _ hL k
      · rw [hk, centre_succ]; ring
      · have := h.dx_pos; linarith
      · exact hr
    · apply wrapDiff_unique a.length _ _ hL (k - 1)
      · rw [hk]
        have hn : (a.n : ℚ) = (i : ℚ) + 1 := by
          have : a.n = i + 1 := by omega
          rw [this]; push_cast; ring
        unfold Axis.centre Axis.length
        rw [hn]; push_cast; ring
      · have := h.dx_pos; linarith
      · exact hr
  · have hp' : a.periodic = false := by simpa using hp
    simp only [hp', Bool.false_eq_true, if_false]
    rcases hup with ⟨rfl, _⟩ | ⟨hper, _⟩
    · rw [centre_succ]; ring
    · rw [hp'] at hper; simp at hper

/-- a cell further than half a cell ABOVE the centre has a lower neighbour that is closer, unless it is
the first cell of a non-periodic axis -/
theorem step_down (h : Axis.WF a) {i : ℕ} (hi : i < a.n) (hu : a.dx / 2 < a.diff c i) :
    (a.periodic = false ∧ i = 0) ∨
    ∃ i', i' < a.n ∧ Up a i' i ∧ a.diff c i' = a.diff c i - a.dx := by
  have hL := length_pos a h
  have hdl := dx_le_length a h
  by_cases hb : a.periodic = false ∧ i = 0
  · exact Or.inl hb
  right
  -- the neighbour below
  have hi' : ∃ i', i' < a.n ∧ Up a i' i := by
    by_cases h0 : i = 0
    · have hp : a.periodic = true := by
        by_contra hp
        exact hb ⟨by simpa using hp, h0⟩
      exact ⟨a.n - 1, by have := h.n_pos; omega, Or.inr ⟨hp, rfl, h0, by have := h.n_pos; omega⟩⟩
    · exact ⟨i - 1, by omega, Or.inl ⟨by omega, hi⟩⟩
  obtain ⟨i', hlt, hup⟩ := hi'
  refine ⟨i', hlt, hup, ?_⟩
  -- determine diff at i' from below: it is the unique representative
  unfold Axis.diff at hu ⊢
  by_cases hp : a.periodic = true
  · simp only [hp, if_true] at hu ⊢
    obtain ⟨k, hk⟩ := wrapDiff_congr a.length (a.centre i - c)
    obtain ⟨r1, r2⟩ := wrapDiff_range a.length (a.centre i - c) hL
    rcases hup with ⟨rfl, _⟩ | ⟨_, hin, rfl, _⟩
    · apply wrapDiff_unique a.length _ _ hL k
      · rw [hk, centre_succ]; ring
      · linarith
      · have := h.dx_pos; linarith
    · apply wrapDiff_unique a.length _ _ hL (k + 1)
      · rw [hk]
        have hn : (a.n : ℚ) = (i' : ℚ) + 1 := by
          have : a.n = i' + 1 := by omega
          rw [this]; push_cast; ring
        unfold Axis.centre Axis.length
        rw [hn]; push_cast; ring
      · linarith
      · have := h.dx_pos; linarith
  · have hp' : a.periodic = false := by simpa using hp
    simp only [hp', Bool.false_eq_true, if_false]
    rcases hup with ⟨rfl, _⟩ | ⟨hper, _⟩
    · rw [centre_succ]; ring
    · rw [hp'] at hper; simp at hper

/-- a cell further than half a cell BELOW the centre has an upper neighbour that is closer, unless it is
the last cell of a non-periodic axis -/
theorem step_up (h : Axis.WF a) {i : ℕ} (hi : i < a.n) (hu : a.diff c i < -(a.dx / 2)) :
    (a.periodic = false ∧ i = a.n - 1) ∨
    ∃ i', i' < a.n ∧ Up a i i' ∧ a.diff c i' = a.diff c i + a.dx := by
  have hL := length_pos a h
  have hdl := dx_le_length a h
  by_cases hb : a.periodic = false ∧ i = a.n - 1
  · exact Or.inl hb
  right
  have hi' : ∃ i', i' < a.n ∧ Up a i i' := by
    by_cases hlast : i = a.n - 1
    · have hp : a.periodic = true := by
        by_contra hp
        exact hb ⟨by simpa using hp, hlast⟩
      exact ⟨0, h.n_pos, Or.inr ⟨hp, hlast, rfl, hi⟩⟩
    · exact ⟨i + 1, by omega, Or.inl ⟨rfl, by omega⟩⟩
  obtain ⟨i', hlt, hup⟩ := hi'
  refine ⟨i', hlt, hup, diff_up a c h hup hi ?_⟩
  intro _
  linarith

end axis

/-! ### squared distance as a recursion; changing one coordinate -/

/-- `dist2` of Model/Render.lean, written as a recursion -/
def dist2r : List Axis → List ℚ → List ℕ → ℚ
  | a :: as, c :: cs, i :: is => a.diff c i * a.diff c i + dist2r as cs is
  | _, _, _ => 0

theorem dist2_eq_dist2r : ∀ (axes : List Axis) (c : List ℚ) (idx : List ℕ), dist2 axes c idx = dist2r axes c idx
  | [], _, _ => by simp [dist2, dist2r]
  | _ :: _, [], _ => by simp [dist2, dist2r]
  | _ :: _, _ :: _, [] => by simp [dist2, dist2r]
  | a :: as, c :: cs, i :: is => by
    have ih := dist2_eq_dist2r as cs is
    unfold dist2 at ih ⊢
    simp only [List.zip_cons_cons, List.map_cons, List.sum_cons, dist2r, ih]

instance : Inhabited Axis := ⟨⟨0, 0, 0, false⟩⟩

/-- difference along axis `k` of the cell with multi-index `idx` -/
def diffAt (axes : List Axis) (c : List ℚ) (idx : List ℕ) (k : ℕ) : ℚ :=
  (axes.getD k default).diff (c.getD k 0) (idx.getD k 0)

/-- replacing coordinate `k`: only the `k`-th summand changes -/
theorem dist2r_set : ∀ (axes : List Axis) (c : List ℚ) (idx : List ℕ) (k i' : ℕ),
    k < axes.length → k < c.length → k < idx.length →
    dist2r axes c (idx.set k i') =
      dist2r axes c idx - diffAt axes c idx k * diffAt axes c idx k
        + (axes.getD k default).diff (c.getD k 0) i' * (axes.getD k default).diff (c.getD k 0) i'
  | [], _, _, _, _, h, _, _ => by simp at h
  | _ :: _, [], _, _, _, _, h, _ => by simp at h
  | _ :: _, _ :: _, [], _, _, _, _, h => by simp at h
  | a :: as, c :: cs, i :: is, 0, i', _, _, _ => by
    simp only [List.set_cons_zero, dist2r, diffAt, List.getD_cons_zero]; ring
  | a :: as, c :: cs, i :: is, k + 1, i', h1, h2, h3 => by
    have ih := dist2r_set as cs is k i' (by simpa using h1) (by simpa using h2) (by simpa using h3)
    simp only [List.set_cons_succ, dist2r, diffAt, List.getD_cons_succ] at ih ⊢
    rw [ih]; ring

theorem diffAt_set_same (axes : List Axis) (c : List ℚ) (idx : List ℕ) (k i' : ℕ) (hk : k < idx.length) :
    diffAt axes c (idx.set k i') k = (axes.getD k default).diff (c.getD k 0) i' := by
  unfold diffAt
  have : (idx.set k i').getD k 0 = i' := by
    rw [List.getD_eq_getElem?_getD, List.getElem?_set_self hk]; rfl
  rw [this]

theorem diffAt_set_other (axes : List Axis) (c : List ℚ) (idx : List ℕ) (k j i' : ℕ) (hkj : k ≠ j) :
    diffAt axes c (idx.set k i') j = diffAt axes c idx j := by
  unfold diffAt
  have : (idx.set k i').getD j 0 = idx.getD j 0 := by
    rw [List.getD_eq_getElem?_getD, List.getD_eq_getElem?_getD, List.getElem?_set_ne hkj]
  rw [this]

/-! ### the grid -/

section grid
open DV.Merge DV.GridGeom

variable (axes : List Axis) (ctr : List ℚ)

def shapeOf : List ℕ := axes.map (·.n)
def perOf : List Bool := axes.map (·.periodic)

structure GridWF : Prop where
  wf : ∀ a ∈ axes, Axis.WF a
  len : ctr.length = axes.length

/-- symmetric face adjacency under the grid's topology -/
def Adj (c c' : ℕ) : Prop :=
  ∃ ax, StepUp (shapeOf axes) ax c c' ∨ Across (shapeOf axes) (perOf axes) ax c c' ∨
        StepUp (shapeOf axes) ax c' c ∨ Across (shapeOf axes) (perOf axes) ax c' c

theorem shape_pos (h : GridWF axes ctr) : ∀ n ∈ shapeOf axes, 0 < n := by
  intro n hn
  unfold shapeOf at hn
  obtain ⟨a, ha, rfl⟩ := List.mem_map.mp hn
  exact (h.wf a ha).n_pos

theorem shape_getD {k : ℕ} (hk : k < axes.length) : (shapeOf axes).getD k 1 = (axes.getD k default).n := by
  unfold shapeOf
  rw [List.getD_eq_getElem?_getD, List.getD_eq_getElem?_getD, List.getElem?_map, List.getElem?_eq_getElem hk]
  rfl

theorem per_getD {k : ℕ} (hk : k < axes.length) : (perOf axes).getD k false = (axes.getD k default).periodic := by
  unfold perOf
  rw [List.getD_eq_getElem?_getD, List.getD_eq_getElem?_getD, List.getElem?_map, List.getElem?_eq_getElem hk]
  rfl

theorem axis_wf (h : GridWF axes ctr) {k : ℕ} (hk : k < axes.length) : Axis.WF (axes.getD k default) := by
  rw [List.getD_eq_getElem?_getD, List.getElem?_eq_getElem hk]
  exact h.wf _ (List.getElem_mem hk)

theorem unflat_length (h : GridWF axes ctr) (c : ℕ) : (unflat (shapeOf axes) c).length = axes.length := by
  have := (unflat_valid (shapeOf axes) (shape_pos axes ctr h) c).length
  rw [this]; unfold shapeOf; simp

theorem set_getD_self (l : List ℕ) (k : ℕ) (hk : k < l.length) : l.set k (l.getD k 0) = l := by
  rw [List.getD_eq_getElem?_getD, List.getElem?_eq_getElem hk]
  simp

/-- **moving one coordinate to a face neighbour** gives a cell of the grid, adjacent to the old one, whose
multi-index differs in that coordinate only -/
theorem move (h : GridWF axes ctr) {c : ℕ} (hc : c < numCells (shapeOf axes)) {k : ℕ} (hk : k < axes.length) {i' : ℕ}
    (hup : Up (axes.getD k default) (coordOf (shapeOf axes) c k) i' ∨ Up (axes.getD k default) i' (coordOf (shapeOf axes) c k))
    (hi' : i' < (axes.getD k default).n) :
    setCoord (shapeOf axes) c k i' < numCells (shapeOf axes) ∧
      unflat (shapeOf axes) (setCoord (shapeOf axes) c k i') = (unflat (shapeOf axes) c).set k i' ∧
      Adj axes c (setCoord (shapeOf axes) c k i') := by
  have hpos := shape_pos axes ctr h
  have hsg := shape_getD axes hk
  have hpg := per_getD axes hk
  have hkl : k < (shapeOf axes).length := by unfold shapeOf; simpa using hk
  obtain ⟨s1, s2⟩ := setCoord_spec (shapeOf axes) hpos c k i' (by rw [hsg]; exact hi')
  refine ⟨s1, s2, ?_⟩
  set idx := unflat (shapeOf axes) c with hidx
  have hlen : k < idx.length := by rw [hidx, unflat_length axes ctr h]; exact hk
  have hcoord : coordOf (shapeOf axes) c k = idx.getD k 0 := rfl
  have hcoord' : coordOf (shapeOf axes) (setCoord (shapeOf axes) c k i') k = i' := by
    unfold coordOf; rw [s2]
    rw [List.getD_eq_getElem?_getD, List.getElem?_set_self hlen]; rfl
  have hn : (axes.getD k default).n = (shapeOf axes).getD k 1 := hsg.symm
  rcases hup with hup | hup
  · rcases hup with ⟨e1, e2⟩ | ⟨p1, p2, p3, p4⟩
    · -- one step up inside the box
      refine ⟨k, Or.inl ⟨hc, s1, hkl, ?_, ?_⟩⟩
      · rw [s2, ← e1]
      · rw [← e1, ← hn]; exact e2
    · -- from the last cell across the periodic boundary to the first
      refine ⟨k, Or.inr (Or.inr (Or.inr ⟨s1, hc, hkl, by rw [hpg]; exact p1, ?_, ?_⟩))⟩
      · rw [hcoord', p3]
      · rw [s2, List.set_set, ← hn, ← p2, hcoord, set_getD_self idx k hlen]
  · rcases hup with ⟨e1, e2⟩ | ⟨p1, p2, p3, p4⟩
    · -- the neighbour is one step below inside the box
      refine ⟨k, Or.inr (Or.inr (Or.inl ⟨s1, hc, hkl, ?_, ?_⟩))⟩
      · rw [hcoord', s2, List.set_set, ← e1, hcoord, set_getD_self idx k hlen]
      · rw [hcoord', ← e1, ← hn]; exact e2
    · -- from the first cell across the periodic boundary to the last
      refine ⟨k, Or.inr (Or.inl ⟨hc, s1, hkl, by rw [hpg]; exact p1, p3, ?_⟩)⟩
      · rw [s2, p2, hn]

end grid


/-! ### uniqueness of the nearest cell, descent -/

section axis
variable (a : Axis) (c : ℚ)

/-- the cell is nearest to the centre along this axis (ties broken towards the lower side), or it is the
boundary cell of a non-periodic axis on the side of the centre -/
def Term (i : ℕ) : Prop :=
  (a.diff c i < a.dx / 2 ∨ (a.periodic = false ∧ i = 0)) ∧
  (-(a.dx / 2) ≤ a.diff c i ∨ (a.periodic = false ∧ i = a.n - 1))

theorem diff_nonper (hp : a.periodic = false) (i : ℕ) : a.diff c i = a.centre i - c := by
  unfold Axis.diff; simp [hp]

theorem term_unique_aux (h : Axis.WF a) {i j : ℕ} (hi : i < a.n) (hj : j < a.n) (hij : i < j)
    (ti : Term a c i) (tj : Term a c j) : False := by
  have hdx := h.dx_pos
  by_cases hp : a.periodic = true
  · -- periodic: both differences lie in [-dx/2, dx/2) and differ by (j - i) dx modulo the period
    have hp' : ¬ (a.periodic = false) := by simp [hp]
    obtain ⟨ti1, ti2⟩ := ti
    obtain ⟨tj1, tj2⟩ := tj
    have ui1 : a.diff c i < a.dx / 2 := ti1.resolve_right (fun x => hp' x.1)
    have ui2 : -(a.dx / 2) ≤ a.diff c i := ti2.resolve_right (fun x => hp' x.1)
    have uj1 : a.diff c j < a.dx / 2 := tj1.resolve_right (fun x => hp' x.1)
    have uj2 : -(a.dx / 2) ≤ a.diff c j := tj2.resolve_right (fun x => hp' x.1)
    unfold Axis.diff at ui1 ui2 uj1 uj2
    simp only [hp, if_true] at ui1 ui2 uj1 uj2
    obtain ⟨ki, hki⟩ := wrapDiff_congr a.length (a.centre i - c)
    obtain ⟨kj, hkj⟩ := wrapDiff_congr a.length (a.centre j - c)
    rw [hki] at ui1 ui2
    rw [hkj] at uj1 uj2
    -- t = (j - i) - (kj - ki) n is an integer with |t dx| < dx
    have key : ((j : ℚ) - i - ((kj : ℚ) - ki) * a.n) * a.dx < a.dx ∧
        -a.dx < ((j : ℚ) - i - ((kj : ℚ) - ki) * a.n) * a.dx := by
      unfold Axis.centre Axis.length at *
      constructor <;> nlinarith
    have hz : ((j : ℤ) - i - (kj - ki) * a.n) = 0 := by
      by_contra hne
      rcases lt_or_gt_of_ne hne with hlt | hgt
      · have : (((j : ℤ) - i - (kj - ki) * a.n : ℤ) : ℚ) ≤ -1 := by exact_mod_cast Int.le_sub_one_of_lt hlt
        push_cast at this
        nlinarith [key.2]
      · have : (1 : ℚ) ≤ (((j : ℤ) - i - (kj - ki) * a.n : ℤ) : ℚ) := by exact_mod_cast hgt
        push_cast at this
        nlinarith [key.1]
    -- 0 < j - i < n and n ∣ j - i
    have hdiv : (a.n : ℤ) ∣ ((j : ℤ) - i) := ⟨kj - ki, by linarith⟩
    have hpos : (0 : ℤ) < (j : ℤ) - i := by omega
    have hlt : (j : ℤ) - i < a.n := by omega
    exact absurd (Int.le_of_dvd hpos hdiv) (by omega)
  · have hp' : a.periodic = false := by simpa using hp
    obtain ⟨_, ti2⟩ := ti
    obtain ⟨tj1, _⟩ := tj
    rw [diff_nonper a c hp'] at ti2 tj1
    have e : a.centre j = a.centre i + ((j : ℚ) - i) * a.dx := by unfold Axis.centre; ring
    have hji : (1 : ℚ) ≤ (j : ℚ) - i := by
      have : (i : ℚ) + 1 ≤ j := by exact_mod_cast hij
      linarith
    have ui : -(a.dx / 2) ≤ a.centre i - c := by
      rcases ti2 with h1 | ⟨_, h2⟩
      · exact h1
      · omega
    have uj : a.centre j - c < a.dx / 2 := by
      rcases tj1 with h1 | ⟨_, h2⟩
      · exact h1
      · omega
    rw [e] at uj
    nlinarith

/-- **at most one cell per axis is nearest to the centre** (in the sense of `Term`) -/
theorem term_unique (h : Axis.WF a) {i j : ℕ} (hi : i < a.n) (hj : j < a.n)
    (ti : Term a c i) (tj : Term a c j) : i = j := by
  by_contra hne
  rcases Nat.lt_or_gt_of_ne hne with hlt | hgt
  · exact term_unique_aux a c h hi hj hlt ti tj
  · exact term_unique_aux a c h hj hi hgt tj ti

end axis

/-! ### descent to the nearest cell -/

section descent
open DV.Merge DV.GridGeom Relation

variable (axes : List Axis) (ctr : List ℚ)

/-- squared distance of the flat cell `c` from the centre -/
def D (c : ℕ) : ℚ := dist2r axes ctr (unflat (shapeOf axes) c)

/-- difference of cell `c` along axis `k` -/
def U (c k : ℕ) : ℚ := diffAt axes ctr (unflat (shapeOf axes) c) k

theorem U_eq (c k : ℕ) : U axes ctr c k = (axes.getD k default).diff (ctr.getD k 0) (coordOf (shapeOf axes) c k) := rfl

/-- a face step that does not increase the distance from the centre -/
def Step (a b : ℕ) : Prop :=
  a < numCells (shapeOf axes) ∧ b < numCells (shapeOf axes) ∧ Adj axes a b ∧ D axes ctr b ≤ D axes ctr a

/-- effect of `move` on distance and differences -/
theorem move_D (h : GridWF axes ctr) {c : ℕ} {k : ℕ} (hk : k < axes.length) {i' : ℕ}
    (s2 : unflat (shapeOf axes) (setCoord (shapeOf axes) c k i') = (unflat (shapeOf axes) c).set k i') :
    D axes ctr (setCoord (shapeOf axes) c k i') =
      D axes ctr c - U axes ctr c k * U axes ctr c k
        + (axes.getD k default).diff (ctr.getD k 0) i' * (axes.getD k default).diff (ctr.getD k 0) i' ∧
    U axes ctr (setCoord (shapeOf axes) c k i') k = (axes.getD k default).diff (ctr.getD k 0) i' ∧
    (∀ j, j ≠ k → U axes ctr (setCoord (shapeOf axes) c k i') j = U axes ctr c j ∧
      coordOf (shapeOf axes) (setCoord (shapeOf axes) c k i') j = coordOf (shapeOf axes) c j) ∧
    coordOf (shapeOf axes) (setCoord (shapeOf axes) c k i') k = i' := by
  have hlen : k < (unflat (shapeOf axes) c).length := by rw [unflat_length axes ctr h]; exact hk
  refine ⟨?_, ?_, ?_, ?_⟩
  · unfold D U
    rw [s2, dist2r_set axes ctr _ k i' hk (by rw [h.len]; exact hk) hlen]
  · unfold U; rw [s2, diffAt_set_same _ _ _ _ _ hlen]
  · intro j hj
    constructor
    · unfold U; rw [s2, diffAt_set_other _ _ _ _ _ _ (Ne.symm hj)]
    · unfold coordOf; rw [s2]
      rw [List.getD_eq_getElem?_getD, List.getD_eq_getElem?_getD, List.getElem?_set_ne (Ne.symm hj)]
  · unfold coordOf; rw [s2, List.getD_eq_getElem?_getD, List.getElem?_set_self hlen]; rfl

/-- the cell can move strictly closer along axis `k` -/
def CanMove (c k : ℕ) : Prop :=
  ((axes.getD k default).dx / 2 < U axes ctr c k ∧
      ¬ ((axes.getD k default).periodic = false ∧ coordOf (shapeOf axes) c k = 0)) ∨
  (U axes ctr c k < -((axes.getD k default).dx / 2) ∧
      ¬ ((axes.getD k default).periodic = false ∧ coordOf (shapeOf axes) c k = (axes.getD k default).n - 1))

/-- the cell sits exactly half a cell above the centre and has a lower neighbour (a tie) -/
def Tie (c k : ℕ) : Prop :=
  U axes ctr c k = (axes.getD k default).dx / 2 ∧
      ¬ ((axes.getD k default).periodic = false ∧ coordOf (shapeOf axes) c k = 0)

theorem coord_lt (h : GridWF axes ctr) (c : ℕ) {k : ℕ} (hk : k < axes.length) :
    coordOf (shapeOf axes) c k < (axes.getD k default).n := by
  have := coordOf_lt (shapeOf axes) (shape_pos axes ctr h) c k (by unfold shapeOf; simpa using hk)
  rwa [shape_getD axes hk] at this

theorem strict_step (h : GridWF axes ctr) {c : ℕ} (hc : c < numCells (shapeOf axes)) {k : ℕ} (hk : k < axes.length)
    (hm : CanMove axes ctr c k) :
    ∃ c', Step axes ctr c c' ∧ D axes ctr c' < D axes ctr c := by
  have hwf := axis_wf axes ctr h hk
  have hi := coord_lt axes ctr h c hk
  have hdx := hwf.dx_pos
  rcases hm with ⟨hu, hnb⟩ | ⟨hu, hnb⟩
  · rw [U_eq] at hu
    rcases step_down _ _ hwf hi hu with hb | ⟨i', hi', hup, hd⟩
    · exact absurd hb hnb
    · obtain ⟨s1, s2, s3⟩ := move axes ctr h hc hk (Or.inr hup) hi'
      obtain ⟨m1, _, _, _⟩ := move_D axes ctr h hk s2
      have hlt : D axes ctr (setCoord (shapeOf axes) c k i') < D axes ctr c := by
        rw [m1, hd, U_eq]; nlinarith
      exact ⟨_, ⟨hc, s1, s3, hlt.le⟩, hlt⟩
  · rw [U_eq] at hu
    rcases step_up _ _ hwf hi hu with hb | ⟨i', hi', hup, hd⟩
    · exact absurd hb hnb
    · obtain ⟨s1, s2, s3⟩ := move axes ctr h hc hk (Or.inl hup) hi'
      obtain ⟨m1, _, _, _⟩ := move_D axes ctr h hk s2
      have hlt : D axes ctr (setCoord (shapeOf axes) c k i') < D axes ctr c := by
        rw [m1, hd, U_eq]; nlinarith
      exact ⟨_, ⟨hc, s1, s3, hlt.le⟩, hlt⟩

theorem tie_step (h : GridWF axes ctr) {c : ℕ} (hc : c < numCells (shapeOf axes)) {k : ℕ} (hk : k < axes.length)
    (ht : Tie axes ctr c k) :
    ∃ c', Step axes ctr c c' ∧ U axes ctr c' k = -((axes.getD k default).dx / 2) ∧
      ∀ j, j ≠ k → U axes ctr c' j = U axes ctr c j ∧ coordOf (shapeOf axes) c' j = coordOf (shapeOf axes) c j := by
  have hwf := axis_wf axes ctr h hk
  have hi := coord_lt axes ctr h c hk
  have hdx := hwf.dx_pos
  obtain ⟨hu, hnb⟩ := ht
  -- a tie is the boundary case of `step_down`
  have hL := length_pos _ hwf
  have hdl := dx_le_length _ hwf
  rw [U_eq] at hu
  -- lower neighbour
  have hi' : ∃ i', i' < (axes.getD k default).n ∧ Up (axes.getD k default) i' (coordOf (shapeOf axes) c k) := by
    by_cases h0 : coordOf (shapeOf axes) c k = 0
    · have hp : (axes.getD k default).periodic = true := by
        by_contra hp
        exact hnb ⟨by simpa using hp, h0⟩
      exact ⟨(axes.getD k default).n - 1, by have := hwf.n_pos; omega,
        Or.inr ⟨hp, rfl, h0, by have := hwf.n_pos; omega⟩⟩
    · exact ⟨coordOf (shapeOf axes) c k - 1, by omega, Or.inl ⟨by omega, hi⟩⟩
  obtain ⟨i', hlt, hup⟩ := hi'
  have hd : (axes.getD k default).diff (ctr.getD k 0) (coordOf (shapeOf axes) c k) =
      (axes.getD k default).diff (ctr.getD k 0) i' + (axes.getD k default).dx := by
    -- use `diff_up` from the lower neighbour: its difference is determined by uniqueness, so go the other way:
    -- the lower neighbour's difference is d - dx = -dx/2, which we obtain from `step_up`-style uniqueness
    by_cases hp : (axes.getD k default).periodic = true
    · have : (axes.getD k default).diff (ctr.getD k 0) i' = (axes.getD k default).dx / 2 - (axes.getD k default).dx := by
        unfold Axis.diff at hu ⊢
        simp only [hp, if_true] at hu ⊢
        obtain ⟨q, hq⟩ := wrapDiff_congr (axes.getD k default).length ((axes.getD k default).centre (coordOf (shapeOf axes) c k) - ctr.getD k 0)
        rcases hup with ⟨e1, _⟩ | ⟨_, hin, e0, _⟩
        · apply wrapDiff_unique _ _ _ hL q
          · rw [← hu, hq, e1, centre_succ]; ring
          · linarith
          · linarith
        · apply wrapDiff_unique _ _ _ hL (q + 1)
          · rw [← hu, hq, e0]
            have hn : ((axes.getD k default).n : ℚ) = (i' : ℚ) + 1 := by
              have : (axes.getD k default).n = i' + 1 := by omega
              rw [this]; push_cast; ring
            unfold Axis.centre Axis.length
            rw [hn]; push_cast; ring
          · linarith
          · linarith
      rw [this, hu]; ring
    · have hp' : (axes.getD k default).periodic = false := by simpa using hp
      rw [diff_nonper _ _ hp', diff_nonper _ _ hp']
      rcases hup with ⟨e1, _⟩ | ⟨hper, _⟩
      · rw [e1, centre_succ]; ring
      · rw [hp'] at hper; simp at hper
  obtain ⟨s1, s2, s3⟩ := move axes ctr h hc hk (Or.inr hup) hlt
  obtain ⟨m1, m2, m3, _⟩ := move_D axes ctr h hk s2
  have hval : (axes.getD k default).diff (ctr.getD k 0) i' = -((axes.getD k default).dx / 2) := by
    rw [hu] at hd; linarith
  refine ⟨_, ⟨hc, s1, s3, ?_⟩, ?_, m3⟩
  · rw [m1, U_eq, hu, hval]; apply le_of_eq; ring
  · rw [m2, hval]


/-- non-increasing face paths -/
def Path : ℕ → ℕ → Prop := ReflTransGen (Step axes ctr)

def NoMove (c : ℕ) : Prop := ∀ k, k < axes.length → ¬ CanMove axes ctr c k

open Classical in
theorem phase1 (h : GridWF axes ctr) : ∀ (m c : ℕ), c < numCells (shapeOf axes) →
    ((Finset.range (numCells (shapeOf axes))).filter (fun x => D axes ctr x < D axes ctr c)).card = m →
    ∃ t, Path axes ctr c t ∧ t < numCells (shapeOf axes) ∧ NoMove axes ctr t := by
  intro m
  induction m using Nat.strong_induction_on with
  | _ m ih =>
    intro c hc hm
    by_cases hex : ∃ k, k < axes.length ∧ CanMove axes ctr c k
    · obtain ⟨k, hk, hmv⟩ := hex
      obtain ⟨c', hstep, hlt⟩ := strict_step axes ctr h hc hk hmv
      have hc' := hstep.2.1
      have hcard : ((Finset.range (numCells (shapeOf axes))).filter (fun x => D axes ctr x < D axes ctr c')).card < m := by
        rw [← hm]
        apply Finset.card_lt_card
        rw [Finset.ssubset_iff_of_subset]
        · exact ⟨c', by simp [hc', hlt], by simp⟩
        · intro x hx
          simp only [Finset.mem_filter, Finset.mem_range] at hx ⊢
          exact ⟨hx.1, lt_trans hx.2 hlt⟩
      obtain ⟨t, hp, ht, hn⟩ := ih _ hcard c' hc' rfl
      exact ⟨t, ReflTransGen.head hstep hp, ht, hn⟩
    · exact ⟨c, ReflTransGen.refl, hc, fun k hk hmv => hex ⟨k, hk, hmv⟩⟩

open Classical in
theorem phase2 (h : GridWF axes ctr) : ∀ (m c : ℕ), c < numCells (shapeOf axes) → NoMove axes ctr c →
    ((Finset.range axes.length).filter (fun k => Tie axes ctr c k)).card = m →
    ∃ t, Path axes ctr c t ∧ t < numCells (shapeOf axes) ∧ NoMove axes ctr t ∧
      ∀ k, k < axes.length → ¬ Tie axes ctr t k := by
  intro m
  induction m using Nat.strong_induction_on with
  | _ m ih =>
    intro c hc hnm hm
    by_cases hex : ∃ k, k < axes.length ∧ Tie axes ctr c k
    · obtain ⟨k, hk, htie⟩ := hex
      obtain ⟨c', hstep, hu, hoth⟩ := tie_step axes ctr h hc hk htie
      have hc' := hstep.2.1
      have hdx := (axis_wf axes ctr h hk).dx_pos
      have hnm' : NoMove axes ctr c' := by
        intro j hj hmv
        by_cases hjk : j = k
        · subst hjk
          unfold CanMove at hmv
          rw [hu] at hmv
          rcases hmv with ⟨h1, _⟩ | ⟨h1, _⟩ <;> linarith
        · obtain ⟨e1, e2⟩ := hoth j hjk
          apply hnm j hj
          unfold CanMove at hmv ⊢
          rw [e1, e2] at hmv
          exact hmv
      have hcard : ((Finset.range axes.length).filter (fun j => Tie axes ctr c' j)).card < m := by
        rw [← hm]
        apply Finset.card_lt_card
        rw [Finset.ssubset_iff_of_subset]
        · refine ⟨k, by simp [hk, htie], ?_⟩
          simp only [Finset.mem_filter, Finset.mem_range, not_and]
          intro _ ht'
          unfold Tie at ht'
          rw [hu] at ht'
          linarith [ht'.1]
        · intro j hj
          simp only [Finset.mem_filter, Finset.mem_range] at hj ⊢
          refine ⟨hj.1, ?_⟩
          by_cases hjk : j = k
          · rw [hjk]; exact htie
          · obtain ⟨e1, e2⟩ := hoth j hjk
            have := hj.2
            unfold Tie at this ⊢
            rw [e1, e2] at this
            exact this
      obtain ⟨t, hp, ht, hn, hnt⟩ := ih _ hcard c' hc' hnm' rfl
      exact ⟨t, ReflTransGen.head hstep hp, ht, hn, hnt⟩
    · exact ⟨c, ReflTransGen.refl, hc, hnm, fun k hk ht => hex ⟨k, hk, ht⟩⟩

/-- a cell without moves and ties is nearest to the centre along every axis -/
theorem term_of_nomove {t : ℕ} (hn : NoMove axes ctr t) (hnt : ∀ k, k < axes.length → ¬ Tie axes ctr t k)
    {k : ℕ} (hk : k < axes.length) :
    Term (axes.getD k default) (ctr.getD k 0) (coordOf (shapeOf axes) t k) := by
  have h1 := hn k hk
  have h2 := hnt k hk
  unfold CanMove at h1
  unfold Tie at h2
  rw [U_eq] at h1 h2
  push Not at h1 h2
  obtain ⟨a1, a2⟩ := h1
  unfold Term
  constructor
  · by_cases hb : (axes.getD k default).periodic = false ∧ coordOf (shapeOf axes) t k = 0
    · exact Or.inr hb
    · left
      have hle : (axes.getD k default).diff (ctr.getD k 0) (coordOf (shapeOf axes) t k) ≤ (axes.getD k default).dx / 2 := by
        by_contra hgt
        exact hb (a1 (not_le.mp hgt))
      have hne : (axes.getD k default).diff (ctr.getD k 0) (coordOf (shapeOf axes) t k) ≠ (axes.getD k default).dx / 2 := by
        intro heq
        exact hb (h2 heq)
      exact lt_of_le_of_ne hle hne
  · by_cases hb : (axes.getD k default).periodic = false ∧ coordOf (shapeOf axes) t k = (axes.getD k default).n - 1
    · exact Or.inr hb
    · left
      by_contra hlt
      exact hb (a2 (not_le.mp hlt))

/-- **all descents end in the same cell** -/
theorem terminal_unique (h : GridWF axes ctr) {t1 t2 : ℕ} (h1 : t1 < numCells (shapeOf axes)) (h2 : t2 < numCells (shapeOf axes))
    (n1 : NoMove axes ctr t1) (nt1 : ∀ k, k < axes.length → ¬ Tie axes ctr t1 k)
    (n2 : NoMove axes ctr t2) (nt2 : ∀ k, k < axes.length → ¬ Tie axes ctr t2 k) : t1 = t2 := by
  apply unflat_inj (shapeOf axes) (shape_pos axes ctr h) h1 h2
  have l1 := unflat_length axes ctr h t1
  have l2 := unflat_length axes ctr h t2
  apply List.ext_getElem (by rw [l1, l2])
  intro k hk1 hk2
  have hk : k < axes.length := by rw [← l1]; exact hk1
  have := term_unique _ _ (axis_wf axes ctr h hk) (coord_lt axes ctr h t1 hk) (coord_lt axes ctr h t2 hk)
    (term_of_nomove axes ctr n1 nt1 hk) (term_of_nomove axes ctr n2 nt2 hk)
  unfold coordOf at this
  rwa [List.getD_eq_getElem?_getD, List.getD_eq_getElem?_getD, List.getElem?_eq_getElem hk1,
    List.getElem?_eq_getElem hk2] at this

/-- **Any two cells are joined, through a common cell, by face paths along which the distance from the
centre never increases.** -/
theorem common_descent (h : GridWF axes ctr) {c1 c2 : ℕ} (h1 : c1 < numCells (shapeOf axes)) (h2 : c2 < numCells (shapeOf axes)) :
    ∃ t, t < numCells (shapeOf axes) ∧ Path axes ctr c1 t ∧ Path axes ctr c2 t := by
  obtain ⟨s1, p1, hs1, n1⟩ := phase1 axes ctr h _ c1 h1 rfl
  obtain ⟨t1, q1, ht1, m1, nt1⟩ := phase2 axes ctr h _ s1 hs1 n1 rfl
  obtain ⟨s2, p2, hs2, n2⟩ := phase1 axes ctr h _ c2 h2 rfl
  obtain ⟨t2, q2, ht2, m2, nt2⟩ := phase2 axes ctr h _ s2 hs2 n2 rfl
  have := terminal_unique axes ctr h ht1 ht2 m1 nt1 m2 nt2
  subst this
  exact ⟨t1, ht1, p1.trans q1, p2.trans q2⟩

end descent
end DV.BallConn
