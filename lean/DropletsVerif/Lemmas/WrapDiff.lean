/-
  The periodic difference `wrapDiff` of Model/Render.lean (py-pde's `(x + L/2) % L − L/2`), over ℚ.
-/
import DropletsVerif.Model.Render
import Mathlib.Tactic

namespace DV.WrapDiff
open DV.Render

theorem floor_add_int (x : ℚ) (m : ℤ) : (x + m).floor = x.floor + m := by
  have : ∀ q : ℚ, q.floor = ⌊q⌋ := fun _ => rfl
  rw [this, this, Int.floor_add_intCast]

/-- the periodic difference does not change when the point is moved by whole periods -/
theorem wrapDiff_periodic (L x : ℚ) (hL : L ≠ 0) (m : ℤ) : wrapDiff L (x + m * L) = wrapDiff L x := by
  unfold wrapDiff fmod
  have h1 : (x + m * L + L / 2) / L = (x + L / 2) / L + m := by field_simp; ring
  rw [h1, floor_add_int]
  push_cast
  ring

/-- it is the representative of the difference in `[-L/2, L/2)` -/
theorem wrapDiff_range (L x : ℚ) (hL : 0 < L) : -(L / 2) ≤ wrapDiff L x ∧ wrapDiff L x < L / 2 := by
  unfold wrapDiff fmod
  have hfl : ∀ q : ℚ, q.floor = ⌊q⌋ := fun _ => rfl
  rw [hfl]
  have h1 := Int.floor_le ((x + L / 2) / L)
  have h2 := Int.lt_floor_add_one ((x + L / 2) / L)
  have e : x + L / 2 = (x + L / 2) / L * L := by field_simp
  constructor <;> nlinarith

/-- and differs from the plain difference by a whole number of periods -/
theorem wrapDiff_congr (L x : ℚ) : ∃ k : ℤ, wrapDiff L x = x - k * L := by
  refine ⟨((x + L / 2) / L).floor, ?_⟩
  unfold wrapDiff fmod; ring

/-- uniqueness: a number in `[-L/2, L/2)` that differs from `x` by whole periods IS the periodic difference -/
theorem wrapDiff_unique (L x y : ℚ) (hL : 0 < L) (k : ℤ) (hy : y = x - k * L) (h1 : -(L / 2) ≤ y) (h2 : y < L / 2) :
    wrapDiff L x = y := by
  obtain ⟨k', hk'⟩ := wrapDiff_congr L x
  obtain ⟨r1, r2⟩ := wrapDiff_range L x hL
  rw [hk'] at r1 r2 ⊢
  rw [hy] at h1 h2 ⊢
  -- (k - k') L ∈ (-L, L)  ⇒  k = k'
  have hk : k = k' := by
    by_contra hne
    rcases lt_or_gt_of_ne hne with hlt | hgt
    · have : (k : ℚ) + 1 ≤ k' := by exact_mod_cast hlt
      nlinarith
    · have : (k' : ℚ) + 1 ≤ k := by exact_mod_cast hgt
      nlinarith
  rw [hk]

end DV.WrapDiff
