/-
  Real analysis used by Props/C13.lean (pure Mathlib, nothing generated):
  * orthogonality of sin/cos on [0, 2π] and Parseval for real trigonometric polynomials without constant
    term ⇒ the area enclosed by the polar curve r(φ) = R (1 + Σ_n a_n sin nφ + b_n cos nφ) is
    π R² (1 + Σ (a_n² + b_n²)/2)                                   (`polar_area`);
  * derivatives of such polynomials (`tp_hasDerivAt`, `tp_add_dd`);
  * the signed curvature of the plane curve t ↦ r(t)(cos t, sin t) is the polar formula
    (r² + 2r'² − r r'')/(r² + r'²)^{3/2}                            (`polar_param_curv`);
  * to first order in ε the curvature of r = R(1 + ε u) is (1/R)(1 − ε (u + u'')) — the same first
    order as 1/(R (1 + ε (u + u'')))                                (`polarCurv_first_order`, `codeCurv_first_order`).
-/
import Mathlib.Analysis.SpecialFunctions.Integrals.Basic
import Mathlib.Analysis.SpecialFunctions.Sqrt

namespace DV.Fourier
open Real intervalIntegral

theorem int_cos_int (k : ℤ) (hk : k ≠ 0) : ∫ x in (0:ℝ)..(2*π), cos (k * x) = 0 := by
  have hk' : (k : ℝ) ≠ 0 := by exact_mod_cast hk
  rw [intervalIntegral.integral_comp_mul_left (fun x => cos x) hk']
  simp only [integral_cos, mul_zero, sin_zero, sub_zero, smul_eq_mul]
  have : sin ((k:ℝ) * (2 * π)) = 0 := by
    have := Real.sin_int_mul_pi (2 * k)
    push_cast at this
    rw [← this]; ring_nf
  rw [this, mul_zero]

theorem int_sin_int (k : ℤ) : ∫ x in (0:ℝ)..(2*π), sin (k * x) = 0 := by
  by_cases hk : k = 0
  · simp [hk]
  have hk' : (k : ℝ) ≠ 0 := by exact_mod_cast hk
  rw [intervalIntegral.integral_comp_mul_left (fun x => sin x) hk']
  simp only [integral_sin, mul_zero, cos_zero, smul_eq_mul]
  rw [Real.cos_int_mul_two_pi]; simp

theorem int_cos_zero : ∫ x in (0:ℝ)..(2*π), cos ((0:ℤ) * x) = 2 * π := by simp

theorem int_cos_int' (k : ℤ) : ∫ x in (0:ℝ)..(2*π), cos (k * x) = if k = 0 then 2 * π else 0 := by
  split
  · next h => subst h; simp
  · next h => exact int_cos_int k h

theorem int_sin_sin (m n : ℕ) (hm : 1 ≤ m) (hn : 1 ≤ n) :
    ∫ x in (0:ℝ)..(2*π), sin (m * x) * sin (n * x) = if m = n then π else 0 := by
  have h : ∀ x : ℝ, sin (m * x) * sin (n * x) =
      (cos ((((m:ℤ) - n : ℤ) : ℝ) * x) - cos ((((m:ℤ) + n : ℤ) : ℝ) * x)) / 2 := by
    intro x
    push_cast
    rw [sub_mul, add_mul, cos_sub, cos_add]; ring
  simp_rw [h]
  rw [intervalIntegral.integral_div, intervalIntegral.integral_sub, int_cos_int', int_cos_int']
  · have h2 : ((m:ℤ) + n) ≠ 0 := by omega
    rw [if_neg h2]
    by_cases hmn : m = n
    · subst hmn; simp
    · have : ((m:ℤ) - n) ≠ 0 := by omega
      simp [hmn, this]
  · exact (by fun_prop : Continuous fun x : ℝ => cos ((((m:ℤ) - n : ℤ) : ℝ) * x)).intervalIntegrable _ _
  · exact (by fun_prop : Continuous fun x : ℝ => cos ((((m:ℤ) + n : ℤ) : ℝ) * x)).intervalIntegrable _ _

theorem int_cos_cos (m n : ℕ) (hm : 1 ≤ m) (hn : 1 ≤ n) :
    ∫ x in (0:ℝ)..(2*π), cos (m * x) * cos (n * x) = if m = n then π else 0 := by
  have h : ∀ x : ℝ, cos (m * x) * cos (n * x) =
      (cos ((((m:ℤ) - n : ℤ) : ℝ) * x) + cos ((((m:ℤ) + n : ℤ) : ℝ) * x)) / 2 := by
    intro x
    push_cast
    rw [sub_mul, add_mul, cos_sub, cos_add]; ring
  simp_rw [h]
  rw [intervalIntegral.integral_div, intervalIntegral.integral_add, int_cos_int', int_cos_int']
  · have h2 : ((m:ℤ) + n) ≠ 0 := by omega
    rw [if_neg h2]
    by_cases hmn : m = n
    · subst hmn; simp
    · have : ((m:ℤ) - n) ≠ 0 := by omega
      simp [hmn, this]
  · exact (by fun_prop : Continuous fun x : ℝ => cos ((((m:ℤ) - n : ℤ) : ℝ) * x)).intervalIntegrable _ _
  · exact (by fun_prop : Continuous fun x : ℝ => cos ((((m:ℤ) + n : ℤ) : ℝ) * x)).intervalIntegrable _ _

theorem int_sin_cos (m n : ℕ) :
    ∫ x in (0:ℝ)..(2*π), sin (m * x) * cos (n * x) = 0 := by
  have h : ∀ x : ℝ, sin (m * x) * cos (n * x) =
      (sin ((((m:ℤ) - n : ℤ) : ℝ) * x) + sin ((((m:ℤ) + n : ℤ) : ℝ) * x)) / 2 := by
    intro x
    push_cast
    rw [sub_mul, add_mul, sin_sub, sin_add]; ring
  simp_rw [h]
  rw [intervalIntegral.integral_div, intervalIntegral.integral_add, int_sin_int, int_sin_int]
  · simp
  · exact (by fun_prop : Continuous fun x : ℝ => sin ((((m:ℤ) - n : ℤ) : ℝ) * x)).intervalIntegrable _ _
  · exact (by fun_prop : Continuous fun x : ℝ => sin ((((m:ℤ) + n : ℤ) : ℝ) * x)).intervalIntegrable _ _

theorem int_sin_nat (n : ℕ) : ∫ x in (0:ℝ)..(2*π), sin (n * x) = 0 := by
  have := int_sin_int n; simpa using this

theorem int_cos_nat (n : ℕ) (hn : 1 ≤ n) : ∫ x in (0:ℝ)..(2*π), cos (n * x) = 0 := by
  have := int_cos_int n (by omega); simpa using this


/-! ### trigonometric polynomials -/

noncomputable def tp : List (ℝ × ℝ) → ℕ → ℝ → ℝ
  | [], _, _ => 0
  | p :: ps, s, φ => (p.1 * sin (s * φ) + p.2 * cos (s * φ)) + tp ps (s + 1) φ

/-- weighted variant: mode `n` multiplied by `w n` -/
noncomputable def tpw (w : ℕ → ℝ) : List (ℝ × ℝ) → ℕ → ℝ → ℝ
  | [], _, _ => 0
  | p :: ps, s, φ => w s * (p.1 * sin (s * φ) + p.2 * cos (s * φ)) + tpw w ps (s + 1) φ

/-- coefficients of the derivative -/
def dmap : ℕ → List (ℝ × ℝ) → List (ℝ × ℝ)
  | _, [] => []
  | s, p :: ps => (-(s : ℝ) * p.2, (s : ℝ) * p.1) :: dmap (s + 1) ps


theorem tp_nil (s : ℕ) (φ : ℝ) : tp [] s φ = 0 := rfl
theorem tp_cons (p : ℝ × ℝ) (ps : List (ℝ × ℝ)) (s : ℕ) (φ : ℝ) :
    tp (p :: ps) s φ = (p.1 * sin (s * φ) + p.2 * cos (s * φ)) + tp ps (s + 1) φ := rfl

theorem tp_continuous (ps : List (ℝ × ℝ)) (s : ℕ) : Continuous (tp ps s) := by
  induction ps generalizing s with
  | nil => exact continuous_const
  | cons p ps ih =>
    have := ih (s + 1)
    show Continuous fun φ => tp (p :: ps) s φ
    simp_rw [tp_cons]
    fun_prop

def sqsum (ps : List (ℝ × ℝ)) : ℝ := (ps.map fun p => p.1 ^ 2 + p.2 ^ 2).sum

theorem ii {f : ℝ → ℝ} (h : Continuous f) : IntervalIntegrable f MeasureTheory.volume 0 (2 * π) :=
  h.intervalIntegrable _ _

/-- orthogonality against lower modes, zero mean -/
theorem tp_orth (ps : List (ℝ × ℝ)) : ∀ (s : ℕ), 1 ≤ s →
    (∫ x in (0:ℝ)..(2*π), tp ps s x = 0) ∧
    (∀ m : ℕ, 1 ≤ m → m < s → (∫ x in (0:ℝ)..(2*π), sin (m * x) * tp ps s x = 0) ∧
      (∫ x in (0:ℝ)..(2*π), cos (m * x) * tp ps s x = 0)) := by
  induction ps with
  | nil => intro s _; simp [tp_nil]
  | cons p ps ih =>
    intro s hs
    obtain ⟨ih0, ihm⟩ := ih (s + 1) (by omega)
    have hc := tp_continuous ps (s + 1)
    constructor
    · simp_rw [tp_cons]
      rw [intervalIntegral.integral_add (ii (by fun_prop)) (ii hc),
        intervalIntegral.integral_add (ii (by fun_prop)) (ii (by fun_prop)),
        intervalIntegral.integral_const_mul, intervalIntegral.integral_const_mul,
        int_sin_nat, int_cos_nat s hs, ih0]
      simp
    · intro m hm hms
      obtain ⟨i1, i2⟩ := ihm m hm (by omega)
      constructor
      · have : ∀ x, sin (m * x) * tp (p :: ps) s x =
            (p.1 * (sin (m * x) * sin (s * x)) + p.2 * (sin (m * x) * cos (s * x))) + sin (m * x) * tp ps (s+1) x := by
          intro x; rw [tp_cons]; ring
        simp_rw [this]
        rw [intervalIntegral.integral_add (ii (by fun_prop)) (ii (by fun_prop)),
          intervalIntegral.integral_add (ii (by fun_prop)) (ii (by fun_prop)),
          intervalIntegral.integral_const_mul, intervalIntegral.integral_const_mul,
          int_sin_sin m s hm hs, int_sin_cos, i1, if_neg (by omega)]
        simp
      · have : ∀ x, cos (m * x) * tp (p :: ps) s x =
            (p.1 * (sin (s * x) * cos (m * x)) + p.2 * (cos (m * x) * cos (s * x))) + cos (m * x) * tp ps (s+1) x := by
          intro x; rw [tp_cons]; ring
        simp_rw [this]
        rw [intervalIntegral.integral_add (ii (by fun_prop)) (ii (by fun_prop)),
          intervalIntegral.integral_add (ii (by fun_prop)) (ii (by fun_prop)),
          intervalIntegral.integral_const_mul, intervalIntegral.integral_const_mul,
          int_cos_cos m s hm hs, int_sin_cos, i2, if_neg (by omega)]
        simp

/-- Parseval for real trigonometric polynomials without constant term -/
theorem tp_sq (ps : List (ℝ × ℝ)) : ∀ (s : ℕ), 1 ≤ s →
    ∫ x in (0:ℝ)..(2*π), tp ps s x ^ 2 = π * sqsum ps := by
  induction ps with
  | nil => intro s _; simp [tp_nil, sqsum]
  | cons p ps ih =>
    intro s hs
    have hc := tp_continuous ps (s + 1)
    obtain ⟨_, horth⟩ := tp_orth ps (s + 1) (by omega)
    obtain ⟨o1, o2⟩ := horth s hs (by omega)
    have : ∀ x, tp (p :: ps) s x ^ 2 =
        ((p.1 ^ 2 * (sin (s * x) * sin (s * x)) + p.2 ^ 2 * (cos (s * x) * cos (s * x)))
          + 2 * p.1 * p.2 * (sin (s * x) * cos (s * x)))
        + ((2 * p.1 * (sin (s * x) * tp ps (s+1) x) + 2 * p.2 * (cos (s * x) * tp ps (s+1) x))
          + tp ps (s+1) x ^ 2) := by
      intro x; rw [tp_cons]; ring
    simp_rw [this]
    rw [intervalIntegral.integral_add (ii (by fun_prop)) (ii (by fun_prop)),
      intervalIntegral.integral_add (ii (by fun_prop)) (ii (by fun_prop)),
      intervalIntegral.integral_add (ii (by fun_prop)) (ii (by fun_prop)),
      intervalIntegral.integral_add (ii (by fun_prop)) (ii (by fun_prop)),
      intervalIntegral.integral_add (ii (by fun_prop)) (ii (by fun_prop)),
      intervalIntegral.integral_const_mul, intervalIntegral.integral_const_mul,
      intervalIntegral.integral_const_mul, intervalIntegral.integral_const_mul,
      intervalIntegral.integral_const_mul,
      int_sin_sin s s hs hs, int_cos_cos s s hs hs, int_sin_cos, o1, o2, ih (s + 1) (by omega)]
    simp [sqsum]; ring

/-- area enclosed by the polar curve r(φ) = R (1 + tp φ) -/
theorem polar_area (R : ℝ) (ps : List (ℝ × ℝ)) :
    ∫ x in (0:ℝ)..(2*π), (R * (1 + tp ps 1 x)) ^ 2 / 2 = π * R ^ 2 * (1 + sqsum ps / 2) := by
  have hc := tp_continuous ps 1
  have : ∀ x, (R * (1 + tp ps 1 x)) ^ 2 / 2 = R ^ 2 / 2 * ((1 + 2 * tp ps 1 x) + tp ps 1 x ^ 2) := by
    intro x; ring
  simp_rw [this]
  rw [intervalIntegral.integral_const_mul,
    intervalIntegral.integral_add (ii (by fun_prop)) (ii (by fun_prop)),
    intervalIntegral.integral_add (ii (by fun_prop)) (ii (by fun_prop)),
    intervalIntegral.integral_const_mul, (tp_orth ps 1 le_rfl).1, tp_sq ps 1 le_rfl]
  simp; ring

/-! ### derivatives -/

theorem tp_hasDerivAt (ps : List (ℝ × ℝ)) (s : ℕ) (φ : ℝ) : HasDerivAt (tp ps s) (tp (dmap s ps) s φ) φ := by
  induction ps generalizing s with
  | nil => exact hasDerivAt_const φ 0
  | cons p ps ih =>
    have hs : HasDerivAt (fun t : ℝ => sin (s * t)) (cos (s * φ) * s) φ := by
      have := ((hasDerivAt_id φ).const_mul (s : ℝ)).sin
      simpa using this
    have hc : HasDerivAt (fun t : ℝ => cos (s * t)) (-sin (s * φ) * s) φ := by
      have := ((hasDerivAt_id φ).const_mul (s : ℝ)).cos
      simpa using this
    have := ((hs.const_mul p.1).add (hc.const_mul p.2)).add (ih (s + 1))
    have e : tp (p :: ps) s = ((fun t : ℝ => p.1 * sin (s * t)) + fun t : ℝ => p.2 * cos (s * t)) + tp ps (s + 1) := by
      funext t; simp [tp]
    rw [e]
    refine this.congr_deriv ?_
    simp only [dmap, tp]; ring

theorem tp_dd (ps : List (ℝ × ℝ)) (s : ℕ) (φ : ℝ) :
    tp (dmap s (dmap s ps)) s φ = tpw (fun n => -((n : ℝ) * n)) ps s φ := by
  induction ps generalizing s with
  | nil => rfl
  | cons p ps ih => simp only [dmap, tp, tpw, ih]; ring

theorem tp_add_dd (ps : List (ℝ × ℝ)) (s : ℕ) (φ : ℝ) :
    tp ps s φ + tp (dmap s (dmap s ps)) s φ = -tpw (fun n => (n : ℝ) * n - 1) ps s φ := by
  rw [tp_dd]
  induction ps generalizing s with
  | nil => simp [tp, tpw]
  | cons p ps ih =>
    simp only [tp, tpw]
    have := ih (s + 1)
    linarith [this]

theorem tp_smul (c : ℝ) (ps : List (ℝ × ℝ)) (s : ℕ) (φ : ℝ) :
    tp (ps.map fun p => (c * p.1, c * p.2)) s φ = c * tp ps s φ := by
  induction ps generalizing s with
  | nil => simp [tp]
  | cons p ps ih => simp only [List.map_cons, tp, ih]; ring

theorem tpw_smul (w : ℕ → ℝ) (c : ℝ) (ps : List (ℝ × ℝ)) (s : ℕ) (φ : ℝ) :
    tpw w (ps.map fun p => (c * p.1, c * p.2)) s φ = c * tpw w ps s φ := by
  induction ps generalizing s with
  | nil => simp [tpw]
  | cons p ps ih => simp only [List.map_cons, tpw, ih]; ring

/-! ### curvature -/

/-- quadratic polynomial derivative at 0 -/
theorem quad_deriv (a b c : ℝ) : HasDerivAt (fun ε : ℝ => a + b * ε + c * ε ^ 2) b 0 := by
  have h1 : HasDerivAt (fun ε : ℝ => b * ε) b 0 := by simpa using (hasDerivAt_id (0:ℝ)).const_mul b
  have h2 : HasDerivAt (fun ε : ℝ => c * ε ^ 2) 0 0 := by
    simpa using (hasDerivAt_pow 2 (0:ℝ)).const_mul c
  have h := ((hasDerivAt_const (0:ℝ) a).add h1).add h2
  have e : (fun ε : ℝ => a + b * ε + c * ε ^ 2) = ((fun _ => a) + fun ε => b * ε) + fun ε => c * ε ^ 2 := by
    funext ε; simp
  rw [e]; exact h.congr_deriv (by ring)

/-- exact curvature of the polar curve with radius r, r' = r1, r'' = r2 -/
noncomputable def polarCurv (r r1 r2 : ℝ) : ℝ :=
  (r ^ 2 + 2 * r1 ^ 2 - r * r2) / ((r ^ 2 + r1 ^ 2) * Real.sqrt (r ^ 2 + r1 ^ 2))

theorem polarCurv_first_order (R u u1 u2 : ℝ) (hR : 0 < R) :
    HasDerivAt (fun ε : ℝ => polarCurv (R * (1 + ε * u)) (R * (ε * u1)) (R * (ε * u2))) (-(u + u2) / R) 0 := by
  set N : ℝ → ℝ := fun ε => (R * (1 + ε * u)) ^ 2 + 2 * (R * (ε * u1)) ^ 2 - (R * (1 + ε * u)) * (R * (ε * u2)) with hNdef
  set g : ℝ → ℝ := fun ε => (R * (1 + ε * u)) ^ 2 + (R * (ε * u1)) ^ 2 with hgdef
  have hN : HasDerivAt N (R ^ 2 * (2 * u - u2)) 0 := by
    have := quad_deriv (R ^ 2) (R ^ 2 * (2 * u - u2)) (R ^ 2 * (u ^ 2 + 2 * u1 ^ 2 - u * u2))
    have e : N = fun ε => R ^ 2 + R ^ 2 * (2 * u - u2) * ε + R ^ 2 * (u ^ 2 + 2 * u1 ^ 2 - u * u2) * ε ^ 2 := by
      funext ε; simp only [hNdef]; ring
    rw [e]; exact this
  have hg : HasDerivAt g (R ^ 2 * (2 * u)) 0 := by
    have := quad_deriv (R ^ 2) (R ^ 2 * (2 * u)) (R ^ 2 * (u ^ 2 + u1 ^ 2))
    have e : g = fun ε => R ^ 2 + R ^ 2 * (2 * u) * ε + R ^ 2 * (u ^ 2 + u1 ^ 2) * ε ^ 2 := by
      funext ε; simp only [hgdef]; ring
    rw [e]; exact this
  have hg0 : g 0 = R ^ 2 := by simp only [hgdef]; ring
  have hN0 : N 0 = R ^ 2 := by simp only [hNdef]; ring
  have hgne : g 0 ≠ 0 := by rw [hg0]; positivity
  have hs : HasDerivAt (fun ε => Real.sqrt (g ε)) (R ^ 2 * (2 * u) / (2 * Real.sqrt (g 0))) 0 := hg.sqrt hgne
  have hD : HasDerivAt (fun ε => g ε * Real.sqrt (g ε))
      (R ^ 2 * (2 * u) * Real.sqrt (g 0) + g 0 * (R ^ 2 * (2 * u) / (2 * Real.sqrt (g 0)))) 0 := hg.mul hs
  have hDne : g 0 * Real.sqrt (g 0) ≠ 0 := by
    rw [hg0, Real.sqrt_sq hR.le]; positivity
  have key : HasDerivAt (fun ε => N ε / (g ε * Real.sqrt (g ε)))
      ((R ^ 2 * (2 * u - u2) * (g 0 * Real.sqrt (g 0)) -
        N 0 * (R ^ 2 * (2 * u) * Real.sqrt (g 0) + g 0 * (R ^ 2 * (2 * u) / (2 * Real.sqrt (g 0))))) /
        (g 0 * Real.sqrt (g 0)) ^ 2) 0 := hN.div hD hDne
  have e : (fun ε : ℝ => polarCurv (R * (1 + ε * u)) (R * (ε * u1)) (R * (ε * u2))) =
      fun ε => N ε / (g ε * Real.sqrt (g ε)) := by
    funext ε; simp only [polarCurv, hNdef, hgdef]
  rw [e]
  refine key.congr_deriv ?_
  rw [hg0, hN0, Real.sqrt_sq hR.le]
  field_simp
  ring

/-- the linearised curvature of the code, as a function of the amplitude scale -/
theorem codeCurv_first_order (R u u2 : ℝ) (hR : 0 < R) :
    HasDerivAt (fun ε : ℝ => 1 / (R * (1 + ε * (u + u2)))) (-(u + u2) / R) 0 := by
  set h : ℝ → ℝ := fun ε => R * (1 + ε * (u + u2)) with hdef
  have hh : HasDerivAt h (R * (u + u2)) 0 := by
    have := quad_deriv R (R * (u + u2)) 0
    have e : h = fun ε => R + R * (u + u2) * ε + 0 * ε ^ 2 := by funext ε; simp only [hdef]; ring
    rw [e]; exact this
  have h0 : h 0 = R := by simp only [hdef]; ring
  have hne : h 0 ≠ 0 := by rw [h0]; exact hR.ne'
  have key : HasDerivAt (fun ε => (1:ℝ) / h ε) ((0 * h 0 - 1 * (R * (u + u2))) / h 0 ^ 2) 0 :=
    (hasDerivAt_const (0:ℝ) (1:ℝ)).div hh hne
  refine key.congr_deriv ?_
  rw [h0]
  field_simp
  ring

/-- signed curvature of a C² plane curve from its first and second derivatives -/
noncomputable def paramCurv (x1 y1 x2 y2 : ℝ) : ℝ :=
  (x1 * y2 - y1 * x2) / ((x1 ^ 2 + y1 ^ 2) * Real.sqrt (x1 ^ 2 + y1 ^ 2))

/-- the curve `t ↦ r t · (cos t, sin t)`: its derivatives, and its curvature is the polar formula -/
theorem polar_param_curv (r r1 r2 : ℝ → ℝ) (h1 : ∀ t, HasDerivAt r (r1 t) t) (h2 : ∀ t, HasDerivAt r1 (r2 t) t) (φ : ℝ) :
    let x := fun t => r t * cos t
    let y := fun t => r t * sin t
    let x1 := fun t => r1 t * cos t - r t * sin t
    let y1 := fun t => r1 t * sin t + r t * cos t
    let x2 := r2 φ * cos φ - 2 * r1 φ * sin φ - r φ * cos φ
    let y2 := r2 φ * sin φ + 2 * r1 φ * cos φ - r φ * sin φ
    (∀ t, HasDerivAt x (x1 t) t) ∧ (∀ t, HasDerivAt y (y1 t) t) ∧
    HasDerivAt x1 x2 φ ∧ HasDerivAt y1 y2 φ ∧
    paramCurv (x1 φ) (y1 φ) x2 y2 = polarCurv (r φ) (r1 φ) (r2 φ) := by
  intro x y x1 y1 x2 y2
  have hx : ∀ t, HasDerivAt x (x1 t) t := by
    intro t
    have := (h1 t).mul (hasDerivAt_cos t)
    refine this.congr_deriv ?_
    simp only [x1]; try ring
  have hy : ∀ t, HasDerivAt y (y1 t) t := by
    intro t
    have := (h1 t).mul (hasDerivAt_sin t)
    refine this.congr_deriv ?_
    simp only [y1]; try ring
  have hx1 : HasDerivAt x1 x2 φ := by
    have := ((h2 φ).mul (hasDerivAt_cos φ)).sub ((h1 φ).mul (hasDerivAt_sin φ))
    refine this.congr_deriv ?_
    simp only [x2]; try ring
  have hy1 : HasDerivAt y1 y2 φ := by
    have := ((h2 φ).mul (hasDerivAt_sin φ)).add ((h1 φ).mul (hasDerivAt_cos φ))
    refine this.congr_deriv ?_
    simp only [y2]; try ring
  refine ⟨hx, hy, hx1, hy1, ?_⟩
  have hsc := Real.sin_sq_add_cos_sq φ
  have e1 : x1 φ ^ 2 + y1 φ ^ 2 = r φ ^ 2 + r1 φ ^ 2 := by
    simp only [x1, y1]
    have : (r1 φ * cos φ - r φ * sin φ) ^ 2 + (r1 φ * sin φ + r φ * cos φ) ^ 2 =
        (r φ ^ 2 + r1 φ ^ 2) * (sin φ ^ 2 + cos φ ^ 2) := by ring
    rw [this, hsc, mul_one]
  have e2 : x1 φ * y2 - y1 φ * x2 = r φ ^ 2 + 2 * r1 φ ^ 2 - r φ * r2 φ := by
    simp only [x1, y1, x2, y2]
    have : (r1 φ * cos φ - r φ * sin φ) * (r2 φ * sin φ + 2 * r1 φ * cos φ - r φ * sin φ) -
        (r1 φ * sin φ + r φ * cos φ) * (r2 φ * cos φ - 2 * r1 φ * sin φ - r φ * cos φ) =
        (r φ ^ 2 + 2 * r1 φ ^ 2 - r φ * r2 φ) * (sin φ ^ 2 + cos φ ^ 2) := by ring
    rw [this, hsc, mul_one]
  unfold paramCurv polarCurv
  rw [e1, e2]

end DV.Fourier
