/-
  Real analysis used by Props/C13.lean (pure Mathlib, nothing generated):
  * orthogonality of sin/cos on [0, 2π] and Parseval for real trigonometric polynomials without constant
    term ⇒ the area enclosed by the polar curve r(φ) = R (1 + Σ_n a_n sin nφ + b_n cos nφ) is
    π R² (1 + Σ (a_n² + b_n²)/2)                                   (`polar_area`);
  * derivatives of such polynomials (`tp_hasDerivAt`, `tp_add_dd`);
  * the signed curvature of the plane curve t ↦ r(t)(cos t, sin t) is the polar formula
    (r² + 2r'² − r r'')/(r² + r'²)^{3/2}                            (`polar_param_curv`);
  * to first order in ε the curvature of r = R(1 + ε u) is (1/R)(1 − ε (u + u'')) — the same first
    order as 1/(R (1 + ε (u + u'')))                                (`polarCurv_first_order`, `codeCurv_first_order`).
-/
import Mathlib.Analysis.SpecialFunctions.Integrals.Basic
import Mathlib.Analysis.SpecialFunctions.Sqrt

namespace DV.Fourier
open Real intervalIntegral

theorem int_cos_int (k : ℤ) (hk : k ≠ 0) : ∫ x in (0:ℝ)..(2*π), cos (k * x) = 0 := by
  have hk' : (k : ℝ) ≠ 0 := by exact_mod_cast hk
  rw [intervalIntegral.integral_comp_mul_left (fun x => cos x) hk']
  simp only [integral_cos, mul_zero, sin_zero, sub_zero, smul_eq_mul]
  have : sin ((k:ℝ) * (2 * π)) = 0 := by
    have := Real.sin_int_mul_pi (2 * k)
    push_cast at this
    rw [← this]; ring_nf
  rw [this, mul_zero]

theorem int_sin_int (k : ℤ) : ∫ x in (0:ℝ)..(2*π), sin (k * x) = 0 := by
  by_cases hk : k = 0
  · simp [hk]
  have hk' : (k : ℝ) ≠ 0 := by exact_mod_cast hk
  rw [intervalIntegral.integral_comp_mul_left (fun x => sin x) hk']
  simp only [integral_sin, mul_zero, cos_zero, smul_eq_mul]
  rw [Real.cos_int_mul_two_pi]; simp

theorem int_cos_zero : ∫ x in (0:ℝ)..(2*π), cos ((0:ℤ) * x) = 2 * π := by simp

theorem int_cos_int' (k : ℤ) : ∫ x in (0:ℝ)..(2*π), cos (k * x) = if k = 0 then 2 * π else 0 := by
  split
  · next h => subst h; simp
  · next h => exact int_cos_int k h

theorem int_sin_sin (m n : ℕ) (hm : 1 ≤ m) (hn : 1 ≤ n) :
    ∫ x in (0:ℝ)..(2*π), sin (m * x) * sin (n * x) = if m = n then π else 0 := by
  have h : ∀ x : ℝ, sin (m * x) * sin (n * x) =
      (cos ((((m:ℤ) - n : ℤ) : ℝ) * x) - cos ((((m:ℤ) + n : ℤ) : ℝ) * x)) / 2 := by
    intro x
    push_cast
    rw [sub_mul, add_mul, cos_sub, cos_add]; ring
  simp_rw [h]
  rw [intervalIntegral.integral_div, intervalIntegral.integral_sub, int_cos_int', int_cos_int']
  · have h2 : ((m:ℤ) + n) ≠ 0 := by omega
    rw [if_neg h2]
    by_cases hmn : m = n
    · subst hmn; simp
    · have : ((m:ℤ) - n) ≠ 0 := by omega
      simp [hmn, this]
  · exact (by fun_prop : Continuous fun x : ℝ => cos ((((m:ℤ) - n : ℤ) : ℝ) * x)).intervalIntegrable _ _
  · exact (by fun_prop : Continuous fun x : ℝ => cos ((((m:ℤ) + n : ℤ) : ℝ) * x)).intervalIntegrable _ _

theorem int_cos_cos (m n : ℕ) (hm : 1 ≤ m) (hn : 1 ≤ n) :
    ∫ x in (0:ℝ)..(2*π), cos (m * x) * cos (n * x) = if m = n then π else 0 := by
  have h : ∀ x : ℝ, cos (m * x) * cos (n * x) =
      (cos ((((m:ℤ) - n : ℤ) : ℝ) * x) + cos ((((m:ℤ) + n : ℤ) : ℝ) * x)) / 2 := by
    intro x
    push_cast
    rw [sub_mul, add_mul, cos_sub, cos_add]; ring
  simp_rw [h]
  rw [intervalIntegral.integral_div, intervalIntegral.integral_add, int_cos_int', int_cos_int']
  · have h2 : ((m:ℤ) + n) ≠ 0 := by omega
    rw [if_neg h2]
    by_cases hmn : m = n
    · subst hmn; simp
    · have : ((m:ℤ) - n) ≠ 0 := by omega
      simp [hmn, this]
  · exact (by fun_prop : Continuous fun x : ℝ => cos ((((m:ℤ) - n : ℤ) : ℝ) * x)).intervalIntegrable _ _
  · exact (by fun_prop : Continuous fun x : ℝ => cos ((((m:ℤ) + n : ℤ) : ℝ) * x)).intervalIntegrable _ _

theorem int_sin_cos (m n : ℕ) :
    ∫ x in (0:ℝ)..(2*π), sin (m * x) * cos (n * x) = 0 := by
  have h : ∀ x : ℝ, sin (m * x) * cos (n * x) =
      (sin ((((m:ℤ) - n : ℤ) : ℝ) * x) + sin ((((m:ℤ) + n : ℤ) : ℝ) * x)) / 2 := by
    intro x
    push_cast
    rw [sub_mul, add_mul, sin_sub, sin_add]; ring
  simp_rw [h]
  rw [intervalIntegral.integral_div, intervalIntegral.integral_add, int_sin_int, int_sin_int]
  · simp
  · exact (by fun_prop : Continuous fun x : ℝ => sin ((((m:ℤ) - n : ℤ) : ℝ) * x)).intervalIntegrable _ _
  · exact (by fun_prop : Continuous fun x : ℝ => sin ((((m:ℤ) + n : ℤ) : ℝ) * x)).intervalIntegrable _ _

theorem int_sin_nat (n : ℕ) : ∫ x in (0:ℝ)..(2*π), sin (n * x) = 0 := by
  have := int_sin_int n; simpa using this

theorem int_cos_nat (n : ℕ) (hn : 1 ≤ n) : ∫ x in (0:ℝ)..(2*π), cos (n * x) = 0 := by
  have := int_cos_int n (by omega); simpa using this


/-! ### trigonometric polynomials -/

noncomputable def tp : List (ℝ × ℝ) → ℕ → ℝ → ℝ
  | [], _, _ => 0
  | p :: ps, s, φ => (p.1 * sin (s * φ) + p.2 * cos (s * φ)) + tp ps (s + 1) φ

/-- weighted variant: mode `n` multiplied by `w n` -/
noncomputable def tpw (w : ℕ → ℝ) : List (ℝ × ℝ) → ℕ → ℝ → ℝ
  | [], _, _ => 0
  | p :: ps, s, φ => w s * (p.1 * sin (s * φ) + p.2 * cos (s * φ)) + tpw w ps (s + 1) φ

/-- coefficients of the derivative -/
def dmap : ℕ → List (ℝ × ℝ) → List (ℝ × ℝ)
  | _, [] => []
  | s, p :: ps => (-(s : ℝ) * p.2, (s : ℝ) * p.1) :: dmap (s + 1) ps


theorem tp_nil (s : ℕ) (φ : ℝ) : tp [] s φ = 0 := rfl
theorem tp_cons (p : ℝ × ℝ) (ps : List (ℝ × ℝ)) (s : ℕ) (φ : ℝ) :
    tp (p :: ps) s φ = (p.1 * sin (s * φ) + p.2 * cos (s * φ)) + tp ps (s + 1) φ := rfl

theorem tp_continuous (ps : List (ℝ × ℝ)) (s : ℕ) : Continuous (tp ps s) := by
  induction ps generalizing s with
  | nil => exact continuous_const
  | cons p ps ih =>
    have := ih (s + 1)
    show Continuous fun φ => tp (p :: ps) s φ
    simp_rw [tp_cons]
    fun_prop

def sqsum (ps : List (ℝ × ℝ)) : ℝ := (ps.map fun p => p.1 ^ 2 + p.2 ^ 2).sum

theorem ii {f : ℝ → ℝ} (h : Continuous f) : IntervalIntegrable f MeasureTheory.volume 0 (2 * π) :=
  h.intervalIntegrable _ _

/-- orthogonality against lower modes, zero mean -/
theorem tp_orth (ps : List (ℝ × ℝ)) : ∀ (s : ℕ), 1 ≤ s →
    (∫ x in (0:ℝ)..(2*π), tp ps s x = 0) ∧
    (∀ m : ℕ, 1 ≤ m → m < s → (∫ x in (0:ℝ)..(2*π), sin (m * x) * tp ps s x = 0) ∧
      (∫ x in (0:ℝ)..(2*π), cos (m * x) * tp ps s x = 0)) := by
  induction ps with
  | nil => intro s _; simp [tp_nil]
  | cons p ps ih =>
    intro s hs
    obtain ⟨ih0, ihm⟩ := ih (s + 1) (by omega)
    have hc := tp_continuous ps (s + 1)
    constructor
    · simp_rw [tp_cons]
      rw [intervalIntegral.integral_add (ii (by fun_prop)) (ii hc),
        intervalIntegral.integral_add (ii (by fun_prop)) (ii (by fun_prop)),
        intervalIntegral.integral_const_mul, intervalIntegral.integral_const_mul,
        int_sin_nat, int_cos_nat s hs, ih0]
      simp
    · intro m hm hms
      obtain ⟨i1, i2⟩ := ihm m hm (by omega)
      constructor
      · have : ∀ x, sin (m * x) * tp (p :: ps) s x =
            (p.1 * (sin (m * x) * sin (s * x)) + p.2 * (sin (m * x) * cos (s * x))) + sin (m * x) * tp ps (s+1) x := by
          intro x; rw [tp_cons]; ring
        simp_rw [this]
        rw [intervalIntegral.integral_add (ii (by fun_prop)) (ii (by fun_prop)),
          intervalIntegral.integral_add (ii (by fun_prop)) (ii (by fun_prop)),
          intervalIntegral.integral_const_mul, intervalIntegral.integral_const_mul,
          int_sin_sin m s hm hs, int_sin_cos, i1, if_neg (by omega)]
        simp
      · have : ∀ x, cos (m * x) * tp (p :: ps) s x =
            (p.1 * (sin (s * x) * cos (m * x)) + p.2 * (cos (m * x) * cos (s * x))) + cos (m * x) * tp ps (s+1) x := by
          intro x; rw [tp_cons]; ring
        simp_rw [this]
        rw [intervalIntegral.integral_add (ii (by fun_prop)) (ii (by fun_prop)),
          intervalIntegral.integral_add (ii (by fun_prop)) (ii (by fun_prop)),
          intervalIntegral.integral_const_mul, intervalIntegral.integral_const_mul,
          int_cos_cos m s hm hs, int_sin_cos, i2, if_neg (by omega)]
        simp

/-- Parseval for real trigonometric polynomials without constant term -/
theorem tp_sq (ps : List (ℝ × ℝ)) : ∀ (s : ℕ), 1 ≤ s →
    ∫ x in (0:ℝ)..(2*π), tp ps s x ^ 2 = π * sqsum ps := by
  induction ps with
  | nil => intro s _; simp [tp_nil, sqsum]
  | cons p ps ih =>
    intro s hs
    have hc := tp_continuous ps (s + 1)
    obtain ⟨_, horth⟩ := tp_orth ps (s + 1) (by omega)
    obtain ⟨o1, o2⟩ := horth s hs (by omega)
    have : ∀ x, tp (p :: ps) s x ^ 2 =
        ((p.1 ^ 2 * (sin (s * x) * sin (s * x)) + p.2 ^ 2 * (cos (s * x) * cos (s * x)))
          + 2 * p.1 * p.2 * (sin (s * x) * cos (s * x)))
        + ((2 * p.1 * (sin (s * x) * tp ps (s+1) x) + 2 * p.2 * (cos (s * x) * tp ps (s+1) x))
          + tp ps (s+1) x ^ 2) := by
      intro x; rw [tp_cons]; ring
    simp_rw [this]
    rw [intervalIntegral.integral_add (ii (by fun_prop)) (ii (by fun_prop)),
      intervalIntegral.integral_add (ii (by fun_prop)) (ii (by fun_prop)),
      intervalIntegral.integral_add (ii (by fun_prop)) (ii (by fun_prop)),
      intervalIntegral.integral_add (ii (by fun_prop)) (ii (by fun_prop)),
      intervalIntegral.integral_add (ii (by fun_prop)) (ii (by fun_prop)),
      intervalIntegral.integral_const_mul, intervalIntegral.integral_const_mul,
      intervalIntegral.integral_const_mul, intervalIntegral.integral_const_mul,
      intervalIntegral.integral_const_mul,
      int_sin_sin s s hs hs, int_cos_cos s s hs hs, int_sin_cos, o1, o2, ih (s + 1) (by omega)]
    simp [sqsum]; ring

/-- area enclosed by the polar curve r(φ) = R (1 + tp φ) -/
theorem polar_area (R : ℝ) (ps : List (ℝ × ℝ)) :
    ∫ x in (0:ℝ)..(2*π), (R * (1 + tp ps 1 x)) ^ 2 / 2 = π * R ^ 2 * (1 + sqsum ps / 2) := by
  have hc := tp_continuous ps 1
  have : ∀ x, (R * (1 + tp ps 1 x)) ^ 2 / 2 = R ^ 2 / 2 * ((1 + 2 * tp ps 1 x) + tp ps 1 x ^ 2) := by
    intro x; ring
  simp_rw [this]
  rw [intervalIntegral.integral_const_mul,
    intervalIntegral.integral_add (ii (by fun_prop)) (ii (by fun_prop)),
    intervalIntegral.integral_add (ii (by fun_prop)) (ii (by fun_prop)),
    intervalIntegral.integral_const_mul, (tp_orth ps 1 le_rfl).1, tp_sq ps 1 le_rfl]
  simp; ring

/-! ### derivatives -/

theorem tp_hasDerivAt (ps : List (ℝ × ℝ)) (s : ℕ) (φ : ℝ) : HasDerivAt (tp ps s) (tp (dmap s ps) s φ) φ := by
  induction ps generalizing s with
  | nil => exact hasDerivAt_const φ 0
  | cons p ps ih =>
    have hs : HasDerivAt (fun t : ℝ => sin (s * t)) (cos (s * φ) * s) φ := by
      have := ((hasDerivAt_id φ).const_mul (s : ℝ)).sin
      simpa using this
    have hc : HasDerivAt (fun t : ℝ => cos (s * t)) (-sin (s * φ) * s) φ := by
      have := ((hasDerivAt_id φ).const_mul (s : ℝ)).cos
      simpa using this
    have := ((hs.const_mul p.1).add (hc.const_mul p.2)).add (ih (s + 1))
    have e : tp (p :: ps) s = ((fun t : ℝ => p.1 * sin (s * t)) + fun t : ℝ => p.2 * cos (s * t)) + tp ps (s + 1) := by
      funext t; simp [tp]
    rw [e]
    refine this.congr_deriv ?_
    simp only [dmap, tp]; ring

theorem tp_dd (ps : List (ℝ × ℝ)) (s : ℕ) (φ : ℝ) :
    tp (dmap s (dmap s ps)) s φ = tpw (fun n => -((n : ℝ) * n)) ps s φ := by
  induction ps generalizing s with
  | nil => rfl
  | cons p ps ih => simp only [dmap, tp, tpw, ih]; ring

theorem tp_add_dd (ps : List (ℝ × ℝ)) (s : ℕ) (φ : ℝ) :
    tp ps s φ + tp (dmap s (dmap s ps)) s φ = -tpw (fun n => (n : ℝ) * n - 1) ps s φ := by
  rw [tp_dd]
  induction ps generalizing s with
  | nil => simp [tp, tpw]
  | cons p ps ih =>
    simp only [tp, tpw]
    have := ih (s + 1)
    linarith [this]

theorem tp_smul (c : ℝ) (ps : List (ℝ × ℝ)) (s : ℕ) (φ : ℝ) :
    tp (ps.map fun p => (c * p.1, c * p.2)) s φ = c * tp ps s φ := by
  induction ps generalizing s with
  | nil => simp [tp]
  | cons p ps ih => simp only [List.map_cons, tp, ih]; ring

theorem tpw_smul (w : ℕ → ℝ) (c : ℝ) (ps : List (ℝ × ℝ)) (s : ℕ) (φ : ℝ) :
    tpw w (ps.map fun p => (c * p.1, c * p.2)) s φ = c * tpw w ps s φ := by
  induction ps generalizing s with
  | nil => simp [tpw]
  | cons p ps ih => simp only [List.map_cons, tpw, ih]; ring

/-! ### curvature -/

/-- quadratic polynomial derivative at 0 -/
theorem quad_deriv (a b c : ℝ) : HasDerivAt (fun ε : ℝ => a + b * ε + c * ε ^ 2) b 0 := by
  have h1 : HasDerivAt (fun ε : ℝ => b * ε) b 0 := by simpa using (hasDerivAt_id (0:ℝ)).const_mul b
  have h2 : HasDerivAt (fun ε : ℝ => c * ε ^ 2) 0 0 := by
    simpa using (hasDerivAt_pow 2 (0:ℝ)).const_mul c
  have h := ((hasDerivAt_const (0:ℝ) a).add h1).add h2
  have e : (fun ε : ℝ => a + b * ε + c * ε ^ 2) = ((fun _ => a) + fun ε => b * ε) + fun ε => c * ε ^ 2 := by
    funext ε; simp
  rw [e]; exact h.congr_deriv (by ring)

/-- exact curvature of the polar curve with radius r, r' = r1, r'' = r2 -/
noncomputable def polarCurv (r r1 r2 : ℝ) : ℝ :=
  (r ^ 2 + 2 * r1 ^ 2 - r * r2) / ((r ^ 2 + r1 ^ 2) * Real.sqrt (r ^ 2 + r1 ^ 2))

theorem polarCurv_first_order (R u u1 u2 : ℝ) (hR : 0 < R) :
    HasDerivAt (fun ε : ℝ => polarCurv (R * (1 + ε * u)) (R * (ε * u1)) (R * (ε * u2))) (-(u + u2) / R) 0 := by
  set N : ℝ → ℝ := fun ε => (R * (1 + ε * u)) ^ 2 + 2 * (R * (ε * u1)) ^ 2 - (R * (1 + ε * u)) * (R * (ε * u2)) with hNdef
  set g : ℝ → ℝ := fun ε => (R * (1 + ε * u)) ^ 2 + (R * (ε * u1)) ^ 2 with hgdef
  have hN : HasDerivAt N (R ^ 2 * (2 * u - u2)) 0 := by
    have := quad_deriv (R ^ 2) (R ^ 2 * (2 * u - u2)) (R ^ 2 * (u ^ 2 + 2 * u1 ^ 2 - u * u2))
    have e : N = fun ε => R ^ 2 + R ^ 2 * (2 * u - u2) * ε + R ^ 2 * (u ^ 2 + 2 * u1 ^ 2 - u * u2) * ε ^ 2 := by
      funext ε; simp only [hNdef]; ring
    rw [e]; exact this
  have hg : HasDerivAt g (R ^ 2 * (2 * u)) 0 := by
    have := quad_deriv (R ^ 2) (R ^ 2 * (2 * u)) (R ^ 2 * (u ^ 2 + u1 ^ 2))
    have e : g = fun ε => R ^ 2 + R ^ 2 * (2 * u) * ε + R ^ 2 * (u ^ 2 + u1 ^ 2) * ε ^ 2 := by
      funext ε; simp only [hgdef]; ring
    rw [e]; exact this
  have hg0 : g 0 = R ^ 2 := by simp only [hgdef]; ring
  have hN0 : N 0 = R ^ 2 := by simp only [hNdef]; ring
  have hgne : g 0 ≠ 0 := by rw [hg0]; positivity
  have hs : HasDerivAt (fun ε => Real.sqrt (g ε)) (R ^ 2 * (2 * u) / (2 * Real.sqrt (g 0))) 0 := hg.sqrt hgne
  have hD : HasDerivAt (fun ε => g ε * Real.sqrt (g ε))
      (R ^ 2 * (2 * u) * Real.sqrt (g 0) + g 0 * (R ^ 2 * (2 * u) / (2 * Real.sqrt (g 0)))) 0 := hg.mul hs
  have hDne : g 0 * Real.sqrt (g 0) ≠ 0 := by
    rw [hg0, Real.sqrt_sq hR.le]; positivity
  have key : HasDerivAt (fun ε => N ε / (g ε * Real.sqrt (g ε)))
      ((R ^ 2 * (2 * u - u2) * (g 0 * Real.sqrt (g 0)) -
        N 0 * (R ^ 2 * (2 * u) * Real.sqrt (g 0) + g 0 * (R ^ 2 * (2 * u) / (2 * Real.sqrt (g 0))))) /
        (g 0 * Real.sqrt (g 0)) ^ 2) 0 := hN.div hD hDne
  have e : (fun ε : ℝ => polarCurv (R * (1 + ε * u)) (R * (ε * u1)) (R * (ε * u2))) =
      fun ε => N ε / (g ε * Real.sqrt (g ε)) := by
    funext ε; simp only [polarCurv, hNdef, hgdef]
  rw [e]
  refine key.congr_deriv ?_
  rw [hg0, hN0, Real.sqrt_sq hR.le]
  field_simp
  ring

/-- the linearised curvature of the code, as a function of the amplitude scale -/
theorem codeCurv_first_order (R u u2 : ℝ) (hR : 0 < R) :
    HasDerivAt (fun ε : ℝ => 1 / (R * (1 + ε * (u + u2)))) (-(u + u2) / R) 0 := by
  set h : ℝ → ℝ := fun ε => R * (1 + ε * (u + u2)) with hdef
  have hh : HasDerivAt h (R * (u + u2)) 0 := by
    have := quad_deriv R (R * (u + u2)) 0
    have e : h = fun ε => R + R * (u + u2) * ε + 0 * ε ^ 2 := by funext ε; simp only [hdef]; ring
    rw [e]; exact this
  have h0 : h 0 = R := by simp only [hdef]; ring
  have hne : h 0 ≠ 0 := by rw [h0]; exact hR.ne'
  have key : HasDerivAt (fun ε => (1:ℝ) / h ε) ((0 * h 0 - 1 * (R * (u + u2))) / h 0 ^ 2) 0 :=
    (hasDerivAt_const (0:ℝ) (1:ℝ)).div hh hne
  refine key.congr_deriv ?_
  rw [h0]
  field_simp
  ring

/-- signed curvature of a C² plane curve from its first and second derivatives -/
noncomputable def paramCurv (x1 y1 x2 y2 : ℝ) : ℝ :=
  (x1 * y2 - y1 * x2) / ((x1 ^ 2 + y1 ^ 2) * Real.sqrt (x1 ^ 2 + y1 ^ 2))

/-- the curve `t ↦ r t · (cos t, sin t)`: its derivatives, and its curvature is the polar formula -/
theorem polar_param_curv (r r1 r2 : ℝ → ℝ) (h1 : ∀ t, HasDerivAt r (r1 t) t) (h2 : ∀ t, HasDerivAt r1 (r2 t) t) (φ : ℝ) :
    let x := fun t => r t * cos t
    let y := fun t => r t * sin t
    let x1 := fun t => r1 t * cos t - r t * sin t
    let y1 := fun t => r1 t * sin t + r t * cos t
    let x2 := r2 φ * cos φ - 2 * r1 φ * sin φ - r φ * cos φ
    let y2 := r2 φ * sin φ + 2 * r1 φ * cos φ - r φ * sin φ
    (∀ t, HasDerivAt x (x1 t) t) ∧ (∀ t, HasDerivAt y (y1 t) t) ∧
    HasDerivAt x1 x2 φ ∧ HasDerivAt y1 y2 φ ∧
    paramCurv (x1 φ) (y1 φ) x2 y2 = polarCurv (r φ) (r1 φ) (r2 φ) := by
  intro x y x1 y1 x2 y2
  have hx : ∀ t, HasDerivAt x (x1 t) t := by
    intro t
    have := (h1 t).mul (hasDerivAt_cos t)
    refine this.congr_deriv ?_
    simp only [x1]; try ring
  have hy : ∀ t, HasDerivAt y (y1 t) t := by
    intro t
    have := (h1 t).mul (hasDerivAt_sin t)
    refine this.congr_deriv ?_
    simp only [y1]; try ring
  have hx1 : HasDerivAt x1 x2 φ := by
    have := ((h2 φ).mul (hasDerivAt_cos φ)).sub ((h1 φ).mul (hasDerivAt_sin φ))
    refine this.congr_deriv ?_
    simp only [x2]; try ring
  have hy1 : HasDerivAt y1 y2 φ := by
    have := ((h2 φ).mul (hasDerivAt_sin φ)).add ((h1 φ).mul (hasDerivAt_cos φ))
    refine this.congr_deriv ?_
    simp only [y2]; try ring
  refine ⟨hx, hy, hx1, hy1, ?_⟩
  have hsc := Real.sin_sq_add_cos_sq φ
  have e1 : x1 φ ^ 2 + y1 φ ^ 2 = r φ ^ 2 + r1 φ ^ 2 := by
    simp only [x1, y1]
    have : (r1 φ * cos φ - r φ * sin φ) ^ 2 + (r1 φ * sin φ + r φ * cos φ) ^ 2 =
        (r φ ^ 2 + r1 φ ^ 2) * (sin φ ^ 2 + cos φ ^ 2) := by ring
    rw [this, hsc, mul_one]
  have e2 : x1 φ * y2 - y1 φ * x2 = r φ ^ 2 + 2 * r1 φ ^ 2 - r φ * r2 φ := by
    simp only [x1, y1, x2, y2]
    have : (r1 φ * cos φ - r φ * sin φ) * (r2 φ * sin φ + 2 * r1 φ * cos φ - r φ * sin φ) -
        (r1 φ * sin φ + r φ * cos φ) * (r2 φ * cos φ - 2 * r1 φ * sin φ - r φ * cos φ) =
        (r φ ^ 2 + 2 * r1 φ ^ 2 - r φ * r2 φ) * (sin φ ^ 2 + cos φ ^ 2) := by ring
    rw [this, hsc, mul_one]
  unfold paramCurv polarCurv
  rw [e1, e2]

/-! ### surfaces of revolution: mean curvature to first order -/

/-- second principal curvature (along the circles of latitude) of the surface of revolution with polar profile `r(θ)` about the axis `θ = 0`:
`n_ρ / ρ` with the outward unit normal `n = (r sin θ − r' cos θ, r cos θ + r' sin θ)/√(r² + r'²)` and `ρ = r sin θ`; `c = cot θ` -/
noncomputable def azimCurv (r r1 c : ℝ) : ℝ := (r - r1 * c) / (r * Real.sqrt (r ^ 2 + r1 ^ 2))

/-- mean curvature of that surface: half the sum of the meridian curvature (`polarCurv`, the curvature of the profile curve) and `azimCurv` -/
noncomputable def revMeanCurv (r r1 r2 c : ℝ) : ℝ := (polarCurv r r1 r2 + azimCurv r r1 c) / 2

theorem azimCurv_first_order (R u u1 c : ℝ) (hR : 0 < R) :
    HasDerivAt (fun ε : ℝ => azimCurv (R * (1 + ε * u)) (R * (ε * u1)) c) (-(u + c * u1) / R) 0 := by
  set N : ℝ → ℝ := fun ε => R * (1 + ε * u) - R * (ε * u1) * c with hNdef
  set g : ℝ → ℝ := fun ε => (R * (1 + ε * u)) ^ 2 + (R * (ε * u1)) ^ 2 with hgdef
  set r : ℝ → ℝ := fun ε => R * (1 + ε * u) with hrdef
  have hN : HasDerivAt N (R * (u - u1 * c)) 0 := by
    have := quad_deriv R (R * (u - u1 * c)) 0
    have e : N = fun ε => R + R * (u - u1 * c) * ε + 0 * ε ^ 2 := by funext ε; simp only [hNdef]; ring
    rw [e]; exact this
  have hr : HasDerivAt r (R * u) 0 := by
    have := quad_deriv R (R * u) 0
    have e : r = fun ε => R + R * u * ε + 0 * ε ^ 2 := by funext ε; simp only [hrdef]; ring
    rw [e]; exact this
  have hg : HasDerivAt g (R ^ 2 * (2 * u)) 0 := by
    have := quad_deriv (R ^ 2) (R ^ 2 * (2 * u)) (R ^ 2 * (u ^ 2 + u1 ^ 2))
    have e : g = fun ε => R ^ 2 + R ^ 2 * (2 * u) * ε + R ^ 2 * (u ^ 2 + u1 ^ 2) * ε ^ 2 := by
      funext ε; simp only [hgdef]; ring
    rw [e]; exact this
  have hg0 : g 0 = R ^ 2 := by simp only [hgdef]; ring
  have hN0 : N 0 = R := by simp only [hNdef]; ring
  have hr0 : r 0 = R := by simp only [hrdef]; ring
  have hgne : g 0 ≠ 0 := by rw [hg0]; positivity
  have hs : HasDerivAt (fun ε => Real.sqrt (g ε)) (R ^ 2 * (2 * u) / (2 * Real.sqrt (g 0))) 0 := hg.sqrt hgne
  have hD : HasDerivAt (fun ε => r ε * Real.sqrt (g ε))
      (R * u * Real.sqrt (g 0) + r 0 * (R ^ 2 * (2 * u) / (2 * Real.sqrt (g 0)))) 0 := hr.mul hs
  have hDne : r 0 * Real.sqrt (g 0) ≠ 0 := by
    rw [hr0, hg0, Real.sqrt_sq hR.le]; positivity
  have key := hN.div hD hDne
  have e : (fun ε : ℝ => azimCurv (R * (1 + ε * u)) (R * (ε * u1)) c) = fun ε => N ε / (r ε * Real.sqrt (g ε)) := by
    funext ε; simp only [azimCurv, hNdef, hgdef, hrdef]
  rw [e]
  refine key.congr_deriv ?_
  rw [hg0, hN0, hr0, Real.sqrt_sq hR.le]
  field_simp
  ring

/-- **First-order mean curvature of a perturbed sphere of revolution**: `H[R(1 + εu)] = 1/R − ε (2u + u'' + cot θ · u')/(2R) + o(ε)`,
pointwise in the values `u, u', u''` of the perturbation and `c = cot θ` -/
theorem revMeanCurv_first_order (R u u1 u2 c : ℝ) (hR : 0 < R) :
    revMeanCurv R 0 0 c = 1 / R ∧
    HasDerivAt (fun ε : ℝ => revMeanCurv (R * (1 + ε * u)) (R * (ε * u1)) (R * (ε * u2)) c) (-(2 * u + u2 + c * u1) / (2 * R)) 0 := by
  constructor
  · simp only [revMeanCurv, polarCurv, azimCurv]
    rw [show R ^ 2 + 2 * (0:ℝ) ^ 2 - R * 0 = R ^ 2 by ring, show R ^ 2 + (0:ℝ) ^ 2 = R ^ 2 by ring, Real.sqrt_sq hR.le]
    field_simp; ring
  · have h := ((polarCurv_first_order R u u1 u2 hR).add (azimCurv_first_order R u u1 c hR)).div_const 2
    refine (h.congr_deriv ?_)
    field_simp; ring



/-! ### radial graphs `r(θ, φ) e_r`: mean curvature to first order -/

/-- mean curvature of the radial graph `X(θ, φ) = r(θ, φ) e_r` (θ polar angle, φ azimuth), outward normal, from the fundamental forms:
`H = −(eG − 2fF + gE) / (2(EG − F²))` with `E = r_θ² + r²`, `F = r_θ r_φ`, `G = r_φ² + r² sin²θ`, `EG − F² = r² W`,
`W = r² sin²θ + r_θ² sin²θ + r_φ²`, and `e, f, g` the second derivatives of `X` against the normal `(r² s e_r − r r_θ s e_θ − r r_φ e_φ)/(r √W)`;
arguments: `r` and its partial derivatives at the point, `s = sin θ`, `c = cos θ` -/
noncomputable def radialMeanCurv (r rt rp rtt rtp rpp s c : ℝ) : ℝ :=
  -((r * s * (r * rtt - r ^ 2 - 2 * rt ^ 2)) * (rp ^ 2 + r ^ 2 * s ^ 2)
      - 2 * (r * (r * s * rtp - 2 * s * rt * rp - r * c * rp)) * (rt * rp)
      + (r * s * (r * rpp - r ^ 2 * s ^ 2 + r * c * s * rt - 2 * rp ^ 2)) * (rt ^ 2 + r ^ 2))
    / (2 * r ^ 3 * ((r ^ 2 * s ^ 2 + rt ^ 2 * s ^ 2 + rp ^ 2) * Real.sqrt (r ^ 2 * s ^ 2 + rt ^ 2 * s ^ 2 + rp ^ 2)))

/-- cross-check of the two formulas: without `φ`-dependence the radial graph is the surface of revolution of its profile -/
theorem radialMeanCurv_axisym (r rt rtt s c : ℝ) (hr : 0 < r) (hs : 0 < s) :
    radialMeanCurv r rt 0 rtt 0 0 s c = revMeanCurv r rt rtt (c / s) := by
  unfold radialMeanCurv revMeanCurv polarCurv azimCurv
  have hW : r ^ 2 * s ^ 2 + rt ^ 2 * s ^ 2 + 0 ^ 2 = (r ^ 2 + rt ^ 2) * s ^ 2 := by ring
  have hq : 0 < r ^ 2 + rt ^ 2 := by positivity
  rw [hW, Real.sqrt_mul hq.le, Real.sqrt_sq hs.le]
  have hsq : Real.sqrt (r ^ 2 + rt ^ 2) ≠ 0 := (Real.sqrt_pos.mpr hq).ne'
  have hsq2 : Real.sqrt (r ^ 2 + rt ^ 2) ^ 2 = r ^ 2 + rt ^ 2 := Real.sq_sqrt hq.le
  field_simp
  ring_nf


theorem affine_hasDerivAt (a b : ℝ) : HasDerivAt (fun ε : ℝ => a * (1 + ε * b)) (a * b) 0 := by
  have := quad_deriv a (a * b) 0
  have e : (fun ε : ℝ => a * (1 + ε * b)) = fun ε => a + a * b * ε + 0 * ε ^ 2 := by funext ε; ring
  rw [e]; exact this

theorem linear_hasDerivAt (a b : ℝ) : HasDerivAt (fun ε : ℝ => a * (ε * b)) (a * b) 0 := by
  have := quad_deriv 0 (a * b) 0
  have e : (fun ε : ℝ => a * (ε * b)) = fun ε => 0 + a * b * ε + 0 * ε ^ 2 := by funext ε; ring
  rw [e]; exact this

/-- **First-order mean curvature of a perturbed sphere**: `H[R(1 + εu)] = 1/R − ε (2u + Δ_S u)/(2R) + o(ε)` with the spherical Laplacian
`Δ_S u = u_θθ + cot θ · u_θ + u_φφ / sin²θ`, pointwise in the values of `u` and its partial derivatives; `s = sin θ > 0`, `c = cos θ` -/
theorem radialMeanCurv_first_order (R u ut up utt utp upp s c : ℝ) (hR : 0 < R) (hs : 0 < s) :
    radialMeanCurv R 0 0 0 0 0 s c = 1 / R ∧
    HasDerivAt (fun ε : ℝ => radialMeanCurv (R * (1 + ε * u)) (R * (ε * ut)) (R * (ε * up)) (R * (ε * utt)) (R * (ε * utp)) (R * (ε * upp)) s c)
      (-(2 * u + (utt + c / s * ut + upp / s ^ 2)) / (2 * R)) 0 := by
  have hRs : Real.sqrt (R ^ 2 * s ^ 2) = R * s := by
    rw [← mul_pow, Real.sqrt_sq (mul_pos hR hs).le]
  constructor
  · unfold radialMeanCurv
    rw [show R ^ 2 * s ^ 2 + (0:ℝ) ^ 2 * s ^ 2 + 0 ^ 2 = R ^ 2 * s ^ 2 by ring, hRs]
    field_simp
    ring
  · set r : ℝ → ℝ := fun ε => R * (1 + ε * u) with hr
    set rt : ℝ → ℝ := fun ε => R * (ε * ut) with hrt
    set rp : ℝ → ℝ := fun ε => R * (ε * up) with hrp
    set rtt : ℝ → ℝ := fun ε => R * (ε * utt) with hrtt
    set rtp : ℝ → ℝ := fun ε => R * (ε * utp) with hrtp
    set rpp : ℝ → ℝ := fun ε => R * (ε * upp) with hrpp
    have dr : HasDerivAt r (R * u) 0 := affine_hasDerivAt R u
    have drt : HasDerivAt rt (R * ut) 0 := linear_hasDerivAt R ut
    have drp : HasDerivAt rp (R * up) 0 := linear_hasDerivAt R up
    have drtt : HasDerivAt rtt (R * utt) 0 := linear_hasDerivAt R utt
    have drtp : HasDerivAt rtp (R * utp) 0 := linear_hasDerivAt R utp
    have drpp : HasDerivAt rpp (R * upp) 0 := linear_hasDerivAt R upp
    have r0 : r 0 = R := by simp [hr]
    have rt0 : rt 0 = 0 := by simp [hrt]
    have rp0 : rp 0 = 0 := by simp [hrp]
    have rtt0 : rtt 0 = 0 := by simp [hrtt]
    have rtp0 : rtp 0 = 0 := by simp [hrtp]
    have rpp0 : rpp 0 = 0 := by simp [hrpp]
    -- the pieces
    have dE := (drt.pow 2).add (dr.pow 2)
    have dF := drt.mul drp
    have dG := (drp.pow 2).add ((dr.pow 2).mul_const (s ^ 2))
    have dW := (((dr.pow 2).mul_const (s ^ 2)).add ((drt.pow 2).mul_const (s ^ 2))).add (drp.pow 2)
    have de := (dr.mul_const s).mul (((dr.mul drtt).sub (dr.pow 2)).sub ((drt.pow 2).const_mul 2))
    have df := dr.mul (((((dr.mul_const s).mul drtp).sub (((drt.const_mul (2 * s))).mul drp))).sub ((dr.mul_const c).mul drp))
    have dg := (dr.mul_const s).mul ((((dr.mul drpp).sub ((dr.pow 2).mul_const (s ^ 2))).add (((dr.mul_const (c * s))).mul drt)).sub ((drp.pow 2).const_mul 2))
    have dP := ((de.mul dG).sub ((df.const_mul 2).mul dF)).add (dg.mul dE)
    have hW0 : (r 0 ^ 2 * s ^ 2 + rt 0 ^ 2 * s ^ 2 + rp 0 ^ 2) = R ^ 2 * s ^ 2 := by rw [r0, rt0, rp0]; ring
    have hW0ne : (r 0 ^ 2 * s ^ 2 + rt 0 ^ 2 * s ^ 2 + rp 0 ^ 2) ≠ 0 := by rw [hW0]; positivity
    have dS := dW.sqrt hW0ne
    have dD := ((dr.pow 3).const_mul 2).mul (dW.mul dS)
    have hD0ne : 2 * r 0 ^ 3 * ((r 0 ^ 2 * s ^ 2 + rt 0 ^ 2 * s ^ 2 + rp 0 ^ 2) * Real.sqrt (r 0 ^ 2 * s ^ 2 + rt 0 ^ 2 * s ^ 2 + rp 0 ^ 2)) ≠ 0 := by
      rw [hW0, hRs, r0]; positivity
    have key := (dP.neg).div dD hD0ne
    have e : (fun ε : ℝ => radialMeanCurv (R * (1 + ε * u)) (R * (ε * ut)) (R * (ε * up)) (R * (ε * utt)) (R * (ε * utp)) (R * (ε * upp)) s c) =
        fun ε => radialMeanCurv (r ε) (rt ε) (rp ε) (rtt ε) (rtp ε) (rpp ε) s c := rfl
    rw [e]
    unfold radialMeanCurv
    refine (key.congr_of_eventuallyEq ?_).congr_deriv ?_
    · refine Filter.Eventually.of_forall (fun ε => ?_)
      simp only [Pi.div_apply, Pi.add_apply, Pi.sub_apply, Pi.mul_apply, Pi.pow_apply, Pi.neg_apply]
      ring
    · simp only [Pi.add_apply, Pi.sub_apply, Pi.mul_apply, Pi.pow_apply, Pi.neg_apply, r0, rt0, rp0, rtt0, rtp0, rpp0]
      rw [show R ^ 2 * s ^ 2 + (0:ℝ) ^ 2 * s ^ 2 + 0 ^ 2 = R ^ 2 * s ^ 2 by ring, hRs]
      field_simp
      ring

/-! ### volume of a solid of revolution to first order; zonal harmonics have zero mean -/

section volume
open MeasureTheory

/-- **A zonal harmonic of degree `l ≥ 1` has zero mean over the sphere**: from the eigen-equation `sin θ · Y'' + cos θ · Y' = −l(l+1) sin θ · Y`
(Legendre's equation in the polar angle) alone, `∫₀^π Y(θ) sin θ dθ = 0` — the integrand is, up to the factor `−l(l+1)`, the derivative of
`sin θ · Y'(θ)`, which vanishes at both poles. -/
theorem zonal_mean_zero (Y Y1 Y2 : ℝ → ℝ) (l : ℕ) (hl : 1 ≤ l)
    (h1 : ∀ t, HasDerivAt Y (Y1 t) t) (h2 : ∀ t, HasDerivAt Y1 (Y2 t) t) (hc : Continuous Y2)
    (heig : ∀ t, sin t * Y2 t + cos t * Y1 t = -((l : ℝ) * (l + 1)) * (sin t * Y t)) :
    ∫ t in (0 : ℝ)..π, Y t * sin t = 0 := by
  have hY1c : Continuous Y1 := continuous_iff_continuousAt.mpr fun t => (h2 t).continuousAt
  have hYc : Continuous Y := continuous_iff_continuousAt.mpr fun t => (h1 t).continuousAt
  have hg : ∀ t, HasDerivAt (fun t => sin t * Y1 t) (cos t * Y1 t + sin t * Y2 t) t := fun t => (hasDerivAt_sin t).mul (h2 t)
  have hint : IntervalIntegrable (fun t => cos t * Y1 t + sin t * Y2 t) volume 0 π :=
    ((continuous_cos.mul hY1c).add (continuous_sin.mul hc)).intervalIntegrable _ _
  have hftc := integral_eq_sub_of_hasDerivAt (fun t _ => hg t) hint
  simp only [sin_pi, sin_zero, zero_mul, sub_zero] at hftc
  have hrew : (fun t => cos t * Y1 t + sin t * Y2 t) = fun t => (-((l : ℝ) * (l + 1))) * (Y t * sin t) := by
    funext t; have := heig t; linarith [this, mul_comm (sin t) (Y t)]
  rw [hrew, intervalIntegral.integral_const_mul] at hftc
  have hne : (-((l : ℝ) * (l + 1))) ≠ 0 := by
    have : (0 : ℝ) < (l : ℝ) * (l + 1) := by positivity
    linarith
  rcases mul_eq_zero.mp hftc with h | h
  · exact absurd h hne
  · exact h


/-- volume enclosed by the surface of revolution with polar profile `r(θ)` about the axis `θ = 0`: `(2π/3) ∫₀^π r³ sin θ dθ` -/
noncomputable def revVolume (r : ℝ → ℝ) : ℝ := 2 * π / 3 * ∫ t in (0 : ℝ)..π, r t ^ 3 * sin t

/-- **The volume of a perturbed sphere of revolution has no first-order term when the perturbation has zero mean**:
`V[R(1 + εu)] = 4πR³/3 + 2πR³ ε ∫ u sin θ + O(ε²)` -/
theorem revVolume_first_order (R : ℝ) (u : ℝ → ℝ) (hu : Continuous u) (hmean : ∫ t in (0 : ℝ)..π, u t * sin t = 0) :
    revVolume (fun _ => R) = 4 / 3 * π * R ^ 3 ∧
    HasDerivAt (fun ε : ℝ => revVolume (fun t => R * (1 + ε * u t))) 0 0 := by
  have hI0 : ∫ t in (0 : ℝ)..π, sin t = 2 := by rw [integral_sin]; simp; norm_num
  constructor
  · unfold revVolume
    rw [intervalIntegral.integral_const_mul, hI0]; ring
  · have hi : ∀ k : ℕ, IntervalIntegrable (fun t => u t ^ k * sin t) volume 0 π :=
      fun k => ((hu.pow k).mul continuous_sin).intervalIntegrable _ _
    set I2 := ∫ t in (0 : ℝ)..π, u t ^ 2 * sin t with hI2
    set I3 := ∫ t in (0 : ℝ)..π, u t ^ 3 * sin t with hI3
    have hexp : ∀ ε : ℝ, revVolume (fun t => R * (1 + ε * u t)) =
        2 * π / 3 * R ^ 3 * 2 + 0 * ε + (2 * π / 3 * R ^ 3 * (3 * I2 + ε * I3)) * ε ^ 2 := by
      intro ε
      unfold revVolume
      have e : (fun t => (R * (1 + ε * u t)) ^ 3 * sin t) = fun t =>
          R ^ 3 * (sin t) + (3 * ε * R ^ 3) * (u t * sin t) + (3 * ε ^ 2 * R ^ 3) * (u t ^ 2 * sin t) + (ε ^ 3 * R ^ 3) * (u t ^ 3 * sin t) := by
        funext t; ring
      have i0 : IntervalIntegrable (fun t => R ^ 3 * sin t) volume 0 π := (continuous_const.mul continuous_sin).intervalIntegrable _ _
      have i1 : IntervalIntegrable (fun t => (3 * ε * R ^ 3) * (u t * sin t)) volume 0 π :=
        (continuous_const.mul (hu.mul continuous_sin)).intervalIntegrable _ _
      have i2 : IntervalIntegrable (fun t => (3 * ε ^ 2 * R ^ 3) * (u t ^ 2 * sin t)) volume 0 π := (hi 2).const_mul _
      have i3 : IntervalIntegrable (fun t => (ε ^ 3 * R ^ 3) * (u t ^ 3 * sin t)) volume 0 π := (hi 3).const_mul _
      rw [e, intervalIntegral.integral_add ((i0.add i1).add i2) i3, intervalIntegral.integral_add (i0.add i1) i2,
        intervalIntegral.integral_add i0 i1]
      simp only [intervalIntegral.integral_const_mul, hI0, hmean]
      ring
    have hd : HasDerivAt (fun ε : ℝ => 2 * π / 3 * R ^ 3 * 2 + 0 * ε + (2 * π / 3 * R ^ 3 * (3 * I2 + ε * I3)) * ε ^ 2) 0 0 := by
      have h1 : HasDerivAt (fun ε : ℝ => (2 * π / 3 * R ^ 3 * (3 * I2 + ε * I3))) (2 * π / 3 * R ^ 3 * I3) 0 := by
        have := ((hasDerivAt_id (0:ℝ)).mul_const I3).const_add (3 * I2) |>.const_mul (2 * π / 3 * R ^ 3)
        simpa using this
      have h2 : HasDerivAt (fun ε : ℝ => ε ^ 2) (2 * (0:ℝ)) 0 := by simpa using hasDerivAt_pow 2 (0:ℝ)
      have h3 := (((hasDerivAt_const (0:ℝ) (2 * π / 3 * R ^ 3 * 2)).add ((hasDerivAt_id (0:ℝ)).const_mul 0))).add (h1.mul h2)
      refine h3.congr_deriv ?_
      simp
    have : (fun ε : ℝ => revVolume (fun t => R * (1 + ε * u t))) = fun ε => 2 * π / 3 * R ^ 3 * 2 + 0 * ε + (2 * π / 3 * R ^ 3 * (3 * I2 + ε * I3)) * ε ^ 2 :=
      funext hexp
    rw [this]; exact hd

end volume

/-! ### perimeter of a perturbed circle: no first-order term -/

section perimeter
open MeasureTheory

/-- perimeter of the closed polar curve `r(φ)`, `r1 = r'` -/
noncomputable def polarPerimeter (r r1 : ℝ → ℝ) : ℝ := ∫ x in (0:ℝ)..(2*π), Real.sqrt (r x ^ 2 + r1 x ^ 2)

theorem sqrt_sandwich (r r1 : ℝ) (hr : 0 < r) : r ≤ Real.sqrt (r ^ 2 + r1 ^ 2) ∧ Real.sqrt (r ^ 2 + r1 ^ 2) ≤ r + r1 ^ 2 / (2 * r) := by
  constructor
  · calc r = Real.sqrt (r ^ 2) := (Real.sqrt_sq hr.le).symm
      _ ≤ Real.sqrt (r ^ 2 + r1 ^ 2) := Real.sqrt_le_sqrt (by nlinarith [sq_nonneg r1])
  · have hpos : 0 ≤ r + r1 ^ 2 / (2 * r) := by positivity
    rw [show r + r1 ^ 2 / (2 * r) = Real.sqrt ((r + r1 ^ 2 / (2 * r)) ^ 2) from (Real.sqrt_sq hpos).symm]
    apply Real.sqrt_le_sqrt
    have : (r + r1 ^ 2 / (2 * r)) ^ 2 = r ^ 2 + r1 ^ 2 + (r1 ^ 2 / (2 * r)) ^ 2 := by field_simp; ring
    rw [this]; nlinarith [sq_nonneg (r1 ^ 2 / (2 * r))]

/-- **The perimeter of a perturbed circle has no first-order term when the perturbation has zero mean**: for `|ε| m ≤ ½`
`2πR ≤ P[R(1 + εu)] ≤ 2πR + 2πR m₁² ε²` (`m`, `m₁` bounds of `|u|`, `|u'|`) -/
theorem perimeter_sandwich (R : ℝ) (hR : 0 < R) (u u1 : ℝ → ℝ) (hu : Continuous u) (hu1 : Continuous u1) (m m1 : ℝ)
    (hm : ∀ x, |u x| ≤ m) (hm1 : ∀ x, |u1 x| ≤ m1) (hmean : ∫ x in (0:ℝ)..(2*π), u x = 0) (ε : ℝ) (hε : |ε| * m ≤ 1 / 2) :
    2 * π * R ≤ polarPerimeter (fun x => R * (1 + ε * u x)) (fun x => R * (ε * u1 x)) ∧
    polarPerimeter (fun x => R * (1 + ε * u x)) (fun x => R * (ε * u1 x)) ≤ 2 * π * R + 2 * π * R * m1 ^ 2 * ε ^ 2 := by
  have h2pi : (0:ℝ) ≤ 2 * π := by positivity
  have hrpos : ∀ x, R / 2 ≤ R * (1 + ε * u x) := by
    intro x
    have : |ε * u x| ≤ 1 / 2 := by
      rw [abs_mul]; exact le_trans (mul_le_mul_of_nonneg_left (hm x) (abs_nonneg ε)) hε
    have := (abs_le.mp this).1
    nlinarith
  have hcont : Continuous fun x => Real.sqrt ((R * (1 + ε * u x)) ^ 2 + (R * (ε * u1 x)) ^ 2) := by fun_prop
  have hlin : ∫ x in (0:ℝ)..(2*π), R * (1 + ε * u x) = 2 * π * R := by
    have e : (fun x => R * (1 + ε * u x)) = fun x => R + (R * ε) * u x := by funext x; ring
    have i1 : IntervalIntegrable (fun _ : ℝ => R) volume 0 (2 * π) := ii continuous_const
    have i2 : IntervalIntegrable (fun x => (R * ε) * u x) volume 0 (2 * π) := ii (by fun_prop)
    rw [e, intervalIntegral.integral_add i1 i2, intervalIntegral.integral_const_mul, hmean]
    simp
  unfold polarPerimeter
  constructor
  · rw [← hlin]
    apply intervalIntegral.integral_mono_on h2pi (ii (by fun_prop)) (ii hcont)
    intro x _
    exact (sqrt_sandwich _ _ (lt_of_lt_of_le (by positivity) (hrpos x))).1
  · have hup : ∀ x, Real.sqrt ((R * (1 + ε * u x)) ^ 2 + (R * (ε * u1 x)) ^ 2) ≤ R * (1 + ε * u x) + R * m1 ^ 2 * ε ^ 2 := by
      intro x
      have hr : 0 < R * (1 + ε * u x) := lt_of_lt_of_le (by positivity) (hrpos x)
      refine le_trans (sqrt_sandwich _ _ hr).2 ?_
      have h1 : (R * (ε * u1 x)) ^ 2 ≤ R ^ 2 * ε ^ 2 * m1 ^ 2 := by
        have : u1 x ^ 2 ≤ m1 ^ 2 := by
          rw [← sq_abs (u1 x)]; exact pow_le_pow_left₀ (abs_nonneg _) (hm1 x) 2
        have hnn : 0 ≤ R ^ 2 * ε ^ 2 := by positivity
        calc (R * (ε * u1 x)) ^ 2 = R ^ 2 * ε ^ 2 * u1 x ^ 2 := by ring
          _ ≤ R ^ 2 * ε ^ 2 * m1 ^ 2 := mul_le_mul_of_nonneg_left this hnn
      have h2 : (R * (ε * u1 x)) ^ 2 / (2 * (R * (1 + ε * u x))) ≤ R ^ 2 * ε ^ 2 * m1 ^ 2 / R := by
        have hden : R ≤ 2 * (R * (1 + ε * u x)) := by linarith [hrpos x]
        exact div_le_div₀ (by positivity) h1 hR hden
      have h3 : R ^ 2 * ε ^ 2 * m1 ^ 2 / R = R * m1 ^ 2 * ε ^ 2 := by field_simp
      linarith
    have hint : ∫ x in (0:ℝ)..(2*π), (R * (1 + ε * u x) + R * m1 ^ 2 * ε ^ 2) = 2 * π * R + 2 * π * R * m1 ^ 2 * ε ^ 2 := by
      have i1 : IntervalIntegrable (fun x => R * (1 + ε * u x)) volume 0 (2 * π) := ii (by fun_prop)
      have i2 : IntervalIntegrable (fun _ : ℝ => R * m1 ^ 2 * ε ^ 2) volume 0 (2 * π) := ii continuous_const
      rw [intervalIntegral.integral_add i1 i2, hlin]
      simp; ring
    rw [← hint]
    exact intervalIntegral.integral_mono_on h2pi (ii hcont) (ii (by fun_prop)) (fun x _ => hup x)

theorem hasDerivAt_zero_of_sq_bound (f : ℝ → ℝ) (C δ : ℝ) (hδ : 0 < δ) (h : ∀ ε, |ε| ≤ δ → |f ε - f 0| ≤ C * ε ^ 2) :
    HasDerivAt f 0 0 := by
  rw [hasDerivAt_iff_isLittleO_nhds_zero, Asymptotics.isLittleO_iff]
  intro c hc
  have hC : 0 < |C| + 1 := by positivity
  rw [Metric.eventually_nhds_iff]
  refine ⟨min δ (c / (|C| + 1)), lt_min hδ (div_pos hc hC), ?_⟩
  intro y hy
  rw [dist_zero_right, Real.norm_eq_abs] at hy
  have h1 : |y| ≤ δ := le_of_lt (lt_of_lt_of_le hy (min_le_left _ _))
  have h2 : |y| < c / (|C| + 1) := lt_of_lt_of_le hy (min_le_right _ _)
  have hb := h y h1
  simp only [zero_add, smul_eq_mul, mul_zero, sub_zero, Real.norm_eq_abs]
  calc |f y - f 0| ≤ C * y ^ 2 := hb
    _ ≤ |C| * y ^ 2 := mul_le_mul_of_nonneg_right (le_abs_self C) (sq_nonneg y)
    _ = |C| * |y| * |y| := by rw [← sq_abs y]; ring
    _ ≤ (|C| + 1) * (c / (|C| + 1)) * |y| := by
        apply mul_le_mul_of_nonneg_right _ (abs_nonneg y)
        exact mul_le_mul (by linarith) h2.le (abs_nonneg y) hC.le
    _ = c * |y| := by field_simp

/-- `|tp| ≤ Σ (|a| + |b|)` -/
noncomputable def l1 (ps : List (ℝ × ℝ)) : ℝ := (ps.map fun p => |p.1| + |p.2|).sum

theorem tp_bound (ps : List (ℝ × ℝ)) (s : ℕ) (x : ℝ) : |tp ps s x| ≤ l1 ps := by
  induction ps generalizing s with
  | nil => simp [tp_nil, l1]
  | cons p ps ih =>
    rw [tp_cons]
    have h1 : |p.1 * sin (s * x)| ≤ |p.1| := by
      rw [abs_mul]; exact mul_le_of_le_one_right (abs_nonneg _) (abs_sin_le_one _)
    have h2 : |p.2 * cos (s * x)| ≤ |p.2| := by
      rw [abs_mul]; exact mul_le_of_le_one_right (abs_nonneg _) (abs_cos_le_one _)
    have := ih (s + 1)
    simp only [l1, List.map_cons, List.sum_cons] at *
    calc |p.1 * sin (s * x) + p.2 * cos (s * x) + tp ps (s + 1) x|
        ≤ |p.1 * sin (s * x) + p.2 * cos (s * x)| + |tp ps (s + 1) x| := abs_add_le _ _
      _ ≤ |p.1 * sin (s * x)| + |p.2 * cos (s * x)| + |tp ps (s + 1) x| := by linarith [abs_add_le (p.1 * sin (s * x)) (p.2 * cos (s * x))]
      _ ≤ _ := by linarith

end perimeter

end DV.Fourier
