namespace DV
def hello : String := "hi"
end DV
