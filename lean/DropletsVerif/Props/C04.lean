/-
  C04 — Refinement never worsens the fit and respects bounds, symmetry and the box.
  Theorems about Model/Refine.lean: everything `refine_droplet` itself contributes (packing of
  the free parameters, bounds, initial point, scattering the answer back).  The decrease of the
  cost and staying inside the bounds are properties of scipy's trust-region solver; they enter as
  the contract `SolverOK`, which the correspondence check monitors on every real call.
-/
import DropletsVerif.Model.Refine
import Mathlib.Tactic

namespace DV.C04
open DV.Refine

variable {β : Type}

/-! ### packing and unpacking of the free parameters -/

/-- **If the solver returns its starting point the record is unchanged** (the image was rendered
from the candidate: zero residual, nothing to improve) -/
theorem scatter_select (m : List Bool) (flat : List β) : scatter m flat (select m flat) = flat := by
  induction m generalizing flat with
  | nil => cases flat <;> simp [scatter, select]
  | cons b m ih =>
    cases flat with
    | nil => cases b <;> simp [scatter, select]
    | cons f fs => cases b <;> simp [scatter, select, ih]

theorem scatter_length (m : List Bool) (flat x : List β) : (scatter m flat x).length = flat.length := by
  induction m generalizing flat x with
  | nil => simp [scatter]
  | cons b m ih =>
    cases flat with
    | nil => cases b <;> cases x <;> simp [scatter]
    | cons f fs =>
      cases b
      · simp [scatter, ih]
      · cases x <;> simp [scatter, ih]

/-- entries whose mask bit is `false` are never written -/
theorem scatter_fixed (m : List Bool) (flat x : List β) (i : Nat) (hi : m[i]? = some false) :
    (scatter m flat x)[i]? = flat[i]? := by
  induction m generalizing flat x i with
  | nil => simp at hi
  | cons b m ih =>
    cases flat with
    | nil => cases b <;> cases x <;> simp [scatter]
    | cons f fs =>
      cases i with
      | zero =>
        simp only [List.getElem?_cons_zero, Option.some.injEq] at hi
        subst hi
        simp [scatter]
      | succ i =>
        simp only [List.getElem?_cons_succ] at hi
        cases b
        · simp [scatter, ih fs x i hi]
        · cases x with
          | nil => simp [scatter, ih fs [] i hi]
          | cons y ys => simp [scatter, ih fs ys i hi]

/-- **Coordinates fixed by the grid's symmetry are left untouched**, whatever the solver returns -/
theorem refine_constrained_untouched (L : Layout) (constraints : List Nat) (flat x : List β) (adjust : Bool)
    (i : Nat) (hc : i ∈ constraints) (hi : i < L.len) :
    (finish L constraints flat x adjust)[i]? = flat[i]? := by
  unfold finish
  apply scatter_fixed
  simp [freeMask, hi, hc]

/-- the written entries are exactly the solver's answer, in order -/
theorem select_scatter (m : List Bool) (flat x : List β) (hlen : m.length = flat.length)
    (hx : x.length = (m.filter id).length) : select m (scatter m flat x) = x := by
  induction m generalizing flat x with
  | nil =>
    have : x = [] := by simpa using hx
    subst this
    cases flat <;> simp [select, scatter]
  | cons b m ih =>
    cases flat with
    | nil => simp at hlen
    | cons f fs =>
      cases b
      · simp only [scatter, select]
        exact ih fs x (by simpa using hlen) (by simpa using hx)
      · cases x with
        | nil => simp at hx
        | cons y ys =>
          simp only [scatter, select]
          rw [ih fs ys (by simpa using hlen) (by simpa using hx)]

/-! ### bounds -/

section ordered
variable {K : Type} [Field K] [LinearOrder K] [IsStrictOrderedRing K]

/-- `lb ≤ x ≤ ub` componentwise (`none` = unbounded) -/
def Within (lb ub : List (Option K)) (x : List K) : Prop :=
  List.Forall₂ (fun l v => ∀ b, l = some b → b ≤ v) lb x ∧ List.Forall₂ (fun u v => ∀ b, u = some b → v ≤ b) ub x

/-- a flat record is valid: radius ≥ 0, width ≥ 0, amplitudes in [−1, 1] -/
def ValidFlat (L : Layout) (flat : List K) : Prop :=
  flat.length = L.len ∧ Within (Refine.lowerBounds L) (Refine.upperBounds L) flat

theorem forall2_select {γ δ : Type} (R : γ → δ → Prop) (as : List γ) (bs : List δ) (h : List.Forall₂ R as bs)
    (m : List Bool) : List.Forall₂ R (select m as) (select m bs) := by
  induction h generalizing m with
  | nil => cases m with
    | nil => simp [select]
    | cons b m => cases b <;> simp [select]
  | cons hh _ ih =>
    cases m with
    | nil => simp [select]
    | cons b m =>
      cases b
      · simpa [select] using ih m
      · simpa [select] using List.Forall₂.cons hh (ih m)

theorem forall2_append {γ δ : Type} (R : γ → δ → Prop) (as as' : List γ) (bs bs' : List δ)
    (h : List.Forall₂ R as bs) (h' : List.Forall₂ R as' bs') : List.Forall₂ R (as ++ as') (bs ++ bs') := by
  induction h with
  | nil => simpa using h'
  | cons hh _ ih => exact List.Forall₂.cons hh ih

theorem within_select (m : List Bool) (lb ub : List (Option K)) (x : List K) (h : Within lb ub x) :
    Within (select m lb) (select m ub) (select m x) :=
  ⟨forall2_select _ _ _ h.1 m, forall2_select _ _ _ h.2 m⟩

theorem within_append (lb ub lb' ub' : List (Option K)) (x x' : List K)
    (h : Within lb ub x) (h' : Within lb' ub' x') : Within (lb ++ lb') (ub ++ ub') (x ++ x') :=
  ⟨forall2_append _ _ _ _ _ h.1 h'.1, forall2_append _ _ _ _ _ h.2 h'.2⟩

/-- **The starting point handed to the solver is feasible** for every valid candidate and every
pair of intensity levels with `vmin ≤ vmax` — with or without fitted levels.  (Before the repair of
D11 the initial range parameter was `vmax`, which violates `≤ 3 (vmax − vmin)` e.g. for
vmin = 5, vmax = 6.) -/
theorem refinePlan_x0_feasible (L : Layout) (constraints : List Nat) (flat : List K) (vmin vmax : K)
    (adjust : Bool) (hv : ValidFlat L flat) (hlev : vmin ≤ vmax) :
    Within (plan L constraints flat vmin vmax adjust).lb (plan L constraints flat vmin vmax adjust).ub
      (plan L constraints flat vmin vmax adjust).x0 := by
  have hbase := within_select (freeMask L constraints) _ _ _ hv.2
  unfold plan
  cases adjust
  · simpa using hbase
  · simp only [if_true]
    apply within_append _ _ _ _ _ _ hbase
    constructor
    · refine List.Forall₂.cons ?_ (List.Forall₂.cons ?_ List.Forall₂.nil)
      · intro b hb; cases hb; linarith
      · intro b hb; cases hb; linarith
    · refine List.Forall₂.cons ?_ (List.Forall₂.cons ?_ List.Forall₂.nil)
      · intro b hb; cases hb; exact hlev
      · intro b hb; cases hb; linarith

/-- the old initial point `(vmin, vmax)` is infeasible for `vmin = 5`, `vmax = 6` (finding D11) -/
theorem old_x0_infeasible_witness : ¬ ((6 : ℚ) ≤ 3 * (6 - 5)) := by norm_num

/-- the bounds handed to the solver say: radius ≥ 0, width ≥ 0, amplitudes in [−1, 1], positions free -/
theorem bounds_spec (L : Layout) (i : Nat) :
    (i < L.dim → (Refine.lowerBounds (α := K) L)[i]? = some none ∧ (Refine.upperBounds (α := K) L)[i]? = some none) ∧
    ((Refine.lowerBounds (α := K) L)[L.dim]? = some (some 0) ∧ (Refine.lowerBounds (α := K) L)[L.dim + 1]? = some (some 0)) ∧
    (i < L.modes → (Refine.lowerBounds (α := K) L)[L.dim + 2 + i]? = some (some (-1)) ∧
                    (Refine.upperBounds (α := K) L)[L.dim + 2 + i]? = some (some 1)) := by
  refine ⟨?_, ?_, ?_⟩
  · intro hi
    simp [Refine.lowerBounds, Refine.upperBounds, List.getElem?_append_left, hi, List.getElem?_replicate]
  · simp [Refine.lowerBounds, List.getElem?_append_right, List.getElem?_append_left]
  · intro hi
    have h1 : L.dim + 2 + i = (List.replicate L.dim (none : Option K) ++ [some 0, some 0]).length + i := by simp
    have h2 : L.dim + 2 + i = (List.replicate L.dim (none : Option K) ++ [none, none]).length + i := by simp
    constructor
    · unfold Refine.lowerBounds; rw [h1, List.getElem?_append_right (by omega)]; simp [hi, List.getElem?_replicate]
    · unfold Refine.upperBounds; rw [h2, List.getElem?_append_right (by omega)]; simp [hi, List.getElem?_replicate]

/-- contract of the solver: started inside the bounds it returns a point inside the bounds whose
cost is not larger -/
structure SolverOK (cost : List K → K) (lb ub : List (Option K)) (x0 x : List K) : Prop where
  feasible : Within lb ub x
  decrease : cost x ≤ cost x0

/-- **Under the solver contract the cost of the result is not larger than the candidate's and the
answer is inside the bounds** (stated for completeness: it is the contract itself, applied to the
feasible starting point the code provides) -/
theorem refine_cost_monotone (L : Layout) (constraints : List Nat) (flat : List K) (vmin vmax : K) (adjust : Bool)
    (cost : List K → K) (x : List K)
    (h : SolverOK cost (plan L constraints flat vmin vmax adjust).lb (plan L constraints flat vmin vmax adjust).ub
      (plan L constraints flat vmin vmax adjust).x0 x) :
    cost x ≤ cost (plan L constraints flat vmin vmax adjust).x0 ∧
    Within (plan L constraints flat vmin vmax adjust).lb (plan L constraints flat vmin vmax adjust).ub x :=
  ⟨h.decrease, h.feasible⟩

/-- squared deviation of a residual vector -/
def sumsq (r : List K) : K := (r.map fun x => x * x).sum

theorem sumsq_div (r : List K) (c : K) : sumsq (r.map (· / c)) = sumsq r / (c * c) := by
  unfold sumsq
  induction r with
  | nil => simp
  | cons x xs ih =>
    simp only [List.map_cons, List.sum_cons] at ih ⊢
    rw [ih]
    by_cases hc : c = 0
    · simp [hc]
    · field_simp

/-- **The unit in which the solver sees the deviations does not matter for the property's clause** (D23: since the repair the residual is
divided by the intensity range, `Props/C05 residual_scale_spec`): the solver's cost — the squared deviation in that unit — of the result is not
larger than the candidate's IF AND ONLY IF the squared deviation FROM THE IMAGE is not larger. -/
theorem scaled_cost_order (r r0 : List K) (c : K) (hc : 0 < c) :
    sumsq (r.map (· / c)) ≤ sumsq (r0.map (· / c)) ↔ sumsq r ≤ sumsq r0 := by
  rw [sumsq_div, sumsq_div, div_le_div_iff_of_pos_right (mul_pos hc hc)]

end ordered

/-- non-vacuity: cylindrical grid (position coordinates 0 and 1 fixed), one amplitude -/
example :
    (plan (α := ℚ) ⟨3, 1⟩ [0, 1] [0, 0, 5, 2, 1, 1/10] 0 1 true).x0 = [5, 2, 1, 1/10, 0, 1] ∧
    finish ⟨3, 1⟩ [0, 1] ([0, 0, 5, 2, 1, 1/10] : List ℚ) [6, 3, 2, 1/5, 9, 9] true = [0, 0, 6, 3, 2, 1/5] := by
  decide +kernel

end DV.C04

namespace DV.C04
open DV.Refine

/-! ### promotion of the candidate and wrapping of the position -/

/-- **A width that is set — even a sharp interface, width 0 — is what the fit starts from**;
only an unset width is replaced by the grid's typical discretisation. -/
theorem promote_width {α : Type} (dx : α) (c : Cand α) :
    (promote dx c)[c.pos.length + 1]? = some (match c.width with | some w => w | none => dx) := by
  unfold promote
  cases c.width <;> simp

theorem promote_position {α : Type} (dx : α) (c : Cand α) : (promote dx c).take c.pos.length = c.pos := by
  unfold promote; simp

theorem promote_radius {α : Type} (dx : α) (c : Cand α) : (promote dx c)[c.pos.length]? = some c.radius := by
  unfold promote; simp

theorem promote_amps {α : Type} (dx : α) (c : Cand α) : (promote dx c).drop (c.pos.length + 2) = c.amps := by
  unfold promote; simp

/-- **Wrapping puts a coordinate into `[lo, lo + len)`** and moves it by a whole number of periods -/
theorem wrap1_in_box (lo len x : ℚ) (h : 0 < len) :
    lo ≤ wrap1 lo len x ∧ wrap1 lo len x < lo + len ∧ ∃ k : ℤ, wrap1 lo len x = x - k * len := by
  unfold wrap1
  simp only [HasFloor.floor]
  set q := (x - lo) / len with hq
  have h1 : ((q.floor : ℤ) : ℚ) ≤ q := Rat.floor_le q
  have h2 : q < ((q.floor + 1 : ℤ) : ℚ) := Rat.lt_floor_add_one q
  push_cast at h2
  have hx : x - lo = q * len := by rw [hq]; field_simp
  refine ⟨?_, ?_, ⟨q.floor, by ring⟩⟩
  · have : 0 ≤ (q - (q.floor : ℚ)) * len := mul_nonneg (by linarith) h.le
    nlinarith
  · have : (q - (q.floor : ℚ)) * len < 1 * len := mul_lt_mul_of_pos_right (by linarith) h
    nlinarith

/-- a coordinate that already lies in the box is not moved -/
theorem wrap1_id (lo len x : ℚ) (h : 0 < len) (h1 : lo ≤ x) (h2 : x < lo + len) : wrap1 lo len x = x := by
  unfold wrap1
  simp only [HasFloor.floor]
  have hfl : ((x - lo) / len).floor = 0 := by
    have a : (0 : ℚ) ≤ (x - lo) / len := div_nonneg (by linarith) h.le
    have b : (x - lo) / len < 1 := by rw [div_lt_one h]; linarith
    have c1 : (0 : ℤ) ≤ ((x - lo) / len).floor := Rat.le_floor_iff.mpr (by simpa using a)
    have c2 : ((x - lo) / len).floor < 1 := by
      by_contra hge
      have : (1 : ℤ) ≤ ((x - lo) / len).floor := by omega
      have := Rat.le_floor_iff.mp this
      simp at this
      linarith
    omega
  rw [hfl]; simp

/-- **After `refine_droplet` the position lies inside the box along every periodic axis** and is
unchanged along the others -/
theorem wrapPos_spec : ∀ (axes : List (Option (ℚ × ℚ))) (pos : List ℚ),
    (wrapPos axes pos).length = pos.length ∧
    ∀ i (hi : i < pos.length), ∀ hi' : i < (wrapPos axes pos).length,
      match axes[i]? with
      | some (some (lo, len)) => 0 < len → lo ≤ (wrapPos axes pos)[i] ∧ (wrapPos axes pos)[i] < lo + len ∧
          ∃ k : ℤ, (wrapPos axes pos)[i] = pos[i] - k * len
      | _ => (wrapPos axes pos)[i] = pos[i]
  | [], pos => by
    constructor
    · cases pos <;> simp [wrapPos]
    · intro i hi hi'
      cases pos <;> simp [wrapPos]
  | _ :: _, [] => by simp [wrapPos]
  | none :: axes, x :: xs => by
    obtain ⟨ih1, ih2⟩ := wrapPos_spec axes xs
    constructor
    · simp [wrapPos, ih1]
    · intro i hi hi'
      cases i with
      | zero => simp [wrapPos]
      | succ i =>
        have := ih2 i (by simpa using hi) (by simpa [wrapPos] using hi')
        simpa [wrapPos] using this
  | some (lo, len) :: axes, x :: xs => by
    obtain ⟨ih1, ih2⟩ := wrapPos_spec axes xs
    constructor
    · simp [wrapPos, ih1]
    · intro i hi hi'
      cases i with
      | zero =>
        simp only [List.getElem?_cons_zero, wrapPos, List.getElem_cons_zero]
        intro h
        exact wrap1_in_box lo len x h
      | succ i =>
        have := ih2 i (by simpa using hi) (by simpa [wrapPos] using hi')
        simpa [wrapPos] using this

/-- the wrap only touches the position: radius, width and amplitudes of the returned record are the
solver's answer scattered into the promoted record -/
theorem refineResult_tail (L : Layout) (constraints : List Nat) (axes : List (Option (ℚ × ℚ))) (dx : ℚ)
    (c : Cand ℚ) (x : List ℚ) (adjust : Bool) :
    (refineResult L constraints axes dx c x adjust).drop L.dim =
      (finish L constraints (promote dx c) x adjust).drop L.dim := by
  unfold refineResult
  simp only
  set out := finish L constraints (promote dx c) x adjust
  have hl : (wrapPos axes (out.take L.dim)).length = (out.take L.dim).length := (wrapPos_spec axes _).1
  set w := wrapPos axes (out.take L.dim) with hw
  by_cases h : L.dim ≤ out.length
  · have hwl : w.length = L.dim := by rw [hl]; simp [h]
    rw [List.drop_append_of_le_length (by omega)]
    have : w.drop L.dim = [] := List.drop_eq_nil_of_le (by omega)
    rw [this, List.nil_append]
  · have h' : out.length < L.dim := by omega
    have h1 : out.drop L.dim = [] := List.drop_eq_nil_of_le (by omega)
    have hwl : w.length ≤ L.dim := by rw [hl, List.length_take]; omega
    rw [h1, List.append_nil, List.drop_eq_nil_of_le hwl]

/-- non-vacuity / regression values: a sharp candidate keeps width 0; a candidate at x = −0.3 on the
periodic box [0, 16) is returned at 15.7; the non-periodic y coordinate is kept -/
example :
    promote (1 : ℚ) ⟨[3, 4], 2, some 0, []⟩ = [3, 4, 2, 0] ∧
    promote (1 : ℚ) ⟨[3, 4], 2, none, []⟩ = [3, 4, 2, 1] ∧
    refineResult (α := ℚ) ⟨2, 0⟩ [] [some (0, 16), none] 1 ⟨[-3/10, 20], 2, some 1, []⟩ [-3/10, 20, 2, 1] false
      = [157/10, 20, 2, 1] := by decide +kernel

/-! ### the fitted region reaches two interface widths beyond the candidate -/

/-- **The number of dilation steps is `⌊2w/dx⌋ + 1`**: at least one cell, more than `2w/dx` cells and at most
`2w/dx + 1` — counted in cells: the region reaches two interface widths beyond the candidate whatever the unit of
length is (repair 8d4e282; before, the width was not divided by the cell size). -/
theorem fitIterations_spec (w dx : ℚ) (hw : 0 ≤ w) (hdx : 0 < dx) :
    1 ≤ fitIterations w dx ∧ 2 * (w / dx) < (fitIterations w dx : ℚ) ∧ (fitIterations w dx : ℚ) ≤ 2 * (w / dx) + 1 := by
  unfold fitIterations
  set v := w / dx with hv
  have hv0 : 0 ≤ v := div_nonneg hw hdx.le
  have h0 : (0 : ℤ) ≤ (2 * v).floor := Rat.le_floor_iff.mpr (by push_cast; linarith)
  have h1 : (((2 * v).floor : ℤ) : ℚ) ≤ 2 * v := Rat.floor_le _
  have h2 : 2 * v < (((2 * v).floor + 1 : ℤ) : ℚ) := Rat.lt_floor_add_one _
  have hc : (((2 * v).floor.toNat : ℕ) : ℚ) = (((2 * v).floor : ℤ) : ℚ) := by
    have : (((2 * v).floor.toNat : ℕ) : ℤ) = (2 * v).floor := Int.toNat_of_nonneg h0
    exact_mod_cast this
  refine ⟨by omega, ?_, ?_⟩
  · push_cast at h2 ⊢; rw [hc]; linarith
  · push_cast; rw [hc]; linarith

/-- the unit of length does not matter -/
theorem fitIterations_scale (w dx lam : ℚ) (hl : lam ≠ 0) :
    fitIterations (lam * w) (lam * dx) = fitIterations w dx := by
  unfold fitIterations
  rw [mul_div_mul_left _ _ hl]

example : fitIterations 0 1 = 1 ∧ fitIterations (3/4) 1 = 2 ∧ fitIterations 1 1 = 3 ∧ fitIterations (39/100) 1 = 1
    ∧ fitIterations 45 (75/2) = 3 ∧ fitIterations (3/100) (1/50) = 4 := by decide +kernel

end DV.C04
