/-
  C16 — The structure factor is a normalised, symmetry-invariant power spectrum.
  The grid is a finite abelian group `G` (for a periodic Cartesian grid: `Π ZMod n_i`); the wave
  vectors are its characters.  `get_structure_factor` computes, for every non-trivial character,
      sf(ψ) = |Σ_g f(g) ψ(−g)|² / (N · Σ_g f(g)²)
  (`fftn(norm="ortho")`, zero mode dropped by `.flat[1:]`, division by `np.dot(f, f)`); that
  `fftn` is this sum is the contract of the FFT library (checked against a naive DFT by the
  correspondence).  Everything below holds for every finite abelian group, i.e. every dimension,
  every shape (even or odd) and every field.
-/
import Mathlib.Analysis.Fourier.FiniteAbelian.PontryaginDuality
import Mathlib.Analysis.Complex.Basic
import Mathlib.Tactic

namespace DV.C16
open Finset BigOperators ComplexConjugate

variable {G : Type} [AddCommGroup G] [Fintype G] [DecidableEq G]

/-- discrete Fourier transform at the character `ψ` -/
noncomputable def dft (f : G → ℂ) (ψ : AddChar G ℂ) : ℂ := ∑ g, f g * ψ (-g)

/-- `np.dot(f, f)` for a real field (as a complex number: Σ f conj f) -/
noncomputable def energyC (f : G → ℂ) : ℂ := ∑ g, f g * conj (f g)

noncomputable def energy (f : G → ℂ) : ℝ := ∑ g, ‖f g‖ ^ 2

/-- the unsmoothed structure factor -/
noncomputable def sf (f : G → ℂ) (ψ : AddChar G ℂ) : ℝ :=
  ‖dft f ψ‖ ^ 2 / ((Fintype.card G : ℝ) * energy f)

theorem energyC_eq (f : G → ℂ) : energyC f = (energy f : ℂ) := by
  unfold energyC energy
  push_cast
  apply Finset.sum_congr rfl
  intro g _
  rw [Complex.mul_conj, Complex.normSq_eq_norm_sq]
  push_cast; rfl

theorem energy_nonneg (f : G → ℂ) : 0 ≤ energy f := by
  unfold energy; positivity

/-- **Non-negative** -/
theorem sf_nonneg (f : G → ℂ) (ψ : AddChar G ℂ) : 0 ≤ sf f ψ := by
  unfold sf
  exact div_nonneg (by positivity) (mul_nonneg (by positivity) (energy_nonneg f))

/-- **Unchanged when the field is multiplied by any non-zero constant** -/
theorem sf_scale_invariant (f : G → ℂ) (ψ : AddChar G ℂ) (c : ℂ) (hc : c ≠ 0) :
    sf (fun g => c * f g) ψ = sf f ψ := by
  unfold sf dft energy
  have h1 : ∑ g, c * f g * ψ (-g) = c * ∑ g, f g * ψ (-g) := by
    rw [Finset.mul_sum]; apply Finset.sum_congr rfl; intro g _; ring
  have h2 : ∑ g, ‖c * f g‖ ^ 2 = ‖c‖ ^ 2 * ∑ g, ‖f g‖ ^ 2 := by
    rw [Finset.mul_sum]; apply Finset.sum_congr rfl; intro g _; rw [norm_mul]; ring
  rw [h1, h2, norm_mul]
  have hc' : ‖c‖ ^ 2 ≠ 0 := by positivity
  by_cases hE : (∑ g, ‖f g‖ ^ 2) = 0
  · simp [hE]
  · have hN : (Fintype.card G : ℝ) ≠ 0 := by exact_mod_cast Fintype.card_ne_zero
    field_simp

/-- **Unchanged when the field is translated by whole cells** (any group element `a`) -/
theorem sf_translate_invariant (f : G → ℂ) (ψ : AddChar G ℂ) (a : G) :
    sf (fun g => f (g - a)) ψ = sf f ψ := by
  unfold sf
  have hd : dft (fun g => f (g - a)) ψ = ψ (-a) * dft f ψ := by
    unfold dft
    rw [Finset.mul_sum]
    rw [← Equiv.sum_comp (Equiv.addRight a) (fun g => f (g - a) * ψ (-g))]
    apply Finset.sum_congr rfl
    intro g _
    simp only [Equiv.coe_addRight, add_sub_cancel_right, neg_add, AddChar.map_add_eq_mul]
    ring
  have he : energy (fun g => f (g - a)) = energy f := by
    unfold energy
    exact Equiv.sum_comp (Equiv.subRight a) (fun g => ‖f g‖ ^ 2)
  rw [hd, he, norm_mul, AddChar.norm_apply, one_mul]

/-- **Unchanged under every symmetry of the grid** (group automorphism `σ`: reflections, axis
permutations together with the grid, …): the spectrum is re-indexed by the dual map. -/
theorem sf_comp_equiv (f : G → ℂ) (ψ : AddChar G ℂ) (σ : G ≃+ G) :
    sf (fun g => f (σ g)) ψ = sf f (ψ.compAddMonoidHom σ.symm.toAddMonoidHom) := by
  unfold sf
  have hd : dft (fun g => f (σ g)) ψ = dft f (ψ.compAddMonoidHom σ.symm.toAddMonoidHom) := by
    unfold dft
    rw [← Equiv.sum_comp σ.toEquiv (fun g => f g * (ψ.compAddMonoidHom σ.symm.toAddMonoidHom) (-g))]
    apply Finset.sum_congr rfl
    intro g _
    simp
  have he : energy (fun g => f (σ g)) = energy f := by
    unfold energy
    exact Equiv.sum_comp σ.toEquiv (fun g => ‖f g‖ ^ 2)
  rw [hd, he]

/-- for a real field, a wave vector and its negative carry the same value -/
theorem sf_real_symm (f : G → ℂ) (hreal : ∀ g, conj (f g) = f g) (ψ : AddChar G ℂ) :
    sf f ψ⁻¹ = sf f ψ := by
  unfold sf
  have : dft f ψ⁻¹ = conj (dft f ψ) := by
    unfold dft
    rw [map_sum]
    apply Finset.sum_congr rfl
    intro g _
    rw [map_mul, hreal g, AddChar.inv_apply, ← AddChar.map_neg_eq_conj]
  rw [this, Complex.norm_conj]

/-- hence **reflecting a real field leaves the structure factor unchanged, wave vector by wave
vector** -/
theorem sf_reflect_invariant (f : G → ℂ) (hreal : ∀ g, conj (f g) = f g) (ψ : AddChar G ℂ) :
    sf (fun g => f (-g)) ψ = sf f ψ := by
  have h := sf_comp_equiv f ψ (AddEquiv.neg G)
  simp only [AddEquiv.neg_apply] at h
  rw [h, ← sf_real_symm f hreal ψ]
  congr 1

/-- the permutation of the wave vectors induced by a symmetry `σ` of the grid: `ψ ↦ ψ ∘ σ⁻¹` -/
noncomputable def dualEquiv (σ : G ≃+ G) : AddChar G ℂ ≃ AddChar G ℂ where
  toFun ψ := ψ.compAddMonoidHom σ.symm.toAddMonoidHom
  invFun ψ := ψ.compAddMonoidHom σ.toAddMonoidHom
  left_inv ψ := by ext g; simp
  right_inv ψ := by ext g; simp

/-- **The structure factor as a multiset of (wave number, value) pairs is unchanged under every symmetry of the grid that preserves the
wave numbers** — reflections (`fftRep_neg`: `|k|` of `ψ⁻¹` equals that of `ψ`) and axis permutations together with the grid: the pairs are
the same, listed in another order.  This is the form in which the property states the invariance (the arrays returned are sorted by
nothing in particular). -/
theorem sf_multiset_invariant (f : G → ℂ) (σ : G ≃+ G) (kmag : AddChar G ℂ → ℝ)
    (hk : ∀ ψ : AddChar G ℂ, kmag (ψ.compAddMonoidHom σ.symm.toAddMonoidHom) = kmag ψ) :
    (Finset.univ : Finset (AddChar G ℂ)).val.map (fun ψ => (kmag ψ, sf (fun g => f (σ g)) ψ)) =
    (Finset.univ : Finset (AddChar G ℂ)).val.map (fun ψ => (kmag ψ, sf f ψ)) := by
  have h1 : ∀ ψ, (kmag ψ, sf (fun g => f (σ g)) ψ) = (fun χ => (kmag χ, sf f χ)) (dualEquiv σ ψ) := by
    intro ψ
    simp only [dualEquiv, Equiv.coe_fn_mk, sf_comp_equiv, hk]
  have h2 : (Finset.univ : Finset (AddChar G ℂ)).val.map (fun ψ => (kmag ψ, sf (fun g => f (σ g)) ψ)) =
      ((Finset.univ : Finset (AddChar G ℂ)).val.map (dualEquiv σ)).map (fun χ => (kmag χ, sf f χ)) := by
    rw [Multiset.map_map]
    exact Multiset.map_congr rfl (fun ψ _ => h1 ψ)
  rw [h2, Multiset.map_univ_val_equiv (dualEquiv σ)]

/-- Plancherel: the squared moduli of all Fourier coefficients add up to `N · Σ|f|²` -/
theorem parseval (f : G → ℂ) : ∑ ψ : AddChar G ℂ, ‖dft f ψ‖ ^ 2 = (Fintype.card G : ℝ) * energy f := by
  have key : ∑ ψ : AddChar G ℂ, dft f ψ * conj (dft f ψ) = (Fintype.card G : ℂ) * energyC f := by
    unfold dft energyC
    simp_rw [map_sum, Finset.sum_mul, Finset.mul_sum, map_mul]
    rw [Finset.sum_comm]
    apply Finset.sum_congr rfl
    intro g _
    rw [Finset.sum_comm]
    have : ∀ h : G, ∑ ψ : AddChar G ℂ, f g * ψ (-g) * (conj (f h) * conj (ψ (-h))) =
        f g * conj (f h) * ∑ ψ : AddChar G ℂ, ψ (h - g) := by
      intro h
      rw [Finset.mul_sum]
      apply Finset.sum_congr rfl
      intro ψ _
      rw [← AddChar.map_neg_eq_conj, neg_neg, sub_eq_add_neg, AddChar.map_add_eq_mul]
      ring
    simp_rw [this, AddChar.sum_apply_eq_ite, sub_eq_zero]
    rw [Finset.sum_eq_single g]
    · simp; ring
    · intro h _ hne; simp [hne]
    · intro hg; exact absurd (Finset.mem_univ g) hg
  have hre : ∀ z : ℂ, z * conj z = ((‖z‖ ^ 2 : ℝ) : ℂ) := by
    intro z; rw [Complex.mul_conj, Complex.normSq_eq_norm_sq]
  simp_rw [hre] at key
  rw [energyC_eq] at key
  exact_mod_cast key

/-- **Sums to one minus the squared-mean fraction of the field** (Parseval, zero mode dropped):
`Σ_{ψ≠0} sf(ψ) = 1 − |Σ f|² / (N Σ |f|²) = 1 − N·mean² / Σ f²` -/
theorem sf_sum (f : G → ℂ) (hf : energy f ≠ 0) :
    ∑ ψ ∈ (Finset.univ.erase (0 : AddChar G ℂ)), sf f ψ =
      1 - ‖∑ g, f g‖ ^ 2 / ((Fintype.card G : ℝ) * energy f) := by
  have hN : (Fintype.card G : ℝ) ≠ 0 := by exact_mod_cast Fintype.card_ne_zero
  have hz : dft f 0 = ∑ g, f g := by simp [dft]
  unfold sf
  rw [← Finset.sum_div, Finset.sum_erase_eq_sub (Finset.mem_univ _), parseval, hz]
  field_simp

/-! ### plane waves: the spectrum is two equal peaks at ± the wave vector (used by C17) -/

omit [DecidableEq G] in
/-- DFT of a single character: `N` at that character, 0 elsewhere (orthogonality of characters) -/
theorem dft_char (χ ψ : AddChar G ℂ) :
    dft (fun g => χ g) ψ = if χ = ψ then (Fintype.card G : ℂ) else 0 := by
  unfold dft
  have h : ∀ g, χ g * ψ (-g) = (χ * ψ⁻¹) g := by
    intro g; rw [AddChar.mul_apply, AddChar.inv_apply]
  simp_rw [h]
  rw [AddChar.sum_eq_ite]
  by_cases hc : χ = ψ
  · subst hc; simp [← AddChar.one_eq_zero]
  · have : χ * ψ⁻¹ ≠ 0 := by
      intro h0
      apply hc
      have : χ * ψ⁻¹ = 1 := h0
      exact mul_inv_eq_one.mp this
    simp [hc, this]

omit [DecidableEq G] in
theorem dft_add (f h : G → ℂ) (ψ : AddChar G ℂ) : dft (fun g => f g + h g) ψ = dft f ψ + dft h ψ := by
  unfold dft; rw [← Finset.sum_add_distrib]; apply Finset.sum_congr rfl; intro g _; ring

omit [DecidableEq G] in
theorem dft_smul (c : ℂ) (f : G → ℂ) (ψ : AddChar G ℂ) : dft (fun g => c * f g) ψ = c * dft f ψ := by
  unfold dft; rw [Finset.mul_sum]; apply Finset.sum_congr rfl; intro g _; ring

/-- a real plane wave with complex amplitude `a` (modulus = half the amplitude, argument = phase) along the wave vector `χ₀`,
on a constant offset `c`:  `f(g) = a χ₀(g) + conj a · χ₀(−g) + c = 2|a| cos(k₀·g + arg a) + c` -/
noncomputable def planeWave (a : ℂ) (χ₀ : AddChar G ℂ) (c : ℂ) (g : G) : ℂ := a * χ₀ g + conj a * χ₀⁻¹ g + c

omit [DecidableEq G] in
theorem dft_planeWave (a : ℂ) (χ₀ : AddChar G ℂ) (c : ℂ) (ψ : AddChar G ℂ) :
    dft (planeWave a χ₀ c) ψ = (Fintype.card G : ℂ) *
      ((if χ₀ = ψ then a else 0) + (if χ₀⁻¹ = ψ then conj a else 0) + (if ψ = 0 then c else 0)) := by
  have hc : dft (fun _ : G => c) ψ = if ψ = 0 then (Fintype.card G : ℂ) * c else 0 := by
    have h1 : dft (fun _ : G => c) ψ = c * dft (fun g => (0 : AddChar G ℂ) g) ψ := by
      rw [← dft_smul]; simp
    rw [h1, dft_char]
    by_cases h : ψ = 0
    · subst h; simp [mul_comm]
    · simp [h, Ne.symm h]
  have : planeWave a χ₀ c = fun g => (a * χ₀ g + conj a * χ₀⁻¹ g) + c := rfl
  rw [this, dft_add, dft_add, dft_smul, dft_smul, dft_char, dft_char, hc]
  split_ifs <;> ring

/-- **The spectrum of a plane wave is supported on ± its wave vector**: every other non-zero wave vector carries nothing -/
theorem plane_wave_support (a : ℂ) (χ₀ : AddChar G ℂ) (c : ℂ) (ψ : AddChar G ℂ) (h0 : ψ ≠ 0) (h1 : ψ ≠ χ₀) (h2 : ψ ≠ χ₀⁻¹) :
    sf (planeWave a χ₀ c) ψ = 0 := by
  unfold sf
  rw [dft_planeWave]
  simp [h0, Ne.symm h1, Ne.symm h2]

/-- the two peaks have the same height `|a|² N / Σ f²`, positive for a non-trivial wave -/
theorem plane_wave_peaks (a : ℂ) (χ₀ : AddChar G ℂ) (c : ℂ) (hχ : χ₀ ≠ 0) (hne : χ₀ ≠ χ₀⁻¹) :
    sf (planeWave a χ₀ c) χ₀ = ‖a‖ ^ 2 * (Fintype.card G : ℝ) / energy (planeWave a χ₀ c) ∧
    sf (planeWave a χ₀ c) χ₀⁻¹ = sf (planeWave a χ₀ c) χ₀ := by
  have hN : (Fintype.card G : ℝ) ≠ 0 := by exact_mod_cast Fintype.card_ne_zero
  have hinv0 : χ₀⁻¹ ≠ 0 := by
    intro h; apply hχ; have : χ₀⁻¹ = 1 := h; exact inv_eq_one.mp this
  constructor
  · unfold sf
    rw [dft_planeWave]
    simp only [if_true, hχ, if_false, Ne.symm hne, add_zero, norm_mul, Complex.norm_natCast]
    by_cases hE : energy (planeWave a χ₀ c) = 0
    · simp [hE]
    · field_simp
  · unfold sf
    rw [dft_planeWave, dft_planeWave]
    simp [hχ, hinv0, hne, Ne.symm hne]


omit [DecidableEq G] in
/-- the plane wave is a REAL field when the offset is real (so it is in the domain of the property) -/
theorem planeWave_real (a : ℂ) (χ₀ : AddChar G ℂ) (c : ℝ) (g : G) :
    conj (planeWave a χ₀ (c : ℂ) g) = planeWave a χ₀ (c : ℂ) g := by
  unfold planeWave
  simp only [map_add, map_mul, Complex.conj_conj, Complex.conj_ofReal, AddChar.inv_apply]
  rw [← AddChar.map_neg_eq_conj, ← AddChar.map_neg_eq_conj, neg_neg]
  ring

/-! ### wave numbers: `2π · fftfreq(n, d = dx)`, i.e. `2π m / (n dx)` with `m` the centred representative -/

/-- `np.fft.fftfreq(n)[j] · n`: the representative of `j` in `(−n/2, n/2]`-ish, as numpy chooses it -/
def fftRep (n j : ℕ) : ℤ := if 2 * j < n + n % 2 then (j : ℤ) else (j : ℤ) - n

/-- wave number of index `j` along an axis with `n` cells of size `dx` (the `k2s` expression:
`fftfreq(n, d = dx / 2π)`) -/
noncomputable def waveNumber (n j : ℕ) (dx : ℝ) : ℝ := (fftRep n j : ℝ) / (n * (dx / (2 * Real.pi)))

/-- **Wave numbers scale inversely with the grid's physical size** -/
theorem k_scales_inverse (n j : ℕ) (dx lam : ℝ) (hl : lam ≠ 0) :
    waveNumber n j (lam * dx) = waveNumber n j dx / lam := by
  unfold waveNumber
  by_cases hn : (n : ℝ) = 0
  · simp [hn]
  · by_cases hd : dx = 0
    · simp [hd]
    · have := Real.pi_ne_zero
      field_simp

/-- they are the discrete Fourier wave numbers `2π m / L` of a box of length `L = n dx` -/
theorem k_is_dft_wavenumber (n j : ℕ) (dx : ℝ) (hn : n ≠ 0) (hd : dx ≠ 0) :
    waveNumber n j dx = 2 * Real.pi * (fftRep n j : ℝ) / (n * dx) := by
  unfold waveNumber
  have : (n : ℝ) ≠ 0 := by exact_mod_cast hn
  have := Real.pi_ne_zero
  field_simp

/-- the wave numbers of `ψ` and `ψ⁻¹` have opposite representatives (hence equal modulus), except at the Nyquist index of an even axis -/
theorem fftRep_neg (n j : ℕ) (_hj : 0 < j) (hjn : j < n) (hny : 2 * j ≠ n) : fftRep n (n - j) = - fftRep n j := by
  unfold fftRep
  have h2 : n % 2 = 0 ∨ n % 2 = 1 := Nat.mod_two_eq_zero_or_one n
  split_ifs <;> push_cast [Nat.cast_sub hjn.le] <;> omega

/-! ### option logic of `get_structure_factor` (for every smoother) -/

inductive Smoothing where
  | none | auto | width (σ : ℝ)

/-- is smoothing switched on?  (`None`, `"none"` and `0` switch it off) -/
noncomputable def smoothingActive : Smoothing → Bool
  | .none => false
  | .auto => true
  | .width σ => decide (σ ≠ 0)

/-- the (k, sf) arrays returned, given the raw spectrum, an arbitrary smoother evaluated at
requested wave numbers, the automatic wave-number grid, and the options -/
noncomputable def sfOutput (kRaw sfRaw : List ℝ) (smooth : ℝ → List ℝ → List ℝ) (autoSigma : ℝ) (autoK : List ℝ)
    (s : Smoothing) (waveNumbers : Option (List ℝ)) (addZero : Bool) : List ℝ × List ℝ :=
  let core : List ℝ × List ℝ :=
    if smoothingActive s then
      let σ := match s with | .width σ => σ | _ => autoSigma
      let ks := match waveNumbers with | some ks => ks | none => autoK
      (ks, smooth σ ks)
    else (kRaw, sfRaw)
  if addZero then (0 :: core.1, 1 :: core.2) else core

/-- **The smoothed variant evaluated at requested wave numbers returns exactly those wave numbers** -/
theorem smoothed_returns_requested (kRaw sfRaw : List ℝ) (smooth : ℝ → List ℝ → List ℝ) (aσ : ℝ) (aK ks : List ℝ)
    (s : Smoothing) (hs : smoothingActive s = true) :
    (sfOutput kRaw sfRaw smooth aσ aK s (some ks) false).1 = ks := by
  simp [sfOutput, hs]

/-- **Adding the zero mode prepends the pair (0, 1)** whatever the other options are -/
theorem add_zero_prepends (kRaw sfRaw : List ℝ) (smooth : ℝ → List ℝ → List ℝ) (aσ : ℝ) (aK : List ℝ)
    (s : Smoothing) (w : Option (List ℝ)) :
    sfOutput kRaw sfRaw smooth aσ aK s w true =
      (0 :: (sfOutput kRaw sfRaw smooth aσ aK s w false).1, 1 :: (sfOutput kRaw sfRaw smooth aσ aK s w false).2) := by
  simp [sfOutput]

/-- without smoothing the raw spectrum is returned and requested wave numbers are ignored -/
theorem unsmoothed_is_raw (kRaw sfRaw : List ℝ) (smooth : ℝ → List ℝ → List ℝ) (aσ : ℝ) (aK : List ℝ)
    (s : Smoothing) (hs : smoothingActive s = false) (w : Option (List ℝ)) :
    sfOutput kRaw sfRaw smooth aσ aK s w false = (kRaw, sfRaw) := by
  simp [sfOutput, hs]

/-- non-vacuity: on `ZMod 4` the field (1,0,0,0) has a flat spectrum summing to 1 − 1/4 -/
example : (fftRep 4 0, fftRep 4 1, fftRep 4 2, fftRep 4 3, fftRep 5 2, fftRep 5 3) = (0, 1, -2, -1, 2, -2) := by decide

end DV.C16
