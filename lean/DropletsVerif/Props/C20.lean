/-
  C20 — Collections stay aligned and own their droplets under any sequence of edits.
  Theorems about the heap model Model/Coll.lean, which the correspondence check ties to the real
  classes by comparing values, order, times, dtypes AND alias structure after every operation of
  random / exhaustive operation sequences.
-/
import DropletsVerif.Model.Coll
import DropletsVerif.Model.Stats
import Mathlib.Tactic

namespace DV.C20
open DV.Coll

/-! ### allocation creates fresh, independent objects -/

theorem alloc_ref (s : St) (v : Val) : (alloc s v).2 = s.heap.length := rfl
theorem alloc_heap (s : St) (v : Val) : (alloc s v).1.heap = s.heap ++ [v] := rfl

theorem val_alloc_old (s : St) (v : Val) (r : Ref) (h : r < s.heap.length) :
    (alloc s v).1.val r = s.val r := by
  simp [St.val, alloc, List.getD, List.getElem?_append_left h]

theorem val_alloc_new (s : St) (v : Val) : (alloc s v).1.val (alloc s v).2 = v := by
  simp [St.val, alloc, List.getD]

/-- writing through one object never changes the value seen through another object -/
theorem setVal_other (heap : List Val) (r r' : Ref) (f : Val → Val) (h : r ≠ r') :
    (heap.modify r f).getD r' ⟨0, 0, 0⟩ = heap.getD r' ⟨0, 0, 0⟩ := by
  simp [List.getD, List.getElem?_modify, h]

/-- **Copy on insertion.**  `append(d)` with the default `copy=True` stores a FRESH object (one
that nothing else refers to: its reference is the next unused heap cell) carrying the value of
`d`; the emulsion's other members and every other object are untouched. -/
theorem emInsert_copy (s : St) (e : Nat) (r : Ref) (force : Bool) (m : List Ref) (dt : Option Nat)
    (he : s.ems[e]? = some (m, dt)) (s1 : St) (h : emInsert s e r true force = (s1, .ok)) :
    ∃ dt', s1.ems[e]? = some (m ++ [s.heap.length], dt') ∧ s1.heap = s.heap ++ [s.val r] ∧
      s1.vars = s.vars ∧ s1.trs = s.trs ∧ s1.tcs = s.tcs ∧
      ∀ e', e' ≠ e → s1.ems[e']? = s.ems[e']? := by
  unfold emInsert at h
  rw [he] at h
  simp only at h
  split at h
  · cases h
  · simp only [if_true, Prod.mk.injEq] at h
    obtain ⟨h1, _⟩ := h
    subst h1
    have hlt : e < s.ems.length := by
      by_contra hc
      rw [List.getElem?_eq_none (Nat.le_of_not_lt hc)] at he
      cases he
    refine ⟨some (dt.getD (s.val r).layout), by simp [hlt], rfl, rfl, rfl, rfl, ?_⟩
    intro e' hne
    simp [List.getElem?_set, Ne.symm hne]

/-- **Isolation of an inserted copy** (both directions): after `append(d)` with default settings,
assigning to the caller's `d` does not change the value stored in the new slot, and assigning to
the stored droplet does not change `d` — for any allocated `d`. -/
theorem insert_copy_isolated (s : St) (r : Ref) (hr : r < s.heap.length) (f : Val → Val) :
    let heap1 := s.heap ++ [s.val r]          -- heap after the copying insert
    let slot := s.heap.length                 -- the stored object
    ((heap1.modify r f).getD slot ⟨0, 0, 0⟩ = s.val r) ∧
    ((heap1.modify slot f).getD r ⟨0, 0, 0⟩ = s.val r) := by
  intro heap1 slot
  have hne : r ≠ slot := Nat.ne_of_lt hr
  constructor
  · rw [setVal_other _ _ _ f hne]
    simp [heap1, slot, List.getD]
  · rw [setVal_other _ _ _ f (Ne.symm hne)]
    simp [heap1, St.val, List.getD, List.getElem?_append_left hr]

theorem allocAll_go (rs : List Ref) (s : St) (acc : List Ref) (base : St)
    (hbase : ∀ r ∈ rs, r < base.heap.length)
    (hpre : ∃ ext, s.heap = base.heap ++ ext) :
    let res := rs.foldl (fun (a : St × List Ref) r =>
      let p := alloc a.1 (a.1.val r)
      (p.1, a.2 ++ [p.2])) (s, acc)
    res.2 = acc ++ List.range' s.heap.length rs.length ∧
    res.1.heap = s.heap ++ rs.map base.val ∧
    res.1.vars = s.vars ∧ res.1.ems = s.ems ∧ res.1.emVars = s.emVars ∧ res.1.tcs = s.tcs ∧ res.1.trs = s.trs := by
  induction rs generalizing s acc with
  | nil => simp
  | cons r rs ih =>
    obtain ⟨ext, hext⟩ := hpre
    have hr : r < base.heap.length := hbase r List.mem_cons_self
    have hval : s.val r = base.val r := by
      simp [St.val, hext, List.getD, List.getElem?_append_left hr]
    simp only [List.foldl_cons]
    have := ih (alloc s (s.val r)).1 (acc ++ [(alloc s (s.val r)).2])
      (fun r' hr' => hbase r' (List.mem_cons_of_mem _ hr'))
      ⟨ext ++ [s.val r], by simp [alloc, hext]⟩
    obtain ⟨h1, h2, h3⟩ := this
    refine ⟨?_, ?_, h3⟩
    · rw [h1]
      simp [alloc, List.range'_succ]
    · rw [h2]
      simp [alloc, hval]

/-- **Copies and slices consist of fresh objects**: copying the objects `rs` yields the next
`rs.length` unused heap cells, carrying the values of `rs`; nothing existing is modified.  Hence a
copy / slice / sum of emulsions, a sliced time course or track shares no droplet with its source. -/
theorem allocAll_fresh (s : St) (rs : List Ref) (h : ∀ r ∈ rs, r < s.heap.length) :
    (allocAll s rs).2 = List.range' s.heap.length rs.length ∧
    (allocAll s rs).1.heap = s.heap ++ rs.map s.val ∧
    (allocAll s rs).1.vars = s.vars ∧ (allocAll s rs).1.ems = s.ems ∧
    (allocAll s rs).1.tcs = s.tcs ∧ (allocAll s rs).1.trs = s.trs := by
  have := allocAll_go rs s [] s h ⟨[], by simp⟩
  simp only [List.nil_append] at this
  obtain ⟨h1, h2, h3, h4, _, h6, h7⟩ := this
  exact ⟨h1, h2, h3, h4, h6, h7⟩

theorem fresh_disjoint (s : St) (rs : List Ref) (h : ∀ r ∈ rs, r < s.heap.length) :
    ∀ r ∈ (allocAll s rs).2, ∀ r' ∈ rs, r ≠ r' := by
  intro r hr r' hr'
  rw [(allocAll_fresh s rs h).1] at hr
  have h1 : s.heap.length ≤ r := (List.mem_range'_1.mp hr).1
  have h2 : r' < s.heap.length := h r' hr'
  intro heq
  rw [heq] at h1
  exact absurd h2 (Nat.not_lt.mpr h1)

/-! ### times and members stay aligned -/

def Aligned (s : St) : Prop :=
  (∀ tc ∈ s.tcs, tc.1.length = tc.2.length) ∧ (∀ tr ∈ s.trs, tr.1.length = tr.2.length)

/-- helper operations do not touch time courses or tracks -/
def SameTT (a b : St) : Prop := a.tcs = b.tcs ∧ a.trs = b.trs

theorem emInsert_sameTT (s : St) (e : Nat) (r : Ref) (c f : Bool) : SameTT (emInsert s e r c f).1 s := by
  unfold emInsert
  cases s.ems[e]? with
  | none => exact ⟨rfl, rfl⟩
  | some p =>
    obtain ⟨m, dt⟩ := p
    simp only
    split
    · exact ⟨rfl, rfl⟩
    · split <;> exact ⟨rfl, rfl⟩

theorem foldl_sameTT {β : Type} (g : St → β → St) (hg : ∀ a x, SameTT (g a x) a) (l : List β) (s : St) :
    SameTT (l.foldl g s) s := by
  induction l generalizing s with
  | nil => exact ⟨rfl, rfl⟩
  | cons x l ih =>
    obtain ⟨h1, h2⟩ := ih (g s x)
    obtain ⟨h3, h4⟩ := hg s x
    exact ⟨h1.trans h3, h2.trans h4⟩

theorem emOfRefs_sameTT (s : St) (rs : List Ref) : SameTT (emOfRefs s rs).1 s := by
  unfold emOfRefs
  simp only
  obtain ⟨h1, h2⟩ := foldl_sameTT (fun acc r => (emInsert acc s.ems.length r true false).1)
    (fun a x => emInsert_sameTT a _ x true false) rs (newEm s)
  exact ⟨h1, h2⟩

theorem allocAll_sameTT (s : St) (rs : List Ref) : SameTT (allocAll s rs).1 s := by
  unfold allocAll
  have : ∀ (l : List Ref) (a : St × List Ref), SameTT (l.foldl (fun (acc : St × List Ref) r =>
      let (s', r') := alloc acc.1 (acc.1.val r)
      (s', acc.2 ++ [r'])) a).1 a.1 := by
    intro l
    induction l with
    | nil => intro a; exact ⟨rfl, rfl⟩
    | cons x l ih =>
      intro a
      simp only [List.foldl_cons]
      obtain ⟨h1, h2⟩ := ih _
      exact ⟨h1, h2⟩
  exact this rs (s, [])

theorem aligned_of_sameTT {a b : St} (h : SameTT a b) (hb : Aligned b) : Aligned a := by
  obtain ⟨h1, h2⟩ := h
  unfold Aligned
  rw [h1, h2]; exact hb

theorem aligned_set_tcs (s : St) (i : Nat) (p : List Int × List Nat) (hs : Aligned s)
    (hp : p.1.length = p.2.length) : Aligned { s with tcs := s.tcs.set i p } := by
  refine ⟨?_, hs.2⟩
  intro tc htc
  rcases List.mem_or_eq_of_mem_set htc with h | h
  · exact hs.1 tc h
  · rw [h]; exact hp

theorem aligned_set_trs (s : St) (i : Nat) (p : List Int × List Ref) (hs : Aligned s)
    (hp : p.1.length = p.2.length) : Aligned { s with trs := s.trs.set i p } := by
  refine ⟨hs.1, ?_⟩
  intro tr htr
  rcases List.mem_or_eq_of_mem_set htr with h | h
  · exact hs.2 tr h
  · rw [h]; exact hp

theorem sameTT_trans {a b c : St} (h1 : SameTT a b) (h2 : SameTT b c) : SameTT a c :=
  ⟨h1.1.trans h2.1, h1.2.trans h2.2⟩

theorem emOfOwned_sameTT (s : St) (rs : List Ref) : SameTT (emOfOwned s rs).1 s := by
  unfold emOfOwned
  simp only
  obtain ⟨h1, h2⟩ := foldl_sameTT (fun acc r => (emInsert acc s.ems.length r false false).1)
    (fun a x => emInsert_sameTT a _ x false false) rs (newEm s)
  exact ⟨h1, h2⟩

theorem emCopyOf_sameTT (s : St) (src : List Ref) : SameTT (emCopyOf s src).1 s := by
  unfold emCopyOf
  exact sameTT_trans (emOfOwned_sameTT _ _) (allocAll_sameTT s src)

theorem tcStored_sameTT (s : St) (eo : Nat) (copy : Bool) : SameTT (tcStored s eo copy).1 s := by
  unfold tcStored
  simp only
  cases copy
  · exact emOfRefs_sameTT _ _
  · exact sameTT_trans (emCopyOf_sameTT _ _) (emOfRefs_sameTT _ _)

theorem tcSliceMembers_spec (part : List Nat) (s : St) (acc : List Nat) :
    let res := part.foldl (fun (a : St × List Nat) eo =>
      let p1 := emOfRefs a.1 (a.1.ems.getD eo ([], none)).1
      let p2 := tcStored p1.1 p1.2 true
      (p2.1, a.2 ++ [p2.2])) (s, acc)
    SameTT res.1 s ∧ res.2.length = acc.length + part.length := by
  induction part generalizing s acc with
  | nil => exact ⟨⟨rfl, rfl⟩, by simp⟩
  | cons eo part ih =>
    simp only [List.foldl_cons]
    obtain ⟨h1, h2⟩ := ih (tcStored (emOfRefs s (s.ems.getD eo ([], none)).1).1
      (emOfRefs s (s.ems.getD eo ([], none)).1).2 true).1
      (acc ++ [(tcStored (emOfRefs s (s.ems.getD eo ([], none)).1).1
      (emOfRefs s (s.ems.getD eo ([], none)).1).2 true).2])
    refine ⟨sameTT_trans h1 (sameTT_trans (tcStored_sameTT _ _ _) (emOfRefs_sameTT _ _)), ?_⟩
    rw [h2]; simp; omega

theorem tcSliceMembers_sameTT (s : St) (part : List Nat) :
    SameTT (tcSliceMembers s part).1 s ∧ (tcSliceMembers s part).2.length = part.length := by
  have := tcSliceMembers_spec part s []
  simpa [tcSliceMembers] using this

theorem aligned_append_tc (s : St) (p : List Int × List Nat) (hs : Aligned s) (hp : p.1.length = p.2.length) :
    Aligned { s with tcs := s.tcs ++ [p] } := by
  refine ⟨?_, hs.2⟩
  intro tc htc
  rcases List.mem_append.mp htc with h | h
  · exact hs.1 tc h
  · have : tc = p := by simpa using h
    rw [this]; exact hp

theorem aligned_append_tr (s : St) (p : List Int × List Ref) (hs : Aligned s) (hp : p.1.length = p.2.length) :
    Aligned { s with trs := s.trs ++ [p] } := by
  refine ⟨hs.1, ?_⟩
  intro tr htr
  rcases List.mem_append.mp htr with h | h
  · exact hs.2 tr h
  · have : tr = p := by simpa using h
    rw [this]; exact hp

/-- **Alignment is preserved by every operation** -/
theorem step_aligned (s : St) (op : Op) (h : Aligned s) : Aligned (step s op).1 := by
  cases op with
  | newDrop v => exact h
  | setVar x radius =>
    simp only [step]; split <;> exact h
  | newEm => exact h
  | emAppend e x copy force =>
    simp only [step]; split
    · exact aligned_of_sameTT (emInsert_sameTT _ _ _ _ _) h
    · exact h
  | emExtend e e2 =>
    simp only [step]; split
    · exact aligned_of_sameTT (foldl_sameTT _ (fun a x => emInsert_sameTT a _ x true false) _ s) h
    · exact h
  | emCopy e minR =>
    simp only [step]; split
    · exact aligned_of_sameTT (emCopyOf_sameTT s _) h
    · exact h
  | emSlice e lo hi =>
    simp only [step]; split
    · exact aligned_of_sameTT (emOfRefs_sameTT s _) h
    · exact h
  | emAdd e1 e2 =>
    simp only [step]; split
    · exact aligned_of_sameTT (emOfRefs_sameTT s _) h
    · exact h
  | emGet e i =>
    simp only [step]; split
    · split <;> exact h
    · exact h
  | emSetMember e i radius =>
    simp only [step]; split
    · split <;> exact h
    · exact h
  | emRemoveSmall e minR =>
    simp only [step]; split <;> exact h
  | emClear e =>
    simp only [step]; split <;> exact h
  | emLink e =>
    simp only [step]; split <;> exact h
  | newTc => exact aligned_append_tc s ([], []) h rfl
  | tcAppend tc e time copy =>
    simp only [step]; split
    · rename_i times members eo htc _
      have hal : times.length = members.length := by
        have := List.mem_of_getElem? htc
        exact h.1 _ this
      have h2 : Aligned (tcStored s eo copy).1 := aligned_of_sameTT (tcStored_sameTT s eo copy) h
      exact aligned_set_tcs _ tc _ h2 (by simp [hal])
    · exact h
  | tcGet tc i =>
    simp only [step]; split
    · split <;> exact h
    · exact h
  | tcSlice tc lo hi =>
    simp only [step]; split
    · split
      · exact h
      · rename_i hlen
        refine aligned_append_tc _ _ ?_ (by simpa using hlen)
        exact aligned_of_sameTT (tcSliceMembers_sameTT s _).1 h
    · exact h
  | tcClear tc =>
    simp only [step]; split
    · exact aligned_set_tcs s tc ([], []) h rfl
    · exact h
  | newTr => exact aligned_append_tr s ([], []) h rfl
  | trAppend tr x time =>
    simp only [step]; split
    · rename_i times drops r htr _
      have hal : times.length = drops.length := by
        have := List.mem_of_getElem? htr
        exact h.2 _ this
      repeat' split
      all_goals first | exact h | exact aligned_set_trs _ tr _ h (by simp [hal])
    · exact h
  | trGet tr i =>
    simp only [step]; split
    · split <;> exact h
    · exact h
  | trSlice tr lo hi =>
    simp only [step]; split
    · split
      · exact h
      · rename_i hlen
        refine aligned_append_tr _ _ ?_ (by simpa using hlen)
        exact aligned_of_sameTT (allocAll_sameTT s _) h
    · exact h

/-- **Times and members have equal length after every operation sequence** (from the empty state) -/
theorem times_members_aligned (ops : List Op) : Aligned (run ops).1 := by
  have key : ∀ (ops : List Op) (acc : St × List Res), Aligned acc.1 →
      Aligned (ops.foldl (fun (acc : St × List Res) op =>
        let (s, r) := step acc.1 op
        (s, acc.2 ++ [r])) acc).1 := by
    intro ops
    induction ops with
    | nil => intro acc h; exact h
    | cons op ops ih =>
      intro acc h
      simp only [List.foldl_cons]
      exact ih _ (step_aligned acc.1 op h)
  exact key ops (St.empty, []) ⟨by simp [St.empty], by simp [St.empty]⟩

/-- the default time of an appended member: 0 for the first, last + 1 afterwards -/
theorem defaultTime_spec (ts : List Int) (t : Int) :
    defaultTime [] = 0 ∧ defaultTime (ts ++ [t]) = t + 1 := by
  simp [defaultTime]

/-- consistency requested: a droplet whose layout differs from the emulsion's dtype is rejected and
the state is unchanged -/
theorem consistency_rejects (s : St) (e : Nat) (r : Ref) (copy : Bool) (m : List Ref) (d : Nat)
    (he : s.ems[e]? = some (m, some d)) (hne : d ≠ (s.val r).layout) :
    emInsert s e r copy true = (s, .err "ValueError") := by
  unfold emInsert
  rw [he]
  simp [hne]

/-- non-vacuity: a concrete sequence with aliasing through `em[0]`, a copying append, a mutation
of the caller's droplet and a time-course append -/
example :
    let s := (run [.newDrop ⟨1, 2, 3⟩, .newEm, .emAppend 0 0 true false, .emGet 0 0, .setVar 0 9,
                   .newTc, .tcAppend 0 0 none true]).1
    s.vars = [0, 1] ∧ s.heap.map (·.radius) = [9, 3, 3, 3] ∧ s.tcs = [([0], [2])] := by decide

end DV.C20

/-! ### summary queries (Model/Stats.lean): definitions, independence of the member order, nearest-time lookup -/

namespace DV.C20
open DV.Stats

theorem foldl_add (xs : List ℚ) (a : ℚ) : xs.foldl (· + ·) a = a + xs.sum := by
  induction xs generalizing a with
  | nil => simp
  | cons x xs ih => simp only [List.foldl_cons, List.sum_cons, ih]; ring

theorem sum_eq (xs : List ℚ) : DV.Stats.sum xs = xs.sum := by
  unfold DV.Stats.sum; rw [foldl_add]; ring

/-- **count, mean and spread do not depend on the order of the members** -/
theorem mean_perm {xs ys : List ℚ} (h : xs.Perm ys) : mean xs = mean ys := by
  unfold mean; rw [sum_eq, sum_eq, h.sum_eq, h.length_eq]

theorem variance_perm {xs ys : List ℚ} (h : xs.Perm ys) : variance xs = variance ys := by
  unfold variance
  rw [sum_eq, sum_eq, mean_perm h, h.length_eq]
  congr 1
  exact (h.map _).sum_eq

theorem select_perm (b : Bool) {xs ys : List ℚ} (h : xs.Perm ys) : (select b xs).Perm (select b ys) := by
  unfold select; split
  · exact h
  · exact h.filter _

/-- the vanished droplets (radius 0) are exactly what `incl_vanished = False` leaves out -/
theorem select_spec (rs : List ℚ) (x : ℚ) : x ∈ select false rs ↔ x ∈ rs ∧ 0 < x := by
  unfold select; simp

theorem weightedWidth_perm {xs ys : List (ℚ × ℚ)} (h : xs.Perm ys) : weightedWidth xs = weightedWidth ys := by
  unfold weightedWidth
  simp only [sum_eq]
  rw [(h.map _).sum_eq, (h.map (fun p : ℚ × ℚ => p.1 * p.2)).sum_eq]

/-- definition of the area-weighted width -/
theorem weightedWidth_def (ws : List (ℚ × ℚ)) (h : (ws.map (·.2)).sum ≠ 0) :
    weightedWidth ws = some ((ws.map fun p => p.1 * p.2).sum / (ws.map (·.2)).sum) := by
  unfold weightedWidth
  simp only [sum_eq]
  rw [if_neg (by simpa using h)]

theorem foldl_min_spec (xs : List ℚ) (a : ℚ) :
    let m := xs.foldl (fun a b => if b < a then b else a) a
    (m = a ∨ m ∈ xs) ∧ m ≤ a ∧ ∀ x ∈ xs, m ≤ x := by
  induction xs generalizing a with
  | nil => simp
  | cons x xs ih =>
    simp only [List.foldl_cons]
    by_cases hx : x < a
    · simp only [if_pos hx]
      obtain ⟨h1, h2, h3⟩ := ih x
      refine ⟨?_, le_trans h2 hx.le, ?_⟩
      · rcases h1 with h | h
        · exact Or.inr (by rw [h]; exact List.mem_cons_self)
        · exact Or.inr (List.mem_cons_of_mem _ h)
      · intro y hy
        rcases List.mem_cons.mp hy with rfl | hy
        · exact h2
        · exact h3 y hy
    · simp only [if_neg hx]
      obtain ⟨h1, h2, h3⟩ := ih a
      refine ⟨?_, h2, ?_⟩
      · rcases h1 with h | h
        · exact Or.inl h
        · exact Or.inr (List.mem_cons_of_mem _ h)
      · intro y hy
        rcases List.mem_cons.mp hy with rfl | hy
        · exact le_trans h2 (not_lt.mp hx)
        · exact h3 y hy

/-- the lower end of the bounding box is the smallest member -/
theorem minList_spec (l : List ℚ) (m : ℚ) (h : minList l = some m) : m ∈ l ∧ ∀ x ∈ l, m ≤ x := by
  cases l with
  | nil => simp [minList] at h
  | cons a xs =>
    simp only [minList, Option.some.injEq] at h
    obtain ⟨h1, h2, h3⟩ := foldl_min_spec xs a
    rw [h] at h1 h2 h3
    constructor
    · rcases h1 with h | h
      · rw [h]; exact List.mem_cons_self
      · exact List.mem_cons_of_mem _ h
    · intro x hx
      rcases List.mem_cons.mp hx with rfl | hx
      · exact h2
      · exact h3 x hx

theorem minList_isSome (l : List ℚ) (h : l ≠ []) : ∃ m, minList l = some m := by
  cases l with
  | nil => exact absurd rfl h
  | cons a xs => exact ⟨_, rfl⟩

theorem minList_perm {xs ys : List ℚ} (h : xs.Perm ys) : minList xs = minList ys := by
  by_cases hx : xs = []
  · subst hx; rw [h.nil_eq]
  · have hy : ys ≠ [] := fun hy => hx (by rw [hy] at h; exact h.eq_nil)
    obtain ⟨m1, e1⟩ := minList_isSome xs hx
    obtain ⟨m2, e2⟩ := minList_isSome ys hy
    obtain ⟨a1, a2⟩ := minList_spec xs m1 e1
    obtain ⟨b1, b2⟩ := minList_spec ys m2 e2
    have : m1 = m2 := le_antisymm (a2 m2 (h.mem_iff.mpr b1)) (b2 m1 (h.mem_iff.mp a1))
    rw [e1, e2, this]

theorem foldl_max_spec (xs : List ℚ) (a : ℚ) :
    let m := xs.foldl (fun a b => if a < b then b else a) a
    (m = a ∨ m ∈ xs) ∧ a ≤ m ∧ ∀ x ∈ xs, x ≤ m := by
  induction xs generalizing a with
  | nil => simp
  | cons x xs ih =>
    simp only [List.foldl_cons]
    by_cases hx : a < x
    · simp only [if_pos hx]
      obtain ⟨h1, h2, h3⟩ := ih x
      refine ⟨?_, le_trans hx.le h2, ?_⟩
      · rcases h1 with h | h
        · exact Or.inr (by rw [h]; exact List.mem_cons_self)
        · exact Or.inr (List.mem_cons_of_mem _ h)
      · intro y hy
        rcases List.mem_cons.mp hy with rfl | hy
        · exact h2
        · exact h3 y hy
    · simp only [if_neg hx]
      obtain ⟨h1, h2, h3⟩ := ih a
      refine ⟨?_, h2, ?_⟩
      · rcases h1 with h | h
        · exact Or.inl h
        · exact Or.inr (List.mem_cons_of_mem _ h)
      · intro y hy
        rcases List.mem_cons.mp hy with rfl | hy
        · exact le_trans (not_lt.mp hx) h2
        · exact h3 y hy

theorem maxList_spec (l : List ℚ) (m : ℚ) (h : maxList l = some m) : m ∈ l ∧ ∀ x ∈ l, x ≤ m := by
  cases l with
  | nil => simp [maxList] at h
  | cons a xs =>
    simp only [maxList, Option.some.injEq] at h
    obtain ⟨h1, h2, h3⟩ := foldl_max_spec xs a
    rw [h] at h1 h2 h3
    constructor
    · rcases h1 with h | h
      · rw [h]; exact List.mem_cons_self
      · exact List.mem_cons_of_mem _ h
    · intro x hx
      rcases List.mem_cons.mp hx with rfl | hx
      · exact h2
      · exact h3 x hx

theorem maxList_perm {xs ys : List ℚ} (h : xs.Perm ys) : maxList xs = maxList ys := by
  by_cases hx : xs = []
  · subst hx; rw [h.nil_eq]
  · have hy : ys ≠ [] := fun hy => hx (by rw [hy] at h; exact h.eq_nil)
    obtain ⟨m1, e1⟩ : ∃ m, maxList xs = some m := by cases xs with | nil => exact absurd rfl hx | cons a t => exact ⟨_, rfl⟩
    obtain ⟨m2, e2⟩ : ∃ m, maxList ys = some m := by cases ys with | nil => exact absurd rfl hy | cons a t => exact ⟨_, rfl⟩
    obtain ⟨a1, a2⟩ := maxList_spec xs m1 e1
    obtain ⟨b1, b2⟩ := maxList_spec ys m2 e2
    have : m1 = m2 := le_antisymm (b2 m1 (h.mem_iff.mp a1)) (a2 m2 (h.mem_iff.mpr b1))
    rw [e1, e2, this]

/-- **the bounding box does not depend on the order of the members** -/
theorem bbox_perm {xs ys : List (ℚ × ℚ)} (h : xs.Perm ys) : lower xs = lower ys ∧ upper xs = upper ys :=
  ⟨minList_perm (h.map _), maxList_perm (h.map _)⟩

/-- **filtering by radius keeps exactly the strictly larger droplets, in order** (a droplet with radius
equal to the minimum — e.g. a vanished one for `min_radius = 0` — is removed) -/
theorem keepLarger_spec (rs : List ℚ) (m x : ℚ) : x ∈ keepLarger rs m ↔ x ∈ rs ∧ m < x := by
  unfold keepLarger; simp

theorem keepLarger_sublist (rs : List ℚ) (m : ℚ) : (keepLarger rs m).Sublist rs := List.filter_sublist


/-! ### nearest-time lookup -/

/-- `b` is the first index of `seen` whose distance to `t` is minimal, `v` that distance -/
def Nearest (t : ℚ) (seen : List ℚ) (b : ℕ) (v : ℚ) : Prop :=
  b < seen.length ∧ v = absR (seen.getD b 0 - t) ∧
    (∀ j, j < seen.length → v ≤ absR (seen.getD j 0 - t)) ∧ (∀ j, j < b → v < absR (seen.getD j 0 - t))

theorem nearest_fold (t : ℚ) (xs : List ℚ) : ∀ (seen : List ℚ) (b : ℕ) (v : ℚ), seen ≠ [] → Nearest t seen b v →
    let r := xs.foldl (fun (acc : ℕ × ℕ × ℚ) y =>
      let i := acc.1 + 1
      if absR (y - t) < acc.2.2 then (i, i, absR (y - t)) else (i, acc.2.1, acc.2.2)) (seen.length - 1, b, v)
    Nearest t (seen ++ xs) r.2.1 r.2.2 := by
  induction xs with
  | nil => intro seen b v _ h; simpa using h
  | cons y xs ih =>
    intro seen b v hne h
    obtain ⟨h1, h2, h3, h4⟩ := h
    have hlen : 0 < seen.length := List.length_pos_iff.mpr hne
    have hidx : seen.length - 1 + 1 = seen.length := by omega
    simp only [List.foldl_cons]
    have hgetold : ∀ j, j < seen.length → (seen ++ [y]).getD j 0 = seen.getD j 0 := by
      intro j hj
      rw [List.getD_eq_getElem?_getD, List.getD_eq_getElem?_getD, List.getElem?_append_left hj]
    have hgetnew : (seen ++ [y]).getD seen.length 0 = y := by
      rw [List.getD_eq_getElem?_getD, List.getElem?_append_right (le_refl _)]; simp
    have hne' : seen ++ [y] ≠ [] := by simp
    have hlen' : (seen ++ [y]).length - 1 = seen.length := by simp
    by_cases hy : absR (y - t) < v
    · simp only [hy, if_true, hidx]
      have hinv : Nearest t (seen ++ [y]) seen.length (absR (y - t)) := by
        refine ⟨by simp, by rw [hgetnew], ?_, ?_⟩
        · intro j hj
          simp only [List.length_append, List.length_cons, List.length_nil] at hj
          by_cases hjl : j < seen.length
          · rw [hgetold j hjl]; exact le_trans hy.le (h3 j hjl)
          · have : j = seen.length := by omega
            rw [this, hgetnew]
        · intro j hj
          rw [hgetold j hj]; exact lt_of_lt_of_le hy (h3 j hj)
      have := ih (seen ++ [y]) seen.length (absR (y - t)) hne' hinv
      rw [hlen'] at this
      simpa using this
    · simp only [hy, if_false, hidx]
      have hinv : Nearest t (seen ++ [y]) b v := by
        refine ⟨by simp; omega, by rw [hgetold b h1]; exact h2, ?_, ?_⟩
        · intro j hj
          simp only [List.length_append, List.length_cons, List.length_nil] at hj
          by_cases hjl : j < seen.length
          · rw [hgetold j hjl]; exact h3 j hjl
          · have : j = seen.length := by omega
            rw [this, hgetnew]; exact not_lt.mp hy
        · intro j hj
          rw [hgetold j (by omega)]; exact h4 j hj
      have := ih (seen ++ [y]) b v hne' hinv
      rw [hlen'] at this
      simpa using this

/-- **Nearest-time lookup returns the first member whose time is nearest to the query** — for ANY list of
times, sorted or not, with or without repeated values. -/
theorem nearestIdx_spec (ts : List ℚ) (t : ℚ) (i : ℕ) (h : nearestIdx ts t = some i) :
    i < ts.length ∧ (∀ j, j < ts.length → absR (ts.getD i 0 - t) ≤ absR (ts.getD j 0 - t)) ∧
      (∀ j, j < i → absR (ts.getD i 0 - t) < absR (ts.getD j 0 - t)) := by
  cases ts with
  | nil => simp [nearestIdx] at h
  | cons x xs =>
    simp only [nearestIdx, Option.some.injEq] at h
    have h0 : Nearest t [x] 0 (absR (x - t)) := by
      refine ⟨by simp, by simp, ?_, by simp⟩
      intro j hj
      have : j = 0 := by simpa using hj
      subst this; simp
    have := nearest_fold t xs [x] 0 (absR (x - t)) (by simp) h0
    simp only [List.length_singleton, Nat.sub_self, List.singleton_append] at this
    rw [h] at this
    obtain ⟨a1, a2, a3, a4⟩ := this
    refine ⟨a1, ?_, ?_⟩
    · intro j hj; rw [← a2]; exact a3 j hj
    · intro j hj; rw [← a2]; exact a4 j hj

example : nearestIdx [0, 2, 10, 5] (39/10) = some 3 ∧ nearestIdx [1, 3, 3] 3 = some 1 ∧ nearestIdx [] 1 = none := by
  decide +kernel

example : keepLarger [0, 2, 0, 3] 0 = [2, 3] ∧ select false [0, 1, 0, 2] = [1, 2] ∧ duration [-2, 0, 5] = 7 := by
  decide +kernel

end DV.C20
