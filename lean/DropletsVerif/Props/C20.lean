/-
  C20 — Collections stay aligned and own their droplets under any sequence of edits.
  Theorems about the heap model Model/Coll.lean, which the correspondence check ties to the real
  classes by comparing values, order, times, dtypes AND alias structure after every operation of
  random / exhaustive operation sequences.
-/
import DropletsVerif.Model.Coll
import Mathlib.Tactic

namespace DV.C20
open DV.Coll

/-! ### allocation creates fresh, independent objects -/

theorem alloc_ref (s : St) (v : Val) : (alloc s v).2 = s.heap.length := rfl
theorem alloc_heap (s : St) (v : Val) : (alloc s v).1.heap = s.heap ++ [v] := rfl

theorem val_alloc_old (s : St) (v : Val) (r : Ref) (h : r < s.heap.length) :
    (alloc s v).1.val r = s.val r := by
  simp [St.val, alloc, List.getD, List.getElem?_append_left h]

theorem val_alloc_new (s : St) (v : Val) : (alloc s v).1.val (alloc s v).2 = v := by
  simp [St.val, alloc, List.getD]

/-- writing through one object never changes the value seen through another object -/
theorem setVal_other (heap : List Val) (r r' : Ref) (f : Val → Val) (h : r ≠ r') :
    (heap.modify r f).getD r' ⟨0, 0, 0⟩ = heap.getD r' ⟨0, 0, 0⟩ := by
  simp [List.getD, List.getElem?_modify, h]

/-- **Copy on insertion.**  `append(d)` with the default `copy=True` stores a FRESH object (one
that nothing else refers to: its reference is the next unused heap cell) carrying the value of
`d`; the emulsion's other members and every other object are untouched. -/
theorem emInsert_copy (s : St) (e : Nat) (r : Ref) (force : Bool) (m : List Ref) (dt : Option Nat)
    (he : s.ems[e]? = some (m, dt)) (s1 : St) (h : emInsert s e r true force = (s1, .ok)) :
    ∃ dt', s1.ems[e]? = some (m ++ [s.heap.length], dt') ∧ s1.heap = s.heap ++ [s.val r] ∧
      s1.vars = s.vars ∧ s1.trs = s.trs ∧ s1.tcs = s.tcs ∧
      ∀ e', e' ≠ e → s1.ems[e']? = s.ems[e']? := by
  unfold emInsert at h
  rw [he] at h
  simp only at h
  split at h
  · cases h
  · simp only [if_true, Prod.mk.injEq] at h
    obtain ⟨h1, _⟩ := h
    subst h1
    have hlt : e < s.ems.length := by
      by_contra hc
      rw [List.getElem?_eq_none (Nat.le_of_not_lt hc)] at he
      cases he
    refine ⟨some (dt.getD (s.val r).layout), by simp [hlt], rfl, rfl, rfl, rfl, ?_⟩
    intro e' hne
    simp [List.getElem?_set, Ne.symm hne]

/-- **Isolation of an inserted copy** (both directions): after `append(d)` with default settings,
assigning to the caller's `d` does not change the value stored in the new slot, and assigning to
the stored droplet does not change `d` — for any allocated `d`. -/
theorem insert_copy_isolated (s : St) (r : Ref) (hr : r < s.heap.length) (f : Val → Val) :
    let heap1 := s.heap ++ [s.val r]          -- heap after the copying insert
    let slot := s.heap.length                 -- the stored object
    ((heap1.modify r f).getD slot ⟨0, 0, 0⟩ = s.val r) ∧
    ((heap1.modify slot f).getD r ⟨0, 0, 0⟩ = s.val r) := by
  intro heap1 slot
  have hne : r ≠ slot := Nat.ne_of_lt hr
  constructor
  · rw [setVal_other _ _ _ f hne]
    simp [heap1, slot, List.getD]
  · rw [setVal_other _ _ _ f (Ne.symm hne)]
    simp [heap1, St.val, List.getD, List.getElem?_append_left hr]

theorem allocAll_go (rs : List Ref) (s : St) (acc : List Ref) (base : St)
    (hbase : ∀ r ∈ rs, r < base.heap.length)
    (hpre : ∃ ext, s.heap = base.heap ++ ext) :
    let res := rs.foldl (fun (a : St × List Ref) r =>
      let p := alloc a.1 (a.1.val r)
      (p.1, a.2 ++ [p.2])) (s, acc)
    res.2 = acc ++ List.range' s.heap.length rs.length ∧
    res.1.heap = s.heap ++ rs.map base.val ∧
    res.1.vars = s.vars ∧ res.1.ems = s.ems ∧ res.1.emVars = s.emVars ∧ res.1.tcs = s.tcs ∧ res.1.trs = s.trs := by
  induction rs generalizing s acc with
  | nil => simp
  | cons r rs ih =>
    obtain ⟨ext, hext⟩ := hpre
    have hr : r < base.heap.length := hbase r List.mem_cons_self
    have hval : s.val r = base.val r := by
      simp [St.val, hext, List.getD, List.getElem?_append_left hr]
    simp only [List.foldl_cons]
    have := ih (alloc s (s.val r)).1 (acc ++ [(alloc s (s.val r)).2])
      (fun r' hr' => hbase r' (List.mem_cons_of_mem _ hr'))
      ⟨ext ++ [s.val r], by simp [alloc, hext]⟩
    obtain ⟨h1, h2, h3⟩ := this
    refine ⟨?_, ?_, h3⟩
    · rw [h1]
      simp [alloc, List.range'_succ]
    · rw [h2]
      simp [alloc, hval]

/-- **Copies and slices consist of fresh objects**: copying the objects `rs` yields the next
`rs.length` unused heap cells, carrying the values of `rs`; nothing existing is modified.  Hence a
copy / slice / sum of emulsions, a sliced time course or track shares no droplet with its source. -/
theorem allocAll_fresh (s : St) (rs : List Ref) (h : ∀ r ∈ rs, r < s.heap.length) :
    (allocAll s rs).2 = List.range' s.heap.length rs.length ∧
    (allocAll s rs).1.heap = s.heap ++ rs.map s.val ∧
    (allocAll s rs).1.vars = s.vars ∧ (allocAll s rs).1.ems = s.ems ∧
    (allocAll s rs).1.tcs = s.tcs ∧ (allocAll s rs).1.trs = s.trs := by
  have := allocAll_go rs s [] s h ⟨[], by simp⟩
  simp only [List.nil_append] at this
  obtain ⟨h1, h2, h3, h4, _, h6, h7⟩ := this
  exact ⟨h1, h2, h3, h4, h6, h7⟩

theorem fresh_disjoint (s : St) (rs : List Ref) (h : ∀ r ∈ rs, r < s.heap.length) :
    ∀ r ∈ (allocAll s rs).2, ∀ r' ∈ rs, r ≠ r' := by
  intro r hr r' hr'
  rw [(allocAll_fresh s rs h).1] at hr
  have h1 : s.heap.length ≤ r := (List.mem_range'_1.mp hr).1
  have h2 : r' < s.heap.length := h r' hr'
  intro heq
  rw [heq] at h1
  exact absurd h2 (Nat.not_lt.mpr h1)

/-! ### times and members stay aligned -/

def Aligned (s : St) : Prop :=
  (∀ tc ∈ s.tcs, tc.1.length = tc.2.length) ∧ (∀ tr ∈ s.trs, tr.1.length = tr.2.length)

/-- helper operations do not touch time courses or tracks -/
def SameTT (a b : St) : Prop := a.tcs = b.tcs ∧ a.trs = b.trs

theorem emInsert_sameTT (s : St) (e : Nat) (r : Ref) (c f : Bool) : SameTT (emInsert s e r c f).1 s := by
  unfold emInsert
  cases s.ems[e]? with
  | none => exact ⟨rfl, rfl⟩
  | some p =>
    obtain ⟨m, dt⟩ := p
    simp only
    split
    · exact ⟨rfl, rfl⟩
    · split <;> exact ⟨rfl, rfl⟩

theorem foldl_sameTT {β : Type} (g : St → β → St) (hg : ∀ a x, SameTT (g a x) a) (l : List β) (s : St) :
    SameTT (l.foldl g s) s := by
  induction l generalizing s with
  | nil => exact ⟨rfl, rfl⟩
  | cons x l ih =>
    obtain ⟨h1, h2⟩ := ih (g s x)
    obtain ⟨h3, h4⟩ := hg s x
    exact ⟨h1.trans h3, h2.trans h4⟩

theorem emOfRefs_sameTT (s : St) (rs : List Ref) : SameTT (emOfRefs s rs).1 s := by
  unfold emOfRefs
  simp only
  obtain ⟨h1, h2⟩ := foldl_sameTT (fun acc r => (emInsert acc s.ems.length r true false).1)
    (fun a x => emInsert_sameTT a _ x true false) rs (newEm s)
  exact ⟨h1, h2⟩

theorem allocAll_sameTT (s : St) (rs : List Ref) : SameTT (allocAll s rs).1 s := by
  unfold allocAll
  have : ∀ (l : List Ref) (a : St × List Ref), SameTT (l.foldl (fun (acc : St × List Ref) r =>
      let (s', r') := alloc acc.1 (acc.1.val r)
      (s', acc.2 ++ [r'])) a).1 a.1 := by
    intro l
    induction l with
    | nil => intro a; exact ⟨rfl, rfl⟩
    | cons x l ih =>
      intro a
      simp only [List.foldl_cons]
      obtain ⟨h1, h2⟩ := ih _
      exact ⟨h1, h2⟩
  exact this rs (s, [])

theorem aligned_of_sameTT {a b : St} (h : SameTT a b) (hb : Aligned b) : Aligned a := by
  obtain ⟨h1, h2⟩ := h
  unfold Aligned
  rw [h1, h2]; exact hb

theorem aligned_set_tcs (s : St) (i : Nat) (p : List Int × List Nat) (hs : Aligned s)
    (hp : p.1.length = p.2.length) : Aligned { s with tcs := s.tcs.set i p } := by
  refine ⟨?_, hs.2⟩
  intro tc htc
  rcases List.mem_or_eq_of_mem_set htc with h | h
  · exact hs.1 tc h
  · rw [h]; exact hp

theorem aligned_set_trs (s : St) (i : Nat) (p : List Int × List Ref) (hs : Aligned s)
    (hp : p.1.length = p.2.length) : Aligned { s with trs := s.trs.set i p } := by
  refine ⟨hs.1, ?_⟩
  intro tr htr
  rcases List.mem_or_eq_of_mem_set htr with h | h
  · exact hs.2 tr h
  · rw [h]; exact hp

theorem sameTT_trans {a b c : St} (h1 : SameTT a b) (h2 : SameTT b c) : SameTT a c :=
  ⟨h1.1.trans h2.1, h1.2.trans h2.2⟩

theorem emOfOwned_sameTT (s : St) (rs : List Ref) : SameTT (emOfOwned s rs).1 s := by
  unfold emOfOwned
  simp only
  obtain ⟨h1, h2⟩ := foldl_sameTT (fun acc r => (emInsert acc s.ems.length r false false).1)
    (fun a x => emInsert_sameTT a _ x false false) rs (newEm s)
  exact ⟨h1, h2⟩

theorem emCopyOf_sameTT (s : St) (src : List Ref) : SameTT (emCopyOf s src).1 s := by
  unfold emCopyOf
  exact sameTT_trans (emOfOwned_sameTT _ _) (allocAll_sameTT s src)

theorem tcStored_sameTT (s : St) (eo : Nat) (copy : Bool) : SameTT (tcStored s eo copy).1 s := by
  unfold tcStored
  simp only
  cases copy
  · exact emOfRefs_sameTT _ _
  · exact sameTT_trans (emCopyOf_sameTT _ _) (emOfRefs_sameTT _ _)

theorem tcSliceMembers_spec (part : List Nat) (s : St) (acc : List Nat) :
    let res := part.foldl (fun (a : St × List Nat) eo =>
      let p1 := emOfRefs a.1 (a.1.ems.getD eo ([], none)).1
      let p2 := tcStored p1.1 p1.2 true
      (p2.1, a.2 ++ [p2.2])) (s, acc)
    SameTT res.1 s ∧ res.2.length = acc.length + part.length := by
  induction part generalizing s acc with
  | nil => exact ⟨⟨rfl, rfl⟩, by simp⟩
  | cons eo part ih =>
    simp only [List.foldl_cons]
    obtain ⟨h1, h2⟩ := ih (tcStored (emOfRefs s (s.ems.getD eo ([], none)).1).1
      (emOfRefs s (s.ems.getD eo ([], none)).1).2 true).1
      (acc ++ [(tcStored (emOfRefs s (s.ems.getD eo ([], none)).1).1
      (emOfRefs s (s.ems.getD eo ([], none)).1).2 true).2])
    refine ⟨sameTT_trans h1 (sameTT_trans (tcStored_sameTT _ _ _) (emOfRefs_sameTT _ _)), ?_⟩
    rw [h2]; simp; omega

theorem tcSliceMembers_sameTT (s : St) (part : List Nat) :
    SameTT (tcSliceMembers s part).1 s ∧ (tcSliceMembers s part).2.length = part.length := by
  have := tcSliceMembers_spec part s []
  simpa [tcSliceMembers] using this

theorem aligned_append_tc (s : St) (p : List Int × List Nat) (hs : Aligned s) (hp : p.1.length = p.2.length) :
    Aligned { s with tcs := s.tcs ++ [p] } := by
  refine ⟨?_, hs.2⟩
  intro tc htc
  rcases List.mem_append.mp htc with h | h
  · exact hs.1 tc h
  · have : tc = p := by simpa using h
    rw [this]; exact hp

theorem aligned_append_tr (s : St) (p : List Int × List Ref) (hs : Aligned s) (hp : p.1.length = p.2.length) :
    Aligned { s with trs := s.trs ++ [p] } := by
  refine ⟨hs.1, ?_⟩
  intro tr htr
  rcases List.mem_append.mp htr with h | h
  · exact hs.2 tr h
  · have : tr = p := by simpa using h
    rw [this]; exact hp

/-- **Alignment is preserved by every operation** -/
theorem step_aligned (s : St) (op : Op) (h : Aligned s) : Aligned (step s op).1 := by
  cases op with
  | newDrop v => exact h
  | setVar x radius =>
    simp only [step]; split <;> exact h
  | newEm => exact h
  | emAppend e x copy force =>
    simp only [step]; split
    · exact aligned_of_sameTT (emInsert_sameTT _ _ _ _ _) h
    · exact h
  | emExtend e e2 =>
    simp only [step]; split
    · exact aligned_of_sameTT (foldl_sameTT _ (fun a x => emInsert_sameTT a _ x true false) _ s) h
    · exact h
  | emCopy e minR =>
    simp only [step]; split
    · exact aligned_of_sameTT (emCopyOf_sameTT s _) h
    · exact h
  | emSlice e lo hi =>
    simp only [step]; split
    · exact aligned_of_sameTT (emOfRefs_sameTT s _) h
    · exact h
  | emAdd e1 e2 =>
    simp only [step]; split
    · exact aligned_of_sameTT (emOfRefs_sameTT s _) h
    · exact h
  | emGet e i =>
    simp only [step]; split
    · split <;> exact h
    · exact h
  | emSetMember e i radius =>
    simp only [step]; split
    · split <;> exact h
    · exact h
  | emRemoveSmall e minR =>
    simp only [step]; split <;> exact h
  | emClear e =>
    simp only [step]; split <;> exact h
  | emLink e =>
    simp only [step]; split <;> exact h
  | newTc => exact aligned_append_tc s ([], []) h rfl
  | tcAppend tc e time copy =>
    simp only [step]; split
    · rename_i times members eo htc _
      have hal : times.length = members.length := by
        have := List.mem_of_getElem? htc
        exact h.1 _ this
      have h2 : Aligned (tcStored s eo copy).1 := aligned_of_sameTT (tcStored_sameTT s eo copy) h
      exact aligned_set_tcs _ tc _ h2 (by simp [hal])
    · exact h
  | tcGet tc i =>
    simp only [step]; split
    · split <;> exact h
    · exact h
  | tcSlice tc lo hi =>
    simp only [step]; split
    · split
      · exact h
      · rename_i hlen
        refine aligned_append_tc _ _ ?_ (by simpa using hlen)
        exact aligned_of_sameTT (tcSliceMembers_sameTT s _).1 h
    · exact h
  | tcClear tc =>
    simp only [step]; split
    · exact aligned_set_tcs s tc ([], []) h rfl
    · exact h
  | newTr => exact aligned_append_tr s ([], []) h rfl
  | trAppend tr x time =>
    simp only [step]; split
    · rename_i times drops r htr _
      have hal : times.length = drops.length := by
        have := List.mem_of_getElem? htr
        exact h.2 _ this
      repeat' split
      all_goals first | exact h | exact aligned_set_trs _ tr _ h (by simp [hal])
    · exact h
  | trGet tr i =>
    simp only [step]; split
    · split <;> exact h
    · exact h
  | trSlice tr lo hi =>
    simp only [step]; split
    · split
      · exact h
      · rename_i hlen
        refine aligned_append_tr _ _ ?_ (by simpa using hlen)
        exact aligned_of_sameTT (allocAll_sameTT s _) h
    · exact h

/-- **Times and members have equal length after every operation sequence** (from the empty state) -/
theorem times_members_aligned (ops : List Op) : Aligned (run ops).1 := by
  have key : ∀ (ops : List Op) (acc : St × List Res), Aligned acc.1 →
      Aligned (ops.foldl (fun (acc : St × List Res) op =>
        let (s, r) := step acc.1 op
        (s, acc.2 ++ [r])) acc).1 := by
    intro ops
    induction ops with
    | nil => intro acc h; exact h
    | cons op ops ih =>
      intro acc h
      simp only [List.foldl_cons]
      exact ih _ (step_aligned acc.1 op h)
  exact key ops (St.empty, []) ⟨by simp [St.empty], by simp [St.empty]⟩

/-- the default time of an appended member: 0 for the first, last + 1 afterwards -/
theorem defaultTime_spec (ts : List Int) (t : Int) :
    defaultTime [] = 0 ∧ defaultTime (ts ++ [t]) = t + 1 := by
  simp [defaultTime]

/-- consistency requested: a droplet whose layout differs from the emulsion's dtype is rejected and
the state is unchanged -/
theorem consistency_rejects (s : St) (e : Nat) (r : Ref) (copy : Bool) (m : List Ref) (d : Nat)
    (he : s.ems[e]? = some (m, some d)) (hne : d ≠ (s.val r).layout) :
    emInsert s e r copy true = (s, .err "ValueError") := by
  unfold emInsert
  rw [he]
  simp [hne]

/-- non-vacuity: a concrete sequence with aliasing through `em[0]`, a copying append, a mutation
of the caller's droplet and a time-course append -/
example :
    let s := (run [.newDrop ⟨1, 2, 3⟩, .newEm, .emAppend 0 0 true false, .emGet 0 0, .setVar 0 9,
                   .newTc, .tcAppend 0 0 none true]).1
    s.vars = [0, 1] ∧ s.heap.map (·.radius) = [9, 3, 3, 3] ∧ s.tcs = [([0], [2])] := by decide

end DV.C20
