/-
  C02 — Each located droplet is one connected component under the grid's topology.
  Theorems about `DV.Merge.mergeLoop` (Model/Merge.lean: the periodic merging loop of
  `_locate_droplets_in_mask_cartesian` as repaired in /repo commit a636831), for EVERY initial
  labelling `lab0`, every list of boundary pairs (any shape, any periodicity mask, any dimension),
  every cell list.  `lab0` is scipy's labelling of the image (contract: in-box face-connected
  components; monitored against an independent BFS on every run); the theorems are relative to it:
  final clusters = closure of the initial clusters under the periodic boundary pairs.
  Overlap removal on the resulting candidates is `DV.Overlap.loop`, whose theorems are C10's.
-/
import DropletsVerif.Lemmas.MergeInv
import DropletsVerif.Props.C10

namespace DV.C02
open DV.Merge DV.MergeInv Relation

variable (shape : Nat → Nat) (lab0 : Nat → Nat) (coord : Nat → Nat → Nat) (cells : List Nat)

/-- the three invariants together, with the processed prefix `es` -/
structure AllInv (all : List Edge) (comp : Nat → Prop) (κ : Nat → Nat → Int) (st : St) (es : List Edge) : Prop where
  sub : ∀ e ∈ es, e ∈ all
  lab : LabInv lab0 st es
  sum : SumInv shape lab0 coord cells st
  lift : (∀ c c', comp c → 0 < lab0 c → 0 < lab0 c' → Conn lab0 all c c' → comp c') →
    ConsistentLift lab0 all comp κ → LiftInv lab0 comp κ st

theorem allInv_loop (all : List Edge) (hcells : ∀ e ∈ all, e.l ∈ cells ∧ e.h ∈ cells)
    (comp : Nat → Prop) (κ : Nat → Nat → Int) :
    ∀ (edges : List Edge) (st : St) (es : List Edge), (∀ e ∈ edges, e ∈ all) →
      AllInv shape lab0 coord cells all comp κ st es →
      AllInv shape lab0 coord cells all comp κ (edges.foldl (mergeStep shape lab0) st) (es ++ edges) := by
  intro edges
  induction edges with
  | nil => intro st es _ h; simpa using h
  | cons e edges ih =>
    intro st es hsub h
    have he : e ∈ all := hsub e List.mem_cons_self
    have hstep : AllInv shape lab0 coord cells all comp κ (mergeStep shape lab0 st e) (es ++ [e]) := by
      refine ⟨?_, labInv_step shape lab0 st es e h.lab,
        sumInv_step shape lab0 coord cells st es e (hcells e he).1 (hcells e he).2 h.lab h.sum, ?_⟩
      · intro e' he'
        rcases List.mem_append.mp he' with h' | h'
        · exact h.sub e' h'
        · have : e' = e := by simpa using h'
          rw [this]; exact he
      · intro hclosed hκ
        refine liftInv_step shape lab0 all comp κ hκ st es e he ?_ h.lab (h.lift hclosed hκ)
        intro c c' pc m m' heq
        exact hclosed c c' pc m m' (Conn.mono lab0 h.sub (h.lab.conn_of_eq c c' m m' heq))
    have := ih (mergeStep shape lab0 st e) (es ++ [e]) (fun e' he' => hsub e' (List.mem_cons_of_mem _ he')) hstep
    simpa using this

theorem allInv_final (edges : List Edge) (hcells : ∀ e ∈ edges, e.l ∈ cells ∧ e.h ∈ cells)
    (comp : Nat → Prop) (κ : Nat → Nat → Int) :
    AllInv shape lab0 coord cells edges comp κ
      (mergeLoop shape lab0 (initSt coord lab0 cells) edges) edges := by
  have h0 : AllInv shape lab0 coord cells edges comp κ (initSt coord lab0 cells) [] :=
    ⟨by simp, labInv_init lab0 coord cells, sumInv_init shape lab0 coord cells,
      fun _ hκ => liftInv_init lab0 coord cells edges comp κ hκ⟩
  simpa [mergeLoop] using allInv_loop shape lab0 coord cells edges hcells comp κ edges _ [] (fun _ h => h) h0

/-- **Partition.**  After the loop two mask cells carry the same label exactly when they are
connected through initial clusters and periodic boundary pairs; background stays background. -/
theorem mergeLoop_partition (edges : List Edge) (hcells : ∀ e ∈ edges, e.l ∈ cells ∧ e.h ∈ cells) :
    let st := mergeLoop shape lab0 (initSt coord lab0 cells) edges
    (∀ c, 0 < st.lab c ↔ 0 < lab0 c) ∧
    ∀ c1 c2, 0 < lab0 c1 → 0 < lab0 c2 → (st.lab c1 = st.lab c2 ↔ Conn lab0 edges c1 c2) := by
  intro st
  have inv := (allInv_final shape lab0 coord cells edges hcells (fun _ => True) (fun _ _ => 0)).lab
  exact ⟨inv.pos_iff, fun c1 c2 h1 h2 => ⟨inv.conn_of_eq c1 c2 h1 h2, fun h => inv.eq_of_conn lab0 h⟩⟩

/-- **Volume.**  The volume stored for a surviving label is the number of cells of its cluster
(times the cell volume, applied by the caller). -/
theorem mergeLoop_volume (edges : List Edge) (hcells : ∀ e ∈ edges, e.l ∈ cells ∧ e.h ∈ cells) (r : Nat) :
    let st := mergeLoop shape lab0 (initSt coord lab0 cells) edges
    Present st cells r → st.vol r = count st.lab r cells := by
  intro st hr
  exact (allInv_final shape lab0 coord cells edges hcells (fun _ => True) (fun _ _ => 0)).sum.vol_eq r hr

/-- **Position of a non-winding component.**  If the periodic component of `c0` admits a
consistent integer lift `κ` (constant on initial clusters, dropping by one period across each of
its periodic boundary pairs — i.e. the component does not wind), then the stored position equals
the centre of mass of the `κ`-unwrapped component up to whole periods along each axis. -/
theorem C02_position_nonwinding (edges : List Edge) (hcells : ∀ e ∈ edges, e.l ∈ cells ∧ e.h ∈ cells)
    (c0 : Nat) (hc0 : c0 ∈ cells) (hm0 : 0 < lab0 c0) (κ : Nat → Nat → Int)
    (hκ : ConsistentLift lab0 edges (Conn lab0 edges c0) κ) :
    let st := mergeLoop shape lab0 (initSt coord lab0 cells) edges
    ∃ m : Nat → Int, ∀ a,
      st.pos (st.lab c0) a =
        wsum st.lab (st.lab c0) (fun c => (coord c a : Rat) + 1 / 2 + (κ c a : Rat) * (shape a : Rat)) cells
          / count st.lab (st.lab c0) cells + (m a : Rat) * (shape a : Rat) := by
  intro st
  have inv : AllInv shape lab0 coord cells edges (Conn lab0 edges c0) κ st edges :=
    allInv_final shape lab0 coord cells edges hcells (Conn lab0 edges c0) κ
  have hlift : LiftInv lab0 (Conn lab0 edges c0) κ st :=
    inv.lift (fun c c' pc _ _ hcc => EqvGen.trans _ _ _ pc hcc) hκ
  have hpres : Present st cells (st.lab c0) := ⟨(inv.lab.pos_iff c0).mpr hm0, c0, hc0, rfl⟩
  refine ⟨fun a => st.off (lab0 c0) a - κ c0 a, fun a => ?_⟩
  have hcnt := count_pos st.lab (st.lab c0) cells hpres.2
  have hpos := inv.sum.pos_eq (st.lab c0) hpres a
  -- every cell of the cluster has the same (off − κ)
  have hconst : ∀ c ∈ cells, st.lab c = st.lab c0 →
      (st.off (lab0 c) a : Rat) = (κ c a : Rat) + ((st.off (lab0 c0) a - κ c0 a : Int) : Rat) := by
    intro c _ hc
    have hcm : 0 < lab0 c := (inv.lab.pos_iff c).mp (by rw [hc]; exact hpres.1)
    have hcc : Conn lab0 edges c0 c := inv.lab.conn_of_eq c0 c hm0 hcm hc.symm
    have := hlift c c0 hcc (EqvGen.refl _) hcm hm0 hc a
    have h' : st.off (lab0 c) a = κ c a + (st.off (lab0 c0) a - κ c0 a) := by omega
    rw [h']; push_cast; ring
  have hsum : wsum st.lab (st.lab c0)
      (fun c => (coord c a : Rat) + 1 / 2 + (st.off (lab0 c) a : Rat) * (shape a : Rat)) cells =
      wsum st.lab (st.lab c0) (fun c => (coord c a : Rat) + 1 / 2 + (κ c a : Rat) * (shape a : Rat)) cells
        + ((st.off (lab0 c0) a - κ c0 a : Int) : Rat) * (shape a : Rat) * count st.lab (st.lab c0) cells := by
    apply wsum_shift
    intro c hc hl
    rw [hconst c hc hl]; ring
  rw [hsum] at hpos
  have hne := hcnt.ne'
  have h1 : st.pos (st.lab c0) a = (st.pos (st.lab c0) a * count st.lab (st.lab c0) cells)
      / count st.lab (st.lab c0) cells := by field_simp
  rw [h1, hpos, add_div, mul_div_assoc, div_self hne, mul_one]

/-- the input that exposed finding D1 (U-shaped component over the periodic face of axis 1 on a
5×8 grid: cells (1,0),(3,0),(1..3,7), scipy labels 1,2,2,3,2): the repaired loop returns ONE
cluster of 5 cells at (2.5, −0.1) ≡ (2.5, 7.9), the centre of mass of the unwrapped component
(the loop before the repair returned (2.5, 1.5)). -/
example :
    locateCells [5, 8] [false, true]
      [0,0,0,0,0,0,0,0, 1,0,0,0,0,0,0,2, 0,0,0,0,0,0,0,2, 3,0,0,0,0,0,0,2, 0,0,0,0,0,0,0,0]
      = [(3, 5, [5 / 2, -1 / 10])] := by decide +kernel

/-- non-vacuity of `ConsistentLift`: on a 1×4 periodic strip with cells 0 and 3 occupied (initial
clusters 1 and 2, one boundary pair), the lift κ(0)=0, κ(3)=−1 is consistent -/
example : ConsistentLift (fun c => if c = 0 then 1 else if c = 3 then 2 else 0) [⟨0, 0, 3⟩]
    (fun _ => True) (fun c a => if c = 3 ∧ a = 0 then -1 else 0) := by
  constructor
  · intro c1 c2 _ _ h a
    by_cases h1 : c1 = 0 <;> by_cases h2 : c2 = 0 <;> by_cases h3 : c1 = 3 <;> by_cases h4 : c2 = 3 <;>
      simp_all
  · intro e he _ _ _ _ a
    simp only [List.mem_singleton] at he
    subst he
    by_cases ha : a = 0 <;> simp [delta, ha]

end DV.C02
