/-
  C02 — Each located droplet is one connected component under the grid's topology.
  Theorems about `DV.Merge.mergeLoop` (Model/Merge.lean: the periodic merging loop of
  `_locate_droplets_in_mask_cartesian` as repaired in /repo commit a636831), for EVERY initial
  labelling `lab0`, every list of boundary pairs (any shape, any periodicity mask, any dimension),
  every cell list.  `lab0` is scipy's labelling of the image (contract: in-box face-connected
  components; monitored against an independent BFS on every run); the theorems are relative to it:
  final clusters = closure of the initial clusters under the periodic boundary pairs.
  Overlap removal on the resulting candidates is `DV.Overlap.loop`, whose theorems are C10's.
-/
import DropletsVerif.Lemmas.MergeInv
import DropletsVerif.Lemmas.LabelInv
import DropletsVerif.Lemmas.GridGeom
import DropletsVerif.Model.Cyl
import DropletsVerif.Props.C10

namespace DV.C02
open DV.Merge DV.MergeInv Relation

variable (shape : Nat → Nat) (lab0 : Nat → Nat) (coord : Nat → Nat → Nat) (cells : List Nat)

/-- the three invariants together, with the processed prefix `es` -/
structure AllInv (all : List Edge) (comp : Nat → Prop) (κ : Nat → Nat → Int) (st : St) (es : List Edge) : Prop where
  sub : ∀ e ∈ es, e ∈ all
  lab : LabInv lab0 st es
  sum : SumInv shape lab0 coord cells st
  lift : (∀ c c', comp c → 0 < lab0 c → 0 < lab0 c' → Conn lab0 all c c' → comp c') →
    ConsistentLift lab0 all comp κ → LiftInv lab0 comp κ st

theorem allInv_loop (all : List Edge) (hcells : ∀ e ∈ all, e.l ∈ cells ∧ e.h ∈ cells)
    (comp : Nat → Prop) (κ : Nat → Nat → Int) :
    ∀ (edges : List Edge) (st : St) (es : List Edge), (∀ e ∈ edges, e ∈ all) →
      AllInv shape lab0 coord cells all comp κ st es →
      AllInv shape lab0 coord cells all comp κ (edges.foldl (mergeStep shape lab0) st) (es ++ edges) := by
  intro edges
  induction edges with
  | nil => intro st es _ h; simpa using h
  | cons e edges ih =>
    intro st es hsub h
    have he : e ∈ all := hsub e List.mem_cons_self
    have hstep : AllInv shape lab0 coord cells all comp κ (mergeStep shape lab0 st e) (es ++ [e]) := by
      refine ⟨?_, labInv_step shape lab0 st es e h.lab,
        sumInv_step shape lab0 coord cells st es e (hcells e he).1 (hcells e he).2 h.lab h.sum, ?_⟩
      · intro e' he'
        rcases List.mem_append.mp he' with h' | h'
        · exact h.sub e' h'
        · have : e' = e := by simpa using h'
          rw [this]; exact he
      · intro hclosed hκ
        refine liftInv_step shape lab0 all comp κ hκ st es e he ?_ h.lab (h.lift hclosed hκ)
        intro c c' pc m m' heq
        exact hclosed c c' pc m m' (Conn.mono lab0 h.sub (h.lab.conn_of_eq c c' m m' heq))
    have := ih (mergeStep shape lab0 st e) (es ++ [e]) (fun e' he' => hsub e' (List.mem_cons_of_mem _ he')) hstep
    simpa using this

theorem allInv_final (edges : List Edge) (hcells : ∀ e ∈ edges, e.l ∈ cells ∧ e.h ∈ cells)
    (comp : Nat → Prop) (κ : Nat → Nat → Int) :
    AllInv shape lab0 coord cells edges comp κ
      (mergeLoop shape lab0 (initSt coord lab0 cells) edges) edges := by
  have h0 : AllInv shape lab0 coord cells edges comp κ (initSt coord lab0 cells) [] :=
    ⟨by simp, labInv_init lab0 coord cells, sumInv_init shape lab0 coord cells,
      fun _ hκ => liftInv_init lab0 coord cells edges comp κ hκ⟩
  simpa [mergeLoop] using allInv_loop shape lab0 coord cells edges hcells comp κ edges _ [] (fun _ h => h) h0

/-- **Partition.**  After the loop two mask cells carry the same label exactly when they are
connected through initial clusters and periodic boundary pairs; background stays background. -/
theorem mergeLoop_partition (edges : List Edge) (hcells : ∀ e ∈ edges, e.l ∈ cells ∧ e.h ∈ cells) :
    let st := mergeLoop shape lab0 (initSt coord lab0 cells) edges
    (∀ c, 0 < st.lab c ↔ 0 < lab0 c) ∧
    ∀ c1 c2, 0 < lab0 c1 → 0 < lab0 c2 → (st.lab c1 = st.lab c2 ↔ Conn lab0 edges c1 c2) := by
  intro st
  have inv := (allInv_final shape lab0 coord cells edges hcells (fun _ => True) (fun _ _ => 0)).lab
  exact ⟨inv.pos_iff, fun c1 c2 h1 h2 => ⟨inv.conn_of_eq c1 c2 h1 h2, fun h => inv.eq_of_conn lab0 h⟩⟩

/-- **Volume.**  The volume stored for a surviving label is the number of cells of its cluster
(times the cell volume, applied by the caller). -/
theorem mergeLoop_volume (edges : List Edge) (hcells : ∀ e ∈ edges, e.l ∈ cells ∧ e.h ∈ cells) (r : Nat) :
    let st := mergeLoop shape lab0 (initSt coord lab0 cells) edges
    Present st cells r → st.vol r = count st.lab r cells := by
  intro st hr
  exact (allInv_final shape lab0 coord cells edges hcells (fun _ => True) (fun _ _ => 0)).sum.vol_eq r hr

/-- **Position of a non-winding component.**  If the periodic component of `c0` admits a
consistent integer lift `κ` (constant on initial clusters, dropping by one period across each of
its periodic boundary pairs — i.e. the component does not wind), then the stored position equals
the centre of mass of the `κ`-unwrapped component up to whole periods along each axis. -/
theorem C02_position_explicit (edges : List Edge) (hcells : ∀ e ∈ edges, e.l ∈ cells ∧ e.h ∈ cells)
    (c0 : Nat) (hc0 : c0 ∈ cells) (hm0 : 0 < lab0 c0) (κ : Nat → Nat → Int)
    (hκ : ConsistentLift lab0 edges (Conn lab0 edges c0) κ) :
    let st := mergeLoop shape lab0 (initSt coord lab0 cells) edges
    ∀ a,
      st.pos (st.lab c0) a =
        wsum st.lab (st.lab c0) (fun c => (coord c a : Rat) + 1 / 2 + (κ c a : Rat) * (shape a : Rat)) cells
          / count st.lab (st.lab c0) cells + ((st.off (lab0 c0) a - κ c0 a : Int) : Rat) * (shape a : Rat) := by
  intro st
  have inv : AllInv shape lab0 coord cells edges (Conn lab0 edges c0) κ st edges :=
    allInv_final shape lab0 coord cells edges hcells (Conn lab0 edges c0) κ
  have hlift : LiftInv lab0 (Conn lab0 edges c0) κ st :=
    inv.lift (fun c c' pc _ _ hcc => EqvGen.trans _ _ _ pc hcc) hκ
  have hpres : Present st cells (st.lab c0) := ⟨(inv.lab.pos_iff c0).mpr hm0, c0, hc0, rfl⟩
  intro a
  have hcnt := count_pos st.lab (st.lab c0) cells hpres.2
  have hpos := inv.sum.pos_eq (st.lab c0) hpres a
  -- every cell of the cluster has the same (off − κ)
  have hconst : ∀ c ∈ cells, st.lab c = st.lab c0 →
      (st.off (lab0 c) a : Rat) = (κ c a : Rat) + ((st.off (lab0 c0) a - κ c0 a : Int) : Rat) := by
    intro c _ hc
    have hcm : 0 < lab0 c := (inv.lab.pos_iff c).mp (by rw [hc]; exact hpres.1)
    have hcc : Conn lab0 edges c0 c := inv.lab.conn_of_eq c0 c hm0 hcm hc.symm
    have := hlift c c0 hcc (EqvGen.refl _) hcm hm0 hc a
    have h' : st.off (lab0 c) a = κ c a + (st.off (lab0 c0) a - κ c0 a) := by omega
    rw [h']; push_cast; ring
  have hsum : wsum st.lab (st.lab c0)
      (fun c => (coord c a : Rat) + 1 / 2 + (st.off (lab0 c) a : Rat) * (shape a : Rat)) cells =
      wsum st.lab (st.lab c0) (fun c => (coord c a : Rat) + 1 / 2 + (κ c a : Rat) * (shape a : Rat)) cells
        + ((st.off (lab0 c0) a - κ c0 a : Int) : Rat) * (shape a : Rat) * count st.lab (st.lab c0) cells := by
    apply wsum_shift
    intro c hc hl
    rw [hconst c hc hl]; ring
  rw [hsum] at hpos
  have hne := hcnt.ne'
  have h1 : st.pos (st.lab c0) a = (st.pos (st.lab c0) a * count st.lab (st.lab c0) cells)
      / count st.lab (st.lab c0) cells := by field_simp
  rw [h1, hpos, add_div, mul_div_assoc, div_self hne, mul_one]

theorem C02_position_nonwinding (edges : List Edge) (hcells : ∀ e ∈ edges, e.l ∈ cells ∧ e.h ∈ cells)
    (c0 : Nat) (hc0 : c0 ∈ cells) (hm0 : 0 < lab0 c0) (κ : Nat → Nat → Int)
    (hκ : ConsistentLift lab0 edges (Conn lab0 edges c0) κ) :
    let st := mergeLoop shape lab0 (initSt coord lab0 cells) edges
    ∃ m : Nat → Int, ∀ a,
      st.pos (st.lab c0) a =
        wsum st.lab (st.lab c0) (fun c => (coord c a : Rat) + 1 / 2 + (κ c a : Rat) * (shape a : Rat)) cells
          / count st.lab (st.lab c0) cells + (m a : Rat) * (shape a : Rat) := by
  intro st
  exact ⟨fun a => st.off (lab0 c0) a - κ c0 a,
    C02_position_explicit shape lab0 coord cells edges hcells c0 hc0 hm0 κ hκ⟩

/-- **No shift along an axis that has no boundary pairs** (a non-periodic axis): the recorded offsets
stay zero there, so positions along such an axis are never moved by a period. -/
theorem off_zero_along (edges : List Edge) (a : Nat) (ha : ∀ e ∈ edges, e.ax ≠ a) :
    ∀ k, (mergeLoop shape lab0 (initSt coord lab0 cells) edges).off k a = 0 := by
  have key : ∀ (es : List Edge) (st : St), (∀ e ∈ es, e.ax ≠ a) → (∀ k, st.off k a = 0) →
      ∀ k, (es.foldl (mergeStep shape lab0) st).off k a = 0 := by
    intro es
    induction es with
    | nil => intro st _ h0; simpa using h0
    | cons e es ih =>
      intro st hes h0
      simp only [List.foldl_cons]
      apply ih _ (fun e' he' => hes e' (List.mem_cons_of_mem _ he'))
      intro k
      by_cases hm : Merging st e
      · rw [step_off shape lab0 st e hm]
        have hne : e.ax ≠ a := hes e List.mem_cons_self
        have hd : delta a e.ax = 0 := by unfold delta; rw [if_neg (Ne.symm hne)]
        split
        · simp [shiftOf, h0, hd]
        · exact h0 k
      · rw [step_noop shape lab0 st e hm]; exact h0 k
  exact key edges _ ha (fun _ => rfl)

/-- the input that exposed finding D1 (U-shaped component over the periodic face of axis 1 on a
5×8 grid: cells (1,0),(3,0),(1..3,7), scipy labels 1,2,2,3,2): the repaired loop returns ONE
cluster of 5 cells at (2.5, −0.1) ≡ (2.5, 7.9), the centre of mass of the unwrapped component
(the loop before the repair returned (2.5, 1.5)). -/
example :
    locateCells [5, 8] [false, true]
      [0,0,0,0,0,0,0,0, 1,0,0,0,0,0,0,2, 0,0,0,0,0,0,0,2, 3,0,0,0,0,0,0,2, 0,0,0,0,0,0,0,0]
      = [(3, 5, [5 / 2, -1 / 10])] := by decide +kernel

/-- non-vacuity of `ConsistentLift`: on a 1×4 periodic strip with cells 0 and 3 occupied (initial
clusters 1 and 2, one boundary pair), the lift κ(0)=0, κ(3)=−1 is consistent -/
example : ConsistentLift (fun c => if c = 0 then 1 else if c = 3 then 2 else 0) [⟨0, 0, 3⟩]
    (fun _ => True) (fun c a => if c = 3 ∧ a = 0 then -1 else 0) := by
  constructor
  · intro c1 c2 _ _ h a
    by_cases h1 : c1 = 0 <;> by_cases h2 : c2 = 0 <;> by_cases h3 : c1 = 3 <;> by_cases h4 : c2 = 3 <;>
      simp_all
  · intro e he _ _ _ _ a
    simp only [List.mem_singleton] at he
    subst he
    by_cases ha : a = 0 <;> simp [delta, ha]

end DV.C02

/-! ### from the MASK: the executable labeller and the whole pipeline

`DV.Label.labelExec` (Model/Label.lean) is an executable model of the contract of
`scipy.ndimage.label` that the code relies on.  With it the statement no longer depends on a given
labelling: the clusters returned for a binary image are exactly the classes of the grid's adjacency
(in-box face pairs together with the face pairs across the periodic boundaries) restricted to the mask.
The correspondence check compares `labelExec` with scipy's labelling on every small image. -/

namespace DV.C02
open DV.Merge DV.MergeInv DV.Label DV.LabelInv Relation

/-- **The labeller satisfies the labelling contract**: background ↔ 0; two mask cells get the same
name iff they are connected through in-box face pairs inside the mask; names are ordered like the
first (raster-order) cells of the clusters and are gap-free (1, 2, …, K). -/
theorem labelExec_isLabelling (shape : List Nat) (mask : Nat → Bool)
    (hmask : ∀ c, mask c = true → c < numCells shape) :
    let L := labelFn shape mask
    (∀ c, 0 < L c ↔ mask c = true) ∧
    (∀ c1 c2, mask c1 = true → mask c2 = true →
      (L c1 = L c2 ↔ MaskConn mask (inboxEdges shape) c1 c2)) ∧
    (∀ c1 c2, mask c1 = true → mask c2 = true →
      (L c1 < L c2 ↔ ∃ a, L a = L c1 ∧ ∀ b, L b = L c2 → a < b)) ∧
    (∀ c, mask c = true → ∀ k, 1 ≤ k → k ≤ L c → ∃ c', L c' = k) := by
  intro L
  set n := numCells shape with hn
  set raw := rawLabel shape mask with hraw
  have hL : ∀ c, c < n → L c = rank n raw c := fun c hc => labelFn_eq shape mask hc
  have hLout : ∀ c, n ≤ c → L c = 0 := fun c hc => labelFn_out shape mask hc
  have hrawpos : ∀ c, 0 < raw c ↔ mask c = true := rawLabel_pos_iff shape mask
  have hpos : ∀ c, 0 < L c ↔ mask c = true := by
    intro c
    by_cases hc : c < n
    · rw [hL c hc, ← hrawpos c]
      have := rank_zero_iff n raw c hc
      omega
    · have h0 := hLout c (by omega)
      constructor
      · intro h; omega
      · intro h; exact absurd (hmask c h) hc
  have heq : ∀ c1 c2, mask c1 = true → mask c2 = true → (L c1 = L c2 ↔ raw c1 = raw c2) := by
    intro c1 c2 m1 m2
    rw [hL c1 (hmask c1 m1), hL c2 (hmask c2 m2)]
    exact rank_eq_iff n raw (hmask c1 m1) (hmask c2 m2) ((hrawpos c1).mpr m1) ((hrawpos c2).mpr m2)
  refine ⟨hpos, ?_, ?_, ?_⟩
  · intro c1 c2 m1 m2
    rw [heq c1 c2 m1 m2]
    exact rawLabel_eq_iff shape mask m1 m2
  · intro c1 c2 m1 m2
    have b1 := hmask c1 m1
    have b2 := hmask c2 m2
    have p1 := (hrawpos c1).mpr m1
    have p2 := (hrawpos c2).mpr m2
    rw [hL c1 b1, hL c2 b2, rank_lt_iff n raw b1 b2 p1 p2]
    obtain ⟨f1, f2, f3, f4⟩ := firstOf_spec n raw b1
    obtain ⟨g1, g2, g3, g4⟩ := firstOf_spec n raw b2
    have mf1 : mask (firstOf n raw c1) = true := (hrawpos _).mp (by rw [f3]; exact p1)
    constructor
    · intro hlt
      refine ⟨firstOf n raw c1, ?_, ?_⟩
      · rw [← hL c1 b1]; exact (heq _ _ mf1 m1).mpr f3
      · intro b hb
        have mb : mask b = true := (hpos b).mp (by rw [hb, ← hL c2 b2]; exact (hpos c2).mpr m2)
        have hrb : raw b = raw c2 := (heq b c2 mb m2).mp (by rw [hb, hL c2 b2])
        by_contra hge
        exact g4 b (by omega) hrb
    · rintro ⟨a, ha, hall⟩
      have ma : mask a = true := (hpos a).mp (by rw [ha, ← hL c1 b1]; exact (hpos c1).mpr m1)
      have hra : raw a = raw c1 := (heq a c1 ma m1).mp (by rw [ha, hL c1 b1])
      have mg : mask (firstOf n raw c2) = true := (hrawpos _).mp (by rw [g3]; exact p2)
      have hlt := hall (firstOf n raw c2) (by rw [← hL c2 b2]; exact (heq _ _ mg m2).mpr g3)
      by_contra hge
      exact f4 a (by omega) hra
  · intro c m k hk hle
    rw [hL c (hmask c m)] at hle
    obtain ⟨c', h1, _, _, h4⟩ := rank_gapfree n raw (hmask c m) ((hrawpos c).mpr m) k hk hle
    exact ⟨c', by rw [hL c' h1, h4]⟩

/-- **Partition, from the mask.**  Running the labeller and then the periodic merge loop (this is
`locateMask`), two mask cells end in the same cluster exactly when they are connected inside the mask
through in-box face pairs and periodic face pairs — for every shape, periodicity mask and image. -/
theorem locateMask_partition (shape : List Nat) (periodic : List Bool) (mask : Nat → Bool)
    (hmask : ∀ c, mask c = true → c < numCells shape) (coord : Nat → Nat → Nat) (cells : List Nat)
    (shp : Nat → Nat) :
    let L := labelFn shape mask
    let st := mergeLoop shp L (initSt coord L cells) (edgesOf shape periodic)
    (∀ c, 0 < st.lab c ↔ mask c = true) ∧
    ∀ c1 c2, mask c1 = true → mask c2 = true →
      (st.lab c1 = st.lab c2 ↔ MaskConn mask (inboxEdges shape ++ edgesOf shape periodic) c1 c2) := by
  intro L st
  obtain ⟨hpos, heq, _, _⟩ := labelExec_isLabelling shape mask hmask
  have inv : LabInv L st (edgesOf shape periodic) := labInv_final shp L coord cells _
  refine ⟨fun c => (inv.pos_iff c).trans (hpos c), ?_⟩
  intro c1 c2 m1 m2
  have p1 := (hpos c1).mpr m1
  have p2 := (hpos c2).mpr m2
  constructor
  · intro h
    have hc := inv.conn_of_eq c1 c2 p1 p2 h
    clear h p1 p2 m1 m2
    induction hc with
    | rel a b hl =>
      obtain ⟨ha, hb, hor⟩ := hl
      have ma := (hpos a).mp ha
      have mb := (hpos b).mp hb
      rcases hor with hsame | ⟨e, he, h1, h2⟩
      · exact MaskConn.mono (fun e he => List.mem_append_left _ he) ((heq a b ma mb).mp hsame)
      · exact EqvGen.rel _ _ ⟨ma, mb, Or.inr ⟨e, List.mem_append_right _ he, h1, h2⟩⟩
    | refl a => exact EqvGen.refl _
    | symm a b _ ih => exact EqvGen.symm _ _ ih
    | trans a b c _ _ ih1 ih2 => exact EqvGen.trans _ _ _ ih1 ih2
  · intro h
    apply inv.eq_of_conn L
    clear p1 p2 m1 m2
    induction h with
    | rel a b hl =>
      obtain ⟨ma, mb, hor⟩ := hl
      have pa := (hpos a).mpr ma
      have pb := (hpos b).mpr mb
      rcases hor with hab | ⟨e, he, h1, h2⟩
      · subst hab; exact EqvGen.refl _
      · rcases List.mem_append.mp he with hin | hper
        · have : L a = L b := (heq a b ma mb).mpr (EqvGen.rel _ _ ⟨ma, mb, Or.inr ⟨e, hin, h1, h2⟩⟩)
          exact EqvGen.rel _ _ ⟨pa, pb, Or.inl this⟩
        · exact EqvGen.rel _ _ ⟨pa, pb, Or.inr ⟨e, hper, h1, h2⟩⟩
    | refl a => exact EqvGen.refl _
    | symm a b _ ih => exact EqvGen.symm _ _ ih
    | trans a b c _ _ ih1 ih2 => exact EqvGen.trans _ _ _ ih1 ih2

/-- the labeller on the image of finding D1 reproduces scipy's labelling (1,2,2,3,2) -/
example :
    labelExec [5, 8] (fun c => ([0,0,0,0,0,0,0,0, 1,0,0,0,0,0,0,1, 0,0,0,0,0,0,0,1, 1,0,0,0,0,0,0,1,
      0,0,0,0,0,0,0,0] : List Nat).getD c 0 != 0)
      = [0,0,0,0,0,0,0,0, 1,0,0,0,0,0,0,2, 0,0,0,0,0,0,0,2, 3,0,0,0,0,0,0,2, 0,0,0,0,0,0,0,0] := by
  decide +kernel

end DV.C02

/-! ### the same, in terms of the grid's topology (coordinates) -/

namespace DV.C02
open DV.Merge DV.MergeInv DV.Label DV.LabelInv DV.GridGeom Relation

/-- `c'` is a face neighbour of `c` under the grid's topology: one step up along an axis inside the
box, or — on a periodic axis — from the lower face to the opposite cell of the upper face -/
def FaceAdj (shape : List Nat) (periodic : List Bool) (c c' : Nat) : Prop :=
  ∃ ax, StepUp shape ax c c' ∨ Across shape periodic ax c c'

/-- connectivity inside the mask under the grid's topology -/
def GridConn (shape : List Nat) (periodic : List Bool) (mask : Nat → Bool) : Nat → Nat → Prop :=
  EqvGen fun a b => mask a = true ∧ mask b = true ∧ (a = b ∨ FaceAdj shape periodic a b)

theorem faceAdj_iff_edge (shape : List Nat) (periodic : List Bool) (hpos : ∀ n ∈ shape, 0 < n) (a b : Nat) :
    FaceAdj shape periodic a b ↔ ∃ e ∈ inboxEdges shape ++ edgesOf shape periodic, e.l = a ∧ e.h = b := by
  constructor
  · rintro ⟨ax, h | h⟩
    · exact ⟨⟨ax, a, b⟩, List.mem_append_left _ ((inboxEdges_iff shape hpos ax a b).mpr h), rfl, rfl⟩
    · exact ⟨⟨ax, a, b⟩, List.mem_append_right _ ((edgesOf_iff shape periodic hpos ax a b).mpr h), rfl, rfl⟩
  · rintro ⟨⟨ax, l, h⟩, he, rfl, rfl⟩
    rcases List.mem_append.mp he with h1 | h1
    · exact ⟨ax, Or.inl ((inboxEdges_iff shape hpos ax _ _).mp h1)⟩
    · exact ⟨ax, Or.inr ((edgesOf_iff shape periodic hpos ax _ _).mp h1)⟩

/-- **C02, from the image and the grid alone.**  For every shape (any dimension, all extents
positive), every periodicity mask and every binary image: after labelling and periodic merging two
cells of the image belong to the same cluster exactly when they are connected inside the image by
face steps of the grid's topology (in-box steps and steps across periodic boundaries). -/
theorem locateMask_topology (shape : List Nat) (periodic : List Bool) (mask : Nat → Bool)
    (hpos : ∀ n ∈ shape, 0 < n) (hmask : ∀ c, mask c = true → c < numCells shape)
    (coord : Nat → Nat → Nat) (cells : List Nat) (shp : Nat → Nat) :
    let L := labelFn shape mask
    let st := mergeLoop shp L (initSt coord L cells) (edgesOf shape periodic)
    ∀ c1 c2, mask c1 = true → mask c2 = true →
      (st.lab c1 = st.lab c2 ↔ GridConn shape periodic mask c1 c2) := by
  intro L st c1 c2 m1 m2
  have h := (locateMask_partition shape periodic mask hmask coord cells shp).2 c1 c2 m1 m2
  have hrel : MaskLink mask (inboxEdges shape ++ edgesOf shape periodic) =
      fun a b => mask a = true ∧ mask b = true ∧ (a = b ∨ FaceAdj shape periodic a b) := by
    funext a b
    unfold MaskLink
    rw [faceAdj_iff_edge shape periodic hpos]
  unfold GridConn
  rw [← hrel]
  exact h

/-- non-vacuity: on the 5×8 grid of finding D1 (periodic along axis 1) the cell (1,0) [flat 8] and the
cell (1,7) [flat 15] are face neighbours across the periodic boundary, (1,7) and (2,7) [flat 23] in the box -/
example : Across [5, 8] [false, true] 1 8 15 ∧ StepUp [5, 8] 0 15 23 := by
  refine ⟨⟨by decide, by decide, by decide, by decide, by decide, by decide⟩,
    ⟨by decide, by decide, by decide, by decide, by decide⟩⟩

end DV.C02

/-! ### cylindrical grids (Model/Cyl.lean: the candidates before the overlap filter) -/

namespace DV.C02
open DV.Cyl

theorem foldl_add_rat (xs : List ℚ) (a : ℚ) : xs.foldl (· + ·) a = a + xs.sum := by
  induction xs generalizing a with
  | nil => simp
  | cons x xs ih => simp only [List.foldl_cons, List.sum_cons, ih]; ring

/-- the z position of a cluster found in an image with `nzp ≥ 1` columns lies strictly inside the image -/
theorem zpos_bounds (nzp : ℕ) (hn : 0 < nzp) (cl : Cluster) : 0 < cl.zpos nzp ∧ cl.zpos nzp < nzp := by
  unfold Cluster.zpos
  rw [foldl_add_rat]
  simp only [zero_add]
  have hle : ∀ cells : List ℕ, 0 ≤ (cells.map fun c => (zIdx nzp c : ℚ)).sum ∧
      (cells.map fun c => (zIdx nzp c : ℚ)).sum ≤ (cells.length : ℚ) * ((nzp : ℚ) - 1) := by
    intro cells
    induction cells with
    | nil => simp
    | cons c cs ih =>
      simp only [List.map_cons, List.sum_cons, List.length_cons]
      have hz : (zIdx nzp c : ℚ) ≤ (nzp : ℚ) - 1 := by
        have : zIdx nzp c < nzp := Nat.mod_lt _ hn
        have : (zIdx nzp c : ℚ) + 1 ≤ nzp := by exact_mod_cast this
        linarith
      have h0 : (0 : ℚ) ≤ zIdx nzp c := by positivity
      push_cast
      constructor <;> nlinarith [ih.1, ih.2]
  obtain ⟨h1, h2⟩ := hle cl.cells
  by_cases hl : cl.cells.length = 0
  · rw [hl]; simp
    have : (1 : ℚ) ≤ nzp := by exact_mod_cast hn
    linarith
  · have hpos : (0 : ℚ) < cl.cells.length := by exact_mod_cast Nat.pos_of_ne_zero hl
    have hq : (cl.cells.map fun c => (zIdx nzp c : ℚ)).sum / (cl.cells.length : ℚ) ≤ (nzp : ℚ) - 1 := by
      rw [div_le_iff₀ hpos]; linarith
    have hq0 : 0 ≤ (cl.cells.map fun c => (zIdx nzp c : ℚ)).sum / (cl.cells.length : ℚ) := div_nonneg h1 hpos.le
    constructor <;> linarith

/-- **Cylindrical grids: every candidate lies on the axis inside the box `[z_min, z_max)`** (cell units
`0 ≤ z < nz`), periodic or not, also after the fall-back for a spanning on-axis cluster. -/
theorem cyl_candidates_in_box (nr nz : ℕ) (hn : 0 < nz) (periodic : Bool) (mask : ℕ → Bool) (cs : List (ℚ × ℕ))
    (h : candidates nr nz periodic mask = some cs) : ∀ p ∈ cs, 0 ≤ p.1 ∧ p.1 < nz := by
  have hplain : ∀ cs', single nr nz nz mask = some cs' → ∀ p ∈ cs', 0 ≤ p.1 ∧ p.1 < nz := by
    intro cs' hs p hp
    unfold single at hs
    simp only at hs
    split at hs
    · exact absurd hs (by simp)
    · simp only [Option.some.injEq] at hs
      rw [← hs] at hp
      obtain ⟨cl, _, rfl⟩ := List.mem_map.mp hp
      have := zpos_bounds nz hn cl
      exact ⟨this.1.le, this.2⟩
  unfold candidates at h
  simp only at h
  by_cases hp : periodic = true
  · simp only [hp, if_true] at h
    split at h
    · exact hplain cs h
    · rename_i cs0 _
      simp only [Option.some.injEq] at h
      intro p hpm
      rw [← h] at hpm
      obtain ⟨q, hq, rfl⟩ := List.mem_map.mp hpm
      obtain ⟨_, hkeep⟩ := List.mem_filter.mp hq
      simp only [Bool.and_eq_true, decide_eq_true_eq] at hkeep
      by_cases he : q.1 = (nz : ℚ)
      · simp [he]; exact_mod_cast hn
      · have hne : (q.1 == (nz : ℚ)) = false := by simpa using he
        simp only [hne]
        exact ⟨hkeep.1, lt_of_le_of_ne hkeep.2 he⟩
  · have hp' : periodic = false := by simpa using hp
    simp only [hp', Bool.false_eq_true, if_false] at h
    exact hplain cs h

end DV.C02

/-! ### cylindrical grids: the candidates are the components that touch the axis (any image, z not periodic) -/
namespace DV.C02
open DV.Merge DV.MergeInv DV.Label DV.LabelInv DV.GridGeom DV.Cyl Relation

theorem foldl_max_ge (l : List ℕ) (a : ℕ) : a ≤ l.foldl max a ∧ ∀ x ∈ l, x ≤ l.foldl max a := by
  induction l generalizing a with
  | nil => simp
  | cons y l ih =>
    obtain ⟨h1, h2⟩ := ih (max a y)
    simp only [List.foldl_cons]
    refine ⟨le_trans (le_max_left a y) h1, ?_⟩
    intro x hx
    rcases List.mem_cons.mp hx with rfl | hx
    · exact le_trans (le_max_right a x) h1
    · exact h2 x hx

theorem getD_le_foldl_max (l : List ℕ) (c : ℕ) : l.getD c 0 ≤ l.foldl max 0 := by
  by_cases hc : c < l.length
  · rw [List.getD_eq_getElem?_getD, List.getElem?_eq_getElem hc]
    exact (foldl_max_ge l 0).2 _ (List.getElem_mem hc)
  · rw [List.getD_eq_getElem?_getD, List.getElem?_eq_none (by omega)]; simp

theorem labelExec_length (shape : List ℕ) (mask : ℕ → Bool) : (labelExec shape mask).length = numCells shape := by
  unfold labelExec; simp

theorem foldl_max_le (l : List ℕ) (a b : ℕ) (ha : a ≤ b) (h : ∀ x ∈ l, x ≤ b) : l.foldl max a ≤ b := by
  induction l generalizing a with
  | nil => simpa
  | cons x xs ih =>
    simp only [List.foldl_cons]
    exact ih _ (max_le ha (h x (by simp))) (fun y hy => h y (by simp [hy]))

theorem foldl_max_mem (l : List ℕ) (a : ℕ) : l.foldl max a = a ∨ l.foldl max a ∈ l := by
  induction l generalizing a with
  | nil => left; rfl
  | cons x xs ih =>
    simp only [List.foldl_cons]
    rcases ih (max a x) with h | h
    · rcases le_total a x with hax | hax
      · right; rw [h, max_eq_right hax]; simp
      · left; rw [h, max_eq_left hax]
    · right; exact List.mem_cons_of_mem _ h



/-- the clusters of a labelled image, with their labels: cluster number `j+1` is the label class of an image cell that
carries the label `j+1` -/
theorem clustersOf_reps (shape : List ℕ) (mask : ℕ → Bool) (hmask : ∀ c, mask c = true → c < numCells shape) :
    let L := labelFn shape mask
    (clustersOf (labelExec shape mask)).Pairwise (fun a b => a.label ≠ b.label) ∧
    (∀ cl ∈ clustersOf (labelExec shape mask), ∃ c0, mask c0 = true ∧ L c0 = cl.label ∧
      cl.cells = (List.range (numCells shape)).filter fun c => L c == L c0) ∧
    (∀ c0, mask c0 = true → ∃ cl ∈ clustersOf (labelExec shape mask), cl.label = L c0) := by
  intro L
  obtain ⟨hpos, _, _, hgap⟩ := labelExec_isLabelling shape mask hmask
  set labels := labelExec shape mask with hlabels
  have hL : ∀ c, L c = labels.getD c 0 := fun c => rfl
  have hlen : labels.length = numCells shape := labelExec_length shape mask
  set K := labels.foldl max 0 with hK
  have hKatt : K = 0 ∨ ∃ c, mask c = true ∧ L c = K := by
    rcases foldl_max_mem labels 0 with h | h
    · left; exact h
    · obtain ⟨i, hi, hie⟩ := List.getElem_of_mem h
      by_cases h0 : K = 0
      · left; exact h0
      · right
        have : L i = K := by rw [hL, List.getD_eq_getElem?_getD, List.getElem?_eq_getElem hi]; simpa using hie
        have hp : 0 < L i := by omega
        exact ⟨i, (hpos i).mp hp, this⟩
  refine ⟨?_, ?_, ?_⟩
  · unfold clustersOf
    simp only
    rw [List.pairwise_map]
    exact (List.pairwise_lt_range (n := K)).imp (fun h => by simp only; omega)
  · intro cl hcl
    unfold clustersOf at hcl
    simp only [List.mem_map, List.mem_range] at hcl
    obtain ⟨j, hj, rfl⟩ := hcl
    rcases hKatt with h0 | ⟨cK, mK, hcK⟩
    · omega
    · have hjK : j + 1 ≤ L cK := by omega
      obtain ⟨c', hc'⟩ := hgap cK mK (j + 1) (by omega) hjK
      have hc'' : L c' = j + 1 := hc'
      have hp' : 0 < L c' := by omega
      refine ⟨c', (hpos c').mp hp', hc'', ?_⟩
      simp only [hlen]
      apply List.filter_congr
      intro c _
      rw [hc'', hL]
  · intro c0 m0
    have hp : 0 < L c0 := (hpos c0).mpr m0
    have hle : L c0 ≤ K := by rw [hL]; exact getD_le_foldl_max labels c0
    refine ⟨⟨L c0 - 1 + 1, (List.range labels.length).filter fun c => labels.getD c 0 == L c0 - 1 + 1⟩, ?_, by simp only; omega⟩
    unfold clustersOf
    simp only [List.mem_map, List.mem_range]
    exact ⟨L c0 - 1, by omega, rfl⟩

theorem exists_reps {α β : Type} (Q : α → β → Prop) : ∀ l : List α, (∀ a ∈ l, ∃ b, Q a b) → ∃ r : List β, List.Forall₂ Q l r
  | [], _ => ⟨[], List.Forall₂.nil⟩
  | a :: l, h => by
    obtain ⟨b, hb⟩ := h a (by simp)
    obtain ⟨r, hr⟩ := exists_reps Q l (fun x hx => h x (List.mem_cons_of_mem _ hx))
    exact ⟨b :: r, List.Forall₂.cons hb hr⟩


theorem forall₂_mem_right {α β : Type} {Q : α → β → Prop} : ∀ {l : List α} {r : List β}, List.Forall₂ Q l r →
    ∀ b ∈ r, ∃ a ∈ l, Q a b
  | _, _, List.Forall₂.nil, b, hb => by simp at hb
  | _, _, List.Forall₂.cons (a := a) (l₁ := l) h ht, b, hb => by
    rcases List.mem_cons.mp hb with rfl | hb'
    · exact ⟨a, by simp, h⟩
    · obtain ⟨a', ha', hq⟩ := forall₂_mem_right ht b hb'
      exact ⟨a', List.mem_cons_of_mem _ ha', hq⟩

theorem forall₂_mem_left {α β : Type} {Q : α → β → Prop} : ∀ {l : List α} {r : List β}, List.Forall₂ Q l r →
    ∀ a ∈ l, ∃ b ∈ r, Q a b
  | _, _, List.Forall₂.nil, a, ha => by simp at ha
  | _, _, List.Forall₂.cons (b := b) (l₂ := r) h ht, a, ha => by
    rcases List.mem_cons.mp ha with rfl | ha'
    · exact ⟨b, by simp, h⟩
    · obtain ⟨b', hb', hq⟩ := forall₂_mem_left ht a ha'
      exact ⟨b', List.mem_cons_of_mem _ hb', hq⟩

theorem forall₂_pairwise {α β : Type} {Q : α → β → Prop} {P : α → α → Prop} {P' : β → β → Prop}
    (hPP : ∀ a b a' b', Q a a' → Q b b' → P a b → P' a' b') :
    ∀ {l : List α} {r : List β}, List.Forall₂ Q l r → l.Pairwise P → r.Pairwise P'
  | _, _, List.Forall₂.nil, _ => List.Pairwise.nil
  | _, _, List.Forall₂.cons h ht, hp => by
    rw [List.pairwise_cons] at hp ⊢
    refine ⟨?_, forall₂_pairwise hPP ht hp.2⟩
    intro b' hb'
    obtain ⟨b, hb, hq⟩ := forall₂_mem_right ht b' hb'
    exact hPP _ _ _ _ h hq (hp.1 b hb)

theorem forall₂_map_eq {α β γ : Type} {Q : α → β → Prop} (f : α → γ) (g : β → γ) (hfg : ∀ a b, Q a b → f a = g b) :
    ∀ {l : List α} {r : List β}, List.Forall₂ Q l r → l.map f = r.map g
  | _, _, List.Forall₂.nil => rfl
  | _, _, List.Forall₂.cons h ht => by
    simp only [List.map_cons, hfg _ _ h, forall₂_map_eq f g hfg ht]

/-- **C02 on a cylindrical grid without periodic z, for ANY binary image**: the candidates of the model of
`_locate_droplets_in_mask_cylindrical` correspond one-to-one to the connected components (cells connect through faces)
that touch the symmetry axis: there is a list of representatives — image cells of pairwise different components, each
component containing a cell on the axis, every on-axis image cell's component represented — such that the candidates are,
in this order, (mean height + 1/2, total weight) of the representatives' components.  In particular an image with no
component on the axis yields no candidate (`cyl_no_axis_no_candidate`). -/
theorem cyl_candidates_are_components (nr nz : ℕ) (hnz : 0 < nz) (mask : ℕ → Bool)
    (hmask : ∀ c, mask c = true → c < numCells [nr, nz]) :
    let L := labelFn [nr, nz] mask
    ∃ reps : List ℕ,
      (∀ c0 ∈ reps, mask c0 = true ∧ ∃ c, L c = L c0 ∧ c / nz = 0) ∧
      reps.Pairwise (fun a b => L a ≠ L b) ∧
      (∀ c, mask c = true → c / nz = 0 → ∃ c0 ∈ reps, L c0 = L c) ∧
      candidates nr nz false mask = some (reps.map fun c0 =>
        (Cluster.zpos nz ⟨0, (List.range (numCells [nr, nz])).filter fun c => L c == L c0⟩,
         Cluster.weight nz ⟨0, (List.range (numCells [nr, nz])).filter fun c => L c == L c0⟩)) := by
  intro L
  obtain ⟨hpw, hcls, hall⟩ := clustersOf_reps [nr, nz] mask hmask
  set clusters := clustersOf (labelExec [nr, nz] mask) with hclusters
  set on := clusters.filter (Cluster.onAxis nz) with hon
  have hQ : ∀ cl ∈ on, ∃ c0, (mask c0 = true ∧ L c0 = cl.label ∧
      cl.cells = (List.range (numCells [nr, nz])).filter fun c => L c == L c0) :=
    fun cl hcl => hcls cl (List.mem_of_mem_filter hcl)
  obtain ⟨reps, hreps⟩ := exists_reps _ on hQ
  refine ⟨reps, ?_, ?_, ?_, ?_⟩
  · intro c0 hc0
    obtain ⟨cl, hcl, hm, _, hcells⟩ := forall₂_mem_right hreps c0 hc0
    refine ⟨hm, ?_⟩
    have hax : Cluster.onAxis nz cl = true := (List.mem_filter.mp hcl).2
    unfold Cluster.onAxis rIdx at hax
    simp only [List.any_eq_true, beq_iff_eq] at hax
    obtain ⟨c, hc, hc0'⟩ := hax
    rw [hcells] at hc
    have := (List.mem_filter.mp hc).2
    exact ⟨c, by simpa using this, hc0'⟩
  · refine forall₂_pairwise ?_ hreps (hpw.sublist List.filter_sublist)
    intro a b a' b' ha hb hab
    rw [ha.2.1, hb.2.1]; exact hab
  · intro c mc hc0
    obtain ⟨cl, hcl, hlab⟩ := hall c mc
    obtain ⟨c0', _, hl0, hcells⟩ := hcls cl hcl
    have hcmem : c ∈ cl.cells := by
      rw [hcells]
      exact List.mem_filter.mpr ⟨List.mem_range.mpr (hmask c mc), by simp only [beq_iff_eq]; rw [hl0, hlab]⟩
    have hax : Cluster.onAxis nz cl = true := by
      unfold Cluster.onAxis rIdx
      simp only [List.any_eq_true, beq_iff_eq]
      exact ⟨c, hcmem, hc0⟩
    obtain ⟨c0, hc0r, _, hl, _⟩ := forall₂_mem_left hreps cl (List.mem_filter.mpr ⟨hcl, hax⟩)
    exact ⟨c0, hc0r, by rw [hl, hlab]⟩
  · unfold candidates
    simp only [Bool.false_eq_true, if_false]
    unfold single
    simp only
    rw [← hclusters, ← hon]
    have hns : (on.any fun cl => cl.spans nz nz) = false := by
      rw [List.any_eq_false]
      intro cl _
      unfold Cluster.spans zIdx
      simp only [Bool.and_eq_true, List.any_eq_true, decide_eq_true_eq, not_and, not_exists]
      intro _ c _
      exact Nat.not_le.mpr (Nat.mod_lt _ hnz)
    rw [hns]
    simp only [Bool.false_eq_true, if_false, Option.some.injEq]
    apply forall₂_map_eq _ _ _ hreps
    intro cl c0 hq
    have h1 : Cluster.zpos nz cl = Cluster.zpos nz ⟨0, cl.cells⟩ := rfl
    have h2 : Cluster.weight nz cl = Cluster.weight nz ⟨0, cl.cells⟩ := rfl
    rw [h1, h2, hq.2.2]

/-- an image with no cell on the symmetry axis yields no candidate -/
theorem cyl_no_axis_no_candidate (nr nz : ℕ) (hnz : 0 < nz) (mask : ℕ → Bool)
    (hmask : ∀ c, mask c = true → c < numCells [nr, nz]) (hno : ∀ c, mask c = true → c / nz ≠ 0) :
    candidates nr nz false mask = some [] := by
  obtain ⟨reps, h1, _, _, h4⟩ := cyl_candidates_are_components nr nz hnz mask hmask
  have : reps = [] := by
    cases reps with
    | nil => rfl
    | cons c0 t =>
      obtain ⟨_, c, hl, hc⟩ := h1 c0 (by simp)
      obtain ⟨hpos, _, _, _⟩ := labelExec_isLabelling [nr, nz] mask hmask
      have m0 := (h1 c0 (by simp)).1
      have : mask c = true := (hpos c).mp (by rw [hl]; exact (hpos c0).mpr m0)
      exact absurd hc (hno c this)
  rw [h4, this]; rfl

end DV.C02

/-! ### known finding D21: the 'spanning' test of the periodic cylindrical branch

`slices[1].start == 0 and slices[1].stop > nz` (on the 3× padded image) is meant to detect an on-axis component that
winds round the z axis.  It also fires for a component that does NOT wind but is longer than one period when
unwrapped; the code then analyses the image without periodic boundary conditions.  Witness (found by the
implementation-side predicate with `VERIF_SEED=7`, reproduced by the model): -/
namespace DV.C02
open DV.Cyl DV.Label DV.Merge

def maskD21 : List Bool :=
  [0,0,0,0,0,1,1, 1,0,1,1,1,1,1, 0,0,1,0,0,0,0, 1,1,1,0,0,0,1, 0,0,1,0,0,0,1].map (· == 1)

/-- On the 5 × 7 image `maskD21` with periodic z: all 15 image cells form ONE component of the grid's topology (the
Cartesian pipeline, proved correct above, finds one cluster of 15 cells), of weight 71 (volume / π dr² dz); the padded
analysis is abandoned (`single … = none`) and the candidate handed on is an in-box piece of weight 52. -/
theorem cyl_long_component_witness :
    (locateMask [5, 7] [false, true] maskD21).map (fun p => p.2.1) = [15] ∧
    (((List.range 35).filter fun c => maskD21.getD c false).map fun c => 2 * rIdx 7 c + 1).sum = 71 ∧
    single 5 21 7 (padded 7 fun c => maskD21.getD c false) = none ∧
    candidates 5 7 true (fun c => maskD21.getD c false) = some [(11/3, 52)] := by
  decide +kernel

end DV.C02
