/-
  C03 — A rendered phase field is a faithful, finite picture of the droplet.
  * profile theorems: over `ℝ`, about `Generated/Profile.lean` (regenerated from the three
    `_get_phase_field` bodies and from `get_phase_field` on every run);
  * geometry theorems: over `ℚ`, about `Model/Render.lean` (periodic difference vector, cell
    centres, sum-and-clip of an emulsion).
  The perturbed renderer is the diffuse renderer with the radius replaced by the interface
  distance in the cell's direction (`perturbed_smooth = diffuse_smooth`, proved below), so every
  profile theorem holds for perturbed shapes "compared with the interface distance in that direction".
-/
import DropletsVerif.Lemmas.RealInst
import DropletsVerif.Generated.Profile
import DropletsVerif.Model.Render
import DropletsVerif.Lemmas.BallConn
import Mathlib.Tactic
import Mathlib.Algebra.Order.Floor.Ring
import Mathlib.Data.Rat.Floor
import Mathlib.Analysis.SpecialFunctions.Trigonometric.DerivHyp

namespace DV.C03
open DV DV.Gen DV.Render

/-! ### the smooth profile -/

theorem smooth_eq (R w d : ℝ) : diffuse_smooth R w d = 1 / 2 + 1 / 2 * Real.tanh ((R - d) / w) := by
  simp [diffuse_smooth]

/-- the perturbed renderer uses the very same profile and comparison -/
theorem perturbed_eq_diffuse :
    (perturbed_smooth : ℝ → ℝ → ℝ → ℝ) = diffuse_smooth ∧
    (perturbed_inside : ℝ → ℝ → Bool) = diffuse_inside ∧ (spherical_inside : ℝ → ℝ → Bool) = diffuse_inside :=
  ⟨rfl, rfl, rfl⟩

/-- **Finite and strictly between 0 and 1** for every radius, width and distance -/
theorem profile_bounds (R w d : ℝ) : 0 < diffuse_smooth R w d ∧ diffuse_smooth R w d < 1 := by
  rw [smooth_eq]
  have h1 := Real.neg_one_lt_tanh ((R - d) / w)
  have h2 := Real.tanh_lt_one ((R - d) / w)
  constructor <;> linarith

theorem tanh_lt_tanh {x y : ℝ} (h : x < y) : Real.tanh x < Real.tanh y := by
  rw [Real.tanh_eq_sinh_div_cosh, Real.tanh_eq_sinh_div_cosh, div_lt_div_iff₀ (Real.cosh_pos x) (Real.cosh_pos y)]
  have hs : 0 < Real.sinh (y - x) := Real.sinh_pos_iff.mpr (by linarith)
  rw [Real.sinh_sub] at hs
  linarith

theorem tanh_pos_iff {x : ℝ} : 0 < Real.tanh x ↔ 0 < x := by
  constructor
  · intro h
    by_contra hx
    have hx' : x ≤ 0 := not_lt.mp hx
    rcases hx'.lt_or_eq with h' | h'
    · have := tanh_lt_tanh h'
      rw [Real.tanh_zero] at this
      linarith
    · rw [h', Real.tanh_zero] at h
      exact lt_irrefl _ h
  · intro h
    have := tanh_lt_tanh h
    rwa [Real.tanh_zero] at this

/-- **A cell exceeds the midpoint exactly when its centre is inside the interface** -/
theorem profile_gt_half_iff (R w d : ℝ) (hw : 0 < w) : 1 / 2 < diffuse_smooth R w d ↔ d < R := by
  rw [smooth_eq]
  have : 0 < Real.tanh ((R - d) / w) ↔ d < R := by
    rw [tanh_pos_iff, div_pos_iff_of_pos_right hw]
    constructor <;> intro h <;> linarith
  constructor
  · intro h; exact this.mp (by linarith)
  · intro h; have := this.mpr h; linarith

/-- **For spherical droplets the value never increases with the distance** -/
theorem profile_antitone (R w d1 d2 : ℝ) (hw : 0 < w) (h : d1 ≤ d2) :
    diffuse_smooth R w d2 ≤ diffuse_smooth R w d1 := by
  rw [smooth_eq, smooth_eq]
  rcases h.lt_or_eq with h' | h'
  · have : (R - d2) / w < (R - d1) / w := by
      apply div_lt_div_of_pos_right _ hw; linarith
    have := tanh_lt_tanh this
    linarith
  · rw [h']

/-- **Sharp droplets give exactly the indicator** of `dist < R` (width 0 or boolean image), for all
three renderers -/
theorem sharp_is_indicator (R w d : ℝ) (b : Bool) (h : w = 0 ∨ b = true) :
    render_value diffuse_inside diffuse_smooth R w d b = if d < R then 1 else 0 := by
  have hc : DNum.eqz w = true ∨ b = true := by
    rcases h with h | h
    · left; simp [h]
    · right; exact h
  simp only [render_value, if_pos hc, diffuse_inside]
  by_cases hd : d < R <;> simp [hd]

/-- otherwise the smooth profile is used -/
theorem smooth_branch (R w d : ℝ) (hw : w ≠ 0) :
    render_value diffuse_inside diffuse_smooth R w d false = diffuse_smooth R w d := by
  have hc : ¬ (DNum.eqz w = true ∨ false = true) := by simp [hw]
  simp only [render_value, if_neg hc]

/-! ### scaling to the requested outside / inside values -/

theorem scale_eq (vmin vmax x : ℝ) : scale_field vmin vmax x = vmin + (vmax - vmin) * x := by
  simp [scale_field]

/-- **The field lies between the requested values** (whichever is larger) -/
theorem scale_between (vmin vmax x : ℝ) (hx : 0 ≤ x ∧ x ≤ 1) :
    (vmin ≤ vmax → vmin ≤ scale_field vmin vmax x ∧ scale_field vmin vmax x ≤ vmax) ∧
    (vmax ≤ vmin → vmax ≤ scale_field vmin vmax x ∧ scale_field vmin vmax x ≤ vmin) := by
  rw [scale_eq]
  constructor <;> intro h <;> constructor <;> nlinarith [hx.1, hx.2]

/-- a cell exceeds the midpoint of the requested values exactly when its unscaled value exceeds ½ -/
theorem scale_gt_mid_iff (vmin vmax x : ℝ) (h : vmin < vmax) :
    (vmin + vmax) / 2 < scale_field vmin vmax x ↔ 1 / 2 < x := by
  rw [scale_eq]
  constructor <;> intro hx <;> nlinarith

/-- end to end for a diffuse droplet with `vmin < vmax`, `w > 0`: above the midpoint ⇔ inside -/
theorem rendered_gt_mid_iff (vmin vmax R w d : ℝ) (h : vmin < vmax) (hw : 0 < w) :
    (vmin + vmax) / 2 < scale_field vmin vmax (render_value diffuse_inside diffuse_smooth R w d false) ↔ d < R := by
  rw [smooth_branch R w d hw.ne', scale_gt_mid_iff vmin vmax _ h, profile_gt_half_iff R w d hw]

/-! ### periodic metric and translation equivariance (exact, over ℚ) -/

theorem floor_add_int (x : ℚ) (m : ℤ) : (x + m).floor = x.floor + m := by
  have : ∀ q : ℚ, q.floor = ⌊q⌋ := fun _ => rfl
  rw [this, this, Int.floor_add_intCast]

/-- the periodic difference does not change when the point is moved by whole periods -/
theorem wrapDiff_periodic (L x : ℚ) (hL : L ≠ 0) (m : ℤ) : wrapDiff L (x + m * L) = wrapDiff L x := by
  unfold wrapDiff fmod
  have h1 : (x + m * L + L / 2) / L = (x + L / 2) / L + m := by field_simp; ring
  rw [h1, floor_add_int]
  push_cast
  ring

/-- it is the representative of the difference in `[-L/2, L/2)` -/
theorem wrapDiff_range (L x : ℚ) (hL : 0 < L) : -(L / 2) ≤ wrapDiff L x ∧ wrapDiff L x < L / 2 := by
  unfold wrapDiff fmod
  have hfl : ∀ q : ℚ, q.floor = ⌊q⌋ := fun _ => rfl
  rw [hfl]
  have h1 := Int.floor_le ((x + L / 2) / L)
  have h2 := Int.lt_floor_add_one ((x + L / 2) / L)
  have e : x + L / 2 = (x + L / 2) / L * L := by field_simp
  constructor <;> nlinarith

/-- a difference that already is the minimal image is left alone -/
theorem wrapDiff_of_mem (L x : ℚ) (hL : 0 < L) (h1 : -(L / 2) ≤ x) (h2 : x < L / 2) : wrapDiff L x = x := by
  unfold wrapDiff fmod
  have hfl : ∀ q : ℚ, q.floor = ⌊q⌋ := fun _ => rfl
  rw [hfl]
  have h0 : ⌊(x + L / 2) / L⌋ = 0 := by
    rw [Int.floor_eq_iff]
    constructor
    · simp only [Int.cast_zero]; apply div_nonneg <;> linarith
    · simp only [Int.cast_zero, zero_add]; rw [div_lt_one hL]; linarith
  rw [h0]; simp

/-- **Taking the minimal image twice is taking it once** — this is why the repair of D12 (`polar_coordinates` wraps the difference along the
symmetry axis of a periodic cylinder itself, after py-pde's `difference_vector`) stays right when the dependency is repaired and wraps it too,
and why it is harmless on every grid on which py-pde already wrapped that component -/
theorem wrapDiff_idem (L x : ℚ) (hL : 0 < L) : wrapDiff L (wrapDiff L x) = wrapDiff L x := by
  obtain ⟨h1, h2⟩ := wrapDiff_range L x hL
  exact wrapDiff_of_mem L _ hL h1 h2

/-- and differs from the plain difference by a whole number of periods -/
theorem wrapDiff_congr (L x : ℚ) (hL : L ≠ 0) : ∃ k : ℤ, wrapDiff L x = x - k * L := by
  refine ⟨((x + L / 2) / L).floor, ?_⟩
  unfold wrapDiff fmod; ring

/-- **Translating a droplet by `m` whole cells along a periodic axis rolls the field by `m`
cells**: the value of cell `i` after the shift is the value cell `j` had before, whenever
`i ≡ j + m (mod n)` — for every droplet class, because all of them see a cell only through the
difference vector. -/
theorem render_roll (a : Axis) (hp : a.periodic = true) (hdx : a.dx ≠ 0) (hn : a.n ≠ 0) (c : ℚ)
    (m k : ℤ) (i j : ℕ) (hij : (i : ℤ) = j + m + k * a.n) :
    a.diff (c + m * a.dx) i = a.diff c j := by
  unfold Axis.diff
  rw [if_pos hp, if_pos hp]
  have hL : a.length ≠ 0 := by
    unfold Axis.length
    exact mul_ne_zero hdx (by exact_mod_cast hn)
  have hi : (i : ℚ) = j + m + k * a.n := by exact_mod_cast hij
  have : a.centre i - (c + m * a.dx) = (a.centre j - c) + k * a.length := by
    unfold Axis.centre Axis.length
    rw [hi]; ring
  rw [this, wrapDiff_periodic _ _ hL]

/-! ### emulsions: sum of the droplets' fields, clipped, independent of the order -/

theorem clip01_range (x : ℚ) : 0 ≤ clip01 x ∧ clip01 x ≤ 1 := by
  unfold clip01
  split
  · exact ⟨le_refl _, by norm_num⟩
  · split
    · exact ⟨by norm_num, le_refl _⟩
    · constructor <;> linarith

/-- **The emulsion's field does not depend on the order of the droplets** (exact arithmetic) -/
theorem emulsionField_perm (f1 f2 : List (List ℚ)) (n : ℕ) (h : f1.Perm f2) :
    emulsionField f1 n = emulsionField f2 n := by
  unfold emulsionField
  apply List.map_congr_left
  intro k _
  congr 1
  exact (h.map _).sum_eq

/-- and always lies in `[0, 1]` -/
theorem emulsionField_range (fs : List (List ℚ)) (n : ℕ) : ∀ v ∈ emulsionField fs n, 0 ≤ v ∧ v ≤ 1 := by
  intro v hv
  unfold emulsionField at hv
  obtain ⟨k, _, rfl⟩ := List.mem_map.mp hv
  exact clip01_range _

/-- non-vacuity: a periodic axis of 8 unit cells, droplet moved by 3 cells -/
example :
    let a : Axis := ⟨0, 1, 8, true⟩
    a.diff ((5 : ℚ) / 4 + 3 * 1) 1 = a.diff (5 / 4) 6 := by decide +kernel

end DV.C03

/-! ### the whole image rolls -/

namespace DV.C03
open DV.Render DV.BallConn

/-- **Translating a droplet by `m` whole cells along a periodic axis rolls the whole (sharp) image by `m` cells.**
For every grid, every centre and radius: the cell with multi-index `idx` is covered by the droplet shifted by
`m·dx` along the periodic axis `k` iff the cell obtained by moving `idx` back by `m` cells along that axis
(cyclically: index `j` with `i ≡ j + m (mod n)`) is covered by the unshifted droplet.  The smooth profile
depends on a cell only through the same squared distance, so the statement carries over to every droplet
class (`render_roll` is the per-axis fact). -/
theorem image_roll (axes : List Axis) (ctr : List ℚ) (idx : List ℕ) (R : ℚ) (k : ℕ)
    (h1 : k < axes.length) (h2 : k < ctr.length) (h3 : k < idx.length)
    (hp : (axes.getD k default).periodic = true) (hdx : (axes.getD k default).dx ≠ 0) (hn : (axes.getD k default).n ≠ 0)
    (m t : ℤ) (j : ℕ) (hij : (idx.getD k 0 : ℤ) = j + m + t * (axes.getD k default).n) :
    inside axes (ctr.set k (ctr.getD k 0 + m * (axes.getD k default).dx)) R idx = inside axes ctr R (idx.set k j) := by
  unfold inside
  congr 1
  rw [dist2_eq_dist2r, dist2_eq_dist2r]
  -- both sides differ from dist2r axes ctr idx only in the k-th summand, and those summands agree
  have key : ∀ (axes : List Axis) (ctr : List ℚ) (idx : List ℕ) (k : ℕ), k < axes.length → k < ctr.length → k < idx.length →
      ∀ (c' : ℚ) (j : ℕ), (axes.getD k default).diff c' (idx.getD k 0) = (axes.getD k default).diff (ctr.getD k 0) j →
      dist2r axes (ctr.set k c') idx = dist2r axes ctr (idx.set k j) := by
    intro axes
    induction axes with
    | nil => intro ctr idx k h; simp at h
    | cons a as ih =>
      intro ctr idx k h1 h2 h3 c' j hd
      cases ctr with
      | nil => simp at h2
      | cons c cs =>
        cases idx with
        | nil => simp at h3
        | cons i is =>
          cases k with
          | zero =>
            simp only [List.set_cons_zero, dist2r]
            simp only [List.getD_cons_zero] at hd
            rw [hd]
          | succ k =>
            simp only [List.set_cons_succ, dist2r]
            simp only [List.getD_cons_succ] at hd
            rw [ih cs is k (by simpa using h1) (by simpa using h2) (by simpa using h3) c' j hd]
  exact congrArg (· < R * R) (key axes ctr idx k h1 h2 h3 _ j (render_roll _ hp hdx hn _ m t _ j hij))

end DV.C03
