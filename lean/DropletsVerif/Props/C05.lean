/-
  C05 — Refined localisation recovers position, radius and interface width.
  The recovery claim itself (relative error below 1e-4) is a statement about the convergence of an
  iterative floating-point optimiser and is NOT a theorem; it is validated by differential runs
  (level `other`).  What is proved here are the logical conditions recovery depends on, each of which
  a code change can break:

  * the ground truth is a ZERO of the residual that `refine_droplet` minimises — for supplied levels
    and for fitted levels at (vmin, vrng = vmax − vmin) — because the residual (regenerated from
    `_image_deviation`) and the renderer/scaling (regenerated from `get_phase_field`) are the same
    affine function of the same profile; hence the truth is a global minimiser of cost 0, and it lies
    inside the bounds (C04 `bounds_spec`);
  * the starting point is feasible (C04 `refinePlan_x0_feasible`), it is within half a cell of the
    truth (C01 `lattice_com_within_half_cell`), and detection depends on the threshold rule only
    through the binary image (C18).
-/
import DropletsVerif.Lemmas.RealInst
import DropletsVerif.Generated.Residual
import DropletsVerif.Generated.Profile
import DropletsVerif.Props.C04
import DropletsVerif.Props.C01
import DropletsVerif.Props.C03
import Mathlib.Tactic

namespace DV.C05
open DV DV.Gen

/-- **The ground truth has zero residual** (supplied and fitted intensity levels): an image
rendered as `vmin + (vmax − vmin)·profile` is reproduced exactly by the fit model at the true
droplet parameters with `vrng = vmax − vmin` — in whatever unit the deviations are measured. -/
theorem truth_zero_residual (vmin vmax profile scale : ℝ) :
    residual_fixed_levels vmin (vmax - vmin) profile (scale_field vmin vmax profile) scale = 0 ∧
    residual_fitted_levels vmin (vmax - vmin) profile (scale_field vmin vmax profile) scale = 0 := by
  simp [residual_fixed_levels, residual_fitted_levels, scale_field]

/-- the unit in which `refine_droplet` measures deviations (regenerated `residual_scale`) is the absolute
intensity range, 1 for a constant image: always positive, so dividing by it is harmless -/
theorem residual_scale_spec (vrng : ℝ) :
    residual_scale vrng = (if vrng = 0 then 1 else |vrng|) ∧ 0 < residual_scale vrng := by
  unfold residual_scale
  by_cases h0 : vrng = 0
  · subst h0; simp
  · rcases lt_or_gt_of_ne h0 with h | h
    · simp [h0, h, abs_of_neg h]
    · simp [h0, not_lt.mpr h.le, abs_of_pos h, h]

/-- the residual is zero ONLY where model and image agree: a non-zero residual at the truth would
mean the renderer and the fit model differ -/
theorem residual_eq_zero_iff (vmin vrng render data : ℝ) :
    residual_fixed_levels vmin vrng render data (residual_scale vrng) = 0 ↔ data = vmin + vrng * render := by
  have hs := (residual_scale_spec vrng).2
  simp only [residual_fixed_levels, div_eq_zero_iff, hs.ne', or_false]
  constructor <;> intro h <;> linarith

/-- **What the solver sees does not depend on the intensity scale of the image** (defect D23, repaired): mapping the
image and the intensity levels by the same affine map `x ↦ a·x + b`, `a > 0`, leaves every residual unchanged —
for supplied levels (`vmin, vrng ↦ a·vmin + b, a·vrng`) and for fitted levels (where the fitted parameters are mapped
likewise and the unit is fixed from the initial range `vrng0`).  The solver therefore takes the same steps and stops at
the same point whatever the contrast and offset of the image; without the division by `residual_scale` the residual
would scale with `a` and the ABSOLUTE gradient tolerance of the stopping rule would end the fit early on low-contrast images. -/
theorem residual_intensity_invariant (a b : ℝ) (ha : 0 < a) (vmin vrng vrng0 render data : ℝ) (h0 : vrng0 ≠ 0) :
    residual_fixed_levels (a * vmin + b) (a * vrng) render (a * data + b) (residual_scale (a * vrng0))
      = residual_fixed_levels vmin vrng render data (residual_scale vrng0) ∧
    residual_fitted_levels (a * vmin + b) (a * vrng) render (a * data + b) (residual_scale (a * vrng0))
      = residual_fitted_levels vmin vrng render data (residual_scale vrng0) := by
  have h1 : residual_scale (a * vrng0) = a * residual_scale vrng0 := by
    rw [(residual_scale_spec _).1, (residual_scale_spec _).1]
    simp [h0, ha.ne', abs_mul, abs_of_pos ha]
  have hs := (residual_scale_spec vrng0).2
  simp only [residual_fixed_levels, residual_fitted_levels, h1]
  constructor <;> field_simp <;> ring

/-- non-vacuity / what the repair changed: WITHOUT the unit (scale 1) the residual of the mapped image is `a` times the
residual of the original, so an absolute stopping tolerance is met `a` times (its gradient `a²` times) sooner -/
theorem residual_unscaled_scales (a b vmin vrng render data : ℝ) :
    residual_fixed_levels (a * vmin + b) (a * vrng) render (a * data + b) 1
      = a * residual_fixed_levels vmin vrng render data 1 := by
  simp only [residual_fixed_levels]; ring

/-- with the true levels, the residual vanishes exactly when the rendered profile values agree
(for `vmin ≠ vmax`): the minimiser of cost 0 reproduces the image cell by cell -/
theorem zero_residual_iff_same_profile (vmin vmax p p' : ℝ) (h : vmin ≠ vmax) :
    residual_fixed_levels vmin (vmax - vmin) p' (scale_field vmin vmax p) (residual_scale (vmax - vmin)) = 0 ↔ p' = p := by
  have hs := (residual_scale_spec (vmax - vmin)).2
  simp only [residual_fixed_levels, scale_field, div_eq_zero_iff, hs.ne', or_false]
  have : vmax - vmin ≠ 0 := sub_ne_zero.mpr (Ne.symm h)
  constructor
  · intro h1
    have : (vmax - vmin) * (p' - p) = 0 := by linarith
    rcases mul_eq_zero.mp this with h2 | h2
    · exact absurd h2 ‹vmax - vmin ≠ 0›
    · linarith
  · intro h1; rw [h1]; ring

/-- the smooth profile determines the distance-to-interface over width: equal profile values at a
cell mean equal `(R − d)/w` there (tanh is injective) — so a zero-residual fit on a diffuse
interface pins down radius, width and centre through the cells of the fit region -/
theorem profile_injective (x y : ℝ) (h : Real.tanh x = Real.tanh y) : x = y := by
  by_contra hne
  rcases lt_or_gt_of_ne hne with h1 | h1
  · exact absurd h (DV.C03.tanh_lt_tanh h1).ne
  · exact absurd h.symm (DV.C03.tanh_lt_tanh h1).ne


/-- **On radially symmetric grids the ground truth is the ONLY zero of the residual** (identifiability of radius and interface width): if the fit
model with parameters `(R', w')` reproduces the image of a droplet `(R, w)` — zero residual, regenerated `_image_deviation` over the regenerated
renderer — at two support points at different distances from the (constrained) centre, then `R' = R` and `w' = w`.  Together with
`truth_zero_residual` this makes the truth the unique global minimiser of the cost on polar, spherical and (for the radius/width pair at fixed
centre) every other grid; the fit cannot converge to cost 0 anywhere else. -/
theorem radial_truth_unique_zero (vmin vmax R w R' w' d1 d2 : ℝ) (hv : vmin ≠ vmax) (hw : 0 < w) (hw' : 0 < w') (hd : d1 ≠ d2)
    (h1 : residual_fixed_levels vmin (vmax - vmin) (diffuse_smooth R' w' d1) (scale_field vmin vmax (diffuse_smooth R w d1))
      (residual_scale (vmax - vmin)) = 0)
    (h2 : residual_fixed_levels vmin (vmax - vmin) (diffuse_smooth R' w' d2) (scale_field vmin vmax (diffuse_smooth R w d2))
      (residual_scale (vmax - vmin)) = 0) :
    R' = R ∧ w' = w := by
  have p1 := (zero_residual_iff_same_profile vmin vmax _ _ hv).mp h1
  have p2 := (zero_residual_iff_same_profile vmin vmax _ _ hv).mp h2
  rw [DV.C03.smooth_eq, DV.C03.smooth_eq] at p1 p2
  have e1 : (R' - d1) / w' = (R - d1) / w := profile_injective _ _ (by linarith)
  have e2 : (R' - d2) / w' = (R - d2) / w := profile_injective _ _ (by linarith)
  have hwne := hw.ne'
  have hwne' := hw'.ne'
  field_simp at e1 e2
  have hww : w' = w := by
    have : (d2 - d1) * (w' - w) = 0 := by linarith
    rcases mul_eq_zero.mp this with h | h
    · exact absurd (by linarith : d1 = d2) hd
    · linarith
  refine ⟨?_, hww⟩
  subst hww
  have : (R' - R) * w' = 0 := by linarith
  rcases mul_eq_zero.mp this with h | h
  · linarith
  · exact absurd h hwne'

/-- non-vacuity: two support points at distances 1 and 2 -/
example : (2 : ℝ) = 2 ∧ (1 : ℝ) = 1 :=
  radial_truth_unique_zero 0 1 2 1 2 1 1 2 (by norm_num) (by norm_num) (by norm_num) (by norm_num)
    ((zero_residual_iff_same_profile 0 1 _ _ (by norm_num)).mpr rfl) ((zero_residual_iff_same_profile 0 1 _ _ (by norm_num)).mpr rfl)


section start
open Finset BigOperators DV.Merge DV.MergeInv DV.Label DV.LabelInv DV.GridGeom DV.Render DV.BallConn DV.C02 DV.C01

/-- **The initial estimate that refinement starts from is accurate to grid resolution.**  For every droplet of a well-separated,
resolved emulsion on a Cartesian grid in 1–3 dimensions (model pipeline: rendering → labelling → periodic merging), the located
position lies within HALF A CELL of the true centre along every axis (modulo whole periods on periodic axes) and the located
radius — `radius_from_volume` (regenerated) of the cluster's volume — within half a cell diagonal `ρ` of the true radius.
Refinement therefore starts inside the basin in which the truth, a zero of the residual (`truth_zero_residual`), lies; that the
trust-region iteration then converges to it is the numerical part of C05. -/
theorem initial_estimate_within_resolution (axes : List Axis) (balls : List (List ℚ × ℚ)) (hwf : ∀ b ∈ balls, GridWF axes b.1)
    (hd3 : axes.length = 1 ∨ axes.length = 2 ∨ axes.length = 3) (ρ : ℚ) (hρ : 0 ≤ ρ)
    (hdiag : ∑ a ∈ Finset.range axes.length, ((axes.getD a default).dx / 2) ^ 2 ≤ ρ ^ 2)
    (hmax : ℚ) (hh : ∀ a ∈ axes, a.dx ≤ hmax) (h0 : 0 ≤ hmax)
    (hdist : ∀ b1 ∈ balls, ∀ b2 ∈ balls, b1 ≠ b2 → (b1.2 + b2.2 + hmax) ^ 2 ≤ cdist2 axes b1.1 b2.1)
    (hres : ∀ b ∈ balls, FullyResolved axes b.1 b.2)
    (b : List ℚ × ℚ) (hb : b ∈ balls) (c0 : ℕ) (hc0 : ballMask axes b.1 b.2 c0 = true) :
    let mask := emulsionMask axes balls
    let L := labelFn (shapeOf axes) mask
    let cells := List.range (numCells (shapeOf axes))
    let st := mergeLoop (fun a => (shapeOf axes).getD a 1) L (initSt (coordOf (shapeOf axes)) L cells)
      (edgesOf (shapeOf axes) (perOf axes))
    let cellVol : ℝ := ∏ a ∈ Finset.range axes.length, (((axes.getD a default).dx : ℚ) : ℝ)
    (∃ m : ℕ → ℤ, (∀ a, a < axes.length → (axes.getD a default).periodic = false → m a = 0) ∧ ∀ a, a < axes.length →
      |(axes.getD a default).lo + (axes.getD a default).dx * st.pos (st.lab c0) a
        - (m a : ℚ) * (axes.getD a default).length - b.1.getD a 0| < (axes.getD a default).dx / 2) ∧
    ∃ r : ℝ, Gen.radius_from_volume (((st.vol (st.lab c0) : ℚ) : ℝ) * cellVol) axes.length = .ok r ∧ |r - (b.2 : ℝ)| ≤ ρ := by
  intro mask L cells st cellVol
  have hd : 0 < axes.length := by omega
  obtain ⟨_, hv, hpos⟩ := C01_emulsion_model axes balls hwf hd hmax hh h0 hdist hres b hb c0 hc0
  refine ⟨hpos, ?_⟩
  obtain ⟨r, hr, hrw⟩ := located_radius_within axes b.1 (hwf b hb) b.2 (hres b hb) ρ hρ hdiag hd3
  refine ⟨r, ?_, hrw⟩
  show Gen.radius_from_volume (((st.vol (st.lab c0) : ℚ) : ℝ) * cellVol) axes.length = .ok r
  rw [hv]; push_cast; exact hr

end start

end DV.C05
