/-
  C05 — Refined localisation recovers position, radius and interface width.
  The recovery claim itself (relative error below 1e-4) is a statement about the convergence of an
  iterative floating-point optimiser and is NOT a theorem; it is validated by differential runs
  (level `other`).  What is proved here are the logical conditions recovery depends on, each of which
  a code change can break:

  * the ground truth is a ZERO of the residual that `refine_droplet` minimises — for supplied levels
    and for fitted levels at (vmin, vrng = vmax − vmin) — because the residual (regenerated from
    `_image_deviation`) and the renderer/scaling (regenerated from `get_phase_field`) are the same
    affine function of the same profile; hence the truth is a global minimiser of cost 0, and it lies
    inside the bounds (C04 `bounds_spec`);
  * the starting point is feasible (C04 `refinePlan_x0_feasible`), it is within half a cell of the
    truth (C01 `lattice_com_within_half_cell`), and detection depends on the threshold rule only
    through the binary image (C18).
-/
import DropletsVerif.Lemmas.RealInst
import DropletsVerif.Generated.Residual
import DropletsVerif.Generated.Profile
import DropletsVerif.Props.C04
import DropletsVerif.Props.C01
import DropletsVerif.Props.C03
import Mathlib.Tactic

namespace DV.C05
open DV DV.Gen

/-- **The ground truth has zero residual** (supplied and fitted intensity levels): an image
rendered as `vmin + (vmax − vmin)·profile` is reproduced exactly by the fit model at the true
droplet parameters with `vrng = vmax − vmin`. -/
theorem truth_zero_residual (vmin vmax profile : ℝ) :
    residual_fixed_levels vmin (vmax - vmin) profile (scale_field vmin vmax profile) = 0 ∧
    residual_fitted_levels vmin (vmax - vmin) profile (scale_field vmin vmax profile) = 0 := by
  simp [residual_fixed_levels, residual_fitted_levels, scale_field]

/-- the residual is zero ONLY where model and image agree: a non-zero residual at the truth would
mean the renderer and the fit model differ -/
theorem residual_eq_zero_iff (vmin vrng render data : ℝ) :
    residual_fixed_levels vmin vrng render data = 0 ↔ data = vmin + vrng * render := by
  simp only [residual_fixed_levels]
  constructor <;> intro h <;> linarith

/-- with the true levels, the residual vanishes exactly when the rendered profile values agree
(for `vmin ≠ vmax`): the minimiser of cost 0 reproduces the image cell by cell -/
theorem zero_residual_iff_same_profile (vmin vmax p p' : ℝ) (h : vmin ≠ vmax) :
    residual_fixed_levels vmin (vmax - vmin) p' (scale_field vmin vmax p) = 0 ↔ p' = p := by
  simp only [residual_fixed_levels, scale_field]
  have : vmax - vmin ≠ 0 := sub_ne_zero.mpr (Ne.symm h)
  constructor
  · intro h1
    have : (vmax - vmin) * (p' - p) = 0 := by linarith
    rcases mul_eq_zero.mp this with h2 | h2
    · exact absurd h2 ‹vmax - vmin ≠ 0›
    · linarith
  · intro h1; rw [h1]; ring

/-- the smooth profile determines the distance-to-interface over width: equal profile values at a
cell mean equal `(R − d)/w` there (tanh is injective) — so a zero-residual fit on a diffuse
interface pins down radius, width and centre through the cells of the fit region -/
theorem profile_injective (x y : ℝ) (h : Real.tanh x = Real.tanh y) : x = y := by
  by_contra hne
  rcases lt_or_gt_of_ne hne with h1 | h1
  · exact absurd h (DV.C03.tanh_lt_tanh h1).ne
  · exact absurd h.symm (DV.C03.tanh_lt_tanh h1).ne

end DV.C05
