/-
  C19 — Requested droplet model determines the class and shape of every result.
  Theorems about Model/ClassSel.lean for ALL mode counts (`modes : Nat`) and the complete finite
  product of the other request parameters.
-/
import DropletsVerif.Model.ClassSel
import Mathlib.Tactic

namespace DV.C19
open DV.ClassSel

/-- the table stated in the property -/
def specClass (g : GridFam) (dim modes : Nat) (width refine : Bool) : Result :=
  if modes > 0 then
    { cls := if dim = 2 then .p2d else if g = .cylindrical then .p3dAxi else .p3d
      amps := modes, hasWidth := width || refine }
  else if width || refine then ⟨.diffuse, 0, true⟩
  else ⟨.spherical, 0, false⟩

/-- **The class table**: for every grid family, every dimension the family allows, every mode
count, width given or not, refinement on or off — the documented error for modes in 1-D,
otherwise exactly the class, amplitude count and width flag the request implies. -/
theorem resultClass_spec (g : GridFam) (cartDim modes : Nat) (width refine : Bool)
    (hd : g = .cartesian → cartDim = 1 ∨ cartDim = 2 ∨ cartDim = 3) :
    let dim := dimOf g cartDim
    resultClass g dim modes width refine =
      if modes > 0 ∧ dim = 1 then .error "ValueError" else .ok (specClass g dim modes width refine) := by
  intro dim
  have hdim : dim = 1 ∨ dim = 2 ∨ dim = 3 := by
    cases g <;> simp [dim, dimOf] <;> exact hd rfl
  have hcyl : g = .cylindrical → dim = 3 := by intro h; subst h; rfl
  rcases Nat.eq_zero_or_pos modes with hm | hm
  · subst hm
    cases width <;> cases refine <;>
      simp [resultClass, candidateClass, refineClass, specClass]
  · rcases hdim with h | h | h
    · simp [resultClass, candidateClass, h, hm]
    · have : g ≠ .cylindrical := fun hg => by have := hcyl hg; omega
      cases width <;> cases refine <;>
        simp [resultClass, candidateClass, refineClass, specClass, h, hm, Nat.pos_iff_ne_zero.mp hm]
    · by_cases hg : g = .cylindrical <;> cases width <;> cases refine <;>
        simp [resultClass, candidateClass, refineClass, specClass, h, hm, hg, Nat.pos_iff_ne_zero.mp hm]

theorem mapM_const {β : Type} (f : Except String β) (l : List Nat) (rs : List β)
    (h : l.mapM (fun _ => f) = .ok rs) : rs.length = l.length ∧ ∀ r ∈ rs, f = .ok r := by
  induction l generalizing rs with
  | nil =>
    simp only [List.mapM_nil, pure, Except.pure] at h
    cases h; simp
  | cons a l ih =>
    simp only [List.mapM_cons, bind, Except.bind] at h
    cases hf : f with
    | error e => rw [hf] at h; cases h
    | ok r0 =>
      rw [hf] at h
      simp only at h
      cases hl : l.mapM (fun _ => f) with
      | error e => rw [hf] at hl; rw [hl] at h; cases h
      | ok rs' =>
        rw [hf] at hl; rw [hl] at h
        simp only [pure, Except.pure] at h
        cases h
        obtain ⟨h1, h2⟩ := ih rs' (by rw [hf]; exact hl)
        refine ⟨by simp [h1], ?_⟩
        intro r hr
        rcases List.mem_cons.mp hr with rfl | hr'
        · rfl
        · rw [← hf]; exact h2 r hr'

/-- **Uniform layout**: all droplets of one result share class, amplitude count and width flag
(the one `resultClass` gives), so the emulsion's tabular data can be formed. -/
theorem layout_uniform (g : GridFam) (dim modes : Nat) (width refine : Bool) (n : Nat) (rs : List Result)
    (h : locateClasses g dim modes width refine n = .ok rs) :
    rs.length = n ∧ ∀ r ∈ rs, resultClass g dim modes width refine = .ok r := by
  have := mapM_const (resultClass g dim modes width refine) (List.range n) rs h
  simpa using this

/-- a supplied width is carried by every unrefined result, none of which is a plain sphere -/
theorem width_carried (g : GridFam) (dim modes : Nat) (r : Result)
    (h : resultClass g dim modes true false = .ok r) : r.hasWidth = true ∧ r.cls ≠ .spherical := by
  by_cases hm : modes > 0 <;> by_cases h2 : dim = 2 <;> by_cases h3 : dim = 3 <;>
    by_cases hg : g = .cylindrical <;>
    simp [resultClass, candidateClass, hm, h2, h3, hg] at h <;> (try subst h) <;> simp_all

example : resultClass .cylindrical 3 8 false true = .ok ⟨.p3dAxi, 8, true⟩ := by decide

end DV.C19
