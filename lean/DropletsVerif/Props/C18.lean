/-
  C18 — Detection depends on the image only through the documented threshold.
  Theorems about Model/Thresh.lean (exact rational model of the threshold rules, of the Otsu
  optimisation and of the `remove_small` loop).
-/
import DropletsVerif.Model.Thresh
import Mathlib.Tactic
import Mathlib.Algebra.Order.Floor.Ring
import Mathlib.Data.Rat.Floor

namespace DV.C18
open DV.Thresh

/-! ### affine maps of the intensities -/

def aff (a b : Rat) (x : Rat) : Rat := a * x + b

theorem aff_mono {a b : Rat} (ha : 0 < a) : Monotone (aff a b) := by
  intro x y h; unfold aff; nlinarith

theorem foldl_min_map (f : Rat → Rat) (hf : Monotone f) (xs : List Rat) (x : Rat) :
    (xs.map f).foldl min (f x) = f (xs.foldl min x) := by
  induction xs generalizing x with
  | nil => rfl
  | cons y ys ih => simp only [List.map_cons, List.foldl_cons]; rw [← hf.map_min, ih]

theorem foldl_max_map (f : Rat → Rat) (hf : Monotone f) (xs : List Rat) (x : Rat) :
    (xs.map f).foldl max (f x) = f (xs.foldl max x) := by
  induction xs generalizing x with
  | nil => rfl
  | cons y ys ih => simp only [List.map_cons, List.foldl_cons]; rw [← hf.map_max, ih]

theorem minL_aff {a b : Rat} (ha : 0 < a) (xs : List Rat) (hne : xs ≠ []) :
    minL (xs.map (aff a b)) = aff a b (minL xs) := by
  cases xs with
  | nil => exact absurd rfl hne
  | cons x xs => exact foldl_min_map _ (aff_mono ha) xs x

theorem maxL_aff {a b : Rat} (ha : 0 < a) (xs : List Rat) (hne : xs ≠ []) :
    maxL (xs.map (aff a b)) = aff a b (maxL xs) := by
  cases xs with
  | nil => exact absurd rfl hne
  | cons x xs => exact foldl_max_map _ (aff_mono ha) xs x

/-- **'extrema'/'auto' commute with positive affine maps** -/
theorem extrema_affine {a b : Rat} (ha : 0 < a) (xs : List Rat) (hne : xs ≠ []) :
    extrema (xs.map (aff a b)) = aff a b (extrema xs) := by
  unfold extrema
  rw [minL_aff ha xs hne, maxL_aff ha xs hne]
  unfold aff; ring

theorem sum_map_aff (a b : Rat) (xs : List Rat) :
    (xs.map (aff a b)).sum = a * xs.sum + b * (xs.length : Rat) := by
  induction xs with
  | nil => simp
  | cons x xs ih => simp only [List.map_cons, List.sum_cons, List.length_cons, ih, aff]; push_cast; ring

/-- **'mean' commutes with affine maps** -/
theorem mean_affine (a b : Rat) (xs : List Rat) (hne : xs ≠ []) :
    mean (xs.map (aff a b)) = aff a b (mean xs) := by
  unfold mean
  have hlen : (xs.length : Rat) ≠ 0 := by
    have : 0 < xs.length := List.length_pos_iff.mpr hne
    exact_mod_cast this.ne'
  rw [sum_map_aff, List.length_map]
  unfold aff
  field_simp

/-- the binary image is unchanged when image and threshold are mapped by the same positive
affine map (strict comparison `data > threshold`) -/
theorem binarize_affine {a b : Rat} (ha : 0 < a) (t : Rat) (xs : List Rat) :
    binarize (aff a b t) (xs.map (aff a b)) = binarize t xs := by
  unfold binarize
  rw [List.map_map]
  apply List.map_congr_left
  intro x _
  simp only [Function.comp, aff]
  have : (a * t + b < a * x + b) ↔ (t < x) := by
    constructor <;> intro h <;> nlinarith
  simp only [this]

/-- **Positive affine changes of the intensities leave the binary image — hence everything
located in it — unchanged**, for the rules 'extrema'/'auto' and 'mean' and for a numeric
threshold mapped the same way. -/
theorem threshold_affine {a b : Rat} (ha : 0 < a) (xs : List Rat) (hne : xs ≠ []) (t : Rat) :
    binarize (thresholdOf .extrema (xs.map (aff a b))) (xs.map (aff a b)) = binarize (thresholdOf .extrema xs) xs ∧
    binarize (thresholdOf .mean (xs.map (aff a b))) (xs.map (aff a b)) = binarize (thresholdOf .mean xs) xs ∧
    binarize (thresholdOf (.value (aff a b t)) (xs.map (aff a b))) (xs.map (aff a b)) =
      binarize (thresholdOf (.value t) xs) xs := by
  refine ⟨?_, ?_, ?_⟩
  · simp only [thresholdOf]; rw [extrema_affine ha xs hne, binarize_affine ha]
  · simp only [thresholdOf]; rw [mean_affine a b xs hne, binarize_affine ha]
  · simp only [thresholdOf]; rw [binarize_affine ha]

/-- the Otsu histogram is invariant: a value falls into the same one of the 256 bins -/
theorem binIdx_affine {a b : Rat} (ha : 0 < a) (lo hi x : Rat) (h : lo < hi) :
    binIdx (aff a b lo) (aff a b hi) (aff a b x) = binIdx lo hi x := by
  unfold binIdx aff
  have h1 : (a * x + b - (a * lo + b)) / (a * hi + b - (a * lo + b)) = (x - lo) / (hi - lo) := by
    have h2 : hi - lo ≠ 0 := by linarith
    have h3 : a * hi + b - (a * lo + b) = a * (hi - lo) := by ring
    have h4 : a * x + b - (a * lo + b) = a * (x - lo) := by ring
    rw [h3, h4, mul_div_mul_left _ _ ha.ne']
  rw [h1]

/-- the bin centres transform with the map -/
theorem center_affine (a b lo hi : Rat) (k : Nat) :
    center (aff a b lo) (aff a b hi) k = aff a b (center lo hi k) := by
  unfold center aff nbins; ring

/-! ### the Otsu optimisation -/

theorem argmaxNaN_go_spec (vs : List (Option Rat)) (hall : ∀ o ∈ vs, o ≠ none) (best : Nat) (bv : Rat) (i : Nat) :
    ∃ v, (argmaxNaN.go best bv i vs = best ∧ v = bv ∨
          ∃ j, j < vs.length ∧ argmaxNaN.go best bv i vs = i + j ∧ vs[j]? = some (some v)) ∧
      bv ≤ v ∧ ∀ (j : Nat) (w : Rat), vs[j]? = some (some w) → w ≤ v := by
  induction vs generalizing best bv i with
  | nil => exact ⟨bv, Or.inl ⟨rfl, rfl⟩, le_refl _, by simp⟩
  | cons o rest ih =>
    have hrest : ∀ o ∈ rest, o ≠ none := fun o ho => hall o (List.mem_cons_of_mem _ ho)
    cases o with
    | none => exact absurd rfl (hall none List.mem_cons_self)
    | some v0 =>
      simp only [argmaxNaN.go]
      by_cases hlt : bv < v0
      · simp only [hlt, if_true]
        obtain ⟨v, hv, hle, hmax⟩ := ih hrest i v0 (i + 1)
        refine ⟨v, ?_, le_trans hlt.le hle, ?_⟩
        · right
          rcases hv with ⟨h1, h2⟩ | ⟨j, hj, h1, h2⟩
          · exact ⟨0, by simp, by simpa using h1, by simp [h2]⟩
          · exact ⟨j + 1, by simpa using hj, by rw [h1]; omega, by simpa using h2⟩
        · intro j w hj
          cases j with
          | zero => simp at hj; rw [← hj]; exact hle
          | succ j => exact hmax j w (by simpa using hj)
      · simp only [hlt, if_false]
        obtain ⟨v, hv, hle, hmax⟩ := ih hrest best bv (i + 1)
        refine ⟨v, ?_, hle, ?_⟩
        · rcases hv with ⟨h1, h2⟩ | ⟨j, hj, h1, h2⟩
          · exact Or.inl ⟨h1, h2⟩
          · exact Or.inr ⟨j + 1, by simpa using hj, by rw [h1]; omega, by simpa using h2⟩
        · intro j w hj
          cases j with
          | zero => simp at hj; rw [← hj]; exact le_trans (not_lt.mp hlt) hle
          | succ j => exact hmax j w (by simpa using hj)

/-- **`threshold_otsu` returns the bin centre maximising the between-class variance**: when no
split has an empty class, the selected index carries a variance that no other split exceeds. -/
theorem otsu_is_argmax (vs : List (Option Rat)) (hne : vs ≠ []) (hall : ∀ o ∈ vs, o ≠ none) :
    ∃ v, vs[argmaxNaN vs]? = some (some v) ∧ ∀ (j : Nat) (w : Rat), vs[j]? = some (some w) → w ≤ v := by
  have hfind : vs.findIdx? (· == none) = none := by
    rw [List.findIdx?_eq_none_iff]
    intro o ho
    have := hall o ho
    cases o <;> simp_all
  cases vs with
  | nil => exact absurd rfl hne
  | cons o rest =>
    cases o with
    | none => exact absurd rfl (hall none List.mem_cons_self)
    | some v0 =>
      have hrest : ∀ o ∈ rest, o ≠ none := fun o ho => hall o (List.mem_cons_of_mem _ ho)
      obtain ⟨v, hv, hle, hmax⟩ := argmaxNaN_go_spec rest hrest 0 v0 1
      refine ⟨v, ?_, ?_⟩
      · unfold argmaxNaN
        rw [hfind]
        simp only
        rcases hv with ⟨h1, h2⟩ | ⟨j, hj, h1, h2⟩
        · rw [h1, h2]; simp
        · rw [h1]
          have : 1 + j = j + 1 := by omega
          rw [this]; simpa using h2
      · intro j w hj
        cases j with
        | zero => simp at hj; rw [← hj]; exact hle
        | succ j => exact hmax j w (by simpa using hj)

/-- the NaN rule of `np.argmax`: an empty class (NaN variance) wins, the first one -/
theorem otsu_nan_rule (vs : List (Option Rat)) (i : Nat) (h : vs.findIdx? (· == none) = some i) :
    argmaxNaN vs = i := by
  unfold argmaxNaN; rw [h]

/-! ### the one-pass variance computation equals the definition split by split -/

/-- prefix sums: left weight and left first moment of the bins `0 .. n-1` -/
def prefixSums (cs : List Nat) (ctr : Nat → Rat) (n : Nat) : Rat × Rat :=
  (List.range n).foldl (fun acc j => (acc.1 + (cs.getD j 0 : Rat), acc.2 + (cs.getD j 0 : Rat) * ctr j)) (0, 0)

theorem prefixSums_succ (cs : List Nat) (ctr : Nat → Rat) (n : Nat) :
    prefixSums cs ctr (n + 1) =
      ((prefixSums cs ctr n).1 + (cs.getD n 0 : Rat), (prefixSums cs ctr n).2 + (cs.getD n 0 : Rat) * ctr n) := by
  simp [prefixSums, List.range_succ, List.foldl_append]

theorem leftSums_eq (cs : List Nat) (ctr : Nat → Rat) (i : Nat) : leftSums cs ctr i = prefixSums cs ctr (i + 1) := rfl

theorem variances_fold (cs : List Nat) (ctr : Nat → Rat) (W S : Rat) (n k : Nat) (acc : List (Option Rat)) :
    (List.range' k n).foldl
      (fun (st : Rat × Rat × List (Option Rat)) i =>
        let w1 := st.1 + (cs.getD i 0 : Rat)
        let s1 := st.2.1 + (cs.getD i 0 : Rat) * ctr i
        (w1, s1, varianceOf W S w1 s1 :: st.2.2))
      ((prefixSums cs ctr k).1, (prefixSums cs ctr k).2, acc)
    = ((prefixSums cs ctr (k + n)).1, (prefixSums cs ctr (k + n)).2,
        ((List.range' k n).map fun i => varianceOf W S (prefixSums cs ctr (i + 1)).1 (prefixSums cs ctr (i + 1)).2).reverse ++ acc) := by
  induction n generalizing k acc with
  | zero => simp
  | succ n ih =>
    simp only [List.range'_succ, List.foldl_cons]
    have h := ih (k + 1) (varianceOf W S (prefixSums cs ctr (k + 1)).1 (prefixSums cs ctr (k + 1)).2 :: acc)
    rw [prefixSums_succ] at h
    simp only at h
    rw [h]
    simp only [List.map_cons, List.reverse_cons, List.append_assoc, List.singleton_append, prefixSums_succ cs ctr k]
    have e : k + 1 + n = k + (n + 1) := by omega
    rw [e]

/-- **the list of variances computed in one pass is, split by split, the between-class variance
of the split after bin `i`** -/
theorem variances_spec (cs : List Nat) (ctr : Nat → Rat) :
    variances cs ctr = (List.range (nbins - 1)).map fun i =>
      varianceOf (leftSums cs ctr (nbins - 1)).1 (leftSums cs ctr (nbins - 1)).2 (leftSums cs ctr i).1 (leftSums cs ctr i).2 := by
  unfold variances
  simp only
  have h := variances_fold cs ctr (leftSums cs ctr (nbins - 1)).1 (leftSums cs ctr (nbins - 1)).2 (nbins - 1) 0 []
  rw [List.range_eq_range']
  have h0 : prefixSums cs ctr 0 = (0, 0) := rfl
  rw [h0] at h
  simp only at h
  rw [h]
  simp [leftSums_eq]

/-! ### the whole Otsu rule commutes with positive affine maps -/

theorem foldl_min_le (xs : List Rat) (x : Rat) : xs.foldl min x ≤ x := by
  induction xs generalizing x with
  | nil => simp
  | cons y ys ih => simp only [List.foldl_cons]; exact le_trans (ih _) (min_le_left _ _)

theorem le_foldl_max (xs : List Rat) (x : Rat) : x ≤ xs.foldl max x := by
  induction xs generalizing x with
  | nil => simp
  | cons y ys ih => simp only [List.foldl_cons]; exact le_trans (le_max_left _ _) (ih _)

theorem foldl_min_le_mem (xs : List Rat) (x y : Rat) (h : y ∈ xs) : xs.foldl min x ≤ y := by
  induction xs generalizing x with
  | nil => cases h
  | cons z zs ih =>
    simp only [List.foldl_cons]
    rcases List.mem_cons.mp h with rfl | h
    · exact le_trans (foldl_min_le _ _) (min_le_right _ _)
    · exact ih _ h

theorem mem_le_foldl_max (xs : List Rat) (x y : Rat) (h : y ∈ xs) : y ≤ xs.foldl max x := by
  induction xs generalizing x with
  | nil => cases h
  | cons z zs ih =>
    simp only [List.foldl_cons]
    rcases List.mem_cons.mp h with rfl | h
    · exact le_trans (le_max_right _ _) (le_foldl_max _ _)
    · exact ih _ h

theorem minL_le_mem (xs : List Rat) (y : Rat) (h : y ∈ xs) : minL xs ≤ y := by
  cases xs with
  | nil => cases h
  | cons x xs =>
    rcases List.mem_cons.mp h with rfl | h
    · exact foldl_min_le _ _
    · exact foldl_min_le_mem _ _ _ h

theorem mem_le_maxL (xs : List Rat) (y : Rat) (h : y ∈ xs) : y ≤ maxL xs := by
  cases xs with
  | nil => cases h
  | cons x xs =>
    rcases List.mem_cons.mp h with rfl | h
    · exact le_foldl_max _ _
    · exact mem_le_foldl_max _ _ _ h

theorem minL_le_maxL (xs : List Rat) (hne : xs ≠ []) : minL xs ≤ maxL xs := by
  cases xs with
  | nil => exact absurd rfl hne
  | cons x xs => exact le_trans (foldl_min_le _ _) (le_foldl_max _ _)

theorem aff_inj {a b : Rat} (ha : 0 < a) (x y : Rat) (h : aff a b x = aff a b y) : x = y := by
  unfold aff at h
  have : a * (x - y) = 0 := by linarith
  rcases mul_eq_zero.mp this with h | h
  · exact absurd h ha.ne'
  · linarith

theorem histRange_nonconst (xs : List Rat) (hc : minL xs ≠ maxL xs) : histRange xs = (minL xs, maxL xs) := by
  simp [histRange, hc]

theorem histRange_affine {a b : Rat} (ha : 0 < a) (xs : List Rat) (hne : xs ≠ []) (hc : minL xs ≠ maxL xs) :
    histRange (xs.map (aff a b)) = (aff a b (minL xs), aff a b (maxL xs)) := by
  have : minL (xs.map (aff a b)) ≠ maxL (xs.map (aff a b)) := by
    rw [minL_aff ha xs hne, maxL_aff ha xs hne]
    exact fun h => hc (aff_inj ha _ _ h)
  rw [histRange_nonconst _ this, minL_aff ha xs hne, maxL_aff ha xs hne]

/-- the histogram is the same -/
theorem counts_affine {a b : Rat} (ha : 0 < a) (xs : List Rat) (hne : xs ≠ []) (hc : minL xs ≠ maxL xs) :
    counts (xs.map (aff a b)) = counts xs := by
  have hlt : minL xs < maxL xs := lt_of_le_of_ne (minL_le_maxL xs hne) hc
  unfold counts
  rw [histRange_affine ha xs hne hc, histRange_nonconst xs hc]
  simp only [List.map_map]
  have : (binIdx (aff a b (minL xs)) (aff a b (maxL xs)) ∘ aff a b) = binIdx (minL xs) (maxL xs) := by
    funext x; exact binIdx_affine ha _ _ x hlt
  rw [this]

theorem prefixSums_affine (a b : Rat) (cs : List Nat) (ctr : Nat → Rat) (n : Nat) :
    prefixSums cs (fun j => aff a b (ctr j)) n =
      ((prefixSums cs ctr n).1, a * (prefixSums cs ctr n).2 + b * (prefixSums cs ctr n).1) := by
  induction n with
  | zero => simp [prefixSums]
  | succ n ih =>
    rw [prefixSums_succ, prefixSums_succ, ih]
    simp only [aff, Prod.mk.injEq, true_and]
    ring

/-- the between-class variance of every split is multiplied by `a²` -/
theorem varianceOf_affine (a b W S w1 s1 : Rat) :
    varianceOf W (a * S + b * W) w1 (a * s1 + b * w1) = (varianceOf W S w1 s1).map fun v => a * a * v := by
  unfold varianceOf
  simp only
  split_ifs with h
  · rfl
  · rw [not_or] at h
    obtain ⟨h1, h2⟩ := h
    simp only [Option.map_some, Option.some.injEq]
    field_simp
    ring

theorem variances_affine (a b : Rat) (cs : List Nat) (ctr : Nat → Rat) :
    variances cs (fun j => aff a b (ctr j)) = (variances cs ctr).map (Option.map fun v => a * a * v) := by
  rw [variances_spec, variances_spec, List.map_map]
  apply List.map_congr_left
  intro i _
  simp only [Function.comp, leftSums_eq, prefixSums_affine]
  exact varianceOf_affine a b _ _ _ _

theorem argmaxNaN_go_scale (c : Rat) (hc : 0 < c) (vs : List (Option Rat)) (best : Nat) (bv : Rat) (i : Nat) :
    argmaxNaN.go best (c * bv) i (vs.map (Option.map fun v => c * v)) = argmaxNaN.go best bv i vs := by
  induction vs generalizing best bv i with
  | nil => rfl
  | cons o rest ih =>
    cases o with
    | none => simp only [List.map_cons, Option.map_none, argmaxNaN.go]; exact ih _ _ _
    | some v =>
      simp only [List.map_cons, Option.map_some, argmaxNaN.go]
      have : (c * bv < c * v) ↔ (bv < v) := by
        constructor <;> intro h <;> nlinarith
      by_cases hlt : bv < v
      · rw [if_pos (this.mpr hlt), if_pos hlt]; exact ih _ _ _
      · rw [if_neg (fun h => hlt (this.mp h)), if_neg hlt]; exact ih _ _ _

/-- `np.argmax` does not see a common positive factor -/
theorem argmaxNaN_scale (c : Rat) (hc : 0 < c) (vs : List (Option Rat)) :
    argmaxNaN (vs.map (Option.map fun v => c * v)) = argmaxNaN vs := by
  unfold argmaxNaN
  have hf : (vs.map (Option.map fun v => c * v)).findIdx? (· == none) = vs.findIdx? (· == none) := by
    rw [List.findIdx?_map]
    congr 1
    funext o
    cases o <;> rfl
  rw [hf]
  cases hfi : vs.findIdx? (· == none) with
  | some i => rfl
  | none =>
    simp only
    cases vs with
    | nil => rfl
    | cons o rest =>
      cases o with
      | none => rfl
      | some v => simp only [List.map_cons, Option.map_some]; exact argmaxNaN_go_scale c hc rest 0 v 1

/-- **Otsu's threshold commutes with positive affine maps of the intensities** (non-constant
data): the same bin is selected and its centre is the image of the old centre. -/
theorem otsu_affine {a b : Rat} (ha : 0 < a) (xs : List Rat) (hne : xs ≠ []) (hc : minL xs ≠ maxL xs) :
    otsu (xs.map (aff a b)) = aff a b (otsu xs) := by
  have hidx : otsuIdx (xs.map (aff a b)) = otsuIdx xs := by
    unfold otsuIdx
    rw [histRange_affine ha xs hne hc, histRange_nonconst xs hc, counts_affine ha xs hne hc]
    simp only
    have : center (aff a b (minL xs)) (aff a b (maxL xs)) = fun j => aff a b (center (minL xs) (maxL xs) j) := by
      funext j; exact center_affine a b _ _ j
    rw [this, variances_affine]
    exact argmaxNaN_scale (a * a) (mul_pos ha ha) _
  unfold otsu
  rw [histRange_affine ha xs hne hc, histRange_nonconst xs hc]
  simp only
  rw [hidx, center_affine]

/-- hence the binary image obtained with the rule 'otsu' is unchanged -/
theorem otsu_mask_affine {a b : Rat} (ha : 0 < a) (xs : List Rat) (hne : xs ≠ []) (hc : minL xs ≠ maxL xs) :
    binarize (thresholdOf .otsu (xs.map (aff a b))) (xs.map (aff a b)) = binarize (thresholdOf .otsu xs) xs := by
  simp only [thresholdOf]
  rw [otsu_affine ha xs hne hc, binarize_affine ha]

/-! #### constant data -/

theorem binIdx_mid (x : Rat) : binIdx (x - 1 / 2) (x + 1 / 2) x = 128 := by
  unfold binIdx nbins
  have : (x - (x - 1 / 2)) / (x + 1 / 2 - (x - 1 / 2)) * ((256 : Nat) : Rat) = ((128 : Nat) : Rat) := by
    push_cast; ring
  rw [this]
  have hf : Rat.floor ((128 : Nat) : Rat) = 128 := by
    show ⌊((128 : Nat) : Rat)⌋ = 128
    exact_mod_cast Int.floor_natCast (R := Rat) 128
  rw [hf]; rfl

theorem const_mem (xs : List Rat) (hc : minL xs = maxL xs) (x : Rat) (h : x ∈ xs) : x = minL xs :=
  le_antisymm (by rw [hc]; exact mem_le_maxL xs x h) (minL_le_mem xs x h)

/-- **constant data**: every value falls into bin 128, every split below it has an empty class,
`np.argmax` returns the first of them, and the threshold is the centre of bin 0 of the widened
range `[x-½, x+½]` — strictly below the data -/
theorem otsu_constant (xs : List Rat) (hc : minL xs = maxL xs) :
    otsu xs = minL xs - 1 / 2 + 1 / 512 := by
  have hr : histRange xs = (minL xs - 1 / 2, minL xs + 1 / 2) := by simp [histRange, hc]
  have hcount : (counts xs).getD 0 0 = 0 := by
    unfold counts
    rw [hr]
    simp only [nbins, List.getD, List.getElem?_map, List.getElem?_range (by norm_num : 0 < 256), Option.map_some,
      Option.getD_some]
    rw [List.count_eq_zero]
    intro hm
    obtain ⟨x, hx, he⟩ := List.mem_map.mp hm
    rw [const_mem xs hc x hx, binIdx_mid] at he
    cases he
  have hidx : otsuIdx xs = 0 := by
    unfold otsuIdx
    rw [hr]
    simp only
    rw [variances_spec]
    have : nbins - 1 = 254 + 1 := rfl
    rw [this, List.range_succ_eq_map, List.map_cons]
    have hnone : varianceOf (leftSums (counts xs) (center (minL xs - 1 / 2) (minL xs + 1 / 2)) (254 + 1)).1
        (leftSums (counts xs) (center (minL xs - 1 / 2) (minL xs + 1 / 2)) (254 + 1)).2
        (leftSums (counts xs) (center (minL xs - 1 / 2) (minL xs + 1 / 2)) 0).1
        (leftSums (counts xs) (center (minL xs - 1 / 2) (minL xs + 1 / 2)) 0).2 = none := by
      have h0 : (leftSums (counts xs) (center (minL xs - 1 / 2) (minL xs + 1 / 2)) 0).1 = 0 := by
        rw [leftSums_eq, prefixSums_succ, hcount]
        simp [prefixSums]
      unfold varianceOf
      simp only [h0, true_or, if_true]
    rw [hnone]
    unfold argmaxNaN
    simp [List.findIdx?_cons]
  unfold otsu
  rw [hr]
  simp only
  rw [hidx]
  unfold center nbins
  push_cast
  ring

/-- for constant data the rule 'otsu' marks every cell, before and after a positive affine map:
the binary image is unchanged in this case too -/
theorem otsu_mask_affine_const {a b : Rat} (ha : 0 < a) (xs : List Rat) (hne : xs ≠ []) (hc : minL xs = maxL xs) :
    binarize (thresholdOf .otsu (xs.map (aff a b))) (xs.map (aff a b)) = binarize (thresholdOf .otsu xs) xs := by
  have hall : ∀ ys : List Rat, minL ys = maxL ys → binarize (thresholdOf .otsu ys) ys = ys.map fun _ => true := by
    intro ys hys
    simp only [thresholdOf, binarize]
    apply List.map_congr_left
    intro y hy
    have : otsu ys < y := by
      rw [otsu_constant ys hys, const_mem ys hys y hy]
      linarith
    exact decide_eq_true this
  have hc2 : minL (xs.map (aff a b)) = maxL (xs.map (aff a b)) := by
    rw [minL_aff ha xs hne, maxL_aff ha xs hne, hc]
  rw [hall _ hc2, hall _ hc]
  simp

/-- **Positive affine changes of the intensities leave the binary image of the rule 'otsu'
unchanged**, for all non-empty data. -/
theorem otsu_mask_affine_all {a b : Rat} (ha : 0 < a) (xs : List Rat) (hne : xs ≠ []) :
    binarize (thresholdOf .otsu (xs.map (aff a b))) (xs.map (aff a b)) = binarize (thresholdOf .otsu xs) xs := by
  by_cases hc : minL xs = maxL xs
  · exact otsu_mask_affine_const ha xs hne hc
  · exact otsu_mask_affine ha xs hne hc

/-! ### the size filter -/

theorem removeSmall_go {β : Type} (radius : β → Rat) (minR : Rat) (pre suf : List β)
    (hsuf : ∀ d ∈ suf, ¬ radius d ≤ minR) :
    (List.range pre.length).reverse.foldl
      (fun acc i => match acc[i]? with
        | some d => if radius d ≤ minR then acc.eraseIdx i else acc
        | none => acc) (pre ++ suf) = pre.filter (fun d => !decide (radius d ≤ minR)) ++ suf := by
  induction pre using List.reverseRecOn generalizing suf with
  | nil => simp
  | append_singleton pre d ih =>
    simp only [List.length_append, List.length_singleton, List.range_succ, List.reverse_append,
      List.reverse_singleton, List.singleton_append, List.foldl_cons]
    have hget : (pre ++ [d] ++ suf)[pre.length]? = some d := by simp
    rw [hget]
    simp only
    by_cases hd : radius d ≤ minR
    · simp only [hd, if_true]
      have : (pre ++ [d] ++ suf).eraseIdx pre.length = pre ++ suf := by
        rw [List.append_assoc, List.eraseIdx_append_of_length_le (le_refl _)]
        simp
      rw [this, ih suf hsuf]
      simp [List.filter_append, hd]
    · simp only [hd, if_false]
      rw [List.append_assoc, ih ([d] ++ suf) (by
        intro x hx
        rcases List.mem_append.mp hx with h | h
        · have : x = d := by simpa using h
          rw [this]; exact hd
        · exact hsuf x h)]
      simp [List.filter_append, hd]

/-- **`remove_small` is the filter `radius > min_radius`**: every survivor is larger, nothing
larger is dropped, the order is kept (for every list and every minimal radius). -/
theorem removeSmall_eq_filter {β : Type} (radius : β → Rat) (minR : Rat) (xs : List β) :
    removeSmall radius minR xs = xs.filter (fun d => decide (minR < radius d)) := by
  unfold removeSmall
  have := removeSmall_go radius minR xs [] (by simp)
  simp only [List.append_nil] at this
  refine this.trans ?_
  apply List.filter_congr
  intro d _
  by_cases h : radius d ≤ minR
  · simp [h, not_lt.mpr h]
  · simp [h, not_le.mp h]

/-- non-vacuity: the model on concrete data (two-level image with one outlier; Otsu picks a bin
between the levels; `remove_small` with ties) -/
example : extrema [0, 1, 1/2] = 1/2 ∧ mean [0, 1, 1/2] = 1/2 ∧
    removeSmall (fun (r : Rat) => r) (1/2) [1/4, 1, 1/2, 3] = [1, 3] := by decide +kernel

end DV.C18
